//! Wire format shared with the Lean driver: hex strings, tree tokens, canonical answers.

use fancy_regex::{Assertion, CompileError, Error, Expr, LookAround, ParseError, RuntimeError};

pub fn hex(s: &str) -> String {
    if s.is_empty() {
        return "-".to_string();
    }
    let mut o = String::with_capacity(s.len() * 2);
    for b in s.bytes() {
        o.push_str(&format!("{:02x}", b));
    }
    o
}

pub fn unhex(s: &str) -> String {
    if s == "-" {
        return String::new();
    }
    let b: Vec<u8> = (0..s.len() / 2)
        .map(|i| u8::from_str_radix(&s[2 * i..2 * i + 2], 16).unwrap())
        .collect();
    String::from_utf8(b).unwrap()
}

fn assertion_name(a: &Assertion) -> &'static str {
    match a {
        Assertion::StartText => "st",
        Assertion::EndText => "et",
        Assertion::StartLine { crlf: false } => "sl0",
        Assertion::StartLine { crlf: true } => "sl1",
        Assertion::EndLine { crlf: false } => "el0",
        Assertion::EndLine { crlf: true } => "el1",
        Assertion::LeftWordBoundary => "lw",
        Assertion::RightWordBoundary => "rw",
        Assertion::WordBoundary => "wb",
        Assertion::NotWordBoundary => "nwb",
    }
}

fn num(n: usize) -> String {
    if n == usize::MAX {
        "inf".to_string()
    } else {
        n.to_string()
    }
}

/// prefix-notation tokens of the public `Expr` tree
pub fn tree_tokens(e: &Expr, out: &mut Vec<String>) {
    match e {
        Expr::Empty => out.push("emp".into()),
        Expr::Any { newline } => out.push(if *newline { "any1" } else { "any0" }.into()),
        Expr::Assertion(a) => out.push(format!("as:{}", assertion_name(a))),
        Expr::Literal { val, casei } => out.push(format!("lit:{}:{}", hex(val), *casei as u8)),
        Expr::Concat(v) => {
            out.push(format!("cat:{}", v.len()));
            for c in v {
                tree_tokens(c, out);
            }
        }
        Expr::Alt(v) => {
            out.push(format!("alt:{}", v.len()));
            for c in v {
                tree_tokens(c, out);
            }
        }
        Expr::Group(c) => {
            out.push("grp".into());
            tree_tokens(c, out);
        }
        Expr::LookAround(c, la) => {
            out.push(format!(
                "look:{}",
                match la {
                    LookAround::LookAhead => "a",
                    LookAround::LookAheadNeg => "an",
                    LookAround::LookBehind => "b",
                    LookAround::LookBehindNeg => "bn",
                }
            ));
            tree_tokens(c, out);
        }
        Expr::Repeat {
            child,
            lo,
            hi,
            greedy,
        } => {
            out.push(format!("rep:{}:{}:{}", lo, num(*hi), *greedy as u8));
            tree_tokens(child, out);
        }
        Expr::Delegate { inner, size, casei } => {
            out.push(format!("del:{}:{}:{}", hex(inner), size, *casei as u8))
        }
        Expr::Backref(g) => out.push(format!("bref:{}", g)),
        Expr::AtomicGroup(c) => {
            out.push("atom".into());
            tree_tokens(c, out);
        }
        Expr::KeepOut => out.push("keep".into()),
        Expr::ContinueFromPreviousMatchEnd => out.push("cont".into()),
        Expr::BackrefExistsCondition(g) => out.push(format!("bex:{}", g)),
        Expr::Conditional {
            condition,
            true_branch,
            false_branch,
        } => {
            out.push("cond".into());
            tree_tokens(condition, out);
            tree_tokens(true_branch, out);
            tree_tokens(false_branch, out);
        }
        Expr::SubroutineCall(g) => out.push(format!("sub:{}", g)),
    }
}

pub fn parse_error_kind(p: &ParseError) -> String {
    let s = format!("{:?}", p);
    s.split(|c| c == '(' || c == ' ').next().unwrap_or("?").to_string()
}

pub fn compile_error_kind(c: &CompileError) -> String {
    let s = format!("{:?}", c);
    s.split(|c| c == '(' || c == ' ').next().unwrap_or("?").to_string()
}

/// canonical error: `parse:<kind>:<pos>` | `err:<kind>` | `err:limit` | `err:stack`
pub fn error_name(e: &Error) -> String {
    match e {
        Error::ParseError(pos, p) => format!("parse:{}:{}", parse_error_kind(p), pos),
        Error::CompileError(c) => format!("err:{}", compile_error_kind(c)),
        Error::RuntimeError(RuntimeError::StackOverflow) => "err:stack".to_string(),
        Error::RuntimeError(RuntimeError::BacktrackLimitExceeded) => "err:limit".to_string(),
        _ => "err:other".to_string(),
    }
}

pub fn show_captures(c: &fancy_regex::Captures<'_>) -> String {
    let mut parts = Vec::new();
    for i in 0..c.len() {
        parts.push(match c.get(i) {
            Some(m) => {
                if m.end() == usize::MAX {
                    format!("{},?", m.start())
                } else {
                    format!("{},{}", m.start(), m.end())
                }
            }
            None => "-".to_string(),
        });
    }
    format!("m {}", parts.join(" "))
}
