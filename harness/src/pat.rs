//! Pattern ASTs of the harness grammar, their concrete syntax, and the generators
//! (exhaustive by node count, context x filler products, seeded random).

#[derive(Clone, Debug, PartialEq, Eq, Hash)]
pub enum Mode {
    Greedy,
    Lazy,
    Poss,
}

#[derive(Clone, Debug, PartialEq, Eq, Hash)]
pub enum P {
    Empty,
    Lit(char),
    Any,
    AnyNl,
    /// character class or perl class, given by its source text
    Cls(&'static str),
    /// zero-width assertion, given by its source text
    As(&'static str),
    K,
    G,
    Bref(usize),
    Exists(usize),
    Cat(Vec<P>),
    Alt(Vec<P>),
    Grp(Box<P>),
    Named(&'static str, Box<P>),
    /// kinds: "=" "!" "<=" "<!"
    Look(&'static str, Box<P>),
    Rep(Box<P>, usize, Option<usize>, Mode),
    Atomic(Box<P>),
    Cond(Box<P>, Box<P>, Box<P>),
    /// `(?flags:...)`
    Flag(&'static str, Box<P>),
    /// raw source text used as an atom (must be self-delimiting)
    Raw(&'static str),
}

use P::*;

pub fn lit(c: char) -> P {
    Lit(c)
}
pub fn cat(v: Vec<P>) -> P {
    Cat(v)
}
pub fn alt(v: Vec<P>) -> P {
    Alt(v)
}
pub fn grp(p: P) -> P {
    Grp(Box::new(p))
}
pub fn look(k: &'static str, p: P) -> P {
    Look(k, Box::new(p))
}
pub fn rep(p: P, lo: usize, hi: Option<usize>, m: Mode) -> P {
    Rep(Box::new(p), lo, hi, m)
}
pub fn star(p: P) -> P {
    rep(p, 0, None, Mode::Greedy)
}
pub fn plus(p: P) -> P {
    rep(p, 1, None, Mode::Greedy)
}
pub fn opt(p: P) -> P {
    rep(p, 0, Some(1), Mode::Greedy)
}
pub fn atomic(p: P) -> P {
    Atomic(Box::new(p))
}
pub fn cond(c: P, y: P, n: P) -> P {
    Cond(Box::new(c), Box::new(y), Box::new(n))
}
pub fn empty_la() -> P {
    look("=", Empty)
}

fn show_lit(c: char, out: &mut String) {
    match c {
        '\n' => out.push_str("\\n"),
        '\\' | '.' | '+' | '*' | '?' | '(' | ')' | '|' | '[' | ']' | '{' | '}' | '^' | '$' | '#' => {
            out.push('\\');
            out.push(c)
        }
        c => out.push(c),
    }
}

/// precedence: 0 = top/alt allowed, 1 = concat allowed, 2 = only atoms/repeats, 3 = atom needed
pub fn show(p: &P, prec: u8, out: &mut String) {
    match p {
        Empty => {
            if prec >= 3 {
                out.push_str("(?:)")
            }
        }
        Lit(c) => show_lit(*c, out),
        Any => out.push('.'),
        AnyNl => out.push_str("(?s:.)"),
        Cls(s) | As(s) | Raw(s) => out.push_str(s),
        K => out.push_str("\\K"),
        G => out.push_str("\\G"),
        Bref(n) => {
            if prec >= 3 || true {
                // `\1` followed by a digit literal would merge; the grammar has no digit literals
                out.push_str(&format!("\\{}", n))
            }
        }
        Exists(n) => out.push_str(&format!("(?({}))", n)),
        Cat(v) => {
            let wrap = prec > 2 || (prec > 1 && false);
            if wrap {
                out.push_str("(?:");
            }
            for x in v {
                show(x, 2, out);
            }
            if wrap {
                out.push(')');
            }
        }
        Alt(v) => {
            let wrap = prec > 0;
            if wrap {
                out.push_str("(?:");
            }
            for (i, x) in v.iter().enumerate() {
                if i > 0 {
                    out.push('|');
                }
                show(x, 1, out);
            }
            if wrap {
                out.push(')');
            }
        }
        Grp(x) => {
            out.push('(');
            show(x, 0, out);
            out.push(')');
        }
        Named(n, x) => {
            out.push_str("(?<");
            out.push_str(n);
            out.push('>');
            show(x, 0, out);
            out.push(')');
        }
        Look(k, x) => {
            out.push_str("(?");
            out.push_str(k);
            show(x, 0, out);
            out.push(')');
        }
        Rep(x, lo, hi, m) => {
            // a quantifier directly after a quantifier / zero-width atom needs a group
            let needs_group = matches!(
                **x,
                Rep(..) | Look(..) | As(_) | Empty | K | G | Exists(_) | Cond(..) | Bref(_) | Cat(_) | Alt(_)
            );
            if needs_group {
                out.push_str("(?:");
                show(x, 0, out);
                out.push(')');
            } else {
                show(x, 3, out);
            }
            match (lo, hi) {
                (0, Some(1)) => out.push('?'),
                (0, None) => out.push('*'),
                (1, None) => out.push('+'),
                (lo, Some(hi)) if lo == hi => out.push_str(&format!("{{{}}}", lo)),
                (lo, Some(hi)) => out.push_str(&format!("{{{},{}}}", lo, hi)),
                (lo, None) => out.push_str(&format!("{{{},}}", lo)),
            }
            match m {
                Mode::Greedy => {}
                Mode::Lazy => out.push('?'),
                Mode::Poss => out.push('+'),
            }
        }
        Atomic(x) => {
            out.push_str("(?>");
            show(x, 0, out);
            out.push(')');
        }
        Cond(c, y, n) => {
            out.push_str("(?");
            match **c {
                Exists(g) => out.push_str(&format!("({})", g)),
                _ => {
                    out.push('(');
                    show(c, 0, out);
                    out.push(')');
                }
            }
            show(y, 1, out);
            // "if" without "else" when the false branch is empty and the true branch is not
            if !(matches!(**n, Empty) && !matches!(**y, Empty)) {
                out.push('|');
                show(n, 1, out);
            }
            out.push(')');
        }
        Flag(f, x) => {
            out.push_str("(?");
            out.push_str(f);
            out.push(':');
            show(x, 0, out);
            out.push(')');
        }
    }
}

pub fn to_string(p: &P) -> String {
    let mut s = String::new();
    show(p, 0, &mut s);
    s
}

pub fn count_groups(p: &P) -> usize {
    match p {
        Grp(x) | Named(_, x) => 1 + count_groups(x),
        Cat(v) | Alt(v) => v.iter().map(count_groups).sum(),
        Look(_, x) | Rep(x, ..) | Atomic(x) | Flag(_, x) => count_groups(x),
        Cond(c, y, n) => count_groups(c) + count_groups(y) + count_groups(n),
        _ => 0,
    }
}

/// every way of inserting one `(?=)` before or after one sub-expression
pub fn injections(p: &P) -> Vec<P> {
    let mut out = Vec::new();
    // at the root
    out.push(cat(vec![empty_la(), p.clone()]));
    out.push(cat(vec![p.clone(), empty_la()]));
    // inside
    let rebuild = |subs: Vec<P>, f: &dyn Fn(P) -> P, out: &mut Vec<P>| {
        for s in subs {
            out.push(f(s));
        }
    };
    match p {
        Cat(v) | Alt(v) => {
            let is_cat = matches!(p, Cat(_));
            for i in 0..v.len() {
                for s in injections(&v[i]) {
                    let mut w = v.clone();
                    w[i] = s;
                    out.push(if is_cat { Cat(w) } else { Alt(w) });
                }
            }
        }
        Grp(x) => rebuild(injections(x), &|s| Grp(Box::new(s)), &mut out),
        Named(n, x) => rebuild(injections(x), &|s| Named(n, Box::new(s)), &mut out),
        Look(k, x) => rebuild(injections(x), &|s| Look(k, Box::new(s)), &mut out),
        Rep(x, lo, hi, m) => rebuild(
            injections(x),
            &|s| Rep(Box::new(s), *lo, *hi, m.clone()),
            &mut out,
        ),
        Atomic(x) => rebuild(injections(x), &|s| Atomic(Box::new(s)), &mut out),
        Flag(f, x) => rebuild(injections(x), &|s| Flag(f, Box::new(s)), &mut out),
        Cond(c, y, n) => {
            if !matches!(**c, Exists(_)) {
                for s in injections(c) {
                    out.push(Cond(Box::new(s), y.clone(), n.clone()));
                }
            }
            for s in injections(y) {
                out.push(Cond(c.clone(), Box::new(s), n.clone()));
            }
            for s in injections(n) {
                out.push(Cond(c.clone(), y.clone(), Box::new(s)));
            }
        }
        _ => {}
    }
    out
}

// ---------------------------------------------------------------------------------------------
// PRNG (splitmix64): every random choice of a run derives from one seed

#[derive(Clone)]
pub struct Rng(pub u64);
impl Rng {
    pub fn next(&mut self) -> u64 {
        self.0 = self.0.wrapping_add(0x9E3779B97F4A7C15);
        let mut z = self.0;
        z = (z ^ (z >> 30)).wrapping_mul(0xBF58476D1CE4E5B9);
        z = (z ^ (z >> 27)).wrapping_mul(0x94D049BB133111EB);
        z ^ (z >> 31)
    }
    pub fn below(&mut self, n: usize) -> usize {
        (self.next() % (n as u64)) as usize
    }
    pub fn chance(&mut self, percent: u64) -> bool {
        self.next() % 100 < percent
    }
    pub fn pick<'a, T>(&mut self, v: &'a [T]) -> &'a T {
        &v[self.below(v.len())]
    }
}

// ---------------------------------------------------------------------------------------------
// Grammar configuration

#[derive(Clone)]
pub struct Grammar {
    pub atoms: Vec<P>,
    /// quantifier shapes (lo, hi)
    pub quants: Vec<(usize, Option<usize>)>,
    pub modes: Vec<Mode>,
    pub looks: Vec<&'static str>,
    pub groups: bool,
    pub atomic: bool,
    pub brefs: bool,
    pub conds: bool,
    /// allow unbounded repeats of possibly-empty bodies (F1 territory) in random generation
    pub empty_loops: bool,
}

pub fn is_zero_width_atom(p: &P) -> bool {
    matches!(p, As(_) | Empty | Look(..))
}

/// can `p` match the empty string (syntactic over-approximation used to steer generation)
pub fn nullable(p: &P) -> bool {
    match p {
        Empty | As(_) | K | G | Exists(_) | Look(..) => true,
        Lit(_) | Any | AnyNl | Cls(_) => false,
        Raw(_) => true,
        Bref(_) => true,
        Cat(v) => v.iter().all(nullable),
        Alt(v) => v.iter().any(nullable),
        Grp(x) | Named(_, x) | Atomic(x) | Flag(_, x) => nullable(x),
        Rep(x, lo, _, _) => *lo == 0 || nullable(x),
        Cond(c, y, n) => (nullable(c) && nullable(y)) || nullable(n),
    }
}

impl Grammar {
    pub fn unary(&self, x: &P) -> Vec<P> {
        let mut out = Vec::new();
        if !is_zero_width_atom(x) {
            for (lo, hi) in &self.quants {
                for m in &self.modes {
                    if !self.empty_loops && hi.is_none() && nullable(x) {
                        continue;
                    }
                    out.push(rep(x.clone(), *lo, *hi, m.clone()));
                }
            }
        }
        if self.groups {
            out.push(grp(x.clone()));
        }
        if self.atomic {
            out.push(atomic(x.clone()));
        }
        for k in &self.looks {
            out.push(look(k, x.clone()));
        }
        out
    }

    /// all trees with exactly `n` nodes
    pub fn exact(&self, n: usize, memo: &mut Vec<Vec<P>>) -> Vec<P> {
        if n < memo.len() && (n == 0 || !memo[n].is_empty()) {
            return memo[n].clone();
        }
        while memo.len() <= n {
            memo.push(Vec::new());
        }
        let mut out = Vec::new();
        if n == 1 {
            out = self.atoms.clone();
        } else if n >= 2 {
            for x in self.exact(n - 1, memo) {
                out.extend(self.unary(&x));
            }
            if n >= 3 {
                for k in 1..(n - 1) {
                    let l = self.exact(k, memo);
                    let r = self.exact(n - 1 - k, memo);
                    for a in &l {
                        for b in &r {
                            // flatten: children of a Cat are not Cats (the printer would merge them)
                            if !matches!(a, Cat(_)) {
                                out.push(match b {
                                    Cat(v) => {
                                        let mut w = vec![a.clone()];
                                        w.extend(v.clone());
                                        Cat(w)
                                    }
                                    _ => cat(vec![a.clone(), b.clone()]),
                                });
                            }
                            if !matches!(a, Alt(_)) {
                                out.push(match b {
                                    Alt(v) => {
                                        let mut w = vec![a.clone()];
                                        w.extend(v.clone());
                                        Alt(w)
                                    }
                                    _ => alt(vec![a.clone(), b.clone()]),
                                });
                            }
                        }
                    }
                }
            }
            if self.conds && n >= 4 {
                // cond(c, y, n) with sizes summing to n-1
                for a in 1..(n - 2) {
                    for b in 1..(n - 1 - a) {
                        let c = n - 1 - a - b;
                        if c == 0 {
                            continue;
                        }
                        let la = self.exact(a, memo);
                        let lb = self.exact(b, memo);
                        let lc = self.exact(c, memo);
                        for x in &la {
                            for y in &lb {
                                for z in &lc {
                                    out.push(cond(x.clone(), y.clone(), z.clone()));
                                }
                            }
                        }
                    }
                }
            }
        }
        memo[n] = out.clone();
        out
    }

    pub fn random(&self, r: &mut Rng, depth: usize, groups: &mut usize) -> P {
        let c = r.below(100);
        if depth == 0 || c < 22 {
            if self.brefs && *groups > 0 && r.chance(12) {
                return if self.conds && r.chance(25) {
                    Exists(1 + r.below(*groups))
                } else {
                    Bref(1 + r.below(*groups))
                };
            }
            return r.pick(&self.atoms).clone();
        }
        if c < 42 {
            let n = 2 + r.below(2);
            let mut v = Vec::new();
            for _ in 0..n {
                let x = self.random(r, depth - 1, groups);
                match x {
                    Cat(w) => v.extend(w),
                    x => v.push(x),
                }
            }
            return cat(v);
        }
        if c < 54 {
            let n = 2 + r.below(2);
            let mut v = Vec::new();
            for _ in 0..n {
                let x = self.random(r, depth - 1, groups);
                match x {
                    Alt(w) => v.extend(w),
                    x => v.push(x),
                }
            }
            return alt(v);
        }
        if c < 64 && self.groups {
            let x = self.random(r, depth - 1, groups);
            *groups += 1;
            return grp(x);
        }
        if c < 82 {
            let x = self.random(r, depth - 1, groups);
            if is_zero_width_atom(&x) {
                return x;
            }
            let (lo, hi) = r.pick(&self.quants).clone();
            if !self.empty_loops && hi.is_none() && nullable(&x) {
                return x;
            }
            let m = r.pick(&self.modes).clone();
            return rep(x, lo, hi, m);
        }
        if c < 91 && !self.looks.is_empty() {
            let k = *r.pick(&self.looks);
            return look(k, self.random(r, depth - 1, groups));
        }
        if c < 95 && self.atomic {
            return atomic(self.random(r, depth - 1, groups));
        }
        if self.conds {
            let cnd = if *groups > 0 && r.chance(50) {
                Exists(1 + r.below(*groups))
            } else {
                match self.random(r, depth - 1, groups) {
                    Bref(g) => Exists(g),
                    x => x,
                }
            };
            let y = self.random(r, depth - 1, groups);
            let n = self.random(r, depth - 1, groups);
            return cond(cnd, y, n);
        }
        r.pick(&self.atoms).clone()
    }
}

/// fix up group counting for random trees: groups are numbered in pre-order, which the random
/// generator only approximates when it refers to them; references beyond the final count are
/// clamped so the pattern compiles more often
pub fn clamp_refs(p: &P, total: usize) -> P {
    let f = |x: &P| Box::new(clamp_refs(x, total));
    match p {
        Bref(g) if *g > total => {
            if total == 0 {
                Lit('a')
            } else {
                Bref(1 + (*g - 1) % total)
            }
        }
        Exists(g) if *g > total => {
            if total == 0 {
                Empty
            } else {
                Exists(1 + (*g - 1) % total)
            }
        }
        Cat(v) => Cat(v.iter().map(|x| clamp_refs(x, total)).collect()),
        Alt(v) => Alt(v.iter().map(|x| clamp_refs(x, total)).collect()),
        Grp(x) => Grp(f(x)),
        Named(n, x) => Named(n, f(x)),
        Look(k, x) => Look(k, f(x)),
        Rep(x, lo, hi, m) => Rep(f(x), *lo, *hi, m.clone()),
        Atomic(x) => Atomic(f(x)),
        Flag(fl, x) => Flag(fl, f(x)),
        Cond(c, y, n) => Cond(f(c), f(y), f(n)),
        x => x.clone(),
    }
}

// ---------------------------------------------------------------------------------------------
// Menus

pub fn atoms_core() -> Vec<P> {
    vec![
        lit('a'),
        lit('b'),
        Any,
        Cls("[ab]"),
        Cls("[^a]"),
        Cls("\\w"),
        As("^"),
        As("$"),
        As("\\b"),
        Empty,
    ]
}

pub fn atoms_full() -> Vec<P> {
    let mut v = atoms_core();
    v.extend(vec![
        lit('c'),
        lit('é'),
        lit('-'),
        AnyNl,
        Cls("\\d"),
        Cls("\\s"),
        Cls("\\W"),
        Cls("[a-c]"),
        Cls("[^\\n]"),
        Cls("\\h"),
        As("\\B"),
        As("\\A"),
        As("\\z"),
        As("(?m:^)"),
        As("(?m:$)"),
        Raw("\\Z"),
        K,
    ]);
    v
}

pub fn quants_core() -> Vec<(usize, Option<usize>)> {
    vec![(0, Some(1)), (0, None), (1, None), (2, Some(2))]
}
pub fn quants_full() -> Vec<(usize, Option<usize>)> {
    vec![
        (0, Some(0)),
        (0, Some(1)),
        (0, None),
        (1, None),
        (2, Some(2)),
        (1, Some(2)),
        (2, None),
        (0, Some(2)),
    ]
}

/// fillers for the context x filler products
pub fn fillers() -> Vec<P> {
    let a = || lit('a');
    let b = || lit('b');
    let c = || lit('c');
    let lazy = |p: P, lo, hi| rep(p, lo, hi, Mode::Lazy);
    let poss = |p: P, lo, hi| rep(p, lo, hi, Mode::Poss);
    vec![
        a(),
        cat(vec![a(), b()]),
        alt(vec![a(), b()]),
        alt(vec![a(), cat(vec![a(), b()])]),
        alt(vec![cat(vec![a(), b()]), a()]),
        alt(vec![a(), Empty]),
        alt(vec![Empty, a()]),
        star(a()),
        lazy(a(), 0, None),
        plus(a()),
        lazy(a(), 1, None),
        opt(a()),
        lazy(a(), 0, Some(1)),
        rep(a(), 2, Some(2), Mode::Greedy),
        rep(a(), 1, Some(2), Mode::Greedy),
        lazy(a(), 1, Some(2)),
        rep(a(), 2, None, Mode::Greedy),
        poss(a(), 0, None),
        poss(a(), 1, None),
        poss(a(), 0, Some(1)),
        grp(a()),
        grp(alt(vec![a(), b()])),
        grp(alt(vec![a(), cat(vec![a(), b()])])),
        star(grp(a())),
        star(alt(vec![a(), b()])),
        star(grp(alt(vec![a(), b()]))),
        plus(alt(vec![grp(a()), b()])),
        alt(vec![grp(a()), b()]),
        alt(vec![grp(a()), grp(b())]),
        cat(vec![opt(grp(a())), b()]),
        Any,
        star(Any),
        lazy(Any, 0, None),
        plus(Any),
        AnyNl,
        Cls("[ab]"),
        Cls("[^a]"),
        Cls("\\w"),
        plus(Cls("\\w")),
        star(Cls("[ab]")),
        As("\\b"),
        As("\\B"),
        As("^"),
        As("$"),
        As("(?m:^)"),
        As("(?m:$)"),
        cat(vec![a(), As("$")]),
        cat(vec![As("^"), a()]),
        cat(vec![As("\\b"), a()]),
        lit('é'),
        star(lit('é')),
        cat(vec![lit('é'), a()]),
        star(cat(vec![a(), b()])),
        cat(vec![grp(alt(vec![a(), cat(vec![a(), b()])])), opt(grp(alt(vec![c(), cat(vec![b(), c()])])))]),
        atomic(alt(vec![a(), cat(vec![a(), b()])])),
        atomic(star(a())),
        look("=", a()),
        look("!", a()),
        look("<=", a()),
        look("<!", a()),
        look("=", grp(a())),
        look("<=", grp(a())),
        look("<=", alt(vec![a(), cat(vec![b(), b()])])),
        look("<!", alt(vec![a(), cat(vec![b(), b()])])),
        cat(vec![a(), look("=", b())]),
        cat(vec![look("<=", a()), b()]),
        cat(vec![a(), K, b()]),
        cat(vec![K, a()]),
        G,
        cat(vec![G, a()]),
        cat(vec![star(a()), a()]),
        cat(vec![lazy(a(), 0, None), b()]),
        cat(vec![star(alt(vec![a(), b()])), b()]),
        cat(vec![grp(star(a())), grp(star(b()))]),
        Empty,
        Raw("\\Z"),
        cat(vec![star(Any), Raw("\\Z")]),
        rep(grp(alt(vec![a(), b()])), 2, Some(2), Mode::Greedy),
        rep(grp(opt(a())), 1, Some(2), Mode::Greedy),
    ]
}

/// contexts that move a filler across a delegation boundary. `g` = number of groups in the filler
pub fn contexts(conds: bool) -> Vec<Box<dyn Fn(&P) -> P>> {
    let a = || lit('a');
    let b = || lit('b');
    let c = || lit('c');
    let mut v: Vec<Box<dyn Fn(&P) -> P>> = vec![
        Box::new(|x| x.clone()),
        Box::new(|x| cat(vec![empty_la(), x.clone()])),
        Box::new(|x| cat(vec![x.clone(), empty_la()])),
        Box::new(move |x| cat(vec![look("!", lit('c')), x.clone()])),
        Box::new(move |x| cat(vec![x.clone(), look("!", lit('c'))])),
        Box::new(move |x| cat(vec![grp(x.clone()), Bref(1)])),
        Box::new(move |x| cat(vec![grp(x.clone()), opt(Bref(1))])),
        Box::new(move |x| cat(vec![grp(x.clone()), lit('b'), Bref(1)])),
        Box::new(|x| atomic(x.clone())),
        Box::new(move |x| cat(vec![atomic(x.clone()), lit('b')])),
        Box::new(move |x| cat(vec![atomic(cat(vec![x.clone(), empty_la()])), lit('b')])),
        Box::new(|x| if is_zero_width_atom(x) { x.clone() } else { rep(x.clone(), 0, Some(1), Mode::Greedy) }),
        Box::new(|x| if is_zero_width_atom(x) || nullable(x) { x.clone() } else { star(cat(vec![x.clone(), empty_la()])) }),
        Box::new(|x| if is_zero_width_atom(x) || nullable(x) { x.clone() } else { rep(cat(vec![empty_la(), x.clone()]), 1, None, Mode::Lazy) }),
        Box::new(|x| if is_zero_width_atom(x) { x.clone() } else { rep(cat(vec![x.clone(), empty_la()]), 2, Some(2), Mode::Greedy) }),
        Box::new(|x| if is_zero_width_atom(x) { x.clone() } else { rep(cat(vec![x.clone(), empty_la()]), 1, Some(2), Mode::Lazy) }),
        Box::new(|x| look("=", x.clone())),
        Box::new(|x| look("!", x.clone())),
        Box::new(|x| look("<=", x.clone())),
        Box::new(|x| look("<!", x.clone())),
        Box::new(|x| look("=", cat(vec![x.clone(), empty_la()]))),
        Box::new(|x| look("!", cat(vec![empty_la(), x.clone()]))),
        Box::new(move |x| cat(vec![lit('a'), x.clone()])),
        Box::new(move |x| cat(vec![x.clone(), lit('a')])),
        Box::new(move |x| cat(vec![empty_la(), lit('a'), x.clone()])),
        Box::new(move |x| cat(vec![lit('a'), x.clone(), empty_la(), lit('b')])),
        Box::new(move |x| cat(vec![lit('a'), empty_la(), x.clone(), lit('b')])),
        Box::new(move |x| cat(vec![star(lit('a')), empty_la(), x.clone()])),
        Box::new(move |x| cat(vec![x.clone(), empty_la(), star(lit('a'))])),
        Box::new(move |x| cat(vec![alt(vec![x.clone(), lit('b')]), empty_la(), lit('c')])),
        Box::new(move |x| cat(vec![alt(vec![lit('b'), x.clone()]), lit('c'), empty_la()])),
        Box::new(move |x| cat(vec![grp(alt(vec![x.clone(), lit('a')])), Bref(1)])),
        Box::new(move |x| cat(vec![K, x.clone()])),
        Box::new(move |x| cat(vec![x.clone(), K, lit('a')])),
        Box::new(move |x| cat(vec![G, x.clone()])),
        Box::new(move |x| cat(vec![look("<=", lit('a')), x.clone()])),
        Box::new(move |x| cat(vec![x.clone(), look("<!", lit('a'))])),
        Box::new(move |x| cat(vec![star(Any), x.clone()])),
        Box::new(move |x| cat(vec![rep(Any, 0, None, Mode::Lazy), empty_la(), x.clone()])),
        Box::new(move |x| look("=", cat(vec![grp(x.clone()), empty_la()]))),
        // nested loops over possibly-empty bodies (F1 territory: explored for the tie with the model)
        Box::new(move |x| if is_zero_width_atom(x) { x.clone() } else { cat(vec![rep(cat(vec![star(opt(x.clone())), opt(lit('b'))]), 2, Some(2), Mode::Greedy), look("!", lit('c'))]) }),
        Box::new(move |x| if is_zero_width_atom(x) { x.clone() } else { cat(vec![rep(star(opt(x.clone())), 2, Some(2), Mode::Greedy), look("!", lit('c'))]) }),
        Box::new(move |x| if is_zero_width_atom(x) { x.clone() } else { cat(vec![star(star(x.clone())), look("!", lit('c'))]) }),
        Box::new(move |x| if is_zero_width_atom(x) { x.clone() } else { cat(vec![rep(cat(vec![rep(opt(x.clone()), 0, None, Mode::Lazy), lit('b')]), 1, None, Mode::Greedy), empty_la()]) }),
        Box::new(move |x| if is_zero_width_atom(x) { x.clone() } else { cat(vec![rep(star(grp(opt(x.clone()))), 2, None, Mode::Greedy), P::Bref(1)]) }),
    ];
    let _ = (a, b, c);
    if conds {
        v.push(Box::new(move |x| cat(vec![opt(grp(lit('a'))), cond(Exists(1), x.clone(), lit('b'))])));
        v.push(Box::new(move |x| cat(vec![opt(grp(lit('a'))), cond(Exists(1), lit('b'), x.clone())])));
        v.push(Box::new(move |x| cond(x.clone(), lit('a'), lit('b'))));
        v.push(Box::new(move |x| cond(lit('a'), x.clone(), lit('b'))));
        v.push(Box::new(move |x| cond(lit('a'), lit('b'), x.clone())));
        v.push(Box::new(move |x| cat(vec![opt(grp(lit('a'))), cond(Exists(1), x.clone(), Empty)])));
        v.push(Box::new(move |x| cond(lit('a'), x.clone(), Empty)));
        v.push(Box::new(move |x| cat(vec![opt(grp(lit('a'))), cond(Exists(1), Empty, x.clone())])));
        v.push(Box::new(move |x| cat(vec![cond(x.clone(), Empty, lit('b')), lit('c')])));
        v.push(Box::new(move |x| {
            if is_zero_width_atom(x) || nullable(x) {
                x.clone()
            } else {
                star(cond(lit('a'), x.clone(), lit('b')))
            }
        }));
        v.push(Box::new(move |x| atomic(cond(lit('a'), x.clone(), lit('b')))));
        v.push(Box::new(move |x| cat(vec![atomic(cat(vec![alt(vec![lit('b'), cat(vec![lit('b'), lit('c')])]), cond(x.clone(), lit('a'), Empty)])), lit('d')])));
    }
    v
}

/// all strings over `alphabet` of length <= maxlen
pub fn all_texts(alphabet: &[char], maxlen: usize) -> Vec<String> {
    let mut out = vec![String::new()];
    let mut layer = vec![String::new()];
    for _ in 0..maxlen {
        let mut next = Vec::new();
        for s in &layer {
            for c in alphabet {
                let mut t = s.clone();
                t.push(*c);
                next.push(t);
            }
        }
        out.extend(next.iter().cloned());
        layer = next;
    }
    out
}

// ---------------------------------------------------------------------------------------------
// Expected parse tree of a generated AST (documented parse rules), as wire tokens.
// `None`: the harness does not predict this shape (flags, raw atoms).

fn hex_str(s: &str) -> String {
    if s.is_empty() {
        return "-".to_string();
    }
    s.bytes().map(|b| format!("{:02x}", b)).collect()
}

#[derive(Clone, Debug, PartialEq)]
pub enum Expect {
    Tree(Vec<String>),
    /// the parser must reject the pattern with this error kind
    Error(&'static str),
}

pub fn expect_tree(p: &P) -> Option<Expect> {
    fn is_emp(t: &[String]) -> bool {
        t.len() == 1 && t[0] == "emp"
    }
    fn go(p: &P) -> Option<Result<Vec<String>, &'static str>> {
        Some(Ok(match p {
            Empty => vec!["emp".to_string()],
            Lit(c) => vec![format!("lit:{}:0", hex_str(&c.to_string()))],
            Any => vec!["any0".to_string()],
            AnyNl => vec!["any1".to_string()],
            Cls(s) => {
                let inner = match *s {
                    "\\h" => "[0-9A-Fa-f]".to_string(),
                    "[^\\n]" => "[^\n]".to_string(),
                    o => o.to_string(),
                };
                vec![format!("del:{}:1:0", hex_str(&inner))]
            }
            As(s) => vec![format!(
                "as:{}",
                match *s {
                    "^" | "\\A" => "st",
                    "$" | "\\z" => "et",
                    "\\b" => "wb",
                    "\\B" => "nwb",
                    "(?m:^)" => "sl0",
                    "(?m:$)" => "el0",
                    _ => return None,
                }
            )],
            Raw(s) => match *s {
                "\\Z" => vec!["look:a".to_string(), format!("del:{}:0:0", hex_str("\n*$"))],
                _ => return None,
            },
            K => vec!["keep".to_string()],
            G => vec!["cont".to_string()],
            Bref(n) => vec![format!("bref:{}", n)],
            Exists(n) => vec![format!("bex:{}", n)],
            Cat(v) => {
                let mut kids: Vec<Vec<String>> = Vec::new();
                for x in v {
                    match go(x)? {
                        Err(e) => return Some(Err(e)),
                        Ok(t) => {
                            // a nested concat printed without a group merges into this one
                            if t[0].starts_with("cat:") && !matches!(x, Rep(..)) && matches!(x, Cat(_)) {
                                return None;
                            }
                            if !is_emp(&t) {
                                kids.push(t)
                            }
                        }
                    }
                }
                match kids.len() {
                    0 => vec!["emp".to_string()],
                    1 => kids.pop().unwrap(),
                    n => {
                        let mut out = vec![format!("cat:{}", n)];
                        for k in kids {
                            out.extend(k);
                        }
                        out
                    }
                }
            }
            Alt(v) => {
                let mut out = vec![format!("alt:{}", v.len())];
                for x in v {
                    match go(x)? {
                        Err(e) => return Some(Err(e)),
                        Ok(t) => out.extend(t),
                    }
                }
                if v.iter().any(|x| matches!(x, Alt(_))) {
                    return None;
                }
                out
            }
            Grp(x) | Named(_, x) => {
                let mut out = vec!["grp".to_string()];
                match go(x)? {
                    Err(e) => return Some(Err(e)),
                    Ok(t) => out.extend(t),
                }
                out
            }
            Look(k, x) => {
                let kind = match *k {
                    "=" => "a",
                    "!" => "an",
                    "<=" => "b",
                    _ => "bn",
                };
                let mut out = vec![format!("look:{}", kind)];
                match go(x)? {
                    Err(e) => return Some(Err(e)),
                    Ok(t) => out.extend(t),
                }
                out
            }
            Rep(x, lo, hi, m) => {
                let t = match go(x)? {
                    Err(e) => return Some(Err(e)),
                    Ok(t) => t,
                };
                if is_emp(&t) || t[0].starts_with("as:") || t[0].starts_with("look:") {
                    return Some(Err("TargetNotRepeatable"));
                }
                let his = match hi {
                    Some(h) => h.to_string(),
                    None => "inf".to_string(),
                };
                let mut out = Vec::new();
                if *m == Mode::Poss {
                    out.push("atom".to_string());
                }
                out.push(format!("rep:{}:{}:{}", lo, his, if *m == Mode::Lazy { 0 } else { 1 }));
                out.extend(t);
                out
            }
            Atomic(x) => {
                let mut out = vec!["atom".to_string()];
                match go(x)? {
                    Err(e) => return Some(Err(e)),
                    Ok(t) => out.extend(t),
                }
                out
            }
            Cond(c, y, n) => {
                let ct = match &**c {
                    // only the three group-test spellings are group tests; `(?(\\1)..)` is a general condition (F21)
                    Exists(g) => vec![format!("bex:{}", g)],
                    o => match go(o)? {
                        Err(e) => return Some(Err(e)),
                        Ok(t) => t,
                    },
                };
                // a condition starting with a digit, ' or < would be read as a group reference
                if !matches!(**c, Exists(_)) {
                    let s = to_string(c);
                    if s.starts_with(|ch: char| ch.is_ascii_digit() || ch == '\'' || ch == '<') {
                        return None;
                    }
                }
                let mut out = vec!["cond".to_string()];
                out.extend(ct);
                for b in [y, n] {
                    match go(b)? {
                        Err(e) => return Some(Err(e)),
                        Ok(t) => out.extend(t),
                    }
                }
                out
            }
            Flag(..) => return None,
        }))
    }
    match go(p)? {
        Ok(t) => Some(Expect::Tree(t)),
        Err(e) => Some(Expect::Error(e)),
    }
}
