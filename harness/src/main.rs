mod alloc_count;
mod api;
mod engine;
mod misc;
mod more;
mod parsetie;
mod spell;

#[global_allocator]
static GLOBAL: alloc_count::Counting = alloc_count::Counting;
mod pat;
mod session;
mod wire;

fn arg(args: &[String], name: &str, default: &str) -> String {
    for i in 0..args.len() {
        if args[i] == name && i + 1 < args.len() {
            return args[i + 1].clone();
        }
    }
    default.to_string()
}

fn main() {
    std::panic::set_hook(Box::new(|_| {}));
    let args: Vec<String> = std::env::args().collect();
    if args.len() < 2 {
        eprintln!("usage: fvharness <engine|inject|...> --space S --tier T --seed N --shard i/n --out DIR");
        std::process::exit(2);
    }
    let shard = arg(&args, "--shard", "0/1");
    let mut sp = shard.split('/');
    let cfg = engine::Cfg {
        space: arg(&args, "--space", "c01"),
        tier: arg(&args, "--tier", "quick"),
        seed: arg(&args, "--seed", "1").parse().unwrap_or(1),
        shard: sp.next().unwrap().parse().unwrap(),
        nshards: sp.next().unwrap().parse().unwrap(),
        out: arg(&args, "--out", "/tmp/fvh"),
    };
    match args[1].as_str() {
        "engine" => engine::run(&cfg),
        "inject" => engine::run_inject(&cfg),
        "api" => api::run(&cfg, &arg(&args, "--mode", "c08")),
        "c12" => misc::run_c12(&cfg),
        "c17" => misc::run_c17(&cfg),
        "c20" => misc::run_c20(&cfg),
        "c04" => more::run_c04(&cfg),
        "c06" => more::run_c06(&cfg),
        "c14" => more::run_c14(&cfg),
        "c18" => more::run_c18(&cfg),
        "c19" => spell::run_c19(&cfg),
        "parsetree" => spell::run_parsetree(&cfg),
        "parsetie" => parsetie::run(&cfg),
        "one" => {
            // replay of one recorded case: the implementation's answers, and the request lines for the driver
            let pattern = arg(&args, "--pattern", "");
            let text = arg(&args, "--text", "");
            let pos: usize = arg(&args, "--pos", "0").parse().unwrap_or(0);
            let mut s = session::Session::new(&cfg.out);
            s.line(&format!("special\t{}", wire::hex("\\.+*?()|[]{}^$#")), "ok");
            let b = s.pattern(&pattern, &session::Opts::default(), true, true);
            println!("build: {}", b.answer);
            if b.re.is_some() {
                let a = s.caps(&b, &text, pos, false, 1_000_000);
                println!("captures_from_pos({:?}, {}): {}", text, pos, a);
                let re = b.re.as_ref().unwrap();
                let it: Vec<String> = re.find_iter(&text).take(text.len() + 3)
                    .map(|m| match m { Ok(m) => format!("({},{})", m.start(), m.end()), Err(e) => wire::error_name(&e) }).collect();
                println!("find_iter: [{}]", it.join(" "));
            }
            s.finish();
        }
        "list" => {
            for p in engine::patterns(&cfg.space, &cfg.tier, cfg.seed) {
                println!("{}", p);
            }
        }
        other => {
            eprintln!("unknown command {}", other);
            std::process::exit(2);
        }
    }
}
