//! Engine-level exploration: pattern spaces x texts x offsets through `captures_from_pos`
//! (the tie for the parser-independent model: analyzer facts, program listing, search results)
//! and the implementation-only metamorphic oracles (C03 injection).

use crate::pat::*;
use crate::session::*;
use std::collections::HashSet;

pub struct Cfg {
    pub space: String,
    pub tier: String,
    pub seed: u64,
    pub shard: usize,
    pub nshards: usize,
    pub out: String,
}

fn grammar(space: &str, full: bool) -> Grammar {
    let conds = matches!(space, "c15" | "c05" | "c13" | "c16" | "c07");
    let empty_loops = matches!(space, "c05" | "c07");
    Grammar {
        atoms: if full { atoms_full() } else { atoms_core() },
        quants: if full { quants_full() } else { quants_core() },
        modes: if full {
            vec![Mode::Greedy, Mode::Lazy, Mode::Poss]
        } else {
            vec![Mode::Greedy, Mode::Lazy]
        },
        looks: vec!["=", "!", "<=", "<!"],
        groups: true,
        atomic: true,
        brefs: true,
        conds,
        empty_loops,
    }
}

/// the fixed witnesses of DESIGN.md §1.2 and minimised past failures; they run first
pub fn corpus() -> Vec<(&'static str, &'static str)> {
    vec![
        (r"(?=)(?:|a)*", "a"),
        (r"(?=)(?:()|a)+b", "ab"),
        (r"(?:|a)*\b", "a"),
        (r"\G\d*", "12 34"),
        (r"(?:(?(a)b))*", "x"),
        (r"(?:(?=(\1?a))aaa)+", "aaaaaa"),
        (r"a|(?<=\Ka)b", "ab"),
        (r"(?<=\Ka)", "a"),
        (r"(?:(?:(a)|b)(?=c|))*", "ab"),
        (r"(?((?(b)a))b|a)", "ca-"),
        (r"(a)?(?>(?:b|bc)(?(1)x|))d", "bcd"),
        (r"(\1a|b)+", "baab"),
        (r"(?<=(\G)b)", "ba"),
        (r"(?<!\G(?s:.))", "ab"),
        (r"(?>(.))\B(?=(?([^a])|))", "ba"),
        (r"(?(1)|)", "a"),
        (r"(?=(a|ab(?=)))\1c", "abc"),
        (r"(?=(?=)(a|ab))\1c", "abc"),
        (r"(?<=(a)|(ba))\2", "baba"),
        (r"(?<=(a)|(ba))(?:\2|\1)", "baba"),
        (r"(?=(a(?=)|ab))\1b", "aab"),
        (r"(?<=\K.\K)x", "😀x"),
        (r"(?<=.)x", "x😀x"),
        (r"(?<=..)x", "a😀x"),
        (r"(?<!\K..)x", "😀x"),
    ]
}

pub fn patterns(space: &str, tier: &str, seed: u64) -> Vec<String> {
    let thorough = tier == "thorough";
    let mut seen: HashSet<String> = HashSet::new();
    let mut out: Vec<String> = Vec::new();
    let maxlen = std::cell::Cell::new(80usize);
    let mut push = |s: String, out: &mut Vec<String>| {
        if s.len() <= maxlen.get() && seen.insert(s.clone()) {
            out.push(s);
        }
    };
    for (p, _) in corpus() {
        push(p.to_string(), &mut out);
    }
    // exhaustive by node count over the core menu
    let g = grammar(space, false);
    let mut memo = Vec::new();
    let nmax = if thorough { 4 } else { 3 };
    for n in 1..=nmax {
        for p in g.exact(n, &mut memo) {
            push(to_string(&p), &mut out);
        }
    }
    // back-references and group tests on top of small groups
    for inner in g.exact(1, &mut memo).into_iter().chain(g.exact(2, &mut memo)) {
        for tail in [Bref1(), opt(Bref1()), star_nonempty(Bref1())] {
            push(to_string(&cat(vec![grp(inner.clone()), tail])), &mut out);
        }
        push(to_string(&cat(vec![opt(grp(inner.clone())), P::Exists(1), lit('b')])), &mut out);
        push(to_string(&plus(cat(vec![grp(inner.clone()), opt(P::Bref(1))]))), &mut out);
    }
    if space == "c16" {
        for p in [
            r"(?((?=a))(?<t>a)|(?<f>b))", r"(?(?=a)(a)|(b))", r"(a)?(?(1)(b)|(c))(d)", r"(?:(a)|(b)){0}c", r"(a){0}b", r"(?=)(a){0}b", r"((a)|(b))+",
            r"(?<x>a)(?<y>b)?(?<z>c)", r"(?<x>a)|(?<y>b)|(c)", r"(?((a))(b)|(c))(d)", r"(?>(a)|(b))(c)", r"(?=(a))(?!(b))(?<=(a))(.)",
        ] {
            push(p.to_string(), &mut out);
        }
    }
    if space == "c13" {
        // conditionals inside look-behinds: the size of a conditional is that of (condition + yes) vs no
        for p in [
            r"(?<=(?(a)bc|d))x", r"(x)?(?<=(?(1)a))", r"(?<=(?(a)b|cd))", r"(?<!(?(a)bc|d))x", r"(a)?(?<=(?(1)b|cc))c", r"(?<=(?(?=a)a|b))c",
            r"(a)?(?<=(?(1)a|b))", r"(?<=(?(a)a|bb))b", r"(b)?(?<!(?(1)a))a", r"(?<=(?(a)|b))a", r"(?<=(?(a)b))", r"(a)?(?<=(?(1)|b))b",
        ] {
            push(p.to_string(), &mut out);
        }
        // sizes at the edge of usize inside look-behind bodies: products that do not fit, and usize::MAX itself as a size
        maxlen.set(200);
        for n in ["9223372036854775808", "9223372036854775809", "18446744073709551615", "18446744073709551614", "4294967296"] {
            for body in [
                format!("c(?:ab|(?>xy){{{}}})", n), format!("c(?:(?>x){{{}}}|ab)", n), format!("(?:(?>ab){{{}}}|b)", n), format!("(?:b|(?>a){{{}}})", n),
                format!("(?(a)(?>b){{{}}}|cc)", n), format!("a(?>(?>bc){{{}}})", n),
            ] {
                push(format!("(?<={})d", body), &mut out);
                push(format!("(?<!{})d", body), &mut out);
            }
        }
        maxlen.set(80);
    }
    // commit / restore family: an atomic group (or a condition, or a negative look-ahead) that leaves several
    // alternatives behind with capture slots written between them, then a continuation that can fail, then an
    // alternative path that never enters those groups; and conditionals with groups in all three parts (numbering)
    if ["c01", "c15", "c05", "c16", "c07"].contains(&space) {
        let bodies = [
            "(a)?(b)?\\1?", "(?:(a)|b(?!b))+", "(a)?(b)?", "(?:(a)|(b))+", "(a|ab)(c|bc)?", "(a)*?(b)*?", "(?:(a)|b)+?", "(a)??(b)??",
            "(?:(a)|ab)(?:(b)|)", "(a)?(?:(b)|c)?(-)?", "(a)|(.)", "(?:(a)|(.))b?", "(b)|(a)|(.)",
        ];
        let tails = ["c", "\\1c", "(?(1)c|-)", "", "(?(2)c)", "\\b", "\\2", "\\2?b"];
        let alts = ["ab", "[ab]+", "a", "(?s:.){2}", ""];
        for b in bodies {
            for t in tails {
                for f in alts {
                    push(format!("(?:(?>{}){}|{})", b, t, f), &mut out);
                    push(format!("(?:(?({}){}|b)|{})", b, t, f), &mut out);
                    push(format!("(?:(?!{}c){}|{})", b, t, f), &mut out);
                    push(format!("(?:(?={}){}|{})", b, t, f), &mut out);
                }
            }
        }
        for c in ["a", "(a)", "(?=(a))", "1", "(?!(b))"] {
            for y in ["(b)", "b(c)", "(?:(b)|(c))", ""] {
                for n in ["(c)", "(a)(b)", "(?>(c))", ""] {
                    for pre in ["", "(a)?", "^"] {
                        for post in ["", "(-)?", "\\1?"] {
                            if c == "1" && pre != "(a)?" {
                                continue;
                            }
                            push(format!("{}(?({}){}|{}){}", pre, c, y, n, post), &mut out);
                        }
                    }
                }
            }
        }
    }
    // wide family: the same commit / restore shapes with enough capture groups between the two written groups
    // that their slot numbers differ by 16, 32, 64 or 128 (fixed-width masks or arrays in the cut / restore logic)
    if ["c01", "c15", "c05", "c16", "c07"].contains(&space) {
        maxlen.set(600);
        for k in [6usize, 7, 8, 14, 15, 16, 30, 31, 32, 62, 63, 64] {
            for unit in ["(z)?", "()"] {
                let f = unit.repeat(k);
                push(format!("(?:(?>(a)(?:b|bb){}(b))a|abb)", f), &mut out);
                push(format!("(?:(?=(a)(?:b|bb){}(b))aa|abb)", f), &mut out);
                if unit == "(z)?" {
                    push(format!("(?:(?((a)(?:b|bb){}(b))a|b)|abb)", f), &mut out);
                    push(format!("(a)?{}(?>(?:b|bb)(b))a|ab+", f), &mut out);
                }
            }
        }
        maxlen.set(80);
    }
    // context x filler products
    let conds = g.conds;
    let ctxs = contexts(conds);
    let fills = fillers();
    for c in &ctxs {
        for f in &fills {
            push(to_string(&c(f)), &mut out);
        }
    }
    // seeded random, full menu
    let gf = grammar(space, true);
    let mut r = Rng(seed ^ 0x5eed_0000 ^ (space.len() as u64) << 32);
    let nrand = if thorough { 12000 } else { 2500 };
    let mut tries = 0;
    let mut got = 0;
    while got < nrand && tries < nrand * 20 {
        tries += 1;
        let mut groups = 0;
        let depth = 2 + r.below(3);
        let p = gf.random(&mut r, depth, &mut groups);
        let total = count_groups(&p);
        let p = clamp_refs(&p, total);
        let s = to_string(&p);
        let before = out.len();
        push(s, &mut out);
        if out.len() > before {
            got += 1;
        }
    }
    // unbounded repeats of possibly-empty bodies (F1 territory): outside the reference oracle's
    // domain, explored for the implementation-vs-model tie
    if !gf.empty_loops {
        let mut ge = gf.clone();
        ge.empty_loops = true;
        let nextra = nrand / 3;
        let mut got = 0;
        let mut tries = 0;
        while got < nextra && tries < nextra * 30 {
            tries += 1;
            let mut groups = 0;
            let depth = 2 + r.below(3);
            let p = ge.random(&mut r, depth, &mut groups);
            let total = count_groups(&p);
            let p = clamp_refs(&p, total);
            let s = to_string(&p);
            let before = out.len();
            push(s, &mut out);
            if out.len() > before {
                got += 1;
            }
        }
    }
    out
}

#[allow(non_snake_case)]
fn Bref1() -> P {
    P::Bref(1)
}
fn star_nonempty(p: P) -> P {
    rep(p, 0, None, Mode::Greedy)
}

pub fn texts(space: &str, tier: &str) -> Vec<String> {
    let thorough = tier == "thorough";
    let mut seen = HashSet::new();
    let mut out = Vec::new();
    let mut push = |s: String, out: &mut Vec<String>| {
        if seen.insert(s.clone()) {
            out.push(s);
        }
    };
    for (_, t) in corpus() {
        push(t.to_string(), &mut out);
    }
    for t in all_texts(&['a', 'b'], if thorough { 5 } else { 4 }) {
        push(t, &mut out);
    }
    for t in all_texts(&['a', 'b', 'c', 'é', '\n', '-'], if thorough { 3 } else { 2 }) {
        push(t, &mut out);
    }
    for t in [
        "abc", "abab", "aab", "abba", "baab", "bcd", "ca-", "aaaa", "aaaaaa", "ab\nab", "a\nb", "\na", "a\n", "a\n\n", "b a",
        "a-b", "éa", "aé", "éé", "aéb", "abcabc", "aabc", "abcb", "bab", "cab", "acb", "a b", "ab ab", "ab-ab", "xay",
        "a\r\nb", "ab\r\ncd", "\r", "a\r", "\r\n", "a\rb",
    ] {
        push(t.to_string(), &mut out);
    }
    if matches!(space, "c05" | "c13" | "c16") {
        for t in ["日", "a日b", "€", "a€", "😀", "a😀b", "é日😀", "日日", "😀😀", "ßa", "aßb", "ÿ", "aÿ", "ÿa", "¿a", "अ", "aअ", "अa", "ก ก", "ÿÿ", "😀x", "x😀x", "cabd", "cxyd"] {
            push(t.to_string(), &mut out);
        }
        for t in all_texts(&['a', 'é', '日', '😀'], 2) {
            push(t, &mut out);
        }
    }
    out
}

/// the character tables of the model, checked against the real crates for every character of the
/// alphabet in use (DESIGN 3.1: the tables are theorem parameters, their values are tie data)
pub fn chartab_line(s: &mut Session) {
    let alphabet = "abcABCxyz019_- \n\r\t.-éÉßüÜÿŸ¿日€😀अก";
    let w = regex::Regex::new(r"^\w$").unwrap();
    let d = regex::Regex::new(r"^\d$").unwrap();
    let sp = regex::Regex::new(r"^\s$").unwrap();
    let mut parts = Vec::new();
    for c in alphabet.chars() {
        let cs = c.to_string();
        let mut partner = "-".to_string();
        let mut cands: Vec<char> = c.to_lowercase().chain(c.to_uppercase()).collect();
        if c.to_lowercase().count() != 1 || c.to_uppercase().count() != 1 {
            cands.clear();
        }
        for k in cands {
            if k != c {
                let re = regex::Regex::new(&format!("^(?i:{})$", regex::escape(&cs))).unwrap();
                if re.is_match(&k.to_string()) {
                    partner = (k as u32).to_string();
                }
            }
        }
        parts.push(format!("{}:{}{}{}:{}", c as u32, w.is_match(&cs) as u8, d.is_match(&cs) as u8, sp.is_match(&cs) as u8, partner));
    }
    s.line(&format!("chartab\t{}", crate::wire::hex(alphabet)), &parts.join(" "));
}


/// counted repetitions with bounds past 255 / 256 / 1000 (number formatting in the delegated text, narrow
/// counters in the VM), each with a text long enough to tell the counts apart; run pairwise only (shard 0)
pub fn long_cases() -> Vec<(String, String, String)> {
    let mut v = Vec::new();
    for n in [255usize, 256, 260, 300, 1000] {
        let a = "a".repeat(n);
        v.push((format!("a{{{}}}", n), format!("(?:(?=)a){{{}}}", n), a.clone()));
        v.push((format!("a{{{}}}", n), format!("(?:(?=)a){{{}}}", n), format!("{}a", a)));
        v.push((format!("a{{{}}}", n), format!("(?:(?=)a){{{}}}", n), a[1..].to_string()));
        v.push((format!("(?=)(a{{{}}})b", n), format!("(?=)((?:a(?=)){{{}}})b", n), format!("{}b", a)));
        v.push((format!("(b{{2,{}}})(b*)", n), format!("((?:(?=)b){{2,{}}})(b*)", n), "b".repeat(n + 10)));
        v.push((format!("(b{{{},}}?)(b*)", n), format!("((?:(?=)b){{{},}}?)(b*)", n), "b".repeat(n + 3)));
    }
    v
}

pub fn run(cfg: &Cfg) {
    let mut s = Session::new(&cfg.out);
    s.line(&format!("special\t{}", crate::wire::hex("\\.+*?()|[]{}^$#")), "ok");
    if cfg.shard == 0 {
        chartab_line(&mut s);
    }
    // c20: the pattern-level reading of commit / restore — only the patterns of the conditional space that contain a
    // committing construct (atomic group, condition, look-around), quick: a slice of them
    let pats: Vec<String> = if cfg.space == "c20" {
        let all: Vec<String> = patterns("c15", &cfg.tier, cfg.seed)
            .into_iter()
            .filter(|p| p.contains("(?>") || p.contains("(?(") || p.contains("(?!") || p.contains("(?=") || p.contains("+)") || p.contains("++"))
            .collect();
        let keep = if cfg.tier == "thorough" { all.len() } else { 3000 };
        let step = (all.len() / keep).max(1);
        all.into_iter().step_by(step).collect()
    } else {
        patterns(&cfg.space, &cfg.tier, cfg.seed)
    };
    let txts = texts(&cfg.space, &cfg.tier);
    let limits: Vec<usize> = if cfg.space == "c07" {
        vec![0, 1, 2, 3, 5, 10, 100, 1_000_000, 1usize << 32, usize::MAX]
    } else {
        vec![1_000_000]
    };
    let inject = cfg.space == "c03";
    let opts = Opts::default();
    s.bytes_mode = matches!(cfg.space.as_str(), "c05" | "c13");
    for (i, p) in pats.iter().enumerate() {
        if i % cfg.nshards != cfg.shard {
            continue;
        }
        s.count("patterns");
        if cfg.space == "c07" {
            run_limits(&mut s, p, &txts, &limits);
            continue;
        }
        let b = s.pattern(p, &opts, true, true);
        if b.re.is_none() {
            continue;
        }
        let mut base: Vec<String> = Vec::new();
        let c05 = cfg.space == "c05";
        for t in &txts {
            for pos in boundaries(t) {
                let a = s.caps(&b, t, pos, false, 1_000_000);
                if c05 {
                    check_answer_c05(&mut s, p, t, pos, &a);
                }
                if inject {
                    base.push(a);
                }
                s.count("caps");
            }
            if c05 {
                entry_points_c05(&mut s, b.re.as_ref().unwrap(), p, t);
            }
        }
        let _ = base;
    }
    if cfg.shard == 0 && cfg.space != "c07" {
        // look-behinds of astronomically large constant width (the VM interprets the body, so nothing is
        // unrolled): arithmetic on the width must not wrap
        for n in ["2147483648", "4294967296", "4611686018427387904", "9223372036854775808", "18446744073709551614"] {
            for p in [
                format!("(?<=(?:\\b.){{{}}})x", n),
                format!("(?<!(?:\\b.){{{}}})x", n),
                format!("(?<=(?:(?:\\b.){{{}}}){{4294967296}})x", n),
                format!("(?<!(?:(?:\\b.){{{}}}){{2}})x", n),
            ] {
                let b = s.pattern(&p, &opts, true, true);
                if b.re.is_none() {
                    continue;
                }
                for t in ["", "x", "ax bx", "éx"] {
                    for pos in boundaries(t) {
                        let a = s.caps(&b, t, pos, false, 1_000_000);
                        if cfg.space == "c05" {
                            check_answer_c05(&mut s, &p, t, pos, &a);
                        }
                        s.count("huge_lookbehind_cases");
                    }
                }
            }
        }
        for (p1, p2, t) in long_cases() {
            for p in [p1, p2] {
                let b = s.pattern(&p, &opts, true, true);
                if b.re.is_none() {
                    continue;
                }
                let a = s.caps(&b, &t, 0, false, 1_000_000);
                if cfg.space == "c05" {
                    check_answer_c05(&mut s, &p, &t, 0, &a);
                }
                s.count("long_cases");
            }
        }
    }
    s.finish();
}

fn check_answer_c05(s: &mut Session, p: &str, t: &str, pos: usize, a: &str) {
    let mut bad: Option<String> = None;
    if a == "panic" {
        bad = Some("panic".to_string());
    } else if let Some(rest) = a.strip_prefix("m ") {
        for (g, pair) in rest.split(' ').enumerate() {
            if pair == "-" {
                continue;
            }
            let mut it = pair.split(',');
            let x: Option<usize> = it.next().and_then(|v| v.parse().ok());
            let y: Option<usize> = it.next().and_then(|v| v.parse().ok());
            match (x, y) {
                (Some(x), Some(y)) if x <= y && y <= t.len() && t.is_char_boundary(x) && t.is_char_boundary(y) => {
                    if g == 0 && x < pos {
                        bad = Some(format!("match starts at {} before the search position {}", x, pos));
                    }
                }
                _ => bad = Some(format!("group {} has invalid span {}", g, pair)),
            }
        }
    }
    if let Some(b) = bad {
        s.violation(
            "C05",
            "invalid-result",
            &[("pattern", p.to_string()), ("text", t.to_string()), ("pos", pos.to_string()), ("answer", a.to_string()), ("detail", b)],
        );
    }
}

/// C07: the same pattern under a ladder of backtrack limits
fn run_limits(s: &mut Session, p: &str, txts: &[String], limits: &[usize]) {
    // answers[limit index][case index] = (answer, backtracks)
    let mut answers: Vec<Vec<(String, u64)>> = Vec::new();
    let mut cases: Vec<(String, usize)> = Vec::new();
    for (li, &l) in limits.iter().enumerate() {
        let o = Opts { limit: Some(l), ..Opts::default() };
        let b = s.pattern(p, &o, false, false);
        if b.re.is_none() {
            return;
        }
        let mut row = Vec::new();
        for t in txts {
            // fewer offsets: start and one inner boundary
            let bs = boundaries(t);
            for &pos in bs.iter().take(2) {
                let a = s.caps(&b, t, pos, false, l);
                // every entry point runs under the same limit (C07 / C09): compare the outcome class
                {
                    let re = b.re.as_ref().unwrap();
                    let class = |x: &str| if x.starts_with("m ") { "match" } else { x }.to_string();
                    let mut others: Vec<(&str, String)> = Vec::new();
                    let f = std::panic::catch_unwind(std::panic::AssertUnwindSafe(|| re.find_from_pos(t, pos)));
                    others.push(("find_from_pos", match f { Err(_) => "panic".into(), Ok(Err(e)) => crate::wire::error_name(&e), Ok(Ok(None)) => "none".into(), Ok(Ok(Some(_))) => "match".into() }));
                    let c = std::panic::catch_unwind(std::panic::AssertUnwindSafe(|| re.captures_from_pos(t, pos)));
                    others.push(("captures_from_pos", match c { Err(_) => "panic".into(), Ok(Err(e)) => crate::wire::error_name(&e), Ok(Ok(None)) => "none".into(), Ok(Ok(Some(_))) => "match".into() }));
                    if pos == 0 {
                        let m = std::panic::catch_unwind(std::panic::AssertUnwindSafe(|| re.is_match(t)));
                        others.push(("is_match", match m { Err(_) => "panic".into(), Ok(Err(e)) => crate::wire::error_name(&e), Ok(Ok(false)) => "none".into(), Ok(Ok(true)) => "match".into() }));
                        let f0 = std::panic::catch_unwind(std::panic::AssertUnwindSafe(|| re.find(t)));
                        others.push(("find", match f0 { Err(_) => "panic".into(), Ok(Err(e)) => crate::wire::error_name(&e), Ok(Ok(None)) => "none".into(), Ok(Ok(Some(_))) => "match".into() }));
                    }
                    for (name, got) in others {
                        s.count("entry_point_limit_cases");
                        if got != class(&a) {
                            s.violation(
                                "C07",
                                "entry-points-differ-under-limit",
                                &[("pattern", p.to_string()), ("text", t.clone()), ("pos", pos.to_string()), ("limit", l.to_string()),
                                  ("detail", format!("{} gives {}, captures (hook) gives {}", name, got, class(&a)))],
                            );
                        }
                    }
                }
                row.push((a, s.last_stats.1));
                if li == 0 {
                    cases.push((t.clone(), pos));
                }
                s.count("caps");
            }
        }
        answers.push(row);
    }
    // the statement on the implementation: with limit L the answer is the limit error or the
    // unlimited answer; it is the unlimited answer for every L >= the backtracks that run needs
    let top = answers.len() - 1;
    for k in 0..cases.len() {
        let (full, need) = answers[top][k].clone();
        if full == "err:limit" {
            continue;
        }
        if full == "err:stack" || full == "panic" {
            s.violation(
                "C07",
                "runtime-error-at-default-limit",
                &[("pattern", p.to_string()), ("text", cases[k].0.clone()), ("pos", cases[k].1.to_string()), ("answer", full.clone())],
            );
            continue;
        }
        for (li, &l) in limits.iter().enumerate() {
            let (a, _) = &answers[li][k];
            let ok = if (l as u64) >= need { *a == full } else { a == "err:limit" };
            if !ok {
                s.violation(
                    "C07",
                    "limit-not-faithful",
                    &[
                        ("pattern", p.to_string()),
                        ("text", cases[k].0.clone()),
                        ("pos", cases[k].1.to_string()),
                        ("limit", l.to_string()),
                        ("answer", a.clone()),
                        ("unlimited_answer", full.clone()),
                        ("backtracks_needed", need.to_string()),
                    ],
                );
                break;
            }
        }
    }
}

/// C05: every public search entry point returns normally and reports valid spans
fn entry_points_c05(s: &mut Session, re: &fancy_regex::Regex, p: &str, t: &str) {
    use std::panic::{catch_unwind, AssertUnwindSafe};
    let r = catch_unwind(AssertUnwindSafe(|| {
        let bad: std::cell::RefCell<Vec<String>> = std::cell::RefCell::new(Vec::new());
        let chk = |what: &str, a: usize, b: usize| {
            if a > b || b > t.len() || !t.is_char_boundary(a) || !t.is_char_boundary(b) {
                bad.borrow_mut().push(format!("{}: span ({},{}) in text of length {}", what, a, b, t.len()));
            }
        };
        let _ = re.is_match(t);
        if let Ok(Some(m)) = re.find(t) {
            chk("find", m.start(), m.end());
            let _ = m.as_str();
        }
        let cap = t.len() + 3;
        for (i, m) in re.find_iter(t).enumerate() {
            if i > cap {
                bad.borrow_mut().push("find_iter does not terminate".to_string());
                break;
            }
            if let Ok(m) = m {
                chk("find_iter", m.start(), m.end());
                let _ = m.as_str();
            }
        }
        for (i, c) in re.captures_iter(t).enumerate() {
            if i > cap {
                bad.borrow_mut().push("captures_iter does not terminate".to_string());
                break;
            }
            if let Ok(c) = c {
                for g in 0..c.len() {
                    if let Some(m) = c.get(g) {
                        chk("captures_iter group", m.start(), m.end());
                        let _ = m.as_str();
                        let _ = &c[g];
                    }
                }
            }
        }
        for (i, piece) in re.split(t).enumerate() {
            if i > cap + 1 {
                bad.borrow_mut().push("split does not terminate".to_string());
                break;
            }
            let _ = piece;
        }
        for piece in re.splitn(t, 2) {
            let _ = piece;
        }
        // size hints are part of iterating: asked before and after the first item, for every limit incl. the extremes
        for n in [0usize, 1, 2, usize::MAX - 1, usize::MAX] {
            let mut it = re.splitn(t, n);
            let (lo, hi) = it.size_hint();
            let first = it.next();
            let _ = it.size_hint();
            let rest = it.count() + first.is_some() as usize;
            if lo > rest || hi.map(|h| h < rest).unwrap_or(false) {
                bad.borrow_mut().push(format!("splitn({}) size_hint ({},{:?}) but {} items", n, lo, hi, rest));
            }
        }
        {
            let mut it = re.split(t);
            let _ = it.size_hint();
            let _ = it.next();
            let _ = it.size_hint();
            let mut f = re.find_iter(t);
            let _ = f.size_hint();
            let _ = f.next();
            let _ = f.size_hint();
            let mut c = re.captures_iter(t);
            let _ = c.size_hint();
            let _ = c.next();
            let _ = c.size_hint();
        }
        let _ = re.try_replacen(t, 0, "x");
        let _ = re.try_replacen(t, 1, "[$0$1]");
        let _ = re.try_replacen(t, 0, |c: &fancy_regex::Captures<'_>| c.get(0).map(|m| m.as_str().to_string()).unwrap_or_default());
        bad.into_inner()
    }));
    s.count("entry_point_cases");
    match r {
        Err(_) => s.violation("C05", "panic", &[("pattern", p.to_string()), ("text", t.to_string()), ("detail", "a search entry point panicked".to_string())]),
        Ok(bad) => {
            for b in bad {
                s.violation("C05", "invalid-span", &[("pattern", p.to_string()), ("text", t.to_string()), ("detail", b)]);
            }
        }
    }
}

/// C03: base pattern vs every single-site `(?=)` injection, compared in-process, and every
/// injected pattern also sent through the tie
pub fn run_inject(cfg: &Cfg) {
    let mut s = Session::new(&cfg.out);
    s.line(&format!("special\t{}", crate::wire::hex("\\.+*?()|[]{}^$#")), "ok");
    let thorough = cfg.tier == "thorough";
    // base patterns as ASTs (we need the structure to inject)
    let g = grammar("c01", false);
    let mut memo = Vec::new();
    let mut bases: Vec<P> = Vec::new();
    for n in 1..=3 {
        bases.extend(g.exact(n, &mut memo));
    }
    for f in fillers() {
        bases.push(f.clone());
        bases.push(cat(vec![grp(f.clone()), P::Bref(1)]));
        bases.push(cat(vec![atomic(f.clone()), lit('b')]));
        bases.push(look("=", grp(f.clone())));
    }
    let gf = grammar("c01", true);
    let mut r = Rng(cfg.seed ^ 0xc03);
    let nrand = if thorough { 6000 } else { 1200 };
    for _ in 0..nrand {
        let mut groups = 0;
        let depth = 2 + r.below(3);
        let p = gf.random(&mut r, depth, &mut groups);
        let total = count_groups(&p);
        bases.push(clamp_refs(&p, total));
    }
    let txts = texts("c01", if thorough { "quick" } else { "quick" });
    let opts = Opts::default();
    let mut seen = HashSet::new();
    // fixed witness of known finding F1 (outside the generated space, which has no empty loops)
    if cfg.shard == 0 {
        let (p1, p2, t) = ("(?:|a)*", "(?=)(?:|a)*", "a");
        let b1 = s.pattern(p1, &opts, false, false);
        let a1 = if b1.re.is_some() { s.caps(&b1, t, 0, false, 1_000_000) } else { String::new() };
        let b2 = s.pattern(p2, &opts, false, false);
        if b1.re.is_some() && b2.re.is_some() {
            let a2 = s.caps(&b2, t, 0, false, 1_000_000);
            if a1 != a2 {
                s.violation(
                    "C03",
                    "metamorphic",
                    &[("pattern", p1.to_string()), ("pattern2", p2.to_string()), ("text", t.to_string()), ("pos", "0".to_string()), ("base", a1), ("injected", a2)],
                );
            }
        }
    }
    if cfg.shard == 0 {
        // the same piece delegated in one pattern and interpreted in the other, under RegexBuilder::case_insensitive(true)
        // with the case sensitivity switched back on inside
        for (p1, p2) in [
            (r"(?-i)abc", r"(?-i)(?=)abc"), (r"(?-i:a)b", r"(?-i:(?=)a)b"), (r"x(?-i:[a-c])", r"x(?=)(?-i:[a-c])"), (r"(?-i:ab)c", r"(?-i:a(?=)b)c"),
            (r"ab", r"a(?=)b"), (r"[a-c]+", r"(?:(?=)[a-c])+"),
        ] {
            let mut b1 = fancy_regex::RegexBuilder::new(p1);
            b1.case_insensitive(true);
            let mut b2 = fancy_regex::RegexBuilder::new(p2);
            b2.case_insensitive(true);
            if let (Ok(r1), Ok(r2)) = (b1.build(), b2.build()) {
                for t in ["ABC", "abc", "aBc Abc", "Ab aB AB ab", "xA xa XB", "ABc abC"] {
                    s.count("inject_cases");
                    let a1: Vec<Option<(usize, usize)>> = r1.find_iter(t).take(t.len() + 3).map(|m| m.ok().map(|m| (m.start(), m.end()))).collect();
                    let a2: Vec<Option<(usize, usize)>> = r2.find_iter(t).take(t.len() + 3).map(|m| m.ok().map(|m| (m.start(), m.end()))).collect();
                    if a1 != a2 {
                        s.violation(
                            "C03",
                            "metamorphic",
                            &[("pattern", p1.to_string()), ("pattern2", p2.to_string()), ("text", t.to_string()), ("pos", "0".to_string()),
                              ("base", format!("case_insensitive(true): {:?}", a1)), ("injected", format!("{:?}", a2))],
                        );
                    }
                }
            }
        }
        for (p1, p2, t) in long_cases() {
            let b1 = s.pattern(&p1, &opts, false, true);
            let b2 = s.pattern(&p2, &opts, false, true);
            if b1.re.is_none() || b2.re.is_none() {
                continue;
            }
            let a1 = s.caps(&b1, &t, 0, false, 1_000_000);
            let a2 = s.caps(&b2, &t, 0, false, 1_000_000);
            s.count("inject_cases");
            if a1 != a2 {
                s.violation(
                    "C03",
                    "metamorphic",
                    &[("pattern", p1.clone()), ("pattern2", p2.clone()), ("text", t.clone()), ("pos", "0".to_string()), ("base", a1), ("injected", a2)],
                );
            }
        }
    }
    for (i, base) in bases.iter().enumerate() {
        if i % cfg.nshards != cfg.shard {
            continue;
        }
        let ps = to_string(base);
        if ps.len() > 60 || !seen.insert(ps.clone()) {
            continue;
        }
        let b = s.pattern(&ps, &opts, false, true);
        if b.re.is_none() {
            continue;
        }
        s.count("base_patterns");
        let mut base_ans: Vec<String> = Vec::new();
        for t in &txts {
            for pos in boundaries(t) {
                base_ans.push(s.caps(&b, t, pos, false, 1_000_000));
            }
        }
        let mut injs = injections(base);
        if !thorough && injs.len() > 6 {
            // quick: a seeded sample of the sites (thorough: all)
            let mut keep = Vec::new();
            for _ in 0..6 {
                let k = r.below(injs.len());
                keep.push(injs.swap_remove(k));
            }
            injs = keep;
        }
        for inj in injs {
            let is = to_string(&inj);
            let bi = s.pattern(&is, &opts, false, true);
            if bi.re.is_none() {
                s.count("inject_not_compiling");
                continue;
            }
            s.count("injected_patterns");
            let mut k = 0;
            for t in &txts {
                for pos in boundaries(t) {
                    let a = s.caps(&bi, t, pos, false, 1_000_000);
                    s.count("inject_cases");
                    if a != base_ans[k] {
                        s.violation(
                            "C03",
                            "metamorphic",
                            &[
                                ("pattern", ps.clone()),
                                ("pattern2", is.clone()),
                                ("text", t.clone()),
                                ("pos", pos.to_string()),
                                ("base", base_ans[k].clone()),
                                ("injected", a.clone()),
                            ],
                        );
                    }
                    k += 1;
                }
            }
        }
    }
    s.finish();
}
