//! parsetie: the Lean model of the parser (lean/FancyModel/Model/Parse.lean, executable
//! `fmparse`) against `Parser::parse_with_case_insensitive`, pattern by pattern.
//!
//! Request line:  `parse\t<hex of the pattern's bytes, "-" if empty>\t<casei 0|1>`
//! Answer line:   `ok <tree tokens> br=<sorted group numbers> names=<hexname=index,... by index>`
//!              | `err <ParseErrorKind> <byte position>[ <hex of the payload string>]`
//!              | `err <CompileErrorKind>`
//!              | `panic`
//! plus `alnum\t<first>\t<last+1>` -> `ranges a-b,c-d,...`: the code points of the block for which
//! `char::is_alphanumeric` holds (the model's table is checked against the running std).
//!
//! `--space dump-alnum` prints the table as Lean source (used to write Driver/ParseOps.lean).

use crate::engine::Cfg;
use crate::pat::*;
use crate::session::Session;
use crate::spell::{spell, styles, BASE};
use crate::wire::*;
use fancy_regex::verif_hooks as hooks;
use fancy_regex::{Error, ParseError};
use std::panic::catch_unwind;

/// the implementation's canonical answer for one pattern
pub fn answer(p: &str, casei: bool) -> String {
    match catch_unwind(|| hooks::parse_tree(p, casei)) {
        Err(_) => "panic".to_string(),
        Ok(Err(e)) => match e {
            Error::ParseError(pos, pe) => {
                let kind = parse_error_kind(&pe);
                let payload = match &pe {
                    ParseError::GeneralParseError(s)
                    | ParseError::InvalidEscape(s)
                    | ParseError::UnknownFlag(s)
                    | ParseError::InvalidGroupNameBackref(s) => Some(s.clone()),
                    _ => None,
                };
                match payload {
                    Some(s) => format!("err {} {} {}", kind, pos, hex(&s)),
                    None => format!("err {} {}", kind, pos),
                }
            }
            Error::CompileError(c) => format!("err {}", compile_error_kind(&c)),
            _ => "err other".to_string(),
        },
        Ok(Ok(t)) => {
            let mut toks = Vec::new();
            tree_tokens(&t.expr, &mut toks);
            let mut br: Vec<usize> = t.backrefs.iter().collect();
            br.sort();
            br.dedup();
            let br: Vec<String> = br.iter().map(|g| g.to_string()).collect();
            let mut names: Vec<(usize, String)> = t.named_groups.iter().map(|(n, i)| (*i, n.clone())).collect();
            names.sort();
            let names: Vec<String> = names.iter().map(|(i, n)| format!("{}={}", hex(n), i)).collect();
            format!("ok {} br={} names={}", toks.join(" "), br.join(","), names.join(","))
        }
    }
}

fn alnum_ranges(lo: u32, hi: u32) -> Vec<(u32, u32)> {
    let mut out: Vec<(u32, u32)> = Vec::new();
    for cp in lo..hi {
        let yes = char::from_u32(cp).map(|c| c.is_alphanumeric()).unwrap_or(false);
        if yes {
            match out.last_mut() {
                Some(l) if l.1 + 1 == cp => l.1 = cp,
                _ => out.push((cp, cp)),
            }
        }
    }
    out
}

fn dump_alnum() {
    let r = alnum_ranges(0, 0x110000);
    println!("/-- `char::is_alphanumeric` as inclusive ranges ({} ranges), from the Rust std the harness was built with -/", r.len());
    println!("def alnumRanges : Array (Nat × Nat) := #[");
    let items: Vec<String> = r.iter().map(|(a, b)| format!("({}, {})", a, b)).collect();
    for chunk in items.chunks(8) {
        println!("  {},", chunk.join(", "));
    }
    println!("  (1114112, 1114112)]");
}

/// the C06 vocabulary (harness/src/more.rs) plus fragments with multi-byte characters
fn vocabulary() -> Vec<&'static str> {
    vec![
        "a", "é", "日", "😀", ".", "*", "+", "?", "|", "(", ")", "[", "]", "{", "}", "^", "$", "\\", "#", "-", ",", ":", "<", ">", "=", "!", "'", "P", "k", "g", "x",
        "u", "i", "0", "1", "9", "(?", "(?:", "(?=", "(?!", "(?<=", "(?<!", "(?>", "(?<n>", "(?P<n>", "(?P=n)", "(?P>n)", "(?(", "(?(1)", "(?#", "(?x)", "(?i)",
        "(?-", "\\k<", "\\k<n>", "\\k<-1>", "\\g<", "\\g<1>", "\\1", "\\99999999999", "\\k<99999999999>", "{2}", "{2,}", "{,2}", "{18446744073709551615}",
        "{99999999999999999999}", "\\x", "\\x{", "\\x{110000}", "\\u00", "\\U0001F600", "\\p{", "\\pL", "\\b{", "\\K", "\\G", "\\Z", "\\h", "\\e", "[^", "[]",
        "[a-", "&&", " ", "\n",
    ]
}

/// further fragments used only by the random part of the stream
fn vocabulary_extra() -> Vec<&'static str> {
    vec![
        "ß", "٣", "\u{301}", "ⅷ", "²", "_", "n", "s", "m", "U", "d", "w", "b", "B", "A", "z", "p", "h", "H", "e", "\t", "\r", "~", "&", "\\k'", "\\k'n'", "\\g'", "\\g'n'", "\\g1",
        "\\g<-1>", "\\k<-", "\\k<-0>", "\\k<+1>", "(?<é>", "(?P<日>", "(?<", "(?P<", "(?P=", "(?P>", "(?P", "(?<n", "(?'n'", "(?x:", "(?i:", "(?-i:", "(?s)", "(?m)", "(?U)",
        "(?u)", "(?-u)", "(?i-s:", "(?-)", "(?:)", "(?#)", "(?#\\", "(?(<n>)", "(?('n')", "(?(n)", "(?(?=a)", "(?(-1)", "\\x4", "\\x41", "\\x{41}", "\\x{}", "\\x{D800}",
        "\\x{10FFFF}", "\\x{123456789}", "\\u0041", "\\uD800", "\\U00110000", "\\UFFFFFFFF", "\\p{L}", "\\P{L", "\\PL", "\\p", "\\b", "\\B{", "\\<", "\\>", "\\A", "\\z",
        "\\d", "\\W", "\\S", "\\H", "\\q", "\\é", "\\😀", "\\ ", "\\\\", "\\]", "\\[", "[[", "]]", "[[:alpha:]]", "[^]", "[\\", "[\\d", "[\\b]", "[\\A]", "[\\1]", "[a&&b]",
        "{", "{2", "{2,3}", "{ 2 , 3 }", "{,}", "{}", "{-1}", "?+", "*?", "+?", "++", "??", "{2}?", "{2}+", "#\n", "# ", "\\#", "18446744073709551615", "18446744073709551616",
        "9223372036854775807", "9223372036854775808", "\\k<-9223372036854775808>", "\\k<-9223372036854775809>", "\\k<9223372036854775808>", "\\0", "\\00",
    ]
}

/// patterns with a multi-byte (or otherwise notable) character in every syntactic position
fn multibyte_positions() -> Vec<String> {
    let fills = [
        "é", "日", "😀", "ß", "٣", "\u{301}", "ⅷ", "²", "É", "€", "\u{7f}", "\u{80}", "\u{7ff}", "\u{800}", "\u{ffff}", "\u{10000}", "\u{10ffff}", "aé", "éa", "é日", "_é",
        "é_", "1é", "é1", "-é", "-1é", "é-1", "٣٣", "a", "1", "-", "",
    ];
    let templates = [
        "X", "aXb", "X*", "X+?", "X{2}", "X|X", "(X)", "(X", "X)", "(?:X)", "(?=X)", "(?!X)", "(?<=X)", "(?<!X)", "(?>X)", "(?<X>a)", "(?<X>a)\\k<X>", "(?<aX>a)\\k<aX>",
        "(?<Xa>a)\\k'Xa'", "(?P<X>a)(?P=X)", "(?P<X>a)(?P>X)", "(?P=X)", "(?P>X)", "(?P=X", "(?P>X", "(?PX", "(?<X", "(?P<X", "(?<X>", "(?<X)", "(?<n>a)(?P=nX)",
        "(?<n>a)\\k<nX>", "\\k<X>", "\\k'X'", "\\k<X", "\\k'X", "\\kX", "\\k<-X>", "\\k<-1X>", "\\g<X>", "\\g'X'", "\\gX", "\\g<X", "\\g1X", "\\1X", "(a)\\1X", "(a)\\k<1X>",
        "[X]", "[^X]", "[X-X]", "[aX-X]", "[\\X]", "[X", "[]X]", "[^]X]", "[[X]]", "[[:X:]]", "[a&&X]", "[\\dX]", "[\\pX]", "[\\p{X}]", "[\\x{41}X]", "\\X", "\\X{", "a\\X", "a{X}",
        "a{1X}", "a{1,X}", "a{X,2}", "a{1,2X}", "a{1}X", "a{ 1X }", "(?#X)", "(?#\\X)", "(?#X", "(?#\\X", "(?#a\\X", "(?#X\\", "a(?#X)b", "(?x)#X\na", "(?x)#X", "(?x) X a",
        "(?x)a X", "(?x)[ X ]", "(?x)\\ X", "(?X)", "(?iX)", "(?-X)", "(?i-X)", "(?X:a)", "(?i-X:a)", "(?iX:a)", "(?X", "(?-X", "(?i:X)", "(?i)X", "\\p{X}", "\\pX", "\\p{X", "\\PX",
        "\\p{aX", "\\P{Xa}", "\\x{X}", "\\xX", "\\x4X", "\\uX", "\\u004X", "\\UX", "\\x{4X}", "\\x{X", "\\b{X", "\\bX", "\\B{X", "\\BX", "(?(X)a|b)", "(?(X)a)", "(?(X))", "(?(<X>)a)",
        "(?('X')a)", "(?(<X>))", "(?(1X)a)", "(?(1)X|X)", "(?(1)X)", "(?(X", "(?(1)X", "(a)(?(1)X|b)", "(?<X>a)(?(<X>)b|c)", "(?<X>a)(?('X')b)", "X\\", "\\", "X\\Z", "\\KX", "\\GX",
        "\\AX\\z", "\\hX", "X.", "^X$", "(?m)^X$", "(?s).X", "(?U)X*", "(?x)X *", "(?i)[X]", "\\dX", "\\wX\\W", "X??", "X*+", "X++", "X?+", "X{2}+", "X{2,}?", "X{,2}", "X{2,1}",
        "(?<n>X)|(?<n>X)", "(?<a>X)(?<b>X)\\k<b>\\k<a>", "(X)\\1(?<n>X)", "(?<n>X)\\1", "(X)(?<n>X)\\k<n>\\2", "\\k<n>(?<n>X)", "(?<n>a)\\g<n>X", "(a)\\g<1>X", "(a)\\g<-1>X",
        "(a)\\k<-1>X", "(a)(b)\\k<-2>X", "\\k<-1>X", "(a)\\k<-2>X", "(a)\\k<-0>X", "(a)\\k<0>X",
    ];
    let mut out = Vec::new();
    for t in templates.iter() {
        for f in fills.iter() {
            out.push(t.replace('X', f));
        }
    }
    out
}

/// every Rust string literal of a source file (over-inclusive on purpose: any string is a test input)
fn harvest_literals(src: &str, out: &mut Vec<String>) {
    let cs: Vec<char> = src.chars().collect();
    let n = cs.len();
    let mut i = 0;
    while i < n {
        let c = cs[i];
        if c == '/' && i + 1 < n && cs[i + 1] == '/' {
            while i < n && cs[i] != '\n' {
                i += 1;
            }
        } else if c == 'r' && i + 1 < n && (cs[i + 1] == '"' || cs[i + 1] == '#') && (i == 0 || !(cs[i - 1].is_alphanumeric() || cs[i - 1] == '_')) {
            let mut j = i + 1;
            let mut hashes = 0;
            while j < n && cs[j] == '#' {
                hashes += 1;
                j += 1;
            }
            if j < n && cs[j] == '"' {
                j += 1;
                let start = j;
                let mut end = None;
                while j < n {
                    if cs[j] == '"' && j + hashes < n + 0 && (0..hashes).all(|k| j + 1 + k < n && cs[j + 1 + k] == '#') {
                        end = Some(j);
                        break;
                    }
                    j += 1;
                }
                match end {
                    Some(e) => {
                        out.push(cs[start..e].iter().collect());
                        i = e + 1 + hashes;
                    }
                    None => i = n,
                }
            } else {
                i += 1;
            }
        } else if c == '"' {
            let mut j = i + 1;
            let mut s = String::new();
            let mut ok = true;
            while j < n && cs[j] != '"' {
                if cs[j] == '\\' && j + 1 < n {
                    j += 1;
                    match cs[j] {
                        'n' => s.push('\n'),
                        't' => s.push('\t'),
                        'r' => s.push('\r'),
                        '0' => s.push('\0'),
                        '\\' => s.push('\\'),
                        '"' => s.push('"'),
                        '\'' => s.push('\''),
                        'x' if j + 2 < n => {
                            let h: String = cs[j + 1..j + 3].iter().collect();
                            match u8::from_str_radix(&h, 16) {
                                Ok(v) if v < 0x80 => s.push(v as char),
                                _ => ok = false,
                            }
                            j += 2;
                        }
                        'u' if j + 1 < n && cs[j + 1] == '{' => {
                            let mut k = j + 2;
                            let mut h = String::new();
                            while k < n && cs[k] != '}' {
                                if cs[k] != '_' {
                                    h.push(cs[k]);
                                }
                                k += 1;
                            }
                            match u32::from_str_radix(&h, 16).ok().and_then(char::from_u32) {
                                Some(ch) => s.push(ch),
                                None => ok = false,
                            }
                            j = k;
                        }
                        '\n' => {
                            while j + 1 < n && cs[j + 1].is_whitespace() {
                                j += 1;
                            }
                        }
                        other => {
                            s.push('\\');
                            s.push(other);
                        }
                    }
                } else {
                    s.push(cs[j]);
                }
                j += 1;
            }
            if ok {
                out.push(s);
            }
            i = j + 1;
        } else if c == '\'' {
            if i + 1 < n && cs[i + 1] == '\\' {
                let mut j = i + 2;
                while j < n && cs[j] != '\'' {
                    j += 1;
                }
                if j == i + 2 {
                    j += 1; // '\''
                }
                i = j + 1;
            } else if i + 2 < n && cs[i + 2] == '\'' {
                i += 3;
            } else {
                i += 1;
            }
        } else {
            i += 1;
        }
    }
}

fn flag_spellings(p: &P) -> Vec<String> {
    let base = spell(p, &BASE);
    vec![
        format!("(?i:{})", base),
        format!("(?i){}", base),
        format!("(?s:{})", base),
        format!("(?s){}", base),
        format!("(?m:{})", base),
        format!("(?m){}", base),
        format!("(?U:{})", base),
        format!("(?U){}", base),
        format!("a(?i:{})", base),
        format!("a(?:(?i){})", base),
        format!("(?m:{})", base.replace("\\z", "(?-m:$)").replace("\\A", "(?-m:^)")),
        format!("(?m)a\\z|{}", base),
        format!("(?m)a(?-m:$)|{}", base),
        format!("(?m)\\A{}", base),
        format!("(?m)(?-m:^){}", base),
        format!("(?x: {} )", base),
        format!("(?x) {} # c", base),
    ]
}

fn full_grammar(empty_loops: bool) -> Grammar {
    Grammar {
        atoms: {
            let mut v = atoms_full();
            v.retain(|a| !matches!(a, P::Raw(_)));
            v
        },
        quants: quants_full(),
        modes: vec![Mode::Greedy, Mode::Lazy, Mode::Poss],
        looks: vec!["=", "!", "<=", "<!"],
        groups: true,
        atomic: true,
        brefs: true,
        conds: true,
        empty_loops,
    }
}

pub fn all_patterns(cfg: &Cfg) -> Vec<String> {
    let thorough = cfg.tier == "thorough";
    let mut pats: Vec<String> = Vec::new();

    // (a) the malformed stream of C06
    let voc = vocabulary();
    let mut big: Vec<&'static str> = voc.clone();
    big.extend(vocabulary_extra());
    for a in &big {
        pats.push(a.to_string());
        for b in &big {
            pats.push(format!("{}{}", a, b));
        }
    }
    let mut r = Rng(cfg.seed ^ 0xc06);
    if thorough {
        for a in &voc {
            for b in &voc {
                for c in &voc {
                    pats.push(format!("{}{}{}", a, b, c));
                }
            }
        }
    } else {
        for _ in 0..120000 {
            pats.push(format!("{}{}{}", r.pick(&voc), r.pick(&voc), r.pick(&voc)));
        }
    }
    for _ in 0..(if thorough { 400000 } else { 60000 }) {
        let n = 4 + r.below(6);
        pats.push((0..n).map(|_| *r.pick(&voc)).collect::<Vec<_>>().join(""));
    }
    // the same over the larger vocabulary
    for _ in 0..(if thorough { 1500000 } else { 150000 }) {
        let n = 3 + r.below(6);
        pats.push((0..n).map(|_| *r.pick(&big)).collect::<Vec<_>>().join(""));
    }
    // character level: every string up to length 3 (thorough: 4 over the core) over the syntax
    // characters, and random longer ones
    let chars: Vec<char> = "()[]{}?*+|\\^$.#-,:<>=!'PkgxuiUsm012abn_ \n&pdhKGAzZbBeé日😀".chars().collect();
    let core: Vec<char> = "()[]{}?*+|\\^$#-,:<>=!'Pkgxi1né \n".chars().collect();
    pats.extend(all_texts(&chars, 3));
    if thorough {
        pats.extend(all_texts(&core, 4));
    }
    for _ in 0..(if thorough { 2000000 } else { 200000 }) {
        let n = 4 + r.below(11);
        pats.push((0..n).map(|_| *r.pick(&chars)).collect());
    }
    for _ in 0..(if thorough { 1000000 } else { 100000 }) {
        let n = 4 + r.below(9);
        pats.push((0..n).map(|_| *r.pick(&core)).collect());
    }
    let valid = crate::engine::patterns("c15", "quick", cfg.seed);
    for _ in 0..(if thorough { 400000 } else { 60000 }) {
        let p = r.pick(&valid).clone();
        let cs: Vec<char> = p.chars().collect();
        if cs.is_empty() {
            continue;
        }
        let k = r.below(cs.len());
        let m: String = match r.below(3) {
            0 => cs.iter().enumerate().filter(|(i, _)| *i != k).map(|(_, c)| *c).collect(),
            1 => cs.iter().enumerate().flat_map(|(i, c)| if i == k { vec![*c, *c] } else { vec![*c] }).collect(),
            _ => {
                let tok = r.pick(&big);
                cs.iter().enumerate().map(|(i, c)| if i == k { tok.to_string() } else { c.to_string() }).collect()
            }
        };
        pats.push(m);
    }
    // long and deep inputs
    for n in [100usize, 1000, 5000] {
        pats.push("a".repeat(n));
        pats.push("(a)".repeat(n.min(1000)));
        pats.push(format!("{}a{}", "(".repeat(n), ")".repeat(n)));
        pats.push(format!("{}a{}", "(?:".repeat(n), ")".repeat(n)));
        pats.push(format!("{}a{}", "(?=".repeat(n), ")".repeat(n)));
        pats.push("(?#c)".repeat(n));
        pats.push(format!("(?x){}", " ".repeat(n)));
        pats.push(format!("a{}", "*".repeat(n)));
        pats.push(format!("a{}", "?".repeat(n)));
        pats.push(format!("[{}]", "a".repeat(n)));
        pats.push("[".repeat(n));
        pats.push(format!("(?(a){}", "(?(a)".repeat(n.min(500))));
        pats.push(format!("\\k<{}>", "9".repeat(n)));
        pats.push(format!("a{{{}}}", "9".repeat(n)));
        pats.push("a|".repeat(n));
        pats.push("é".repeat(n));
        pats.push(format!("[{}]", "[é".repeat(n)));
    }
    for open in ["(", "(?:", "(?=", "(?<=", "(?>", "(?i:", "(?<n>", "(?(a)", "(?x:", "(?-i:", "[", "(?((", "a|("] {
        for n in [62usize, 63, 64, 65, 20000] {
            pats.push(open.repeat(n));
            pats.push(format!("{}a{}", open.repeat(n), ")".repeat(n)));
        }
    }

    // (b) the valid patterns of the spaces used by the checks
    for space in ["c01", "c05", "c15", "c16", "c19"] {
        pats.extend(crate::engine::patterns(space, &cfg.tier, cfg.seed));
    }

    // (c) every respelling of the C19 / parse-tree ASTs
    let g = full_grammar(false);
    let mut small = g.clone();
    small.atoms = atoms_core();
    small.quants = quants_core();
    small.conds = false;
    let mut asts: Vec<P> = Vec::new();
    let mut memo = Vec::new();
    for n in 1..=3 {
        asts.extend(small.exact(n, &mut memo));
    }
    for f in fillers() {
        if !format!("{:?}", f).contains("Raw") {
            asts.push(f.clone());
            asts.push(cat(vec![grp(f.clone()), P::Bref(1)]));
            asts.push(cat(vec![grp(lit('a')), grp(f.clone()), P::Bref(2), P::Bref(1)]));
            asts.push(cat(vec![opt(grp(f.clone())), cond(P::Exists(1), lit('a'), lit('b'))]));
        }
    }
    let mut r19 = Rng(cfg.seed ^ 0xc19);
    for _ in 0..(if thorough { 6000 } else { 1200 }) {
        let mut groups = 0;
        let depth = 2 + r19.below(3);
        let p = g.random(&mut r19, depth, &mut groups);
        let total = count_groups(&p);
        asts.push(clamp_refs(&p, total));
    }
    let ge = full_grammar(true);
    let ctxs = contexts(true);
    for c in &ctxs {
        for f in fillers() {
            if !format!("{:?}", f).contains("Raw") {
                asts.push(c(&f));
            }
        }
    }
    let mut r7 = Rng(cfg.seed ^ 0x7ee);
    for _ in 0..(if thorough { 60000 } else { 8000 }) {
        let mut groups = 0;
        let depth = 2 + r7.below(3);
        let p = ge.random(&mut r7, depth, &mut groups);
        let total = count_groups(&p);
        asts.push(clamp_refs(&p, total));
    }
    let sts = styles();
    for (i, ast) in asts.iter().enumerate() {
        let base = spell(ast, &BASE);
        if base.len() > 80 {
            continue;
        }
        pats.push(to_string(ast));
        for st in &sts {
            pats.push(spell(ast, st));
        }
        if i % 5 == 0 {
            pats.extend(flag_spellings(ast));
        }
        pats.push(base);
    }

    // (d) escape(s) for the C17 strings, alone and in the C17 hosts
    let alphabet = [
        '\\', '.', '+', '*', '?', '(', ')', '|', '[', ']', '{', '}', '^', '$', '#', 'a', 'b', '1', ' ', '\n', '-', '&', '~', 'é', '日', '😀', ',', ':', '<', '>',
        '=', '!', 'P', 'x', 'i',
    ];
    let mut strings = all_texts(&alphabet, if thorough { 3 } else { 2 });
    let core = ['\\', '.', '*', '?', '(', ')', '|', '[', ']', '{', '}', '^', '$', '#', 'a', '1', ' ', 'é'];
    strings.extend(all_texts(&core, if thorough { 4 } else { 3 }));
    let mut r17 = Rng(cfg.seed ^ 0xc17);
    for _ in 0..(if thorough { 40000 } else { 5000 }) {
        let n = 4 + r17.below(8);
        strings.push((0..n).map(|_| *r17.pick(&alphabet)).collect());
    }
    strings.sort();
    strings.dedup();
    for (i, st) in strings.iter().enumerate() {
        let esc = fancy_regex::escape(st).to_string();
        // the raw string is a test input as well
        pats.push(st.clone());
        if i % 4 == 0 {
            pats.push(format!("(?:{})", esc));
            pats.push(format!("(?={}){}", esc, esc));
            pats.push(format!("({})\\1", esc));
            pats.push(format!("(?<=\u{1}){}", esc));
            pats.push(format!("(?x){}", esc));
            pats.push(format!("[{}]", esc));
        }
        pats.push(esc);
    }

    // (e) multi-byte characters in every syntactic position
    pats.extend(multibyte_positions());

    // (f) the string literals of the crate's own parser tests and integration tests
    let repo = std::env::var("FANCY_REPO").unwrap_or_else(|_| "/repo".to_string());
    let mut files = vec![format!("{}/src/parse.rs", repo), format!("{}/src/lib.rs", repo), format!("{}/src/analyze.rs", repo), format!("{}/src/compile.rs", repo)];
    if let Ok(rd) = std::fs::read_dir(format!("{}/tests", repo)) {
        let mut v: Vec<String> = rd.filter_map(|e| e.ok()).map(|e| e.path().to_string_lossy().to_string()).filter(|p| p.ends_with(".rs")).collect();
        v.sort();
        files.extend(v);
    }
    for f in files {
        if let Ok(src) = std::fs::read_to_string(&f) {
            let mut lits = Vec::new();
            harvest_literals(&src, &mut lits);
            pats.extend(lits.into_iter().filter(|l| l.len() <= 300));
        }
    }

    pats.sort();
    pats.dedup();
    pats
}

pub fn run(cfg: &Cfg) {
    if cfg.space == "dump-alnum" {
        dump_alnum();
        return;
    }
    let mut s = Session::new(&cfg.out);
    // the alphanumeric table, block by block
    let block = 0x1000u32;
    let mut k = 0;
    let mut lo = 0u32;
    while lo < 0x110000 {
        if k % cfg.nshards == cfg.shard {
            let r = alnum_ranges(lo, lo + block);
            let v: Vec<String> = r.iter().map(|(a, b)| format!("{}-{}", a, b)).collect();
            s.line(&format!("alnum\t{}\t{}", lo, lo + block), &format!("ranges {}", v.join(",")));
            s.count("alnum_blocks");
        }
        lo += block;
        k += 1;
    }
    let pats = all_patterns(cfg);
    for (i, p) in pats.iter().enumerate() {
        if i % cfg.nshards != cfg.shard {
            continue;
        }
        s.count("patterns");
        for casei in [false, true] {
            let a = answer(p, casei);
            let class = a.split(' ').take(if a.starts_with("err") { 2 } else { 1 }).collect::<Vec<_>>().join("_");
            s.count(&format!("answer_{}", class));
            if let Some(rest) = a.strip_prefix("err ") {
                let mut it = rest.split(' ');
                let _kind = it.next();
                if let Some(pos) = it.next().and_then(|x| x.parse::<usize>().ok()) {
                    if pos > p.len() {
                        s.violation("C06", "error-position", &[("pattern", p.clone()), ("detail", format!("position {} > length {}", pos, p.len()))]);
                    }
                }
            }
            if a == "panic" {
                s.violation("C06", "panic", &[("pattern", p.clone())]);
            }
            s.line(&format!("parse\t{}\t{}", hex(p), casei as u8), &a);
        }
    }
    s.finish();
}
