//! C19: documented-equivalent spellings. A pattern AST is printed in a base spelling and in
//! several respellings; the trees must be equal and every search result identical.

use crate::engine::{texts, Cfg};
use crate::pat::*;
use crate::session::*;
use crate::wire::*;
use fancy_regex::verif_hooks as hooks;
use std::collections::HashSet;

#[derive(Clone, Copy, PartialEq, Eq, Debug)]
pub enum GroupStyle {
    Num,
    Angle,
    PAngle,
}

#[derive(Clone, Copy, PartialEq, Eq, Debug)]
pub enum RefStyle {
    Num,
    KAngle,
    KQuote,
    PEq,
    Relative,
}

#[derive(Clone, Copy, Debug)]
pub struct Style {
    pub name: &'static str,
    pub free: bool,
    pub comment: bool,
    pub groups: GroupStyle,
    pub refs: RefStyle,
    pub poss_atomic: bool,
    pub escapes: bool,
    pub scoped_flags: bool,
}

pub const BASE: Style = Style {
    name: "base",
    free: false,
    comment: false,
    groups: GroupStyle::Num,
    refs: RefStyle::Num,
    poss_atomic: false,
    escapes: false,
    scoped_flags: false,
};

pub fn styles() -> Vec<Style> {
    vec![
        Style { name: "free-spacing", free: true, ..BASE },
        Style { name: "comments", comment: true, ..BASE },
        Style { name: "named-angle", groups: GroupStyle::Angle, refs: RefStyle::KAngle, ..BASE },
        Style { name: "named-P", groups: GroupStyle::PAngle, refs: RefStyle::PEq, ..BASE },
        Style { name: "named-quote-ref", groups: GroupStyle::Angle, refs: RefStyle::KQuote, ..BASE },
        Style { name: "relative-ref", refs: RefStyle::Relative, ..BASE },
        Style { name: "possessive-as-atomic", poss_atomic: true, ..BASE },
        Style { name: "escapes", escapes: true, ..BASE },
        Style { name: "scoped-flags", scoped_flags: true, ..BASE },
        Style { name: "all", free: true, comment: true, groups: GroupStyle::Angle, refs: RefStyle::KAngle, poss_atomic: true, escapes: true, scoped_flags: true },
    ]
}

struct Pr<'a> {
    st: &'a Style,
    out: String,
    opened: usize,
    tick: usize,
}

impl<'a> Pr<'a> {
    fn sep(&mut self) {
        self.tick += 1;
        if self.st.free {
            match self.tick % 3 {
                0 => self.out.push(' '),
                1 => self.out.push_str(" #c\n"),
                _ => self.out.push_str("\t\n"),
            }
        }
        if self.st.comment && self.tick % 2 == 0 {
            self.out.push_str("(?#c)");
        }
    }

    fn lit(&mut self, c: char) {
        if self.st.escapes {
            match c {
                'a' => return self.out.push_str("\\x61"),
                'b' => return self.out.push_str("\\x{62}"),
                'c' => return self.out.push_str("\\u0063"),
                'é' => return self.out.push_str("\\x{e9}"),
                '-' => return self.out.push_str("\\-"),
                _ => {}
            }
        }
        match c {
            '\n' => self.out.push_str("\\n"),
            '\\' | '.' | '+' | '*' | '?' | '(' | ')' | '|' | '[' | ']' | '{' | '}' | '^' | '$' | '#' => {
                self.out.push('\\');
                self.out.push(c)
            }
            ' ' => self.out.push_str("\\ "),
            c => self.out.push(c),
        }
    }

    fn gref(&mut self, g: usize) -> String {
        match self.st.refs {
            RefStyle::Num => format!("\\{}", g),
            RefStyle::KAngle => {
                if self.st.groups == GroupStyle::Num {
                    format!("\\k<{}>", g)
                } else {
                    format!("\\k<n{}>", g)
                }
            }
            RefStyle::KQuote => format!("\\k'n{}'", g),
            RefStyle::PEq => format!("(?P=n{})", g),
            RefStyle::Relative => {
                if g <= self.opened && g >= 1 {
                    format!("\\k<-{}>", self.opened + 1 - g)
                } else {
                    format!("\\{}", g)
                }
            }
        }
    }

    fn show(&mut self, p: &P, prec: u8) {
        use P::*;
        match p {
            Empty => {
                if prec >= 3 {
                    self.out.push_str("(?:)")
                }
            }
            Lit(c) => self.lit(*c),
            Any => self.out.push('.'),
            AnyNl => {
                if self.st.scoped_flags {
                    self.out.push_str("(?s:.)")
                } else {
                    self.out.push_str("(?s:.)")
                }
            }
            Cls(s) => {
                if self.st.escapes && *s == "\\h" {
                    self.out.push_str("[0-9A-Fa-f]")
                } else {
                    self.out.push_str(s)
                }
            }
            As(s) => {
                if self.st.escapes {
                    match *s {
                        "^" => return self.out.push_str("\\A"),
                        "$" => return self.out.push_str("\\z"),
                        "\\A" => return self.out.push('^'),
                        "\\z" => return self.out.push('$'),
                        _ => {}
                    }
                }
                self.out.push_str(s)
            }
            Raw(s) => self.out.push_str(s),
            K => self.out.push_str("\\K"),
            G => self.out.push_str("\\G"),
            Bref(n) => {
                let r = self.gref(*n);
                self.out.push_str(&r)
            }
            Exists(n) => {
                let named = self.st.groups != GroupStyle::Num;
                if named {
                    self.out.push_str(&format!("(?(<n{}>))", n))
                } else {
                    self.out.push_str(&format!("(?({}))", n))
                }
            }
            Cat(v) => {
                let wrap = prec > 2;
                if wrap {
                    self.out.push_str("(?:");
                }
                for x in v {
                    self.sep();
                    self.show(x, 2);
                }
                if wrap {
                    self.out.push(')');
                }
            }
            Alt(v) => {
                let wrap = prec > 0;
                if wrap {
                    self.out.push_str("(?:");
                }
                for (i, x) in v.iter().enumerate() {
                    if i > 0 {
                        self.out.push('|');
                    }
                    self.show(x, 1);
                }
                if wrap {
                    self.out.push(')');
                }
            }
            Grp(x) | Named(_, x) => {
                self.opened += 1;
                let k = self.opened;
                match self.st.groups {
                    GroupStyle::Num => self.out.push('('),
                    GroupStyle::Angle => self.out.push_str(&format!("(?<n{}>", k)),
                    GroupStyle::PAngle => self.out.push_str(&format!("(?P<n{}>", k)),
                }
                self.show(x, 0);
                self.out.push(')');
            }
            Look(k, x) => {
                self.out.push_str("(?");
                self.out.push_str(k);
                self.show(x, 0);
                self.out.push(')');
            }
            Rep(x, lo, hi, m) => {
                let poss_as_atomic = self.st.poss_atomic && *m == Mode::Poss;
                if poss_as_atomic {
                    self.out.push_str("(?>");
                }
                let needs_group = matches!(**x, Rep(..) | Look(..) | As(_) | Empty | K | G | Exists(_) | Cond(..) | Bref(_) | Cat(_) | Alt(_));
                if needs_group {
                    self.out.push_str("(?:");
                    self.show(x, 0);
                    self.out.push(')');
                } else {
                    self.show(x, 3);
                }
                if self.st.free {
                    self.out.push(' ');
                }
                match (lo, hi) {
                    (0, Some(1)) => self.out.push('?'),
                    (0, None) => self.out.push('*'),
                    (1, None) => self.out.push('+'),
                    (lo, Some(hi)) if lo == hi => self.out.push_str(&format!("{{{}}}", lo)),
                    (lo, Some(hi)) => self.out.push_str(&format!("{{{},{}}}", lo, hi)),
                    (lo, None) => self.out.push_str(&format!("{{{},}}", lo)),
                }
                match m {
                    Mode::Greedy => {}
                    Mode::Lazy => self.out.push('?'),
                    Mode::Poss => {
                        if poss_as_atomic {
                            self.out.push(')')
                        } else {
                            self.out.push('+')
                        }
                    }
                }
            }
            Atomic(x) => {
                self.out.push_str("(?>");
                self.show(x, 0);
                self.out.push(')');
            }
            Cond(c, y, n) => {
                self.out.push_str("(?");
                match **c {
                    Exists(g) => {
                        if self.st.groups != GroupStyle::Num {
                            self.out.push_str(&format!("(<n{}>)", g))
                        } else {
                            self.out.push_str(&format!("({})", g))
                        }
                    }
                    _ => {
                        self.out.push('(');
                        self.show(c, 0);
                        self.out.push(')');
                    }
                }
                self.show(y, 1);
                self.out.push('|');
                self.show(n, 1);
                self.out.push(')');
            }
            Flag(f, x) => {
                self.out.push_str("(?");
                self.out.push_str(f);
                self.out.push(':');
                self.show(x, 0);
                self.out.push(')');
            }
        }
    }
}

pub fn spell(p: &P, st: &Style) -> String {
    let mut pr = Pr { st, out: String::new(), opened: 0, tick: 0 };
    if st.free {
        pr.out.push_str("(?x)");
    }
    pr.show(p, 0);
    if st.free {
        // a free-spacing comment may run to the end of the pattern without a newline
        pr.out.push_str(" # tail");
    }
    pr.out
}

/// whole-pattern flag: `(?i:P)` vs `(?i)P` (both spellings built from the base printer)
fn flag_spellings(p: &P) -> Vec<(String, String)> {
    let base = spell(p, &BASE);
    let v = vec![
        (format!("(?i:{})", base), format!("(?i){}", base)),
        (format!("(?s:{})", base), format!("(?s){}", base)),
        (format!("(?m:{})", base), format!("(?m){}", base)),
        (format!("(?U:{})", base), format!("(?U){}", base)),
        (format!("a(?i:{})", base), format!("a(?:(?i){})", base)),
        // \A and \z are not affected by the multi-line flag
        (format!("(?m:{})", base), format!("(?m:{})", base.replace("\\z", "(?-m:$)").replace("\\A", "(?-m:^)"))),
        (format!("(?m)a\\z|{}", base), format!("(?m)a(?-m:$)|{}", base)),
        (format!("(?m)\\A{}", base), format!("(?m)(?-m:^){}", base)),
    ];
    // a respelling must stay equivalent under every flag: escapes under (?i), possessive vs atomic under (?U), ...
    let mut v = v;
    for st in styles() {
        if st.free || st.comment || !(st.escapes || st.poss_atomic) {
            continue;
        }
        let alt = spell(p, &st);
        if alt == base {
            continue;
        }
        for fl in ["i", "U", "iU", "s", "m", "x"] {
            if fl == "m" && st.escapes {
                continue; // the escapes style writes `^`/`$` as `\A`/`\z`, which is the same only without (?m)
            }
            v.push((format!("(?{}){}", fl, base), format!("(?{}){}", fl, alt)));
            v.push((format!("(?{}:{})", fl, base), format!("(?{}:{})", fl, alt)));
        }
    }
    v
}

/// the case-insensitivity mark is meaningless on content without case: a literal made of caseless
/// characters, the hex-digit class (closed under case). Normalise it away before comparing trees of
/// spellings that sit under `(?i)`.
fn norm_casei(tree: &str) -> String {
    tree.split(' ')
        .map(|tok| {
            let f: Vec<&str> = tok.split(':').collect();
            if f.len() == 3 && f[0] == "lit" {
                let caseless = crate::wire::unhex(f[1]).chars().all(|c| c.to_lowercase().eq(c.to_uppercase()));
                if caseless {
                    return format!("lit:{}:0", f[1]);
                }
            }
            if f.len() == 4 && f[0] == "del" && f[1] == "5b302d39412d46612d665d" {
                return format!("del:{}:{}:0", f[1], f[2]);
            }
            tok.to_string()
        })
        .collect::<Vec<_>>()
        .join(" ")
}

fn tree_of(p: &str) -> Option<(String, String)> {
    match hooks::parse_tree(p, false) {
        Ok(t) => {
            let mut toks = Vec::new();
            tree_tokens(&t.expr, &mut toks);
            let mut br: Vec<usize> = t.backrefs.iter().collect();
            br.sort();
            Some((toks.join(" "), format!("{:?}", br)))
        }
        Err(e) => Some((error_name(&e), String::new())),
    }
}

pub fn run_c19(cfg: &Cfg) {
    let mut s = Session::new(&cfg.out);
    let thorough = cfg.tier == "thorough";
    let g = Grammar {
        atoms: {
            let mut v = atoms_full();
            v.retain(|a| !matches!(a, P::Raw(_)));
            v
        },
        quants: quants_full(),
        modes: vec![Mode::Greedy, Mode::Lazy, Mode::Poss],
        looks: vec!["=", "!", "<=", "<!"],
        groups: true,
        atomic: true,
        brefs: true,
        conds: true,
        empty_loops: false,
    };
    let mut small = g.clone();
    small.atoms = atoms_core();
    small.quants = quants_core();
    small.conds = false;
    let mut asts: Vec<P> = Vec::new();
    let mut memo = Vec::new();
    for n in 1..=3 {
        asts.extend(small.exact(n, &mut memo));
    }
    for f in fillers() {
        if !format!("{:?}", f).contains("Raw") {
            asts.push(f.clone());
            asts.push(cat(vec![grp(f.clone()), P::Bref(1)]));
            asts.push(cat(vec![grp(lit('a')), grp(f.clone()), P::Bref(2), P::Bref(1)]));
            asts.push(cat(vec![opt(grp(f.clone())), cond(P::Exists(1), lit('a'), lit('b'))]));
        }
    }
    let mut r = Rng(cfg.seed ^ 0xc19);
    for _ in 0..(if thorough { 6000 } else { 1200 }) {
        let mut groups = 0;
        let depth = 2 + r.below(3);
        let p = g.random(&mut r, depth, &mut groups);
        let total = count_groups(&p);
        asts.push(clamp_refs(&p, total));
    }
    let txts: Vec<String> = texts("c01", "quick").into_iter().filter(|t| t.chars().count() <= 4).collect();
    let opts = Opts::default();
    let sts = styles();
    let mut seen = HashSet::new();
    for (i, ast) in asts.iter().enumerate() {
        if i % cfg.nshards != cfg.shard {
            continue;
        }
        let base = spell(ast, &BASE);
        if base.len() > 60 || !seen.insert(base.clone()) {
            continue;
        }
        let bb = s.pattern(&base, &opts, false, false);
        let base_tree = tree_of(&base);
        // the tree the documented parse rules give for this AST (independent of the parser)
        if let (Some(exp), Some((got, _))) = (expect_tree(ast), base_tree.as_ref()) {
            s.count("expected_tree_cases");
            let ok = match &exp {
                Expect::Tree(t) => *got == t.join(" "),
                Expect::Error(k) => got.starts_with(&format!("parse:{}", k)),
            };
            if !ok {
                let has_cond = base.contains("(?(");
                s.violation(
                    if has_cond { "C15" } else { "C19" },
                    "parse-tree",
                    &[("pattern", base.clone()), ("tree", got.clone()), ("expected_tree", format!("{:?}", exp))],
                );
            }
        }
        let base_ans: Option<Vec<String>> = bb.re.as_ref().map(|_| {
            let mut v = Vec::new();
            for t in &txts {
                for pos in boundaries(t) {
                    v.push(s.caps(&bb, t, pos, false, 1_000_000));
                }
            }
            v
        });
        s.count("base_patterns");
        let mut pairs: Vec<(&'static str, String, String)> = Vec::new();
        for st in &sts {
            let alt = spell(ast, st);
            if alt != base {
                pairs.push((st.name, base.clone(), alt));
            }
        }
        if i % 5 == 0 {
            for (a, b) in flag_spellings(ast) {
                pairs.push(("flag-scope", a, b));
            }
        }
        if i == 0 {
            // witness of known finding F19 (inline flags leak out of capturing groups), replayed as itself
            pairs.push(("flag-scope-in-group", "((?i)a)b".to_string(), "((?i:a))b".to_string()));
        }
        for (name, a, b) in pairs {
            s.count("respellings");
            let ta = if a == base { base_tree.clone() } else { tree_of(&a) };
            let tb = tree_of(&b);
            let (ta, tb) = if name == "flag-scope" {
                (ta.map(|(t, b)| (norm_casei(&t), b)), tb.map(|(t, b)| (norm_casei(&t), b)))
            } else {
                (ta, tb)
            };
            let is_err = |t: &Option<(String, String)>| t.as_ref().map(|x| x.0.starts_with("parse:") || x.0.starts_with("err:")).unwrap_or(true);
            if is_err(&ta) || is_err(&tb) {
                // both must fail alike (kind), otherwise one spelling is rejected
                let ka = ta.as_ref().map(|x| x.0.split(':').take(2).collect::<Vec<_>>().join(":"));
                let kb = tb.as_ref().map(|x| x.0.split(':').take(2).collect::<Vec<_>>().join(":"));
                if is_err(&ta) != is_err(&tb) {
                    s.violation("C19", "one-spelling-rejected", &[("style", name.to_string()), ("pattern", a.clone()), ("pattern2", b.clone()), ("detail", format!("{:?} vs {:?}", ka, kb))]);
                }
                continue;
            }
            if ta != tb {
                s.violation(
                    "C19",
                    "tree-differs",
                    &[("style", name.to_string()), ("pattern", a.clone()), ("pattern2", b.clone()), ("tree", ta.unwrap().0), ("tree2", tb.unwrap().0)],
                );
                continue;
            }
            // identical search results
            let ba = if a == base { None } else { Some(s.pattern(&a, &opts, false, false)) };
            let b2 = s.pattern(&b, &opts, false, false);
            let ra = if a == base { bb.re.is_some() } else { ba.as_ref().unwrap().re.is_some() };
            if ra != b2.re.is_some() {
                s.violation("C19", "builds-differ", &[("style", name.to_string()), ("pattern", a.clone()), ("pattern2", b.clone())]);
                continue;
            }
            if !ra {
                continue;
            }
            let mut k = 0;
            for t in &txts {
                for pos in boundaries(t) {
                    let x = if a == base { base_ans.as_ref().unwrap()[k].clone() } else { s.caps(ba.as_ref().unwrap(), t, pos, false, 1_000_000) };
                    let y = s.caps(&b2, t, pos, false, 1_000_000);
                    k += 1;
                    s.count("respelling_cases");
                    if x != y {
                        s.violation(
                            "C19",
                            "result-differs",
                            &[("style", name.to_string()), ("pattern", a.clone()), ("pattern2", b.clone()), ("text", t.clone()), ("pos", pos.to_string()), ("a", x), ("b", y)],
                        );
                    }
                }
            }
        }
    }
    s.finish();
}


/// expected-tree oracle alone (fast): every generated AST with conditionals at every position
pub fn run_parsetree(cfg: &Cfg) {
    let mut s = Session::new(&cfg.out);
    let thorough = cfg.tier == "thorough";
    let g = Grammar {
        atoms: {
            let mut v = atoms_full();
            v.retain(|a| !matches!(a, P::Raw(_)));
            v
        },
        quants: quants_full(),
        modes: vec![Mode::Greedy, Mode::Lazy, Mode::Poss],
        looks: vec!["=", "!", "<=", "<!"],
        groups: true,
        atomic: true,
        brefs: true,
        conds: true,
        empty_loops: true,
    };
    let mut small = g.clone();
    small.atoms = atoms_core();
    small.quants = quants_core();
    let mut asts: Vec<P> = Vec::new();
    let mut memo = Vec::new();
    for n in 1..=4 {
        asts.extend(small.exact(n, &mut memo));
    }
    let ctxs = contexts(true);
    for c in &ctxs {
        for f in fillers() {
            asts.push(c(&f));
        }
    }
    // a general condition that is itself a back-reference expression (`(?(\\1)y|n)`: matched, not a group test - F21),
    // bare, grouped, inside a concatenation, with and without the no-branch
    for c in [P::Bref(1), cat(vec![P::Bref(1)]), cat(vec![P::Bref(1), lit('b')]), grp(P::Bref(1)), opt(P::Bref(1))] {
        for (y, n) in [(lit('b'), lit('c')), (lit('b'), P::Empty), (P::Empty, lit('c')), (grp(lit('b')), cat(vec![lit('c'), lit('a')]))] {
            asts.push(cat(vec![grp(lit('a')), P::Cond(Box::new(c.clone()), Box::new(y.clone()), Box::new(n.clone()))]));
            asts.push(cat(vec![opt(grp(lit('a'))), P::Cond(Box::new(c.clone()), Box::new(y), Box::new(n)), lit('b')]));
        }
    }
    let mut r = Rng(cfg.seed ^ 0x7ee);
    for _ in 0..(if thorough { 200000 } else { 40000 }) {
        let mut groups = 0;
        let depth = 2 + r.below(3);
        let p = g.random(&mut r, depth, &mut groups);
        let total = count_groups(&p);
        asts.push(clamp_refs(&p, total));
    }
    for (i, ast) in asts.iter().enumerate() {
        if i % cfg.nshards != cfg.shard {
            continue;
        }
        let base = to_string(ast);
        if base.len() > 80 {
            continue;
        }
        if let (Some(exp), Some((got, _))) = (expect_tree(ast), tree_of(&base)) {
            s.count("expected_tree_cases");
            if base.contains("(?(") {
                s.count("expected_tree_cases_with_conditional");
            }
            let ok = match &exp {
                Expect::Tree(t) => got == t.join(" "),
                Expect::Error(k) => got.starts_with(&format!("parse:{}", k)),
            };
            if !ok {
                let has_cond = base.contains("(?(");
                s.violation(
                    if has_cond { "C15" } else { "C19" },
                    "parse-tree",
                    &[("pattern", base.clone()), ("tree", got.clone()), ("expected_tree", format!("{:?}", exp))],
                );
            }
        }
    }
    s.finish();
}
