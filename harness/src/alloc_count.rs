//! Counting global allocator (C06: allocation proportional to the pattern).
use std::alloc::{GlobalAlloc, Layout, System};
use std::sync::atomic::{AtomicU64, Ordering};

pub struct Counting;
static TOTAL: AtomicU64 = AtomicU64::new(0);

unsafe impl GlobalAlloc for Counting {
    unsafe fn alloc(&self, l: Layout) -> *mut u8 {
        TOTAL.fetch_add(l.size() as u64, Ordering::Relaxed);
        System.alloc(l)
    }
    unsafe fn dealloc(&self, p: *mut u8, l: Layout) {
        System.dealloc(p, l)
    }
    unsafe fn realloc(&self, p: *mut u8, l: Layout, n: usize) -> *mut u8 {
        if n > l.size() {
            TOTAL.fetch_add((n - l.size()) as u64, Ordering::Relaxed);
        }
        System.realloc(p, l, n)
    }
}

/// cumulative bytes requested from the allocator so far
pub fn allocated_since() -> u64 {
    TOTAL.load(Ordering::Relaxed)
}
pub fn reset_peak() {}
