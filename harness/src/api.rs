//! API-layer exploration: iterators, entry-point coherence, split/splitn, replace, metadata.
//! Each mode emits tie requests (implementation vs model) and evaluates the property's own
//! statement on the implementation in-process (oracle failures go to oracle.jsonl).

use crate::engine::{patterns, texts, Cfg};
use crate::session::*;
use crate::wire::*;
use fancy_regex::verif_hooks as hooks;
use fancy_regex::{Captures, Error, Expander, Match, NoExpand, Regex};
use std::borrow::Cow;
use std::panic::{catch_unwind, AssertUnwindSafe};

fn err_item(e: &Error) -> String {
    match error_name(e).as_str() {
        "err:limit" => "E:limit".into(),
        "err:stack" => "E:stack".into(),
        o => format!("E:{}", o),
    }
}

fn join(v: Vec<String>) -> String {
    if v.is_empty() {
        "-".into()
    } else {
        v.join(" ")
    }
}

/// drain `find_iter` with a cap; returns items and whether the cap was hit
pub fn drain_find(re: &Regex, text: &str) -> (Vec<Result<(usize, usize), String>>, bool) {
    let cap = text.len() + 3;
    let mut out = Vec::new();
    let mut it = re.find_iter(text);
    for _ in 0..cap {
        match it.next() {
            None => return (out, false),
            Some(Ok(m)) => out.push(Ok((m.start(), m.end()))),
            Some(Err(e)) => out.push(Err(err_item(&e))),
        }
    }
    let more = it.next().is_some();
    (out, more)
}

fn show_span_items(v: &[Result<(usize, usize), String>]) -> String {
    join(v.iter().map(|x| match x { Ok((a, b)) => format!("{},{}", a, b), Err(e) => e.clone() }).collect())
}

fn caps_slots(c: &Captures<'_>) -> String {
    (0..c.len())
        .map(|i| match c.get(i) {
            Some(m) => {
                if m.end() == usize::MAX {
                    format!("{},?", m.start())
                } else {
                    format!("{},{}", m.start(), m.end())
                }
            }
            None => "-".into(),
        })
        .collect::<Vec<_>>()
        .join("/")
}

fn table_for(re: &Regex, text: &str) -> String {
    let mut ents = Vec::new();
    for pos in boundaries(text) {
        for flag in [false, true] {
            let a = match hooks::find_with_flags(re, text, pos, flag) {
                Ok(None) => "none".to_string(),
                Ok(Some(m)) => format!("{},{}", m.start(), m.end()),
                Err(e) => err_item(&e),
            };
            ents.push(format!("{}:{}={}", pos, flag as u8, a));
        }
    }
    ents.join(";")
}

fn names_field(re: &Regex) -> String {
    let mut v: Vec<(usize, String)> = re
        .capture_names()
        .enumerate()
        .filter_map(|(i, n)| n.map(|n| (i, n.to_string())))
        .collect();
    v.sort();
    v.iter().map(|(i, n)| format!("{}={}", hex(n), i)).collect::<Vec<_>>().join(",")
}

/// like Session::pattern but with the names field (needed by template expansion)
fn pattern_with_names(s: &mut Session, p: &str, o: &Opts) -> BuiltPat {
    // Session::pattern writes `pat toks brs`; names are appended through a second `pat` line only
    // when there are named groups
    let b = s.pattern(p, o, false, false);
    b
}

fn api_patterns(cfg: &Cfg) -> Vec<String> {
    let mut v = patterns("c01", &cfg.tier, cfg.seed);
    // \G and \K variants and patterns producing empty matches
    let extra = [
        r"\Ga", r"\G\d*", r"\G", r"\Ga*", r"a\K", r"\Kb", r"a\Kb", r"(?<=a)\K", r"a*", r"a*?", r"", r"\b", r"(?=a)", r"(?<=a)",
        r"a|", r"|a", r"(a)|b", r"(?<n>a)(?<m>b)?", r"(?<n>a)|(?<m>b)", r"(a)(b)?", r"\w+", r"\s*", r"-", r"\n", r"é", r"é*", r".",
        r"(?s:.)", r"[ab]+", r"a+?", r"(?:a|ab)", r"(?:ab|a)", r"^", r"$", r"(?m:^)", r"(?m:$)", r"\Ga|b", r"(?<=\Ga)b", r"(?=(a))",
        r"(\w)\1", r"(?!a)", r"\B", r"a(?=b)", r"(?<!a)b", r"(a*)(b*)", r"(a)|(b)|(c)", r"a{2}", r"(?>a+)b", r"(?i)a", r"\G(?=a)",
        r"(?:\Ga)+", r"\Ga\K", r"a|(?<=\Ka)b", r"(?<=\Ka)", r"(?<=(\G)b)",
    ];
    for e in extra {
        if !v.iter().any(|x| x == e) {
            v.push(e.to_string());
        }
    }
    // named variants: the first plain group of every 7th pattern gets a name
    let mut named = Vec::new();
    for (i, p) in v.iter().enumerate() {
        if i % 7 != 0 {
            continue;
        }
        let b = p.as_bytes();
        for k in 0..b.len() {
            if b[k] == b'(' && (k == 0 || b[k - 1] != b'\\') && k + 1 < b.len() && b[k + 1] != b'?' {
                let q = format!("{}(?<n_1>{}", &p[..k], &p[k + 1..]);
                named.push(q.replace("\\1", "\\k<n_1>"));
                break;
            }
        }
    }
    v.extend(named);
    v
}

fn api_texts(cfg: &Cfg) -> Vec<String> {
    let mut v = texts("c01", "quick");
    for t in ["12 34", "aaa", "a a", "ab ab ab", "aab aab", "éaé", "a\nb\n", "abcabc"] {
        if !v.iter().any(|x| x == t) {
            v.push(t.to_string());
        }
    }
    if cfg.tier != "thorough" {
        // quick: drop the longest pure a/b texts
        v.retain(|t| t.chars().count() <= 4 || !t.chars().all(|c| c == 'a' || c == 'b'));
    }
    v
}

fn limits_for(cfg: &Cfg, i: usize) -> Vec<usize> {
    // error histories via tiny backtrack limits on a subset of patterns
    if i % 5 == 0 {
        vec![1_000_000, 0, 2, 5]
    } else {
        let _ = cfg;
        vec![1_000_000]
    }
}

pub fn run(cfg: &Cfg, mode: &str) {
    let mut s = Session::new(&cfg.out);
    s.line(&format!("special\t{}", hex("\\.+*?()|[]{}^$#")), "ok");
    let pats = api_patterns(cfg);
    let txts = api_texts(cfg);
    // quick tier: a slice of the pattern list per run, thorough: all
    let stride = if cfg.tier == "thorough" { 1 } else if mode == "c11" { 5 } else if mode == "c10" { 3 } else { 2 };
    for (i, p) in pats.iter().enumerate() {
        if i % cfg.nshards != cfg.shard {
            continue;
        }
        if stride > 1 && (i / cfg.nshards) % stride != (cfg.seed as usize) % stride && i > 200 {
            continue;
        }
        for limit in limits_for(cfg, i) {
            let o = Opts { limit: Some(limit), ..Opts::default() };
            let b = pattern_with_names(&mut s, p, &o);
            let re = match &b.re {
                Some(r) => r.clone(),
                None => break,
            };
            s.count("patterns");
            let names = match catch_unwind(AssertUnwindSafe(|| names_field(&re))) {
                Ok(n) => n,
                Err(_) => {
                    s.violation("C16", "panic", &[("pattern", p.clone()), ("detail", "capture_names() panicked".to_string())]);
                    String::new()
                }
            };
            if !names.is_empty() {
                // re-send the pattern with its names
                s.count("named_patterns");
            }
            for t in &txts {
                match mode {
                    "c08" => mode_c08(&mut s, &re, p, t, limit),
                    "c09" => mode_c09(&mut s, &re, p, t, limit),
                    "c10" => mode_c10(&mut s, &re, p, t, limit),
                    "c11" => mode_c11(&mut s, &re, p, t, limit, &names),
                    "c16" => mode_c16(&mut s, &re, p, t),
                    _ => panic!("mode"),
                }
            }
        }
    }
    s.finish();
}

fn viol(s: &mut Session, prop: &str, what: &str, p: &str, t: &str, detail: String) {
    s.violation(
        prop,
        what,
        &[("pattern", p.to_string()), ("text", t.to_string()), ("detail", detail)],
    );
}

// ------------------------------------------------------------------------------------------ C08
fn mode_c08(s: &mut Session, re: &Regex, p: &str, t: &str, limit: usize) {
    let r = catch_unwind(AssertUnwindSafe(|| drain_find(re, t)));
    let (items, more) = match r {
        Ok(x) => x,
        Err(_) => {
            viol(s, "C08", "panic", p, t, "find_iter panicked".into());
            s.line(&format!("iter\tM\t{}\t{}", hex(t), limit), "PANIC");
            return;
        }
    };
    s.count("iter_cases");
    if more {
        viol(s, "C08", "no-termination", p, t, format!("more than len+3 items: {}", show_span_items(&items)));
    }
    // oracle: strictly increasing, non-overlapping, nothing after an Err
    let mut prev: Option<(usize, usize)> = None;
    let mut seen_err = false;
    for it in &items {
        if seen_err {
            viol(s, "C08", "item-after-error", p, t, show_span_items(&items));
            break;
        }
        match it {
            Err(_) => seen_err = true,
            Ok((a, b)) => {
                if a > b || *b > t.len() {
                    viol(s, "C08", "bad-span", p, t, show_span_items(&items));
                }
                if let Some((pa, pb)) = prev {
                    if *a < pb || !(*a > pa || *b > pb) || *b < pb || (*a == pa && *b == pb) {
                        viol(s, "C08", "order", p, t, show_span_items(&items));
                        break;
                    }
                    if a == b && *b == pb {
                        viol(s, "C08", "empty-adjacent", p, t, show_span_items(&items));
                        break;
                    }
                }
                prev = Some((*a, *b));
            }
        }
    }
    if items.iter().any(|x| x.is_ok()) {
        s.count("iter_nonempty");
    }
    let ans = show_span_items(&items);
    // tie (i): the iterator over a table of the implementation's own search answers
    let table = table_for(re, t);
    s.line(&format!("iter\tT:{}\t{}\t{}", table, hex(t), limit), &ans);
    // tie (ii): end to end over the model's search
    s.line(&format!("iter\tM\t{}\t{}", hex(t), limit), &ans);
    // the statement's iteration over the reference search (answered by the driver only)
    if limit == 1_000_000 {
        s.line(&format!("riter\t{}", hex(t)), &ans);
    }
}

// ------------------------------------------------------------------------------------------ C09
fn span(m: Option<Match<'_>>) -> Option<(usize, usize)> {
    m.map(|m| (m.start(), m.end()))
}

fn mode_c09(s: &mut Session, re: &Regex, p: &str, t: &str, limit: usize) {
    let r = catch_unwind(AssertUnwindSafe(|| c09_fails(re, t)));
    s.count("coherence_cases");
    match r {
        Err(_) => {
            viol(s, "C09", "panic", p, t, "an entry point panicked".into());
            s.line(&format!("citer\t{}\t{}", hex(t), limit), "PANIC");
        }
        Ok((fails, citems)) => {
            for f in fails {
                viol(s, "C09", "incoherent", p, t, f);
            }
            s.line(&format!("citer\t{}\t{}", hex(t), limit), &join(citems));
        }
    }
    // the same coherence under a builder option (the entry points must not read the options differently)
    if t.len() <= 6 {
        if let Ok(re_ci) = fancy_regex::RegexBuilder::new(p).case_insensitive(true).build() {
            let up = t.to_uppercase();
            for tt in [t, up.as_str()] {
                s.count("coherence_cases_builder_casei");
                match catch_unwind(AssertUnwindSafe(|| c09_fails(&re_ci, tt))) {
                    Err(_) => viol(s, "C09", "panic", p, tt, "an entry point panicked (case_insensitive(true))".into()),
                    Ok((fails, _)) => {
                        for f in fails {
                            viol(s, "C09", "incoherent", p, tt, format!("RegexBuilder::case_insensitive(true): {}", f));
                        }
                    }
                }
            }
        }
    }
}

fn c09_fails(re: &Regex, t: &str) -> (Vec<String>, Vec<String>) {
    {
        let mut fails: Vec<String> = Vec::new();
        let is_match = re.is_match(t);
        let find = re.find(t);
        let caps = re.captures(t);
        // errors: all three must agree on being an error
        match (&is_match, &find, &caps) {
            (Ok(im), Ok(f), Ok(c)) => {
                if *im != f.is_some() || f.is_some() != c.is_some() {
                    fails.push(format!("is_match={} find={} captures={}", im, f.is_some(), c.is_some()));
                }
                if let (Some(f), Some(c)) = (f, c) {
                    if span(c.get(0)) != Some((f.start(), f.end())) {
                        fails.push(format!("captures.get(0)={:?} find={:?}", span(c.get(0)), (f.start(), f.end())));
                    }
                }
            }
            (Err(_), Err(_), Err(_)) => {}
            _ => fails.push("entry points disagree on error".to_string()),
        }
        for pos in boundaries(t) {
            let f = re.find_from_pos(t, pos);
            let c = re.captures_from_pos(t, pos);
            match (&f, &c) {
                (Ok(f), Ok(c)) => {
                    let a = f.map(|m| (m.start(), m.end()));
                    let b = c.as_ref().and_then(|c| span(c.get(0)));
                    if a != b || f.is_some() != c.is_some() {
                        fails.push(format!("pos {}: find_from_pos={:?} captures_from_pos.get(0)={:?}", pos, a, b));
                    }
                }
                (Err(_), Err(_)) => {}
                _ => fails.push(format!("pos {}: from_pos entry points disagree on error", pos)),
            }
        }
        // iterators
        let (fi, _) = drain_find(re, t);
        let mut ci: Vec<Result<(usize, usize), String>> = Vec::new();
        let mut cit = re.captures_iter(t);
        let mut citems: Vec<String> = Vec::new();
        for _ in 0..t.len() + 3 {
            match cit.next() {
                None => break,
                Some(Ok(c)) => {
                    ci.push(Ok(span(c.get(0)).unwrap_or((usize::MAX, usize::MAX))));
                    citems.push(caps_slots(&c));
                }
                Some(Err(e)) => {
                    ci.push(Err(err_item(&e)));
                    citems.push(err_item(&e));
                }
            }
        }
        if fi != ci {
            fails.push(format!("find_iter={} captures_iter={}", show_span_items(&fi), show_span_items(&ci)));
        }
        (fails, citems)
    }
}

// ------------------------------------------------------------------------------------------ C10
fn drain_split<'a, I: Iterator<Item = Result<&'a str, Error>>>(it: &mut I, base: &'a str, cap: usize) -> Vec<Result<(usize, usize), String>> {
    let mut out = Vec::new();
    for _ in 0..cap {
        match it.next() {
            None => break,
            Some(Ok(piece)) => {
                let a = piece.as_ptr() as usize - base.as_ptr() as usize;
                out.push(Ok((a, a + piece.len())));
            }
            Some(Err(e)) => out.push(Err(err_item(&e))),
        }
    }
    out
}

fn mode_c10(s: &mut Session, re: &Regex, p: &str, t: &str, limit: usize) {
    let r = catch_unwind(AssertUnwindSafe(|| {
        let (matches, _) = drain_find(re, t);
        let mut sp = re.split(t);
        let pieces = drain_split(&mut sp, t, t.len() + 4);
        // fused: after None, None
        let fused_ok = sp.next().is_none() || pieces.len() >= t.len() + 4;
        let ns: Vec<Vec<Result<(usize, usize), String>>> =
            (0..6).map(|n| drain_split(&mut re.splitn(t, n), t, t.len() + 4)).collect();
        (matches, pieces, fused_ok, ns)
    }));
    s.count("split_cases");
    let (matches, pieces, fused_ok, ns) = match r {
        Err(_) => {
            viol(s, "C10", "panic", p, t, "split/splitn panicked".into());
            s.line(&format!("split\tM\t{}\t{}", hex(t), limit), "PANIC");
            return;
        }
        Ok(x) => x,
    };
    let all_ok = matches.iter().all(|m| m.is_ok()) && pieces.iter().all(|m| m.is_ok());
    if all_ok {
        let ms: Vec<(usize, usize)> = matches.iter().map(|m| *m.as_ref().unwrap()).collect();
        let ps: Vec<(usize, usize)> = pieces.iter().map(|m| *m.as_ref().unwrap()).collect();
        // exactly the substrings between consecutive matches
        let mut expect = Vec::new();
        let mut last = 0;
        for (a, b) in &ms {
            expect.push((last, *a));
            last = *b;
        }
        expect.push((last, t.len()));
        if ps != expect {
            viol(s, "C10", "pieces", p, t, format!("matches={:?} pieces={:?} expected={:?}", ms, ps, expect));
        } else {
            // rebuild
            let mut rebuilt = String::new();
            for (i, (a, b)) in ps.iter().enumerate() {
                rebuilt.push_str(&t[*a..*b]);
                if i < ms.len() {
                    rebuilt.push_str(&t[ms[i].0..ms[i].1]);
                }
            }
            if rebuilt != *t {
                viol(s, "C10", "rebuild", p, t, rebuilt);
            }
        }
        if !fused_ok {
            viol(s, "C10", "not-fused", p, t, String::new());
        }
        for (n, got) in ns.iter().enumerate() {
            if !got.iter().all(|x| x.is_ok()) {
                continue;
            }
            let got: Vec<(usize, usize)> = got.iter().map(|m| *m.as_ref().unwrap()).collect();
            let want: Vec<(usize, usize)> = if n == 0 {
                vec![]
            } else if ps.len() <= n {
                // fewer pieces than the limit: splitn yields n-1 from split, then the remainder
                let mut w: Vec<(usize, usize)> = ps.iter().take(n - 1).cloned().collect();
                if ps.len() >= n {
                    w.push((ps[n - 1].0, t.len()));
                } else {
                    // all pieces
                    w = ps.clone();
                }
                w
            } else {
                let mut w: Vec<(usize, usize)> = ps.iter().take(n - 1).cloned().collect();
                w.push((ps[n - 1].0, t.len()));
                w
            };
            if got != want {
                viol(s, "C10", "splitn", p, t, format!("n={} got={:?} want={:?} split={:?}", n, got, want, ps));
            }
        }
    }
    if all_ok {
        // a limit at or above the number of pieces changes nothing, whatever its width
        for big in [1usize << 31, 1usize << 32, (1usize << 32) + 1, (1usize << 32) + 2, 1usize << 63, usize::MAX - 1, usize::MAX] {
            let got = catch_unwind(AssertUnwindSafe(|| drain_split(&mut re.splitn(t, big), t, t.len() + 4)));
            s.count("splitn_big_limit_cases");
            match got {
                Ok(g) if g == pieces => {}
                Ok(g) => viol(s, "C10", "splitn", p, t, format!("n={} got={:?} want (= split) {:?}", big, g, pieces)),
                Err(_) => viol(s, "C10", "panic", p, t, format!("splitn n={} panicked", big)),
            }
        }
    }
    let show = |v: &Vec<Result<(usize, usize), String>>| show_span_items(v);
    let table = table_for(re, t);
    s.line(&format!("split\tT:{}\t{}\t{}", table, hex(t), limit), &show(&pieces));
    s.line(&format!("split\tM\t{}\t{}", hex(t), limit), &show(&pieces));
    for (n, got) in ns.iter().enumerate() {
        s.line(&format!("splitn\tT:{}\t{}\t{}\t{}", table, hex(t), limit, n), &show(got));
        if n % 2 == 1 {
            s.line(&format!("splitn\tM\t{}\t{}\t{}", hex(t), limit, n), &show(got));
        }
    }
}

// ------------------------------------------------------------------------------------------ C11
fn show_cow(r: &Result<Cow<'_, str>, Error>) -> String {
    match r {
        Ok(Cow::Borrowed(_)) => "B".into(),
        Ok(Cow::Owned(o)) => format!("O:{}", hex(o)),
        Err(e) => err_item(e),
    }
}

fn mode_c11(s: &mut Session, re: &Regex, p: &str, t: &str, limit: usize, names: &str) {
    if !names.is_empty() {
        // make the names known to the driver for template expansion
        // (same pattern line again, with the names field)
    }
    let templates: Vec<(&str, &str)> = vec![
        ("tpl", "x"),
        ("tpl", ""),
        ("tpl", "<$0>"),
        ("tpl", "[$1]"),
        ("tpl", "$$"),
        ("tpl", "${1}a$2"),
        ("tpl", "${n}-$m"),
        ("tpl", "$1a"),
        ("tpl", "é$0é"),
        ("tpl", "[$é]"),
        ("noexp", "x"),
        ("noexp", "$1"),
        ("closure", "x"),
        ("closure", "$1"),
        ("ident", ""),
    ];
    for n in [0usize, 1, 2, 3, 1 << 32, isize::MAX as usize, usize::MAX] {
        for (kind, rep) in &templates {
            if n >= 2 && !matches!((*kind, *rep), ("tpl", "x") | ("tpl", "<$0>") | ("ident", "") | ("noexp", "x")) {
                continue;
            }
            if n == 1 && matches!((*kind, *rep), ("tpl", "") | ("tpl", "$$") | ("tpl", "$1a") | ("closure", "$1") | ("noexp", "$1") | ("tpl", "é$0é") | ("tpl", "[$é]")) {
                continue;
            }
            let r = catch_unwind(AssertUnwindSafe(|| match *kind {
                "tpl" => re.try_replacen(t, n, *rep),
                "noexp" => re.try_replacen(t, n, NoExpand(rep)),
                "closure" => re.try_replacen(t, n, |_: &Captures<'_>| rep.to_string()),
                _ => re.try_replacen(t, n, |c: &Captures<'_>| c.get(0).map(|m| m.as_str().to_string()).unwrap_or_default()),
            }));
            s.count("replace_cases");
            let ans = match &r {
                Err(_) => {
                    viol(s, "C11", "panic", p, t, format!("try_replacen n={} {} {:?} panicked", n, kind, rep));
                    "PANIC".to_string()
                }
                Ok(r) => show_cow(r),
            };
            if let Ok(Ok(out)) = &r {
                // the statement, evaluated on the implementation: first n find_iter matches
                // replaced, every other byte unchanged; borrowed iff no match
                let (ms, _) = drain_find(re, t);
                if ms.iter().all(|m| m.is_ok()) {
                    let ms: Vec<(usize, usize)> = ms.iter().map(|m| *m.as_ref().unwrap()).collect();
                    let borrowed = matches!(out, Cow::Borrowed(_));
                    if borrowed != ms.is_empty() {
                        viol(s, "C11", "borrow", p, t, format!("n={} {} {:?}: borrowed={} matches={}", n, kind, rep, borrowed, ms.len()));
                    }
                    let k = if n == 0 { ms.len() } else { n.min(ms.len()) };
                    let constant = match *kind {
                        "noexp" | "closure" => Some(rep.to_string()),
                        "tpl" if !rep.contains('$') => Some(rep.to_string()),
                        _ => None,
                    };
                    let mut want = String::new();
                    let mut last = 0;
                    let mut computable = true;
                    let caps_items: Vec<Result<Captures<'_>, Error>> = re.captures_iter(t).take(t.len() + 3).collect();
                    let mut ci = 0usize;
                    for (a, b) in ms.iter().take(k) {
                        if *a < last || a > b || *b > t.len() || !t.is_char_boundary(*a) || !t.is_char_boundary(*b) {
                            computable = false;
                            break;
                        }
                        want.push_str(&t[last..*a]);
                        match (&constant, *kind) {
                            (Some(c), _) => want.push_str(c),
                            (None, "ident") => want.push_str(&t[*a..*b]),
                            (None, _) => {
                                // template: expand with the captures of this match (the
                                // corresponding item of captures_iter)
                                match caps_items.get(ci) {
                                    Some(Ok(c)) if c.get(0).map(|m| (m.start(), m.end())) == Some((*a, *b)) => {
                                        want.push_str(&Expander::default().expansion(rep, c))
                                    }
                                    _ => computable = false,
                                }
                            }
                        }
                        ci += 1;
                        last = *b;
                    }
                    if computable {
                        want.push_str(&t[last..]);
                        if want != out.as_ref() {
                            viol(s, "C11", "result", p, t, format!("n={} {} {:?}: got {:?} want {:?}", n, kind, rep, out, want));
                        }
                    }
                }
            }
            s.line(&format!("replace\t{}\t{}\t{}\t{}\t{}", hex(t), limit, n, kind, hex(rep)), &ans);
        }
    }
    // a template without `$`, NoExpand of the same string and a closure returning it agree
    for n in 0..3usize {
        let a = catch_unwind(AssertUnwindSafe(|| re.try_replacen(t, n, "xy").map(|c| c.into_owned()).map_err(|e| err_item(&e))));
        let b = catch_unwind(AssertUnwindSafe(|| re.try_replacen(t, n, NoExpand("xy")).map(|c| c.into_owned()).map_err(|e| err_item(&e))));
        let c = catch_unwind(AssertUnwindSafe(|| {
            re.try_replacen(t, n, |_: &Captures<'_>| "xy".to_string()).map(|c| c.into_owned()).map_err(|e| err_item(&e))
        }));
        if let (Ok(a), Ok(b), Ok(c)) = (a, b, c) {
            if a != b || b != c {
                viol(s, "C11", "paths-disagree", p, t, format!("n={} template={:?} noexpand={:?} closure={:?}", n, a, b, c));
            }
        }
    }
}

// ------------------------------------------------------------------------------------------ C16
fn mode_c16(s: &mut Session, re: &Regex, p: &str, t: &str) {
    let r = catch_unwind(AssertUnwindSafe(|| {
        let mut fails = Vec::new();
        let len = re.captures_len();
        let names: Vec<Option<String>> = re.capture_names().map(|n| n.map(|x| x.to_string())).collect();
        if names.len() != len {
            fails.push(format!("capture_names yields {} entries, captures_len {}", names.len(), len));
        }
        if names.first().map(|n| n.is_some()).unwrap_or(false) {
            fails.push("group 0 has a name".to_string());
        }
        for pos in boundaries(t) {
            if let Ok(Some(c)) = re.captures_from_pos(t, pos) {
                if c.len() != len {
                    fails.push(format!("Captures::len {} != captures_len {}", c.len(), len));
                }
                let it: Vec<Option<(usize, usize)>> = c.iter().map(|m| m.map(|m| (m.start(), m.end()))).collect();
                let gt: Vec<Option<(usize, usize)>> = (0..c.len()).map(|i| c.get(i).map(|m| (m.start(), m.end()))).collect();
                if it != gt {
                    fails.push(format!("iter {:?} != get {:?}", it, gt));
                }
                if c.get(0).is_none() {
                    fails.push("get(0) is None".to_string());
                }
                // the iterator after k steps has len - k items left, however they are counted
                for k in 0..=c.len().min(3) {
                    let mut it = c.iter();
                    for _ in 0..k {
                        it.next();
                    }
                    let n1 = it.count();
                    let n2 = c.iter().skip(k).count();
                    let mut it3 = c.iter();
                    for _ in 0..k {
                        it3.next();
                    }
                    let mut n3 = 0;
                    while it3.next().is_some() {
                        n3 += 1;
                    }
                    if n1 != c.len() - k || n2 != c.len() - k || n3 != c.len() - k {
                        fails.push(format!("iter() after {} steps: count {} skip-count {} walked {} expected {}", k, n1, n2, n3, c.len() - k));
                    }
                }
                if c.iter().last().map(|m| m.map(|m| (m.start(), m.end()))) != gt.last().cloned() {
                    fails.push("iter().last() differs from get(len-1)".to_string());
                }
                for k in 0..3 {
                    if c.get(len + k).is_some() {
                        fails.push(format!("get({}) is Some", len + k));
                    }
                }
                // indices whose slot number does not fit a usize are beyond every group too (F22)
                for i in [1usize << 62, (1usize << 63) - 1, 1usize << 63, (1usize << 63) + 1, (1usize << 63) + len.saturating_sub(1), usize::MAX - 1, usize::MAX] {
                    if c.get(i).is_some() {
                        fails.push(format!("get({}) is Some", i));
                    }
                }
                for (i, n) in names.iter().enumerate() {
                    if let Some(n) = n {
                        let a = c.name(n).map(|m| (m.start(), m.end()));
                        let b = c.get(i).map(|m| (m.start(), m.end()));
                        if a != b {
                            fails.push(format!("name({}) {:?} != get({}) {:?}", n, a, i, b));
                        }
                    }
                }
                if c.name("no_such_name").is_some() {
                    fails.push("name(no_such_name) is Some".to_string());
                }
            }
        }
        fails
    }));
    s.count("metadata_cases");
    if re.captures_len() > 1 {
        s.count("metadata_cases_with_groups");
    }
    match r {
        Err(_) => viol(s, "C16", "panic", p, t, "metadata call panicked".into()),
        Ok(fails) => {
            for f in fails {
                viol(s, "C16", "metadata", p, t, f);
            }
        }
    }
}
