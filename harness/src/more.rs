//! C04 (differential against the `regex` crate), C06 (malformed-pattern stream), C14 (builder
//! options), C18 (concurrency), C19 (equivalent spellings).

use crate::engine::{texts, Cfg};
use crate::pat::*;
use crate::session::*;
use crate::wire::*;
use fancy_regex::verif_hooks as hooks;
use fancy_regex::{Captures, Regex, RegexBuilder};
use std::collections::HashSet;
use std::panic::{catch_unwind, AssertUnwindSafe};

// ------------------------------------------------------------------------------------------ C04

fn common_grammar() -> Grammar {
    Grammar {
        atoms: vec![
            lit('a'),
            lit('b'),
            lit('c'),
            lit('é'),
            P::Any,
            P::Cls("[ab]"),
            P::Cls("[^a]"),
            P::Cls("\\w"),
            P::Cls("\\d"),
            P::Cls("\\s"),
            P::Cls("\\W"),
            P::Cls("[a-c]"),
            P::As("^"),
            P::As("$"),
            P::As("\\b"),
            P::As("\\B"),
            P::As("\\A"),
            P::As("\\z"),
            P::As("(?m:^)"),
            P::As("(?m:$)"),
            P::Empty,
            P::AnyNl,
        ],
        // no `{0}`: the regex crate drops a zero-times repeat together with its capture groups
        // (F17), so such patterns do not mean the same in both crates
        quants: quants_full().into_iter().filter(|q| q.1 != Some(0)).collect(),
        modes: vec![Mode::Greedy, Mode::Lazy],
        looks: vec![],
        groups: true,
        atomic: false,
        brefs: false,
        conds: false,
        empty_loops: false,
    }
}

fn common_patterns(cfg: &Cfg) -> Vec<String> {
    let thorough = cfg.tier == "thorough";
    let mut seen = HashSet::new();
    let mut out = Vec::new();
    let mut push = |s: String, out: &mut Vec<String>| {
        if s.len() <= 60 && seen.insert(s.clone()) {
            out.push(s);
        }
    };
    // F1 witness through \b (known finding): kept out of the generated space, probed alone
    push(r"(?:|a)*\b".to_string(), &mut out);
    let g = common_grammar();
    let mut small = g.clone();
    small.atoms = vec![lit('a'), lit('b'), P::Any, P::Cls("[ab]"), P::Cls("\\w"), P::As("^"), P::As("$"), P::As("\\b"), P::As("\\B"), P::Empty];
    small.quants = quants_core();
    let mut memo = Vec::new();
    for n in 1..=(if thorough { 4 } else { 3 }) {
        for p in small.exact(n, &mut memo) {
            push(to_string(&p), &mut out);
        }
    }
    // every filler that is common syntax, alone and around word boundaries
    for f in fillers() {
        let s = to_string(&f);
        if s.contains("(?=") || s.contains("(?!") || s.contains("(?<") || s.contains("(?>") || s.contains("\\K") || s.contains("\\G") || s.contains("\\Z")
            || s.contains("*+") || s.contains("++") || s.contains("?+")
        {
            continue;
        }
        push(s.clone(), &mut out);
        push(format!("\\b{}", to_string(&P::Cat(vec![f.clone()]))), &mut out);
        push(format!("(?:{})\\b", s), &mut out);
        push(format!("\\B(?:{})", s), &mut out);
        push(format!("(?i){}", s), &mut out);
        push(format!("(?<n>{})\\b", s), &mut out);
    }
    for p in [
        r"(?x) a b # c", r"(?i)ab", r"(?i:a)b", r"(?s).", r"(?m)^a$", r"(?U)a+", r"(?U)a+?", r"(?P<x>a)(?P<y>b)?", r"(?<x>a)|(?<y>b)", r"\bab\b",
        r"\b\w+\b", r"(\w+)\s(\w+)", r"a{2,3}", r"a{2,3}?", r"(?i)É", r"(?i)[a-c]", r"(?i)[^a]", r"[^\W\d]", r"\w\b|\B.", r"(?m:^)\b", r"\b(?m:$)",
        r"(a|ab)(c|bcd)(d*)", r"(a*)(a|b)*\b", r"(a+)(b+)?\B", r"x*\b", r"\Bx*", r"(?:\b|a)+?b", r"(\b)a", r"(?:a\b)+", r"(?i)(?-i:a)b\b",
        // a loop the VM drives (word boundary in the body) around a delegated piece whose group is in one alternative only
        r"(?:(?:(a)|b)\b,?)+", r"(?:(?:(a)|(b))\b-?)+", r"(?:(?:a|(b))\B)+", r"(?:\b(?:(a)|b) ?)*", r"(?:(?:(a)|b|(c))\b ?)+?", r"(?:([ab])?\b.)+",
    ] {
        push(p.to_string(), &mut out);
    }
    let mut r = Rng(cfg.seed ^ 0xc04);
    let n = if thorough { 8000 } else { 1500 };
    let mut tries = 0;
    let mut got = 0;
    while got < n && tries < n * 20 {
        tries += 1;
        let mut groups = 0;
        let depth = 2 + r.below(3);
        let p = g.random(&mut r, depth, &mut groups);
        let mut s = to_string(&p);
        // flags on a share of the patterns
        match r.below(10) {
            0 => s = format!("(?i){}", s),
            1 => s = format!("(?m){}", s),
            2 => s = format!("(?s){}", s),
            3 => s = format!("(?U){}", s),
            4 => s = format!("\\b{}", if s.contains('|') { format!("(?:{})", s) } else { s }),
            _ => {}
        }
        let before = out.len();
        push(s, &mut out);
        if out.len() > before {
            got += 1;
        }
    }
    out
}

fn rx_caps(c: &regex::Captures<'_>) -> String {
    let parts: Vec<String> = (0..c.len())
        .map(|i| match c.get(i) {
            Some(m) => format!("{},{}", m.start(), m.end()),
            None => "-".to_string(),
        })
        .collect();
    format!("m {}", parts.join(" "))
}

fn fx_caps(c: &Captures<'_>) -> String {
    show_captures(c)
}

pub fn run_c04(cfg: &Cfg) {
    let mut s = Session::new(&cfg.out);
    let mut pats = common_patterns(cfg);
    // witnesses of known findings: replayed on their own text only
    pats.push("((?i)a)b".to_string());
    let mut txts = texts("c01", "quick");
    txts.retain(|t| t.chars().count() <= 4 || !t.chars().all(|c| c == 'a' || c == 'b'));
    for t in ["ab cd", "a1 b2", "Ab", "aB", "É", "éÉ", " a ", "a_b", "1a", "ab\ncd", "अ", "aअ", "अ ก", "ก", "ÿ a", "日a"] {
        txts.push(t.to_string());
    }
    let templates = ["x", "<$0>", "[$1]", "${1}a$2", "$n-$x", "$$"];
    let opts = Opts::default();
    // the builder option against the regex crate's builder option (inline negations inside): both paths
    if cfg.shard == 0 {
        for p in [
            r"foo(?-i:bar)", r"(?-i)abc", r"(?-i:a)b", r"a(?-i:[b-c]+)d", r"\b(?-i:[a-c]+)\b", r"(?-i:a)\bb?", r"(?:(?-i:a)|b)+\b", r"(?-i:é)É", r"(a)(?-i:(b))\B?",
            r"ab", r"\bab\b", r"[a-c]+\b",
        ] {
            let rx = regex::RegexBuilder::new(p).case_insensitive(true).build();
            let fx = RegexBuilder::new(p).case_insensitive(true).build();
            if let (Ok(rx), Ok(fx)) = (rx, fx) {
                for t in ["fooBAR FOObar foobar FOOBAR", "ABC abc Abc cab", "ab AB aB Ab", "aBBCd ABBCD abcd", "éÉ ÉÉ éé", "A b", "aB", "Ab"] {
                    s.count("builder_casei_vs_regex_crate");
                    let a: Vec<Option<(usize, usize)>> = fx.find_iter(t).take(t.len() + 3).map(|m| m.ok().map(|m| (m.start(), m.end()))).collect();
                    let b: Vec<Option<(usize, usize)>> = rx.find_iter(t).map(|m| Some((m.start(), m.end()))).collect();
                    let ca = fx.captures(t).ok().flatten().map(|c| fx_caps(&c)).unwrap_or("none".into());
                    let cb = rx.captures(t).map(|c| rx_caps(&c)).unwrap_or("none".into());
                    if a != b || ca != cb {
                        s.violation(
                            "C04",
                            "differential",
                            &[("pattern", p.to_string()), ("text", t.to_string()), ("detail", format!("RegexBuilder::case_insensitive(true): find_iter {:?} vs regex crate {:?}; captures {} vs {}", a, b, ca, cb))],
                        );
                    }
                }
            }
        }
    }
    for (i, p) in pats.iter().enumerate() {
        if i % cfg.nshards != cfg.shard {
            continue;
        }
        let rx = match regex::Regex::new(p) {
            Ok(r) => r,
            Err(_) => {
                s.count("regex_crate_rejects");
                continue;
            }
        };
        let b = s.pattern(p, &opts, false, false);
        let fx = match &b.re {
            Some(r) => r.clone(),
            None if b.answer.starts_with("parse:TargetNotRepeatable") => {
                // a quantified zero-width assertion: documented restriction, outside the common syntax
                s.count("outside_common_syntax");
                continue;
            }
            None => {
                // common syntax: must compile in both
                s.violation("C04", "compile", &[("pattern", p.clone()), ("detail", format!("regex crate compiles, fancy-regex: {}", b.answer))]);
                continue;
            }
        };
        s.count("patterns");
        let known_f1 = p == r"(?:|a)*\b";
        // F19: inline flags leak out of capturing groups (`((?i)a)b` also matches `aB`); outside the explored syntax
        let known_f19 = p == "((?i)a)b";
        // (a regex-crate pattern whose group sits under a zero-times repeat loses that group there)
        let zero_rep = p.contains("{0}") || p.contains("{0,0}");
        if !zero_rep && fx.captures_len() != rx.captures_len() {
            s.violation("C04", "captures_len", &[("pattern", p.clone()), ("detail", format!("{} vs {}", fx.captures_len(), rx.captures_len()))]);
        }
        let fnames: Vec<Option<String>> = fx.capture_names().map(|n| n.map(|x| x.to_string())).collect();
        let rnames: Vec<Option<String>> = rx.capture_names().map(|n| n.map(|x| x.to_string())).collect();
        if !zero_rep && fnames != rnames {
            s.violation("C04", "capture_names", &[("pattern", p.clone()), ("detail", format!("{:?} vs {:?}", fnames, rnames))]);
        }
        let witness_texts = vec![if known_f19 { "aB".to_string() } else { "a".to_string() }];
        for t in (if known_f1 || known_f19 { &witness_texts } else { &txts }) {
            s.count("texts");
            let r = catch_unwind(AssertUnwindSafe(|| {
                let mut diffs: Vec<(String, String, String)> = Vec::new();
                let mut d = |what: &str, a: String, b: String| {
                    if a != b {
                        diffs.push((what.to_string(), a, b));
                    }
                };
                d("is_match", format!("{:?}", fx.is_match(t).ok()), format!("{:?}", Some(rx.is_match(t))));
                d(
                    "find",
                    format!("{:?}", fx.find(t).ok().map(|m| m.map(|m| (m.start(), m.end())))),
                    format!("{:?}", Some(rx.find(t).map(|m| (m.start(), m.end())))),
                );
                d(
                    "captures",
                    fx.captures(t).ok().flatten().map(|c| fx_caps(&c)).unwrap_or("none".into()),
                    rx.captures(t).map(|c| rx_caps(&c)).unwrap_or("none".into()),
                );
                d(
                    "find_iter",
                    format!("{:?}", fx.find_iter(t).take(t.len() + 3).map(|m| m.ok().map(|m| (m.start(), m.end()))).collect::<Vec<_>>()),
                    format!("{:?}", rx.find_iter(t).map(|m| Some((m.start(), m.end()))).collect::<Vec<_>>()),
                );
                d(
                    "captures_iter",
                    format!("{:?}", fx.captures_iter(t).take(t.len() + 3).map(|c| c.ok().map(|c| fx_caps(&c))).collect::<Vec<_>>()),
                    format!("{:?}", rx.captures_iter(t).map(|c| Some(rx_caps(&c))).collect::<Vec<_>>()),
                );
                d(
                    "split",
                    format!("{:?}", fx.split(t).take(t.len() + 4).map(|p| p.ok().map(|x| x.to_string())).collect::<Vec<_>>()),
                    format!("{:?}", rx.split(t).map(|x| Some(x.to_string())).collect::<Vec<_>>()),
                );
                for n in 0..4 {
                    d(
                        &format!("splitn({})", n),
                        format!("{:?}", fx.splitn(t, n).take(t.len() + 4).map(|p| p.ok().map(|x| x.to_string())).collect::<Vec<_>>()),
                        format!("{:?}", rx.splitn(t, n).map(|x| Some(x.to_string())).collect::<Vec<_>>()),
                    );
                    for tpl in templates.iter() {
                        d(
                            &format!("replacen({},{:?})", n, tpl),
                            format!("{:?}", fx.try_replacen(t, n, *tpl).ok().map(|c| c.into_owned())),
                            format!("{:?}", Some(rx.replacen(t, n, *tpl).into_owned())),
                        );
                    }
                }
                d("replace", fx.replace(t, "<$0>").into_owned(), rx.replace(t, "<$0>").into_owned());
                d("replace_all", fx.replace_all(t, "<$0>").into_owned(), rx.replace_all(t, "<$0>").into_owned());
                diffs
            }));
            match r {
                Err(_) => s.violation("C04", "panic", &[("pattern", p.clone()), ("text", t.clone())]),
                Ok(diffs) => {
                    if !diffs.is_empty() {
                        s.count("differing_texts");
                    }
                    for (what, a, bb) in diffs.into_iter().take(1) {
                        let _ = known_f1;
                        s.violation(
                            "C04",
                            "differs-from-regex-crate",
                            &[("pattern", p.clone()), ("text", t.clone()), ("call", what), ("observed", a), ("expected", bb)],
                        );
                    }
                }
            }
            // ties: fancy-regex <-> model and regex crate <-> model (isolated check of A-RA)
            for pos in [0usize] {
                if known_f19 {
                    continue; // the model is fed fancy-regex's own parse tree, the regex crate parses differently here
                }
                let _ = s.caps(&b, t, pos, false, 1_000_000);
                let ra = rx.captures(t).map(|c| rx_caps(&c)).unwrap_or("none".into());
                s.line(&format!("capsR\t{}\t{}\t0\t1000000", hex(t), pos), &format!("{}\t0,0,0", ra));
            }
        }
    }
    s.finish();
}

// ------------------------------------------------------------------------------------------ C06

fn vocabulary() -> Vec<&'static str> {
    vec![
        "a", "é", "日", "😀", ".", "*", "+", "?", "|", "(", ")", "[", "]", "{", "}", "^", "$", "\\", "#", "-", ",", ":", "<", ">", "=", "!", "'", "P", "k", "g", "x",
        "u", "i", "0", "1", "9", "(?", "(?:", "(?=", "(?!", "(?<=", "(?<!", "(?>", "(?<n>", "(?P<n>", "(?P=n)", "(?P>n)", "(?(", "(?(1)", "(?#", "(?x)", "(?i)",
        "(?-", "\\k<", "\\k<n>", "\\k<-1>", "\\g<", "\\g<1>", "\\1", "\\99999999999", "\\k<99999999999>", "{2}", "{2,}", "{,2}", "{18446744073709551615}",
        "{99999999999999999999}", "\\x", "\\x{", "\\x{110000}", "\\u00", "\\U0001F600", "\\p{", "\\pL", "\\b{", "\\K", "\\G", "\\Z", "\\h", "\\e", "[^", "[]",
        "[a-", "&&", " ", "\n",
    ]
}

pub struct AllocProbe;

pub fn run_c06(cfg: &Cfg) {
    use crate::alloc_count::{allocated_since, reset_peak};
    let mut s = Session::new(&cfg.out);
    let thorough = cfg.tier == "thorough";
    let voc = vocabulary();
    let mut pats: Vec<String> = Vec::new();
    // all sequences up to length 2, and length 3 (quick: seeded sample; thorough: all)
    for a in &voc {
        pats.push(a.to_string());
        for b in &voc {
            pats.push(format!("{}{}", a, b));
        }
    }
    let mut r = Rng(cfg.seed ^ 0xc06);
    if thorough {
        for a in &voc {
            for b in &voc {
                for c in &voc {
                    pats.push(format!("{}{}{}", a, b, c));
                }
            }
        }
    } else {
        for _ in 0..120000 {
            pats.push(format!("{}{}{}", r.pick(&voc), r.pick(&voc), r.pick(&voc)));
        }
    }
    for _ in 0..(if thorough { 400000 } else { 60000 }) {
        let n = 4 + r.below(6);
        pats.push((0..n).map(|_| *r.pick(&voc)).collect::<Vec<_>>().join(""));
    }
    // mutations of valid patterns: delete / duplicate / replace one token-ish byte range
    let valid = crate::engine::patterns("c15", "quick", cfg.seed);
    for _ in 0..(if thorough { 200000 } else { 40000 }) {
        let p = r.pick(&valid).clone();
        let cs: Vec<char> = p.chars().collect();
        if cs.is_empty() {
            continue;
        }
        let k = r.below(cs.len());
        let m: String = match r.below(3) {
            0 => cs.iter().enumerate().filter(|(i, _)| *i != k).map(|(_, c)| *c).collect(),
            1 => cs.iter().enumerate().flat_map(|(i, c)| if i == k { vec![*c, *c] } else { vec![*c] }).collect(),
            _ => {
                let tok = r.pick(&voc);
                cs.iter().enumerate().map(|(i, c)| if i == k { tok.to_string() } else { c.to_string() }).collect()
            }
        };
        pats.push(m);
    }
    // resource probes: long and deep inputs (linear budgets)
    for n in [100usize, 1000, 5000] {
        pats.push("a".repeat(n));
        pats.push("(a)".repeat(n.min(1000)));
        pats.push(format!("{}a{}", "(".repeat(n), ")".repeat(n)));
        pats.push(format!("{}a{}", "(?:".repeat(n), ")".repeat(n)));
        pats.push(format!("{}a{}", "(?=".repeat(n), ")".repeat(n)));
        pats.push("(?#c)".repeat(n));
        pats.push(format!("(?x){}", " ".repeat(n)));
        pats.push(format!("a{}", "*".repeat(n)));
        pats.push(format!("a{}", "?".repeat(n)));
        pats.push(format!("[{}]", "a".repeat(n)));
        pats.push(format!("{}", "[".repeat(n)));
        pats.push(format!("(?(a){}", "(?(a)".repeat(n.min(500))));
        pats.push(format!("\\k<{}>", "9".repeat(n)));
        pats.push(format!("a{{{}}}", "9".repeat(n)));
    }
    // numeric-boundary probes: every escape / count that is converted to a number, with digit runs of every
    // length around the widths the code accepts (off-by-one in a digit-count guard => unwrap on a parse error)
    for n in 0..=20usize {
        for d in ["1", "9", "f", "F", "0", "7"] {
            let run = d.repeat(n);
            pats.extend(vec![
                format!("\\x{{{}}}", run),
                format!("\\u{{{}}}", run),
                format!("\\U{{{}}}", run),
                format!("\\x{}", run),
                format!("\\u{}", run),
                format!("\\U{}", run),
                format!("[\\x{{{}}}]", run),
                format!("a[\\x{{{}}}]b", run),
                format!("[\\u{}]", run),
                format!("a{{{}}}", run),
                format!("a{{{},}}", run),
                format!("a{{1,{}}}", run),
                format!("a{{{},{}}}", run, run),
                format!("(a)\\{}", run),
                format!("(a)\\k<{}>", run),
                format!("(a)\\k<-{}>", run),
                format!("(a)\\g<{}>", run),
                format!("(a)(?({})b|c)", run),
                format!("(?<n{}>a)", run),
                format!("\\k<n{}>", run),
                format!("(a)(?P={})", run),
                format!("\\{}", run),
            ]);
        }
    }
    // exact integer boundaries (the extreme values of usize / isize / u32 and their neighbours) wherever a number is read
    for v in ["2147483647", "2147483648", "4294967295", "4294967296", "9223372036854775806", "9223372036854775807", "9223372036854775808",
              "9223372036854775809", "9999999999999999999", "10000000000000000000", "18446744073709551614", "18446744073709551615", "18446744073709551616"] {
        pats.extend(vec![
            format!("a{{{}}}", v), format!("a{{{},}}", v), format!("a{{1,{}}}", v), format!("(?:a(?=)){{{}}}", v), format!("(?:(?=)a){{0,{}}}", v),
            format!("(a)\\k<-{}>", v), format!("(a)\\k'-{}'", v), format!("(a)\\g<-{}>", v), format!("(a)(?(<-{}>)b|c)", v), format!("(a)\\k<{}>", v),
            format!("(a)\\{}", v), format!("(a)(?({})b|c)", v), format!("(?<=a{{{}}})b", v), format!("(?<=(?>a){{{}}})b", v),
        ]);
    }
    // native-stack probes: nesting far beyond what any recursion without a depth check survives
    for open in ["(", "(?:", "(?=", "(?<=", "(?>", "(?i:", "(?<n>", "(?(a)", "(?x:", "(?-i:", "[", "(?((", "a|("] {
        pats.push(open.repeat(200_000));
        pats.push(format!("{}a{}", open.repeat(100_000), ")".repeat(100_000)));
    }
    pats.sort();
    pats.dedup();
    let opts = Opts::default();
    for (i, p) in pats.iter().enumerate() {
        if i % cfg.nshards != cfg.shard {
            continue;
        }
        s.count("strings");
        // make the pattern visible before a possible hard crash (native stack overflow, abort)
        if p.len() > 2000 {
            use std::io::Write;
            std::fs::write(format!("{}/current.txt", cfg.out), p).ok();
            s.req.flush().ok();
            s.imp.flush().ok();
        }
        reset_peak();
        let t0 = std::time::Instant::now();
        let before = allocated_since();
        let r = catch_unwind(|| Regex::new(p));
        let dt = t0.elapsed();
        let alloc = allocated_since() - before;
        let len = p.len() as u64;
        match &r {
            Err(_) => s.violation("C06", "panic", &[("pattern", p.clone())]),
            Ok(Err(e)) => {
                s.count("err");
                if let fancy_regex::Error::ParseError(pos, _) = e {
                    s.count("parse_err");
                    if *pos > p.len() {
                        s.violation("C06", "error-position", &[("pattern", p.clone()), ("detail", format!("position {} > length {}", pos, p.len()))]);
                    }
                }
            }
            Ok(Ok(_)) => s.count("ok"),
        }
        // budgets: generous constants, linear in the pattern length
        let time_budget_ms = 3000 + 3 * len;
        let alloc_budget = 600_000_000u64 + 200_000 * len;
        if dt.as_millis() as u64 > time_budget_ms {
            s.violation("C06", "time", &[("pattern", p.chars().take(200).collect()), ("detail", format!("{} ms for {} bytes", dt.as_millis(), len))]);
        }
        if alloc > alloc_budget {
            s.violation("C06", "allocation", &[("pattern", p.chars().take(200).collect()), ("detail", format!("{} bytes allocated for {} bytes", alloc, len))]);
        }
        if alloc > 50_000_000 {
            s.count("alloc_over_50MB");
        }
        // tie: what parses is built by the model too (kind / error kind / group count)
        if p.len() <= 200 {
            let _ = s.pattern(p, &opts, false, false);
        }
    }
    s.finish();
}

// ------------------------------------------------------------------------------------------ C14

pub fn run_c14(cfg: &Cfg) {
    let mut s = Session::new(&cfg.out);
    let thorough = cfg.tier == "thorough";
    // patterns with mixed-case literals and inner (?-i:..) / (?i:..) groups
    let mut g = Grammar {
        atoms: vec![
            lit('a'),
            lit('A'),
            lit('b'),
            lit('B'),
            P::Any,
            P::Cls("[ab]"),
            P::Cls("[^A]"),
            P::Cls("[a-b]"),
            P::Cls("\\w"),
            P::As("^"),
            P::As("\\b"),
            P::Empty,
            P::Flag("-i", Box::new(lit('a'))),
            P::Flag("-i", Box::new(lit('B'))),
            P::Flag("i", Box::new(lit('b'))),
            P::Flag("-i", Box::new(P::Cls("[ab]"))),
        ],
        quants: quants_core(),
        modes: vec![Mode::Greedy, Mode::Lazy],
        looks: vec!["=", "!", "<=", "<!"],
        groups: true,
        atomic: true,
        brefs: true,
        conds: false,
        empty_loops: false,
    };
    let mut seen = HashSet::new();
    let mut pats: Vec<String> = Vec::new();
    for p in [r"(?=a)a", r"(?-i:a)", r"(?-i:a)b", r"a(?-i:b)A", r"(a)\1", r"(?-i:(a))\1", r"(?=)(?-i:a)B", r"(?>a|(?-i:B))", r"(?<=a)(?-i:b)", r"[a](?-i:[a])", r"é(?-i:É)"] {
        pats.push(p.to_string());
    }
    let mut memo = Vec::new();
    for n in 1..=3 {
        for p in g.exact(n, &mut memo) {
            pats.push(to_string(&p));
        }
    }
    g.quants = quants_full();
    let mut r = Rng(cfg.seed ^ 0xc14);
    for _ in 0..(if thorough { 8000 } else { 1500 }) {
        let mut groups = 0;
        let depth = 2 + r.below(3);
        let p = g.random(&mut r, depth, &mut groups);
        let total = count_groups(&p);
        pats.push(to_string(&clamp_refs(&p, total)));
    }
    // witness of known finding F20 (a pattern that starts with a quantifier-like text), replayed as itself
    pats.push("{2}".to_string());
    let txts = all_texts(&['a', 'A', 'b', 'B'], 3);
    let o_ci = Opts { casei: true, ..Opts::default() };
    let o_plain = Opts::default();
    for (i, p) in pats.iter().enumerate() {
        if i % cfg.nshards != cfg.shard || !seen.insert(p.clone()) {
            continue;
        }
        s.count("patterns");
        // builder option (tied to the model through the tree parsed with the flag seeded)
        let b1 = s.pattern(p, &o_ci, false, true);
        // inline flag
        let inline = format!("(?i){}", p);
        let b2 = s.pattern(&inline, &o_plain, false, true);
        match (&b1.re, &b2.re) {
            (None, None) => {
                if b1.answer.split(':').take(2).collect::<Vec<_>>() != b2.answer.split(':').take(2).collect::<Vec<_>>() {
                    s.violation("C14", "error-kind", &[("pattern", p.clone()), ("detail", format!("option: {} inline: {}", b1.answer, b2.answer))]);
                }
            }
            (Some(_), Some(_)) => {
                for t in &txts {
                    for pos in boundaries(t) {
                        let a1 = s.caps(&b1, t, pos, false, 1_000_000);
                        let a2 = s.caps(&b2, t, pos, false, 1_000_000);
                        s.count("casei_cases");
                        if a1 != a2 {
                            s.violation(
                                "C14",
                                "casei-option-vs-inline",
                                &[("pattern", p.clone()), ("text", t.clone()), ("pos", pos.to_string()), ("option", a1), ("inline", a2)],
                            );
                        }
                    }
                }
            }
            _ => s.violation("C14", "builds-differ", &[("pattern", p.clone()), ("detail", format!("option: {} inline: {}", b1.answer, b2.answer))]),
        }
        // the last call of a setter wins, and a builder can be built from more than once
        if i % 4 == 1 {
            let plain = Regex::new(p);
            let mut bb = RegexBuilder::new(p);
            bb.case_insensitive(true);
            let first = bb.build();
            bb.case_insensitive(false);
            let second = bb.build();
            let mut bc = RegexBuilder::new(p);
            bc.case_insensitive(false).case_insensitive(true);
            let third = bc.build();
            if let (Ok(x), Ok(y), Ok(f), Ok(th)) = (&plain, &second, &first, &third) {
                for t in txts.iter().take(40) {
                    let a = x.captures(t).ok().flatten().map(|c| show_captures(&c));
                    let b = y.captures(t).ok().flatten().map(|c| show_captures(&c));
                    let c1 = f.captures(t).ok().flatten().map(|c| show_captures(&c));
                    let c3 = th.captures(t).ok().flatten().map(|c| show_captures(&c));
                    s.count("builder_reuse_cases");
                    if a != b {
                        s.violation("C14", "option-not-inert", &[("pattern", p.clone()), ("text", t.clone()), ("detail", format!("case_insensitive(true) then (false): {:?} vs Regex::new {:?}", b, a))]);
                    }
                    if c1 != c3 {
                        s.violation("C14", "option-not-inert", &[("pattern", p.clone()), ("text", t.clone()), ("detail", format!("case_insensitive(true): {:?} vs (false) then (true): {:?}", c1, c3))]);
                    }
                }
            } else if plain.is_ok() != second.is_ok() {
                s.violation("C14", "option-not-inert", &[("pattern", p.clone()), ("detail", "case_insensitive(true) then (false): builds differ from Regex::new".to_string())]);
            }
        }
        // no option changes results otherwise: explicit defaults = Regex::new
        if i % 4 == 0 {
            let plain = Regex::new(p);
            let mut bb = RegexBuilder::new(p);
            bb.case_insensitive(false).backtrack_limit(1_000_000).delegate_size_limit(10 * (1 << 20)).delegate_dfa_size_limit(2 * (1 << 20));
            let built = bb.build();
            if let (Ok(x), Ok(y)) = (&plain, &built) {
                for t in txts.iter().take(40) {
                    let a = x.captures(t).ok().flatten().map(|c| show_captures(&c));
                    let b = y.captures(t).ok().flatten().map(|c| show_captures(&c));
                    s.count("inert_cases");
                    if a != b {
                        s.violation("C14", "option-not-inert", &[("pattern", p.clone()), ("text", t.clone()), ("detail", format!("{:?} vs {:?}", a, b))]);
                    }
                }
            } else if plain.is_ok() != built.is_ok() {
                s.violation("C14", "option-not-inert", &[("pattern", p.clone()), ("detail", "builds differ with explicit default options".to_string())]);
            }
        }
    }
    // size limits reach every delegated piece; the backtrack limit reaches the VM
    let big = [r"\w{50}", r"[a-z]{40}\d{40}", r"(?:\w\d){30}", r"\pL{30}"];
    let hosts: Vec<Box<dyn Fn(&str) -> String>> = vec![
        Box::new(|x| x.to_string()),
        Box::new(|x| format!("(?=){}", x)),
        Box::new(|x| format!("(?>{})", x)),
        Box::new(|x| format!("({})\\1", x)),
        Box::new(|x| format!("(?!a){}", x)),
        Box::new(|x| format!("(?<=a){}", x)),
        Box::new(|x| format!("a(?=){}b", x)),
    ];
    if cfg.shard == 0 {
        for x in big {
            for (hi, h) in hosts.iter().enumerate() {
                let p = h(x);
                // every limit alone and in combination with every other option, in both orders: an option
                // must not undo another one
                for (limit, want_ok, combo) in [
                    (Some(10usize), false, 0), (None, true, 0), (Some(10usize), false, 1), (Some(10usize), false, 2), (Some(10usize), false, 3),
                    (Some(10usize), false, 4), (None, true, 1), (None, true, 3),
                ] {
                    let mut b = RegexBuilder::new(&p);
                    if combo == 2 {
                        b.delegate_dfa_size_limit(2 * (1 << 20));
                    }
                    if combo == 4 {
                        b.backtrack_limit(5).case_insensitive(true);
                    }
                    if let Some(l) = limit {
                        b.delegate_size_limit(l);
                    }
                    if combo == 1 {
                        b.delegate_dfa_size_limit(2 * (1 << 20));
                    }
                    if combo == 3 {
                        b.delegate_dfa_size_limit(1 << 30).backtrack_limit(7).case_insensitive(false);
                    }
                    let ok = b.build().is_ok();
                    s.count("size_limit_cases");
                    if ok != want_ok {
                        s.violation(
                            "C14",
                            "size-limit",
                            &[("pattern", p.clone()), ("detail", format!("host {} delegate_size_limit={:?} (option combination {}): builds={} expected={}", hi, limit, combo, ok, want_ok))],
                        );
                    }
                }
            }
        }
        for (p, t) in [(r"(a|b)\1", "bb"), (r"(?=)(?:a|ab)c\b", "abc"), (r"(a+)+\1b", "aaaa")] {
            let mut b = RegexBuilder::new(p);
            b.backtrack_limit(0);
            let re = b.build().unwrap();
            let limited = matches!(re.is_match(t), Err(fancy_regex::Error::RuntimeError(fancy_regex::RuntimeError::BacktrackLimitExceeded)));
            let free = Regex::new(p).unwrap().is_match(t).is_ok();
            s.count("backtrack_limit_cases");
            if !limited || !free {
                s.violation("C14", "backtrack-limit", &[("pattern", p.to_string()), ("text", t.to_string()), ("detail", format!("limit0 error={} default ok={}", limited, free))]);
            }
            // a limit far above what the search needs must give the default-limit answer, whatever its width
            let want = Regex::new(p).unwrap().find(t).map(|m| m.map(|m| (m.start(), m.end()))).map_err(|_| ());
            for big in [1usize << 31, (1usize << 32) - 1, 1usize << 32, (1usize << 32) + 1, 1usize << 40, 1usize << 63, usize::MAX] {
                let mut b = RegexBuilder::new(p);
                b.backtrack_limit(big);
                let got = b.build().unwrap().find(t).map(|m| m.map(|m| (m.start(), m.end()))).map_err(|_| ());
                s.count("backtrack_limit_cases");
                if got != want {
                    s.violation("C14", "backtrack-limit", &[("pattern", p.to_string()), ("text", t.to_string()), ("detail", format!("limit {} gives {:?}, default limit gives {:?}", big, got, want))]);
                }
            }
        }
    }
    s.finish();
}

// ------------------------------------------------------------------------------------------ C18

fn assert_send_sync_clone<T: Send + Sync + Clone>() {}

pub fn run_c18(cfg: &Cfg) {
    use std::sync::Arc;
    assert_send_sync_clone::<Regex>();
    let mut s = Session::new(&cfg.out);
    let thorough = cfg.tier == "thorough";
    let pats: Vec<String> = crate::engine::patterns("c01", "quick", cfg.seed)
        .into_iter()
        .enumerate()
        .filter(|(i, _)| i % (if thorough { 7 } else { 29 }) == cfg.shard % 7)
        .map(|(_, p)| p)
        .collect();
    let txts: Vec<String> = texts("c01", "quick").into_iter().filter(|t| t.chars().count() >= 2).take(60).collect();
    let opts = Opts::default();
    let mut compiled: Vec<(String, Regex, Vec<String>)> = Vec::new();
    for (i, p) in pats.iter().enumerate() {
        if i % cfg.nshards != cfg.shard {
            continue;
        }
        let b = s.pattern(p, &opts, false, false);
        if let Some(re) = &b.re {
            // single-threaded results (also tied to the model)
            let mut base = Vec::new();
            for t in &txts {
                base.push(s.caps(&b, t, 0, false, 1_000_000));
            }
            compiled.push((p.clone(), re.clone(), base));
        }
    }
    s.count("patterns");
    // searches that backtrack a lot, under a limit just above what one search needs: any state
    // shared between concurrent searches (counters, stacks) shows as a spurious limit error
    if cfg.shard < 4 {
        let heavy = [(r"((a+)\2?)+c", "aaaaaaaaaaaaa"), (r"(a|aa)+(?=)b", "aaaaaaaaaaaaaaaaaaaa"), (r"(?:(a*)\1)+x", "aaaaaaaaaaaaaaaa"), (r"(?>a*)*(?!a)b|(a+)+\1c", "aaaaaaaaaaaaaa")];
        for (p, t) in heavy {
            let probe = match Regex::new(p) {
                Ok(r) => r,
                Err(_) => continue,
            };
            let single = probe.is_match(t).map_err(|e| error_name(&e));
            let (_, need, _) = hooks::stats();
            if need < 200 {
                continue;
            }
            // two limits: just above what one search needs (must succeed everywhere) and half of it (must report the
            // limit everywhere — also through clones, which carry the options with them)
            for lim in [(need + need / 2) as usize, (need / 2) as usize] {
            let mut b = RegexBuilder::new(p);
            b.backtrack_limit(lim);
            let re = Arc::new(b.build().unwrap());
            let single = re.is_match(t).map_err(|e| error_name(&e));
            let nthreads = 8;
            let barrier = Arc::new(std::sync::Barrier::new(nthreads));
            let mut hs = Vec::new();
            for k in 0..nthreads {
                let re: Arc<Regex> = if k % 2 == 0 { re.clone() } else { Arc::new((*re).clone()) };
                let barrier = barrier.clone();
                let t = t.to_string();
                hs.push(std::thread::spawn(move || {
                    barrier.wait();
                    let mut out = Vec::new();
                    for _ in 0..6 {
                        out.push(re.is_match(&t).map_err(|e| error_name(&e)));
                    }
                    out
                }));
            }
            for h in hs {
                if let Ok(outs) = h.join() {
                    for o in outs {
                        s.count("concurrent_limit_cases");
                        if o != single {
                            s.violation(
                                "C18",
                                "concurrent-limit-accounting",
                                &[("pattern", p.to_string()), ("text", t.to_string()), ("single_threaded", format!("{:?}", single)), ("concurrent", format!("{:?}", o)), ("backtracks_needed", need.to_string())],
                            );
                        }
                    }
                } else {
                    s.violation("C18", "panic", &[("pattern", p.to_string())]);
                }
            }
            }
        }
    }
    let txts = Arc::new(txts);
    let mut r = Rng(cfg.seed ^ 0xc18);
    for (p, re, base) in compiled {
        let nthreads = 2 + r.below(15);
        let shared = Arc::new(re);
        let base = Arc::new(base);
        let (tx, rx) = std::sync::mpsc::channel::<Option<(usize, String, String)>>();
        let mut handles = Vec::new();
        for k in 0..nthreads {
            let txts = txts.clone();
            let base = base.clone();
            let tx = tx.clone();
            // odd threads search through the shared reference, even ones through their own clone
            let re: Arc<Regex> = if k % 2 == 1 { shared.clone() } else { Arc::new((*shared).clone()) };
            handles.push(std::thread::spawn(move || {
                let mut bad = None;
                for round in 0..3 {
                    for j in 0..txts.len() {
                        let idx = (j * (k + 1) + round) % txts.len();
                        let t = &txts[idx];
                        let r = catch_unwind(AssertUnwindSafe(|| match re.captures_from_pos(t, 0) {
                            Ok(None) => "none".to_string(),
                            Ok(Some(c)) => show_captures(&c),
                            Err(e) => error_name(&e),
                        }));
                        let a = r.unwrap_or("panic".to_string());
                        if a != base[idx] && bad.is_none() {
                            bad = Some((idx, a, base[idx].clone()));
                        }
                    }
                }
                let _ = tx.send(bad);
            }));
        }
        drop(tx);
        let mut got = 0;
        let deadline = std::time::Instant::now() + std::time::Duration::from_secs(60);
        while got < nthreads {
            let left = deadline.saturating_duration_since(std::time::Instant::now());
            match rx.recv_timeout(left) {
                Ok(bad) => {
                    got += 1;
                    if let Some((idx, a, want)) = bad {
                        s.violation(
                            "C18",
                            "concurrent-result-differs",
                            &[("pattern", p.clone()), ("text", txts[idx].clone()), ("threads", nthreads.to_string()), ("observed", a), ("expected", want)],
                        );
                    }
                }
                Err(_) => {
                    s.violation("C18", "deadlock-or-timeout", &[("pattern", p.clone()), ("threads", nthreads.to_string())]);
                    break;
                }
            }
        }
        s.add("concurrent_searches", (nthreads * 3 * txts.len()) as u64);
        s.count("concurrent_patterns");
        for h in handles {
            if got >= nthreads {
                let _ = h.join();
            }
        }
    }
    s.finish();
}
