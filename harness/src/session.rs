//! A session writes three aligned streams: requests for the Lean driver (`req.txt`), the
//! implementation's canonical answers to the same requests (`impl.txt`), and failures of
//! implementation-only oracles (`oracle.jsonl`), plus counters (`stats.json`).

use crate::wire::*;
use fancy_regex::verif_hooks as hooks;
use fancy_regex::{Regex, RegexBuilder};
use std::collections::BTreeMap;
use std::fs::File;
use std::io::{BufWriter, Write};
use std::panic::{catch_unwind, AssertUnwindSafe};

pub struct Session {
    pub req: BufWriter<File>,
    pub imp: BufWriter<File>,
    pub oracle: BufWriter<File>,
    pub counters: BTreeMap<String, u64>,
    pub lines: u64,
    pub dir: String,
    pub last_stats: (u64, u64, u64),
    /// also ask the driver for the byte-level machine's answer on every VM-path search
    pub bytes_mode: bool,
}

pub fn json_str(s: &str) -> String {
    let mut o = String::from("\"");
    for c in s.chars() {
        match c {
            '"' => o.push_str("\\\""),
            '\\' => o.push_str("\\\\"),
            '\n' => o.push_str("\\n"),
            '\r' => o.push_str("\\r"),
            '\t' => o.push_str("\\t"),
            c if (c as u32) < 0x20 => o.push_str(&format!("\\u{:04x}", c as u32)),
            c => o.push(c),
        }
    }
    o.push('"');
    o
}

#[derive(Clone, Default)]
pub struct Opts {
    pub casei: bool,
    pub limit: Option<usize>,
    pub size_limit: Option<usize>,
}

pub struct BuiltPat {
    pub re: Option<Regex>,
    pub answer: String,
    pub is_wrap: bool,
}

impl Session {
    pub fn new(dir: &str) -> Session {
        std::fs::create_dir_all(dir).unwrap();
        let f = |n: &str| BufWriter::with_capacity(1 << 20, File::create(format!("{}/{}", dir, n)).unwrap());
        Session {
            req: f("req.txt"),
            imp: f("impl.txt"),
            oracle: f("oracle.jsonl"),
            counters: BTreeMap::new(),
            lines: 0,
            dir: dir.to_string(),
            last_stats: (0, 0, 0),
            bytes_mode: false,
        }
    }

    pub fn count(&mut self, k: &str) {
        *self.counters.entry(k.to_string()).or_insert(0) += 1;
    }
    pub fn add(&mut self, k: &str, n: u64) {
        *self.counters.entry(k.to_string()).or_insert(0) += n;
    }

    pub fn line(&mut self, req: &str, imp: &str) {
        debug_assert!(!req.contains('\n') && !imp.contains('\n'));
        writeln!(self.req, "{}", req).unwrap();
        writeln!(self.imp, "{}", imp).unwrap();
        self.lines += 1;
    }

    /// record a failure of an implementation-only oracle
    pub fn violation(&mut self, prop: &str, kind: &str, fields: &[(&str, String)]) {
        let mut s = format!("{{\"property\":{},\"kind\":{}", json_str(prop), json_str(kind));
        for (k, v) in fields {
            s.push_str(&format!(",{}:{}", json_str(k), json_str(v)));
        }
        s.push('}');
        writeln!(self.oracle, "{}", s).unwrap();
        self.count(&format!("oracle_fail_{}", prop));
    }

    pub fn finish(mut self) {
        self.req.flush().unwrap();
        self.imp.flush().unwrap();
        self.oracle.flush().unwrap();
        let mut s = String::from("{");
        let mut first = true;
        for (k, v) in &self.counters {
            if !first {
                s.push(',');
            }
            first = false;
            s.push_str(&format!("{}:{}", json_str(k), v));
        }
        s.push('}');
        std::fs::write(format!("{}/stats.json", self.dir), s).unwrap();
    }

    /// Emit `note`, `pat` (and `facts`, `prog` when asked) for a pattern; returns the compiled
    /// regex if it built. Patterns that fail to *parse* produce only a `note`.
    pub fn pattern(&mut self, pattern: &str, o: &Opts, with_facts: bool, with_prog: bool) -> BuiltPat {
        self.line(&format!("note\t{}", hex(pattern)), "ok");
        // visible to the orchestrator if this process hangs or dies while working on the pattern
        std::fs::write(format!("{}/current.txt", self.dir), pattern).ok();
        let casei = o.casei;
        let parsed = catch_unwind(|| hooks::parse_tree(pattern, casei));
        let tree = match parsed {
            Err(_) => {
                self.count("parse_panic");
                return BuiltPat { re: None, answer: "panic".into(), is_wrap: false };
            }
            Ok(Err(e)) => {
                self.count("parse_err");
                return BuiltPat { re: None, answer: error_name(&e), is_wrap: false };
            }
            Ok(Ok(t)) => t,
        };
        let mut toks = Vec::new();
        tree_tokens(&tree.expr, &mut toks);
        let backrefs: Vec<String> = tree.backrefs.iter().map(|g| g.to_string()).collect();
        let built = catch_unwind(|| {
            let mut b = RegexBuilder::new(pattern);
            b.case_insensitive(casei);
            if let Some(l) = o.limit {
                b.backtrack_limit(l);
            }
            if let Some(l) = o.size_limit {
                b.delegate_size_limit(l);
            }
            b.build()
        });
        let (re, answer) = match built {
            Err(_) => {
                self.count("build_panic");
                (None, "panic".to_string())
            }
            Ok(Err(e)) => {
                self.count(&format!("build_{}", error_name(&e)));
                (None, error_name(&e))
            }
            Ok(Ok(re)) => {
                let kind = if hooks::is_wrap(&re) { "wrap" } else { "fancy" };
                self.count(&format!("build_{}", kind));
                let a = format!("{} {}", kind, re.captures_len());
                (Some(re), a)
            }
        };
        let mut names: Vec<(usize, String)> = tree.named_groups.iter().map(|(n, i)| (*i, n.clone())).collect();
        names.sort();
        let names: Vec<String> = names.iter().map(|(i, n)| format!("{}={}", hex(n), i)).collect();
        self.line(
            &format!("pat\t{}\t{}\t{}", toks.join(" "), backrefs.join(","), names.join(",")),
            &answer,
        );
        let is_wrap = re.as_ref().map(|r| hooks::is_wrap(r)).unwrap_or(false);
        if with_facts {
            let facts = match catch_unwind(AssertUnwindSafe(|| hooks::analysis(pattern, casei))) {
                Err(_) => "panic".to_string(),
                Ok(Err(e)) => error_name(&e),
                Ok(Ok(fs)) => fs
                    .iter()
                    .map(|f| {
                        format!(
                            "{}:{}:{}:{}:{}:{}:{}",
                            f.depth, f.kind, f.start_group, f.end_group, f.min_size, f.const_size as u8, f.hard as u8
                        )
                    })
                    .collect::<Vec<_>>()
                    .join(" "),
            };
            self.line("facts", &facts);
        }
        if with_prog {
            let prog = match &re {
                None => answer.clone(),
                Some(r) => match hooks::listing(r) {
                    Some((n, l)) => format!("n_saves={} {}", n, l.join(" ")),
                    None => {
                        let mut s = String::new();
                        match catch_unwind(AssertUnwindSafe(|| tree.expr.to_str(&mut s, 0))) {
                            Ok(()) => format!("wrap:{}", hex(&s)),
                            Err(_) => "wrap:PANIC".to_string(),
                        }
                    }
                },
            };
            self.line("prog", &prog);
        }
        BuiltPat { re, answer, is_wrap }
    }

    /// one `caps` request; returns the implementation's canonical answer (without statistics)
    pub fn caps(&mut self, b: &BuiltPat, text: &str, pos: usize, skipped: bool, limit: usize) -> String {
        let re = b.re.as_ref().unwrap();
        let r = catch_unwind(AssertUnwindSafe(|| hooks::captures_with_flags(re, text, pos, skipped)));
        let ans = match r {
            Err(_) => "panic".to_string(),
            Ok(Err(e)) => error_name(&e),
            Ok(Ok(None)) => "none".to_string(),
            Ok(Ok(Some(c))) => show_captures(&c),
        };
        let stats = if b.is_wrap {
            self.last_stats = (0, 0, 0);
            "0,0,0".to_string()
        } else {
            let (s, bt, d) = hooks::stats();
            self.last_stats = (s, bt, d);
            format!("{},{},{}", s, bt, d)
        };
        self.line(
            &format!("caps\t{}\t{}\t{}\t{}", hex(text), pos, skipped as u8, limit),
            &format!("{}\t{}", ans, stats),
        );
        if self.bytes_mode && !b.is_wrap {
            // the same case again for the byte-level machine of the model (Model/VMBytes.lean: runB)
            self.line(
                &format!("capsB\t{}\t{}\t{}\t{}", hex(text), pos, skipped as u8, limit),
                &format!("{}\t{}", ans, stats),
            );
        }
        ans
    }
}

pub fn boundaries(t: &str) -> Vec<usize> {
    let mut v: Vec<usize> = t.char_indices().map(|(i, _)| i).collect();
    v.push(t.len());
    v
}
