//! Expander (C12), escape (C17) and backtracking-state (C20) exploration.

use crate::engine::Cfg;
use crate::pat::{all_texts, Rng};
use crate::session::*;
use crate::wire::*;
use fancy_regex::verif_hooks as hooks;
use fancy_regex::{escape, Captures, Expander, Regex};
use std::borrow::Cow;
use std::panic::{catch_unwind, AssertUnwindSafe};

// ------------------------------------------------------------------------------------------ C12

fn caps_fields(re: &Regex, c: &Captures<'_>) -> (String, String) {
    let groups: Vec<String> = (0..c.len())
        .map(|i| match c.get(i) {
            Some(m) => hex(m.as_str()),
            None => "~".to_string(),
        })
        .collect();
    let mut names: Vec<(usize, String)> = re
        .capture_names()
        .enumerate()
        .filter_map(|(i, n)| n.map(|n| (i, n.to_string())))
        .collect();
    names.sort();
    let names: Vec<String> = names.iter().map(|(i, n)| format!("{}={}", hex(n), i)).collect();
    (groups.join(","), names.join(","))
}

pub fn run_c12(cfg: &Cfg) {
    let mut s = Session::new(&cfg.out);
    let thorough = cfg.tier == "thorough";
    let alphabet = ['$', '{', '}', '\\', 'g', '<', '>', '0', '1', '9', 'x', '_', 'é', ' ', '-'];
    let mut templates = all_texts(&alphabet, if thorough { 5 } else { 4 });
    let mut r = Rng(cfg.seed ^ 0xc12);
    let extra = ['$', '{', '}', '\\', 'g', '<', '>', '0', '1', '2', 'x', 'n', '_', 'é', ' ', '日', 'a'];
    for _ in 0..(if thorough { 60000 } else { 8000 }) {
        let n = 6 + r.below(10);
        let t: String = (0..n).map(|_| *r.pick(&extra)).collect();
        templates.push(t);
    }
    for t in [
        "$0", "$1", "${1}", "$x", "${x}", "$x_1", "${x_1}", "$$", "$", "${", "${}", "${x", "$10", "${10}", "$1a", "\\1", "\\g<1>", "\\g<x>", "\\\\",
        "\\g<", "\\g<>", "\\10", "\\g<x_1>", "$99999999999999999999", "\\99999999999999999999", "${99999999999999999999}", "$é", "${é}",
        "${1x}", "$9", "${9}", "\\g<9>", "\\g<1x>", "$9x", "$1x$9", "a$1b$2c", "$_0", "${_0}", "\\g<_0>", "${-1}", "${-}", "\\g<-1>", "$-1", "${-1}x", "${1-}",
    ] {
        templates.push(t.to_string());
    }
    let cases: Vec<(&str, &str)> = vec![
        (r"(?<x>a)(b)?", "a"),
        (r"(a)(b)", "ab"),
        (r"(?<x_1>é)|(?<_0>b)", "b"),
        (r"(a)(b)(c)(d)(e)(f)(g)(h)(i)(j)(k)", "abcdefghijk"),
        (r"(?<n>\w+) (?<é>\w+)", "ab cd"),
        (r"(?<1x>a)(?<9>b)(c)", "abc"),
        // internal save slots (look-arounds, a counted hard repeat) are not capture groups
        (r"(\w+)(?=\d)(?=\d\d)(?:\B.){2}", "a12"),
    ];
    let compiled: Vec<(Regex, &str)> = cases.iter().map(|(p, t)| (Regex::new(p).unwrap(), *t)).collect();
    // the number of groups (group 0 included) of each case, written down here rather than asked of the crate: `check`
    // must reject references past it whatever `captures_len` says
    let ngroups: Vec<usize> = vec![3, 3, 3, 12, 3, 4, 2];
    assert_eq!(ngroups.len(), cases.len());
    let expanders = [("d", Expander::default()), ("p", Expander::python())];
    for (i, tpl) in templates.iter().enumerate() {
        if i % cfg.nshards != cfg.shard {
            continue;
        }
        s.count("templates");
        for (xn, x) in &expanders {
            // escape round trip and borrow
            let esc = x.escape(tpl);
            s.line(
                &format!("tplescape\t{}\t{}", xn, hex(tpl)),
                &match &esc {
                    Cow::Borrowed(_) => "B".to_string(),
                    Cow::Owned(o) => format!("O:{}", hex(o)),
                },
            );
            for (k, (re, text)) in compiled.iter().enumerate() {
                // quick: every template on two captures sets, chosen by index
                if !thorough && (i + k) % 3 != 0 && tpl.chars().count() > 3 {
                    continue;
                }
                let c = re.captures(text).unwrap().unwrap();
                let r = catch_unwind(AssertUnwindSafe(|| {
                    let a = x.expansion(tpl, &c);
                    let mut b = String::from("pre");
                    x.append_expansion(&mut b, tpl, &c);
                    let mut w: Vec<u8> = Vec::new();
                    x.write_expansion(&mut w, tpl, &c).unwrap();
                    let mut v: Vec<u8> = Vec::new();
                    x.write_expansion_vec(&mut v, tpl, &c).unwrap();
                    let mut e = String::new();
                    if *xn == "d" {
                        c.expand(tpl, &mut e);
                    } else {
                        e = a.clone();
                    }
                    let rt = x.expansion(&esc, &c);
                    (a, b, w, v, e, rt)
                }));
                s.count("expand_cases");
                let (g, n) = caps_fields(re, &c);
                match r {
                    Err(_) => {
                        s.violation("C12", "panic", &[("template", tpl.clone()), ("expander", xn.to_string()), ("pattern", cases[k].0.to_string())]);
                        s.line(&format!("expand\t{}\t{}\t{}\t{}", xn, hex(tpl), g, n), "PANIC");
                    }
                    Ok((a, b, w, v, e, rt)) => {
                        if b != format!("pre{}", a) || w != a.as_bytes() || v != a.as_bytes() || e != a {
                            s.violation(
                                "C12",
                                "entry-points-disagree",
                                &[("template", tpl.clone()), ("expander", xn.to_string()), ("pattern", cases[k].0.to_string()), ("expansion", a.clone())],
                            );
                        }
                        if rt != *tpl {
                            s.violation(
                                "C12",
                                "escape-roundtrip",
                                &[("template", tpl.clone()), ("expander", xn.to_string()), ("escaped", esc.to_string()), ("got", rt)],
                            );
                        }
                        s.line(&format!("expand\t{}\t{}\t{}\t{}", xn, hex(tpl), g, n), &hex(&a));
                    }
                }
                // check
                let chk = x.check(tpl, re);
                let names: Vec<String> = re.capture_names().flatten().map(|n| hex(n)).collect();
                let ans = match &chk {
                    Ok(()) => "ok".to_string(),
                    Err(e) => match error_name(e).as_str() {
                        "err:NamedBackrefOnly" => "E:NamedBackrefOnly".to_string(),
                        "err:InvalidBackref" => "E:InvalidBackref".to_string(),
                        x if x.starts_with("parse:") => "E:parse".to_string(),
                        o => format!("E:{}", o),
                    },
                };
                s.line(&format!("check\t{}\t{}\t{}\t{}", xn, hex(tpl), ngroups[k], names.join(",")), &ans);
            }
        }
    }
    s.finish();
}

// ------------------------------------------------------------------------------------------ C17

pub fn run_c17(cfg: &Cfg) {
    let mut s = Session::new(&cfg.out);
    s.line(&format!("special\t{}", hex("\\.+*?()|[]{}^$#")), "ok");
    let thorough = cfg.tier == "thorough";
    let alphabet = [
        '\\', '.', '+', '*', '?', '(', ')', '|', '[', ']', '{', '}', '^', '$', '#', 'a', 'b', '1', ' ', '\n', '-', '&', '~', 'é', '日', '😀', ',', ':', '<', '>',
        '=', '!', 'P', 'x', 'i',
    ];
    let mut strings = all_texts(&alphabet, if thorough { 3 } else { 2 });
    let core = ['\\', '.', '*', '?', '(', ')', '|', '[', ']', '{', '}', '^', '$', '#', 'a', '1', ' ', 'é'];
    strings.extend(all_texts(&core, if thorough { 4 } else { 3 }));
    let mut r = Rng(cfg.seed ^ 0xc17);
    for _ in 0..(if thorough { 40000 } else { 5000 }) {
        let n = 4 + r.below(8);
        strings.push((0..n).map(|_| *r.pick(&alphabet)).collect());
    }
    strings.sort();
    strings.dedup();
    for (i, st) in strings.iter().enumerate() {
        if i % cfg.nshards != cfg.shard {
            continue;
        }
        s.count("strings");
        let esc = escape(st);
        let special = st.chars().any(|c| "\\.+*?()|[]{}^$#".contains(c));
        let borrowed = matches!(esc, Cow::Borrowed(_));
        if borrowed == special {
            s.violation("C17", "borrow", &[("string", st.clone()), ("escaped", esc.to_string())]);
        }
        s.line(
            &format!("escape\t{}", hex(st)),
            &match &esc {
                Cow::Borrowed(_) => "B".to_string(),
                Cow::Owned(o) => format!("O:{}", hex(o)),
            },
        );
        if st.is_empty() {
            continue;
        }
        // the escaped string alone and inside hosts chosen so that tokens cannot merge
        let hosts: Vec<(String, usize, bool)> = vec![
            (esc.to_string(), 0, false),
            (format!("(?:{})", esc), 0, false),
            (format!("(?={}){}", esc, esc), 0, false),
            (format!("(?>{})", esc), 0, false),
            (format!("({})\\1", esc), 0, true),
            (format!("(?<=\u{1}){}", esc), 1, false),
            // the escaped text as a direct sibling of a non-literal easy node inside a fancy pattern: both land in
            // one delegated run (after the last / before the first hard node)
            (format!("(?=)[\u{1}x]{}", esc), 2, false),
            (format!("{}[\u{1}b](?=)", esc), 3, false),
        ];
        let texts: Vec<String> = vec![
            st.clone(),
            format!("x{}", st),
            format!("{}{}", st, st),
            format!("a{}b{}", st, st),
            format!("\u{1}{}", st),
            st.chars().take(st.chars().count().saturating_sub(1)).collect::<String>() + st,
        ];
        for (h, (host, lead, doubled)) in hosts.iter().enumerate() {
            let re = match catch_unwind(|| Regex::new(host)) {
                Ok(Ok(re)) => re,
                Ok(Err(e)) => {
                    s.violation("C17", "no-compile", &[("string", st.clone()), ("pattern", host.clone()), ("error", e.to_string())]);
                    continue;
                }
                Err(_) => {
                    s.violation("C17", "compile-panic", &[("string", st.clone()), ("pattern", host.clone())]);
                    continue;
                }
            };
            if h == 0 {
                // the tree must be the literal tree of the string
                if let Ok(tree) = hooks::parse_tree(host, false) {
                    let mut toks = Vec::new();
                    tree_tokens(&tree.expr, &mut toks);
                    let chars: Vec<char> = st.chars().collect();
                    let mut want: Vec<String> = Vec::new();
                    if chars.len() > 1 {
                        want.push(format!("cat:{}", chars.len()));
                    }
                    for c in &chars {
                        want.push(format!("lit:{}:0", hex(&c.to_string())));
                    }
                    if toks != want {
                        s.violation("C17", "tree", &[("string", st.clone()), ("tree", toks.join(" "))]);
                    }
                }
            }
            for t in &texts {
                s.count("escape_search_cases");
                let needle = if *doubled { format!("{}{}", st, st) } else { st.clone() };
                let want: Option<(usize, usize)> = if *lead >= 2 {
                    // first occurrence with the required neighbour; the neighbour is part of the match
                    let mut from = 0;
                    let mut found = None;
                    while from <= t.len() {
                        let k = match t[from..].find(&needle) {
                            Some(k) => k,
                            None => break,
                        };
                        let at = from + k;
                        let end = at + needle.len();
                        let bytes = t.as_bytes();
                        if *lead == 2 && at >= 1 && (bytes[at - 1] == 1 || bytes[at - 1] == b'x') {
                            found = Some((at - 1, end));
                            break;
                        }
                        if *lead == 3 && end < t.len() && (bytes[end] == 1 || bytes[end] == b'b') {
                            found = Some((at, end + 1));
                            break;
                        }
                        from = at + t[at..].chars().next().map(|c| c.len_utf8()).unwrap_or(1);
                    }
                    found
                } else if *lead == 1 {
                    // look-behind host: first occurrence preceded by U+0001
                    let mut from = 0;
                    let mut found = None;
                    while let Some(k) = t[from..].find(&needle) {
                        let at = from + k;
                        if at >= 1 && t.as_bytes()[at - 1] == 1 {
                            found = Some((at, at + needle.len()));
                            break;
                        }
                        from = at + t[at..].chars().next().map(|c| c.len_utf8()).unwrap_or(1);
                        if from > t.len() {
                            break;
                        }
                    }
                    found
                } else {
                    t.find(&needle).map(|k| (k, k + needle.len()))
                };
                let got = catch_unwind(AssertUnwindSafe(|| re.find(t).map(|m| m.map(|m| (m.start(), m.end())))));
                match got {
                    Ok(Ok(g)) if g == want => {}
                    other => s.violation(
                        "C17",
                        "find",
                        &[
                            ("string", st.clone()),
                            ("pattern", host.clone()),
                            ("text", t.clone()),
                            ("got", format!("{:?}", other.map(|r| r.map_err(|e| e.to_string())).map_err(|_| "panic"))),
                            ("want", format!("{:?}", want)),
                        ],
                    ),
                }
            }
        }
    }
    s.finish();
}

// ------------------------------------------------------------------------------------------ C20

/// whole-state-copy reference (the property's own words), independent of the Lean model
#[derive(Clone)]
struct RefState {
    slots: Vec<usize>,
    aux: Vec<usize>,
    stack: Vec<(usize, usize, Vec<usize>, Vec<usize>)>,
}

fn dump(st: &hooks::VerifState, ret: &str) -> String {
    let sv: Vec<String> = st.saves().iter().map(|v| if *v == usize::MAX { "u".into() } else { v.to_string() }).collect();
    let br: Vec<String> = st.branches().iter().map(|(p, i, n)| format!("{}.{}.{}", p, i, n)).collect();
    let os: Vec<String> = st
        .oldsave()
        .iter()
        .map(|(s, v)| format!("{}.{}", s, if *v == usize::MAX { "u".into() } else { v.to_string() }))
        .collect();
    format!("{};sv={};st={};os={};n={}", ret, sv.join(","), br.join(","), os.join(","), st.nsave())
}

fn run_state_ops(nsaves: usize, ops: &[String]) -> (String, Option<String>) {
    let mut st = hooks::VerifState::new(nsaves, 1_000_000);
    let mut rf = RefState { slots: vec![usize::MAX; nsaves], aux: vec![], stack: vec![] };
    let mut outs: Vec<String> = Vec::new();
    let mut mismatch: Option<String> = None;
    for op in ops {
        let f: Vec<&str> = op.split(':').collect();
        let r = catch_unwind(AssertUnwindSafe(|| match f[0] {
            "P" => {
                let ok = st.push(f[1].parse().unwrap(), f[2].parse().unwrap());
                if ok { "ok".to_string() } else { "overflow".to_string() }
            }
            "O" => {
                let (a, b) = st.pop();
                format!("{}.{}", a, b)
            }
            "S" => {
                st.save(f[1].parse().unwrap(), f[2].parse().unwrap());
                "ok".to_string()
            }
            "G" => {
                let v = st.get(f[1].parse().unwrap());
                if v == usize::MAX { "u".to_string() } else { v.to_string() }
            }
            "U" => {
                st.stack_push(f[1].parse().unwrap());
                "ok".to_string()
            }
            "V" => st.stack_pop().to_string(),
            "C" => {
                st.backtrack_cut(f[1].parse().unwrap());
                "ok".to_string()
            }
            "B" => {
                let c = st.backtrack_count();
                st.stack_push(c);
                "ok".to_string()
            }
            "E" => {
                let c = st.stack_pop();
                st.backtrack_cut(c);
                "ok".to_string()
            }
            _ => panic!("op"),
        }));
        match r {
            Err(_) => {
                outs.push("PANIC".to_string());
                break;
            }
            Ok(ret) => {
                // the reference
                match f[0] {
                    "P" => rf.stack.push((f[1].parse().unwrap(), f[2].parse().unwrap(), rf.slots.clone(), rf.aux.clone())),
                    "O" => {
                        let (pc, ix, sl, ax) = rf.stack.pop().unwrap();
                        rf.slots = sl;
                        rf.aux = ax;
                        if ret != format!("{}.{}", pc, ix) {
                            mismatch.get_or_insert(format!("pop returned {} expected {}.{}", ret, pc, ix));
                        }
                    }
                    "S" => {
                        let slot: usize = f[1].parse().unwrap();
                        rf.slots[slot] = f[2].parse().unwrap();
                    }
                    "U" => rf.aux.push(f[1].parse().unwrap()),
                    "V" => {
                        let v = rf.aux.pop().unwrap();
                        if ret != v.to_string() {
                            mismatch.get_or_insert(format!("stack_pop returned {} expected {}", ret, v));
                        }
                    }
                    "C" => rf.stack.truncate(f[1].parse().unwrap()),
                    "B" => rf.aux.push(rf.stack.len()),
                    "E" => {
                        let c = rf.aux.pop().unwrap();
                        rf.stack.truncate(c);
                    }
                    _ => {}
                }
                // observable state: capture/counter slots, pending alternatives
                let sv = st.saves();
                if sv[..nsaves] != rf.slots[..] {
                    mismatch.get_or_insert(format!("after {}: slots {:?} expected {:?}", op, &sv[..nsaves], rf.slots));
                }
                if st.backtrack_count() != rf.stack.len() {
                    mismatch.get_or_insert(format!("after {}: {} alternatives expected {}", op, st.backtrack_count(), rf.stack.len()));
                }
                // auxiliary stack contents
                if sv.len() > nsaves {
                    let sp = sv[nsaves];
                    let aux: Vec<usize> = sv[nsaves + 1..sp.min(sv.len())].to_vec();
                    if aux != rf.aux {
                        mismatch.get_or_insert(format!("after {}: aux stack {:?} expected {:?}", op, aux, rf.aux));
                    }
                } else if !rf.aux.is_empty() {
                    mismatch.get_or_insert(format!("after {}: aux stack missing", op));
                }
                outs.push(dump(&st, &ret));
            }
        }
    }
    (outs.join("|"), mismatch)
}

/// enumerate valid operation sequences (no pop of an empty stack etc.) up to `len`
fn gen_seqs(len: usize, nsaves: usize, out: &mut Vec<Vec<String>>) {
    fn go(cur: &mut Vec<String>, depth: usize, stack: usize, aux: &mut Vec<usize>, len: usize, nsaves: usize, out: &mut Vec<Vec<String>>) {
        if !cur.is_empty() {
            out.push(cur.clone());
        }
        if cur.len() == len {
            return;
        }
        let k = cur.len();
        // push
        cur.push(format!("P:{}:{}", k + 1, k + 2));
        go(cur, depth + 1, stack + 1, aux, len, nsaves, out);
        cur.pop();
        // pop: aux stack is restored by the pop; track conservatively by forbidding pop while aux
        // entries pushed after the branch exist -> we simply recompute aux as unknown: skip E after O
        if stack > 0 && aux.is_empty() {
            cur.push("O".to_string());
            go(cur, depth + 1, stack - 1, aux, len, nsaves, out);
            cur.pop();
        }
        for slot in 0..nsaves {
            for v in [5, 7] {
                cur.push(format!("S:{}:{}", slot, v));
                go(cur, depth + 1, stack, aux, len, nsaves, out);
                cur.pop();
            }
        }
        // begin atomic
        cur.push("B".to_string());
        aux.push(stack);
        go(cur, depth + 1, stack, aux, len, nsaves, out);
        aux.pop();
        cur.pop();
        // end atomic (only when the entry is still valid: count <= stack)
        if let Some(&c) = aux.last() {
            if c <= stack {
                cur.push("E".to_string());
                aux.pop();
                go(cur, depth + 1, c, aux, len, nsaves, out);
                aux.push(c);
                cur.pop();
            }
        }
    }
    let mut cur = Vec::new();
    let mut aux = Vec::new();
    go(&mut cur, 0, 0, &mut aux, len, nsaves, out);
}

pub fn run_c20(cfg: &Cfg) {
    let mut s = Session::new(&cfg.out);
    let thorough = cfg.tier == "thorough";
    let mut seqs: Vec<Vec<String>> = Vec::new();
    gen_seqs(if thorough { 7 } else { 6 }, 2, &mut seqs);
    // only maximal-length prefixes are needed (dumps cover every prefix)
    let maxlen = if thorough { 7 } else { 6 };
    seqs.retain(|q| q.len() == maxlen);
    // seeded random long sequences over 3 slots and 3 values, with pops interleaved with atomics
    let mut r = Rng(cfg.seed ^ 0xc20);
    let nrand = if thorough { 200000 } else { 30000 };
    let mut wide_from = usize::MAX;
    for it in 0..nrand {
        // every tenth sequence uses a wide slot vector with slot numbers that alias under any
        // power-of-two-wide mask or table (a bit set kept in a machine word instead of a real set)
        let wide = it % 10 == 9;
        if wide && wide_from == usize::MAX {
            wide_from = seqs.len();
        }
        let wide_slots = [0usize, 64, 128, 1, 65, 129, 32, 96, 16, 8, 136, 72];
        let n = 8 + r.below(24);
        let mut q = Vec::new();
        let mut stack = 0usize;
        // simulate the aux stack with snapshots so that pops restore it
        let mut aux: Vec<usize> = Vec::new();
        let mut snaps: Vec<Vec<usize>> = Vec::new();
        for k in 0..n {
            match r.below(12) {
                0 | 1 | 2 => {
                    q.push(format!("P:{}:{}", k + 1, r.below(9)));
                    snaps.push(aux.clone());
                    stack += 1;
                }
                3 | 4 if stack > 0 => {
                    q.push("O".to_string());
                    aux = snaps.pop().unwrap();
                    stack -= 1;
                }
                5 | 6 | 7 | 8 => q.push(format!("S:{}:{}", if wide { *r.pick(&wide_slots) } else { r.below(3) }, 1 + r.below(3))),
                9 => {
                    q.push("B".to_string());
                    aux.push(stack);
                }
                10 if !aux.is_empty() && *aux.last().unwrap() <= stack => {
                    q.push("E".to_string());
                    let c = aux.pop().unwrap();
                    stack = c;
                    snaps.truncate(c);
                }
                11 if r.chance(50) => {
                    let v = r.below(5);
                    q.push(format!("U:{}", v));
                    aux.push(v);
                }
                _ => q.push(format!("G:{}", if wide { *r.pick(&wide_slots) } else { r.below(3) })),
            }
        }
        if wide {
            q.insert(0, "W".to_string());
        }
        seqs.push(q);
    }
    for (i, q) in seqs.iter().enumerate() {
        if i % cfg.nshards != cfg.shard {
            continue;
        }
        s.count("sequences");
        s.add("operations", q.len() as u64);
        let wide = q.first().map(|x| x == "W").unwrap_or(false);
        let q: Vec<String> = if wide { q[1..].to_vec() } else { q.clone() };
        let q = &q;
        let nsaves = if wide { 140 } else { 3 };
        let (ans, mismatch) = run_state_ops(nsaves, q);
        if let Some(m) = mismatch {
            s.violation("C20", "whole-copy-reference", &[("ops", q.join(" ")), ("detail", m)]);
        }
        s.line(&format!("state\t{}\t1000000\t{}", nsaves, q.join(" ")), &ans);
    }
    s.finish();
}
