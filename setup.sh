#!/bin/bash
# Build the framework from files on disk only (offline): Lean model + proofs + driver, Rust harness.
set -e
cd "$(dirname "$0")"
export CARGO_NET_OFFLINE=true
python3 tools/extract.py
( cd lean && lake build FancyModel fmdriver fmparse )
( cd lean && for f in FancyModel/Proofs/C[0-9]*.lean; do [ -e "$f" ] && lake build "FancyModel.Proofs.$(basename "$f" .lean)"; done; true )
cp /repo/Cargo.lock harness/Cargo.lock
( cd harness && cargo build --release --offline )
echo setup-ok
