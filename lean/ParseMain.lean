/-! `fmparse`: the parser model behind the line protocol (stub; see Model/Parse.lean) -/
def main : IO Unit := pure ()
