import FancyModel.Driver.ParseOps
/-!
# `fmparse`: the parser model (FancyModel/Model/Parse.lean) behind the line protocol

One request per line on stdin, one answer per line on stdout; see Driver/ParseOps.lean for the
format. `--sites` makes a `panic` answer name the panic site of the model.
-/
open Fancy.ParseOps

partial def loop (sites : Bool) (h out : IO.FS.Stream) : IO Unit := do
  let line ← h.getLine
  if line.isEmpty then return ()
  let line := (line.dropEndWhile (fun c => c == '\n' || c == '\r')).toString
  out.putStrLn (handle sites line)
  loop sites h out

def main (args : List String) : IO Unit := do
  let stdin ← IO.getStdin
  let stdout ← IO.getStdout
  loop (args.contains "--sites") stdin stdout
  stdout.flush
