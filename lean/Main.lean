import FancyModel.Driver.Engine
/-!
# `fmdriver`: one request per line on stdin, one answer per line on stdout (DESIGN.md §4.3)
-/
open Fancy Fancy.Drv

structure DState where
  cur : Cur := default
  special : List Char := []

def handle (st : DState) (line : String) : DState × String :=
  match line.splitOn "\t" with
  | "special" :: [h] =>
    match Wire.unhex h with
    | some s => ({ st with special := s.toList }, "ok")
    | none => (st, "bad-op")
  | "pat" :: fields =>
    let (cur, ans) := doPat st.special fields
    ({ st with cur := cur }, ans)
  | ["facts"] => (st, doFacts st.cur)
  | ["prog"] => (st, doProg st.cur)
  | "caps" :: fields => (st, doCaps st.cur fields)
  | "chartab" :: fields => (st, doChartab fields)
  | _ => (st, "bad-op")

partial def loop (h : IO.FS.Stream) (out : IO.FS.Stream) (st : DState) : IO Unit := do
  let line ← h.getLine
  if line.isEmpty then return ()
  let line := (line.dropEndWhile (fun c => c == '\n' || c == '\r')).toString
  let (st', ans) := handle st line
  out.putStrLn ans
  loop h out st'

def main : IO Unit := do
  let stdin ← IO.getStdin
  let stdout ← IO.getStdout
  loop stdin stdout {}
  stdout.flush
