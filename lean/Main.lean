import FancyModel.Driver.Engine
import FancyModel.Driver.ApiOps
import FancyModel.Generated
/-!
# `fmdriver`: one request per line on stdin, one answer per line on stdout (DESIGN.md §4.3)
-/
open Fancy Fancy.Drv

structure DState where
  cur : Cur := default
  special : List Char := Fancy.Generated.specialChars
  names : List (List Char × Nat) := []

def parseNames (s : String) : List (List Char × Nat) :=
  ((s.splitOn ",").filter (· ≠ "")).filterMap fun x =>
    match x.splitOn "=" with
    | [a, b] => match Wire.unhex a, b.toNat? with
      | some a, some b => some (a.toList, b)
      | _, _ => none
    | _ => none

def handle (st : DState) (line : String) : DState × String :=
  match line.splitOn "\t" with
  | "special" :: [_] => (st, "ok")   -- the table comes from Generated.lean (re-extracted every run)
  | ["note", _] => (st, "ok")
  | ["pat", toks, brs] =>
    let (cur, ans) := doPat st.special [toks, brs]
    ({ st with cur := cur, names := [] }, ans)
  | ["pat", toks, brs, names] =>
    let (cur, ans) := doPat st.special [toks, brs]
    ({ st with cur := cur, names := parseNames names }, ans)
  | ["facts"] => (st, doFacts st.cur)
  | ["prog"] => (st, doProg st.cur)
  | "caps" :: fields => (st, doCaps st.cur fields)
  | "capsR" :: fields => (st, doCaps st.cur fields)
  | "capsB" :: fields => (st, doCapsB st.cur fields)
  | "chartab" :: fields => (st, doChartab fields)
  | "iter" :: fields => (st, doIter st.cur fields)
  | "riter" :: fields => (st, doRiter st.cur fields)
  | "citer" :: fields => (st, doCiter st.cur fields)
  | "split" :: fields => (st, doSplit st.cur fields)
  | "splitn" :: fields => (st, doSplitn st.cur fields)
  | "replace" :: fields => (st, doReplace st.cur st.names fields)
  | "expand" :: fields => (st, doExpand fields)
  | "check" :: fields => (st, doCheck fields)
  | "tplescape" :: fields => (st, doTplEscape fields)
  | "escape" :: fields => (st, doEscape st.special fields)
  | "state" :: fields => (st, doState fields)
  | _ => (st, "bad-op")

partial def loop (h : IO.FS.Stream) (out : IO.FS.Stream) (st : DState) : IO Unit := do
  let line ← h.getLine
  if line.isEmpty then return ()
  let line := (line.dropEndWhile (fun c => c == '\n' || c == '\r')).toString
  let (st', ans) := handle st line
  out.putStrLn ans
  loop h out st'

def main : IO Unit := do
  let stdin ← IO.getStdin
  let stdout ← IO.getStdout
  loop stdin stdout {}
  stdout.flush
