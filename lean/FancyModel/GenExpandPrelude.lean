import FancyModel.Model.Expand
import FancyModel.Model.Utf8
/-!
# Hand-written prelude of the generated template expander (`GeneratedExpand.lean`)

`tools/rs2lean_expand.py` translates `Expander::default`, `python`, `exec`, `check`, `escape`, `write_expansion`,
`write_expansion_vec` and `expansion` (src/expand.rs) statement by statement. What the translation does NOT take from the
Rust text is fixed here and is *trusted*; notes/translator-expand.md has the full table.

* `&str` / `String` are `List Char`; `template.chars()` is the list, `iter.next()` takes its head, `iter.as_str()` is what
  is left. **`parse_id` and `parse_decimal` (src/parse.rs) are not translated here; closed by Proofs/C12d.lean through the parse.rs translation** (iterator combinators with closures over
  byte indices: `char_indices().peekable()`, `next_if`, `find`, `usize::from_str_radix`, byte-offset slicing): they are the
  model's `parseId isId` / `parseDecimal`, whose `skip` counts CHARACTERS where the Rust code counts the bytes of the same
  prefix; accordingly `iter.as_str()[skip..].chars()` is `List.drop skip`. `name.parse::<usize>()` is `parseUsize`.
* `Expander { sub_char, open, close, allow_undelimited_name }` is the model's `Expander` record; `Step` the model's `Step`;
  `Captures` is `Caps` (`name`, `get` give the matched text, `m.as_str()` is that text); the `Regex` of `check` is
  `RegexInfo` (`named_groups.is_empty()` / `contains_key`, `captures_len()`).
* the callback `f: impl FnMut(Step) -> Result<(), E>` is a state-passing function `Step → σ → Except ε σ`, `σ` being the
  variable the closure writes (`dst`; `Unit` for `check`); `f(step)?` threads the state and propagates the error.
* the `while let` loop runs on fuel `template.length + 1` (every iteration consumes a character); running out of it
  ends the loop, as in the model.
* `dst: Vec<u8>` / `impl Write` is the list of BYTES written: `extend(s.as_bytes())` and `write!(dst, "{}", s)` append
  `strBytes s`, `push(b)` appends the byte; `String::from_utf8(v).expect(..)` is `fromUtf8 v` (`none` = the panic).
* `text.contains(c)`, `text.replace(c, s)` on a character: `List.contains`, `replaceChar`.
-/
namespace Fancy.GenExpand
open Fancy.Expand

/-- `s.as_bytes()`: the UTF-8 encoding -/
def strBytes (s : List Char) : List Nat := Utf8.encode (s.map Char.toNat)

/-- `String::from_utf8`: the string whose encoding the bytes are, if there is one -/
noncomputable def fromUtf8 (b : List Nat) : Option (List Char) :=
  open Classical in if h : ∃ cs, strBytes cs = b then some (Classical.choose h) else none

/-- `str::replace(c, s)` for a character pattern -/
def replaceChar (text : List Char) (c : Char) (s : List Char) : List Char :=
  text.flatMap fun x => if x == c then s else [x]

/-- `parse_id(s, open, close, allow_relative)` (src/parse.rs): the model's scanner -/
def parse_id (isId : Char → Bool) (s openD closeD : List Char) (allowRelative : Bool) : Option (List Char × Nat) :=
  parseId isId s openD closeD allowRelative

/-- `parse_decimal(s, 0)` (src/parse.rs): the model's scanner -/
def parse_decimal (s : List Char) : Option (Nat × Nat) := parseDecimal s

end Fancy.GenExpand
