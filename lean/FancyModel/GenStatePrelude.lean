import FancyModel.Model.State
/-!
# Hand-written prelude of the generated backtracking state (`GeneratedState.lean`)

`tools/rs2lean_state.py` translates `impl State` (src/vm.rs) statement by statement. Everything the translation
does NOT take from the Rust text is fixed here and is *trusted*; notes/translator-state.md has the full table.

* `usize` is `Nat`; `+`, `+= 1` do not overflow; `a - b` / `x -= b` are CHECKED (`checkedSub`): an underflow is a panic
  outcome, as in a build with overflow checks.
* `struct State` is the record `Fancy.State` of Model/State.lean (fields `saves stack oldsave nsave explicit_sp
  max_stack` ↦ `saves stack oldsave nsave explicitSp maxStack`; `options`, the tracing flags, has no counterpart), but
  with the two vectors in the RUST order, oldest entry first (`RState`); the model keeps them newest first. `Branch` is
  the model's `Branch`; `Save { slot, value }` is the pair `(slot, value)`. The three declarations are compared with
  these tables on every run.
* `Vec<T>` is `List T`, the last element at the end: `len` = `length`, `push x` = `++ [x]`, `pop().unwrap()` = `vecPop`
  (`none` on the empty vector = the `unwrap` panics), `v[i]` = `v[i]?` (`none` = index panic), `v[i] = x` = `vecSet`,
  `swap` = `vecSwap`, `truncate n` = `take n`, `&v[a..]` / `&v[a..b]` = `sliceFrom` / `sliceRange` (`none` = the slice
  panics), `vec![x; n]` = `List.replicate n x`.
* `BTreeSet<usize>`: a list without duplicates; `insert` = `btreeInsert`, which returns whether the value was new.
* a method returns `Res α`: the state afterwards and the value, or the panic site; a `for` body returns `Flow`: go on
  with the next iteration, `return` from the method, or panic. `Result<()>` is `RResult`.
-/
namespace Fancy.GenState

/-- `State` with `stack` and `oldsave` in the Rust order (oldest entry first) -/
abbrev RState := State

/-- `Result<()>` with the one error `push` can return -/
inductive RResult where
  | okUnit
  | errStackOverflow
deriving DecidableEq, Repr

/-- what a method call yields -/
inductive Res (α : Type) where
  | ok (self : RState) (v : α)
  | panic (site : String)

/-- what one iteration of a `for` body yields -/
inductive Flow (β α : Type) where
  | next (acc : β)
  | ret (self : RState) (v : α)
  | panic (site : String)

/-- forget the panic site -/
def Res.toOption {α : Type} : Res α → Option (RState × α)
  | .ok s v => some (s, v)
  | .panic _ => none

def checkedSub (a b : Nat) : Option Nat := if b ≤ a then some (a - b) else none

/-- `v[i] = x` -/
def vecSet {α : Type} (v : List α) (i : Nat) (x : α) : Option (List α) :=
  if i < v.length then some (v.set i x) else none

/-- `v.pop()`: the last element and the rest -/
def vecPop {α : Type} (v : List α) : Option (List α × α) :=
  match v.reverse with
  | [] => none
  | x :: r => some (r.reverse, x)

/-- `v.swap(i, j)` -/
def vecSwap {α : Type} (v : List α) (i j : Nat) : Option (List α) :=
  match v[i]?, v[j]? with
  | some a, some b => some ((v.set i b).set j a)
  | _, _ => none

/-- `&v[a..]` -/
def sliceFrom {α : Type} (v : List α) (a : Nat) : Option (List α) :=
  if a ≤ v.length then some (v.drop a) else none

/-- `&v[a..b]` -/
def sliceRange {α : Type} (v : List α) (a b : Nat) : Option (List α) :=
  if a ≤ b ∧ b ≤ v.length then some ((v.drop a).take (b - a)) else none

/-- `BTreeSet::insert`: whether the value was new, and the set afterwards -/
def btreeInsert (set : List Nat) (x : Nat) : Bool × List Nat :=
  if set.contains x then (false, set) else (true, x :: set)

end Fancy.GenState
