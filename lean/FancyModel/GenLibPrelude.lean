import FancyModel.Model.Regex
import FancyModel.Model.Parse
import FancyModel.GeneratedCompile
import FancyModel.GeneratedToStr
import FancyModel.GeneratedApi
/-!
# Hand-written prelude of the generated glue of lib.rs / replacer.rs (`GeneratedLib.lean`)

`tools/rs2lean_lib.py` translates `RegexOptions::default`, the `RegexBuilder` methods, `Regex::new` / `new_options`,
`wrap_tree`, the search entry points, `captures_len`, `capture_names`, the accessors of `Captures` / `SubCaptureMatches`
/ `Match` (src/lib.rs) and the `no_expansion` / `replace_append` family (src/replacer.rs) statement by statement. What the
translation does NOT take from the Rust text is fixed here and is *trusted*; notes/translator-lib.md has the full table.

* `usize` / `u32` are `Nat` (`+`, `*` do not overflow, `/ 2` exact); `String` / `&str` patterns and templates are `List Char`,
  group names are the model's `Name = List Nat` (their bytes).
* `RegexOptions` is `ROptions` (`syntaxc: SyntaxConfig` is its one bit that matters here, `case_insensitive`); `Regex`,
  `RegexImpl`, `Captures`, `CapturesImpl`, `SubCaptureMatches` are the records below (the `text` fields are dropped: the
  haystack is the `Ctx` the search runs in); `Match { text, start, end }` is the pair `(start, end)`;
  `named_groups: Arc<HashMap<String, usize>>` is the association list `Parse.Names` (`get` = `namedGet`; its iteration
  order is a PARAMETER of `capture_names`); `ExprTree` is `Parse.Tree`. All struct / enum declarations are compared with
  tables on every run.
* **the other translated pieces are called, not re-modelled**: `analyze(&tree)` is `GenAnalyze.genAnalyze` on the tree
  with the analyzer's own group numbers written into it (`canon`: Rust's `Expr::Group` carries no number, the model's does),
  `compile_with_options(&info, &options)` is `GenCompile.compile_with_options info`, `raw_e.to_str(&mut s, 0)` is
  `GenToStr.genToStr`; `Parser::parse_with_case_insensitive` is a PARAMETER (`parse`), the tie of the parser is C06 / C15.
* **the engine**: `vm::run(prog, text, pos, option_flags, options)` is the model's `run` (Model/VM.lean; tied to vm.rs by
  C05f + C05e) in the context `text` with `pos` and the skipped-empty-match bit of `option_flags` (`vmRun`).
* **regex-automata (A-RA)**: the wrapped `inner: RaRegex` is the pattern string it was built from; what it means is the
  PARAMETER `sem : List Char → Option (Expr × Nat)` ("regex-automata, given this pattern, implements the reference
  semantics of this expression with this many groups"); `compile_inner` accepts what `to_str` prints; `inner.search`,
  `inner.captures`, `inner.is_match`, `inner.captures_len`, `locations.get_group/group_len/is_match` are defined from
  `refSearchK` exactly as `Built.captures` uses it.
-/
namespace Fancy.GenLib
open Fancy.Parse

/-- group names are their bytes; `named_groups` is an association list -/
abbrev Name := List Nat
abbrev Names := List (List Nat × Nat)

/-- `RegexOptions` -/
structure ROptions where
  pattern : List Char
  syntaxc : Bool
  backtrackLimit : Nat
  delegateSizeLimit : Option Nat
  delegateDfaSizeLimit : Option Nat
deriving DecidableEq, Repr, Inhabited

/-- `RegexImpl` -/
inductive RImpl where
  | wrap (inner : List Char) (options : ROptions)
  | fancy (prog : Prog) (nGroups : Nat) (options : ROptions)
deriving Repr, Inhabited

/-- `Regex` -/
structure RRegex where
  inner : RImpl
  namedGroups : Names
deriving Repr, Inhabited

/-- regex-automata's `Captures` (`locations`): the slots of a match, or no match -/
abbrev RaLocs := Option (List (Option Nat))

/-- `CapturesImpl` (without the `text` fields) -/
inductive RCapsImpl where
  | wrap (locations : RaLocs)
  | fancy (saves : List Nat)
deriving Repr, Inhabited

/-- `Captures` -/
structure RCaptures where
  inner : RCapsImpl
  namedGroups : Names
deriving Repr, Inhabited

/-- `SubCaptureMatches { caps, i }` -/
structure RSubCaptureMatches where
  caps : RCaptures
  i : Nat

/-- the errors an entry point can return, and the two artefacts of the engine model -/
inductive RErr where
  | compile (e : CompileErr)
  | backtrackLimit
  | stackOverflow
  | outOfFuel
deriving DecidableEq, Repr, Inhabited

/-- what a translated function yields: a value, an `Err`, or a panic -/
inductive LRes (α : Type) where
  | ok (v : α)
  | err (e : RErr)
  | panic (site : String)
deriving Repr

/-- what regex-automata understood of a pattern string: the expression and the number of groups (A-RA) -/
abbrev RaSem := List Char → Option (Expr × Nat)

/-- the tree with the analyzer's group numbers written into it -/
def canon (e : Expr) : Expr := (renumber e 0).1

/-- `SyntaxConfig::default()`, `.case_insensitive(yes)`, `.get_case_insensitive()`: the one bit -/
def syntaxcDefault : Bool := false

/-- `syntaxc.case_insensitive(yes)` -/
def syntaxcSet (_ : Bool) (yes : Bool) : Bool := yes

/-- `hi: usize` of an `Expr::Repeat` literal as the model's `Option Nat` (`usize::MAX` = unbounded) -/
def hiOpt (n : Nat) : Option Nat := if n == UNSET then none else some n

/-- `Vec::resize(n, x)` -/
def vecResize {α : Type} (v : List α) (n : Nat) (x : α) : List α := v.take n ++ List.replicate (n - v.length) x

/-- `v[i] = x` (`none` = index out of bounds) -/
def vecSet {α : Type} (v : List α) (i : Nat) (x : α) : Option (List α) := if i < v.length then some (v.set i x) else none

/-- `analyze(&tree)`: the translated analyzer on the tree carrying the analyzer's own group numbers -/
def analyze (tree : Tree) : LRes GenAnalyze.GInfo :=
  match GenAnalyze.genAnalyze (fun g => tree.backrefs.contains g) (canon tree.expr) with
  | .error (.compile e) => .err (.compile e)
  | .error .indexPanic => .panic "analyze: index"
  | .ok info => .ok info

/-- `compile_with_options(&info, &options)`: the translated compiler (the options only reach the delegates' builders) -/
def compile_with_options (info : GenAnalyze.GInfo) (options : ROptions) : LRes Prog :=
  match GenCompile.compile_with_options info with
  | .error (.compile e) => .err (.compile e)
  | .error (.panic s) => .panic s
  | .ok p => .ok p

/-- `compile::compile_inner(&pattern, &options)`: regex-automata accepts what `to_str` prints -/
def compile_inner (pattern : List Char) (options : ROptions) : LRes (List Char) := .ok pattern

/-- `vm::run(prog, text, pos, option_flags, options)` -/
def vmRun (fuel : Nat) (prog : Prog) (text : Ctx) (pos option_flags : Nat) (options : ROptions) : LRes (Option (List Nat)) :=
  match (run { text with pos := pos, skipped := (option_flags &&& GenApi.OPTION_SKIPPED_EMPTY_MATCH != 0) } prog
          ⟨options.backtrackLimit, maxStackDefault⟩ fuel).1 with
  | .matched saves => .ok (some saves)
  | .noMatch => .ok none
  | .errLimit => .err .backtrackLimit
  | .errStack => .err .stackOverflow
  | .panic s => .panic s
  | .outOfFuel => .err .outOfFuel

/-- `RaInput::new(text).span(pos..end)`: the context to search in; only a span to the end of the text is modelled -/
def raInput (text : Ctx) (pos stop : Nat) : Option Ctx := if stop == text.len then some { text with pos := pos } else none

/-- `inner.captures(input, &mut locations)` (after `inner.create_captures()`): the reference search -/
def raCaptures (sem : RaSem) (inner : List Char) (input : Option Ctx) : RaLocs :=
  match sem inner, input with
  | some (raw, n), some c => (refSearchK c raw n).map (·.slots)
  | _, _ => none

/-- a model slot as the `usize` the Rust code holds (`usize::MAX` = unset) -/
def rawOf (o : Option Nat) : Nat := o.getD UNSET

/-- `inner.search(&input)`: the overall span `(m.start(), m.end())` -/
def raSearch (sem : RaSem) (inner : List Char) (input : Option Ctx) : Option (Nat × Nat) :=
  (raCaptures sem inner input).map fun slots => (rawOf (slots[0]?).join, rawOf (slots[1]?).join)

/-- `inner.is_match(text)` -/
def raIsMatch (sem : RaSem) (inner : List Char) (text : Ctx) : Bool :=
  (raCaptures sem inner (some { text with pos := 0 })).isSome

/-- `inner.captures_len()` -/
def raCapturesLen (sem : RaSem) (inner : List Char) : Nat := match sem inner with | some (_, n) => n | none => 0

/-- `locations.get_group(i)`: `Some(span)` with `(span.start, span.end)` -/
def raGetGroup (l : RaLocs) (i : Nat) : Option (Nat × Nat) :=
  match l with
  | none => none
  | some slots =>
    match slots[i * 2]?, slots[i * 2 + 1]? with
    | some (some lo), some hi => some (lo, rawOf hi)
    | _, _ => none

/-- `locations.group_len()` -/
def raGroupLen (l : RaLocs) : Nat := match l with | some slots => slots.length / 2 | none => 0

end Fancy.GenLib
