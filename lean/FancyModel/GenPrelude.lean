import FancyModel.Model.Analyze
/-!
# Hand-written prelude of the generated analyzer (`GeneratedAnalyze.lean`)

`tools/rs2lean_analyze.py` translates `Analyzer::visit` (src/analyze.rs) statement by statement.
Everything the translation does NOT take from the Rust text is fixed here (or in the files this one
imports) and is *trusted*; the list is short on purpose (notes/translator-analyze.md):

* `usize` is `Nat`; `a.saturating_add(b)` / `a.saturating_mul(b)` are `satAdd` / `satMul`
  (Model/Analyze.lean: saturation at `UNSET = usize::MAX`); `min(a, b)` (`core::cmp::min`) is `min`;
  `x += 1` on `self.group_ix` is `+ 1` (no overflow: there are at most as many groups as pattern bytes).
* `Expr` (src/lib.rs) is the model's `Expr` (Model/Basic.lean): the variant table is in the
  translator and is compared with the `enum Expr` declaration on every run. Two fields differ:
  `Group` has no number on the Rust side (the model's field is ignored: pattern `.group _ child`),
  and `Repeat::hi : usize` with `usize::MAX` = "no upper bound" is `Option Nat`, read through `hiVal`.
* `Assertion::is_hard` is `Assertion.isHard` (Model/Basic.lean).
* `self.backrefs.contains(g)` (`BitSet::contains`) is `bitsetContains br g`, the set being given by
  its membership function.
* `&v[0]` / `&v[1..]` on an empty `Vec` panic: outcome `GErr.indexPanic`.
* `Err(Error::CompileError(CompileError::X(..)))` is `GErr.compile x` (the message strings are not
  modelled).
-/
namespace Fancy.GenAnalyze

/-- outcomes of the translated `visit` other than `Ok`: a compile error, or an index panic -/
inductive GErr where
  | compile (e : CompileErr)
  | indexPanic
deriving DecidableEq, Repr, Inhabited

/-- `Repeat::hi` as the `usize` the Rust code sees: "no upper bound" is `usize::MAX` -/
def hiVal : Option Nat → Nat
  | none => UNSET
  | some h => h

/-- `BitSet::contains` on the analyzer's `backrefs` set, the set given by its membership function -/
def bitsetContains (br : Nat → Bool) (g : Nat) : Bool := br g

end Fancy.GenAnalyze
