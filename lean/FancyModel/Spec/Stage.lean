import FancyModel.Model.Compile
import FancyModel.Spec.Domain
/-!
# Stage S3 of the engine refinement: the shapes for which compiler correctness is proved *with*
delegation (DESIGN.md §12.1)

`s3ok br e hard` follows the compiler's own decisions (`visit br e hard …`):

* a sub-expression that is not hard, met in a non-hard context, is handed to the automata engine as a
  whole (`compile_delegate`): always fine — the context only ever consumes its first result;
* in a hard context a `Delegate` instruction must stand for a piece all of whose results are one and
  the same state: a constant-size piece *without capture groups* (a class, a case-insensitive
  literal, an easy prefix / suffix of a concatenation), or a *linear* piece (`linearE`: no variable
  repeat; an alternation only when it has no capture groups and all its alternatives have one and the
  same constant size, `(a|b)`, `(foo|bar)`; capture groups allowed around and beside it). Taking the
  first result then loses nothing. An alternation whose alternatives write different groups
  (`(?:x(a)|y(b))` in front of a hard item) stays outside: telling the alternatives apart by their
  first characters is not sound, because the character comparison `Ctx.ceq` is a free table — with a
  permissive one both alternatives match, the `Delegate` keeps the first and the reference semantics
  may need the second (negative example in Proofs/C01d.lean);
* everything else as in `s2ok`.
-/
namespace Fancy

mutual
/-- "linear": no choice that can be observed — literals, classes, `.`, assertions, groups,
    concatenations and exact-count repeats of such, and alternations without capture groups whose
    alternatives all have the same constant size (the analyzer's `constSize`). All results of a
    linear expression from one state are one and the same state (`linear_same`, Lemmas/Linear.lean:
    at most one result without alternations; with them possibly several copies of the state
    `{st with ix := st.ix + size}`), so its first result stands for all of them even when it contains
    capture groups. -/
def linearE : Expr → Bool
  | .empty => true
  | .any _ => true
  | .assertion _ => true
  | .literal _ _ => true
  | .delegate _ _ _ => true
  | .concat es => linearAll es
  | .alt es => linearAll es && groupCountList es == 0 && constSize (.alt es)
  | .group _ e => linearE e
  | .repeat e lo hi _ => linearE e && hi == some lo
  | _ => false
def linearAll : List Expr → Bool
  | [] => true
  | e :: es => linearE e && linearAll es
end

mutual
def s3ok (br : Nat → Bool) : Expr → Bool → Bool
  | e, hard =>
    if !hard && !isHard br e then true else
    match e with
    | .empty => true
    | .any _ => true
    | .assertion _ => true
    | .literal v _ => v.length == 1
    | .delegate _ size _ => size == 1
    | .concat es =>
      let sp := concatSplit br es hard
      s3okAll br es && noBareEndZAll es &&
        (groupCountList (es.take sp.1) == 0 || linearAll (es.take sp.1)) &&
        (!hard || groupCountList (es.drop sp.2) == 0 || linearAll (es.drop sp.2))
    | .alt es => !es.isEmpty && s3okAlts br es hard
    | .group _ e => s3ok br e hard
    | .repeat e lo hi _ =>
      (if lo == 0 && hi == some 1 then s3ok br e hard else s3ok br e true) && (hi != none || decide (0 < minSize e))
    | .look e .ahead => s3ok br e false && condFree e
    | .look e .aheadNeg => s3ok br e false
    -- look-behinds, alternation bodies included (`(?<=a|bb)`: all four layouts of the compiler). For
    -- `e = .alt es` the three conditions read: every alternative is `s3ok … false` (and there is one),
    -- `condFreeAll es`, `noBareEndZAll es`.
    | .look e .behind => s3ok br e false && condFree e && noBareEndZ e
    | .look e .behindNeg => s3ok br e false && noBareEndZ e
    | .backref _ => true
    | .atomic e => s3ok br e false && condFree e
    | .keepOut => true
    | .contPrev => true
    | .backrefExists _ => true
    | .cond c y n => s3ok br c hard && condFree c && s3ok br y hard && s3ok br n hard
    | .subroutine _ => false
/-- the children of a concatenation, each as compiled in a hard context -/
def s3okAll (br : Nat → Bool) : List Expr → Bool
  | [] => true
  | e :: es => s3ok br e true && s3okAll br es
/-- the alternatives of an alternation, each in the alternation's own context -/
def s3okAlts (br : Nat → Bool) : List Expr → Bool → Bool
  | [], _ => true
  | e :: es, hard => s3ok br e hard && s3okAlts br es hard
end

/-- decidable condition on a program: every `Delegate` owns groups inside the ordinary slots and its
    expressions mention only ordinary slots -/
def progDelegOK (nS : Nat) (prog : List Insn) : Bool :=
  prog.all fun i =>
    match i with
    | .delegate es sg eg => decide (eg * 2 ≤ nS) && decide (sg ≤ eg) && slotsBelowAll nS es
    | _ => true

end Fancy
