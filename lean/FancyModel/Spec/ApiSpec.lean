import FancyModel.Model.Utf8
/-!
# The API-level statements, written as the properties word them (independent of the code's state
machines in `Model/Api.lean`)
-/
namespace Fancy.ApiSpec
open Fancy.Utf8

/-- C08: "repeatedly taking the leftmost match from the previous end, stepping one character after
    an empty match and dropping an empty match adjacent to the previous match".
    `search pos skipped` is the (error-free) search; `prevEnd` the end of the last yielded match. -/
def iterFrom (search : Nat → Bool → Option (Nat × Nat)) (text : Bytes) :
    Nat → Nat → Option Nat → List (Nat × Nat)
  | 0, _, _ => []
  | fuel + 1, pos, prevEnd =>
    if pos > text.length then [] else
    let skipped := match prevEnd with | some pe => decide (pos > pe) | none => false
    match search pos skipped with
    | none => []
    | some (s, e) =>
      if s == e then
        if some e == prevEnd then iterFrom search text fuel (nextUtf8 text e) prevEnd
        else (s, e) :: iterFrom search text fuel (nextUtf8 text e) (some e)
      else (s, e) :: iterFrom search text fuel e (some e)

def iter (search : Nat → Bool → Option (Nat × Nat)) (text : Bytes) : List (Nat × Nat) :=
  iterFrom search text (2 * text.length + 4) 0 none

/-- C10: the substrings between consecutive matches (one more piece than matches) -/
def piecesFrom (len : Nat) : List (Nat × Nat) → Nat → List (Nat × Nat)
  | [], last => [(last, len)]
  | (s, e) :: ms, last => (last, s) :: piecesFrom len ms e

def pieces (len : Nat) (ms : List (Nat × Nat)) : List (Nat × Nat) := piecesFrom len ms 0

/-- C10: `splitn n`: the first `n-1` pieces and then the untouched remainder -/
def piecesN (len : Nat) (ms : List (Nat × Nat)) (n : Nat) : List (Nat × Nat) :=
  match n with
  | 0 => []
  | k + 1 =>
    let ps := pieces len ms
    if ps.length ≤ k then ps
    else ps.take k ++ [((ps.getD k (0, 0)).1, len)]

/-- C11: the text with the first `n` (all if `n = 0`) match ranges replaced -/
def replaceFrom (text : Bytes) (rep : Nat → Bytes) : List (Nat × Nat) → Nat → Nat → Bytes
  | [], _, last => text.drop last
  | (s, e) :: ms, i, last => (text.drop last).take (s - last) ++ rep i ++ replaceFrom text rep ms (i + 1) e

def replaced (text : Bytes) (ms : List (Nat × Nat)) (n : Nat) (rep : Nat → Bytes) : Bytes :=
  replaceFrom text rep (if n == 0 then ms else ms.take n) 0 0

end Fancy.ApiSpec
