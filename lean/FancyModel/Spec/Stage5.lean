import FancyModel.Spec.Stage4
/-!
# Stage S5 of the engine refinement (decidable predicates; proofs in Lemmas/SimCompile5.lean,
Lemmas/Atomize2.lean, Proofs/C01h.lean)

Stage S4 drops stage S3's demand on the delegated runs (group-free or linear) for the concatenation at the
top of the pattern. Stage S5 drops it for EVERY concatenation the compiler meets — inside groups,
alternations, repeats (bounded or not, greedy or lazy), look-around bodies (ahead and behind), atomic groups
and conditional branches.

* `atomizeP br e hard` follows the compiler's decisions (`visit br e hard`, as `s3ok` does) and wraps every
  delegated run that owns capture groups and is not linear in an atomic group (`runA5`); the compiled code
  of `e` simulates the semantics of `atomizeP br e hard`;
* `atzSlots br e hard`: the slots of the groups owned by the atomized runs;
* `noRead U e`: no `\g`, `(?(g)…)` in `e` reads a slot of `U`;
* `s5ok br e hard`: `s3ok` without the demand on the runs;
* `unref5OK br raw`: NOTHING in the whole raw tree reads a slot owned by an atomized run (the conservative
  choice: it covers everything that can execute after a run, loops and backtracking included; the runs
  themselves only WRITE their slots, which does not matter).
-/
namespace Fancy

/-- a delegated run as the machine sees it (= `runA`, Lemmas/SimCompile4.lean) -/
def runA5 (es : List Expr) : List Expr :=
  if groupCountList es == 0 || linearAll es then es else [.atomic (.concat es)]

/-- the slots an atomized run owns -/
def runSlots (es : List Expr) : List Nat :=
  if groupCountList es == 0 || linearAll es then [] else ownSlotsListS es

mutual
/-- the tree whose semantics the compiled code of `e` (in context `hard`) simulates -/
def atomizeP (br : Nat → Bool) : Expr → Bool → Expr
  | e, hard =>
    if !hard && !isHard br e then e else
    match e with
    | .concat es =>
      .concat (runA5 (es.take (concatSplit br es hard).1) ++
        (((atomizeAll br es).drop (concatSplit br es hard).1).take
            ((concatSplit br es hard).2 - (concatSplit br es hard).1) ++
          (if hard then runA5 (es.drop (concatSplit br es hard).2) else es.drop (concatSplit br es hard).2)))
    | .alt es => .alt (atomizeAlts br es hard)
    | .group g e => .group g (atomizeP br e hard)
    | .repeat e lo hi gr => .repeat (atomizeP br e (if lo == 0 && hi == some 1 then hard else true)) lo hi gr
    | .look e la => .look (atomizeP br e false) la
    | .atomic e => .atomic (atomizeP br e false)
    | .cond c y n => .cond (atomizeP br c hard) (atomizeP br y hard) (atomizeP br n hard)
    | e => e
/-- the children of a concatenation, each as compiled in a hard context -/
def atomizeAll (br : Nat → Bool) : List Expr → List Expr
  | [] => []
  | e :: es => atomizeP br e true :: atomizeAll br es
/-- the alternatives of an alternation, each in the alternation's own context -/
def atomizeAlts (br : Nat → Bool) : List Expr → Bool → List Expr
  | [], _ => []
  | e :: es, hard => atomizeP br e hard :: atomizeAlts br es hard
end

mutual
/-- the slots owned by the atomized runs of `atomizeP br e hard` (a superset: every child of a
    concatenation is looked at, also those inside its delegated runs) -/
def atzSlots (br : Nat → Bool) : Expr → Bool → List Nat
  | e, hard =>
    if !hard && !isHard br e then [] else
    match e with
    | .concat es =>
      runSlots (es.take (concatSplit br es hard).1) ++
        (atzSlotsAll br es ++ (if hard then runSlots (es.drop (concatSplit br es hard).2) else []))
    | .alt es => atzSlotsAlts br es hard
    | .group _ e => atzSlots br e hard
    | .repeat e lo hi _ => atzSlots br e (if lo == 0 && hi == some 1 then hard else true)
    | .look e _ => atzSlots br e false
    | .atomic e => atzSlots br e false
    | .cond c y n => atzSlots br c hard ++ (atzSlots br y hard ++ atzSlots br n hard)
    | _ => []
def atzSlotsAll (br : Nat → Bool) : List Expr → List Nat
  | [] => []
  | e :: es => atzSlots br e true ++ atzSlotsAll br es
def atzSlotsAlts (br : Nat → Bool) : List Expr → Bool → List Nat
  | [], _ => []
  | e :: es, hard => atzSlots br e hard ++ atzSlotsAlts br es hard
end

mutual
/-- no back-reference / group test in `e` reads a slot of `U` -/
def noRead (U : List Nat) : Expr → Bool
  | .backref g => !U.contains (2 * g) && !U.contains (2 * g + 1)
  | .backrefExists g => !U.contains (2 * g)
  | .group _ e => noRead U e
  | .concat es => noReadAll U es
  | .alt es => noReadAll U es
  | .look e _ => noRead U e
  | .repeat e _ _ _ => noRead U e
  | .atomic e => noRead U e
  | .cond c y n => noRead U c && noRead U y && noRead U n
  | _ => true
def noReadAll (U : List Nat) : List Expr → Bool
  | [] => true
  | e :: es => noRead U e && noReadAll U es
end

mutual
/-- `s3ok` without the demand on the delegated runs -/
def s5ok (br : Nat → Bool) : Expr → Bool → Bool
  | e, hard =>
    if !hard && !isHard br e then true else
    match e with
    | .empty => true
    | .any _ => true
    | .assertion _ => true
    | .literal v _ => v.length == 1
    | .delegate _ size _ => size == 1
    | .concat es => s5okAll br es && noBareEndZAll es
    | .alt es => !es.isEmpty && s5okAlts br es hard
    | .group _ e => s5ok br e hard
    | .repeat e lo hi _ =>
      (if lo == 0 && hi == some 1 then s5ok br e hard else s5ok br e true) && (hi != none || decide (0 < minSize e))
    | .look e .ahead => s5ok br e false && condFree e
    | .look e .aheadNeg => s5ok br e false
    | .look e .behind => s5ok br e false && condFree e && noBareEndZ e
    | .look e .behindNeg => s5ok br e false && noBareEndZ e
    | .backref _ => true
    | .atomic e => s5ok br e false && condFree e
    | .keepOut => true
    | .contPrev => true
    | .backrefExists _ => true
    | .cond c y n => s5ok br c hard && condFree c && s5ok br y hard && s5ok br n hard
    | .subroutine _ => false
def s5okAll (br : Nat → Bool) : List Expr → Bool
  | [] => true
  | e :: es => s5ok br e true && s5okAll br es
def s5okAlts (br : Nat → Bool) : List Expr → Bool → Bool
  | [], _ => true
  | e :: es, hard => s5ok br e hard && s5okAlts br es hard
end

/-- nothing in the raw tree reads a slot owned by an atomized run -/
def unref5OK (br : Nat → Bool) (raw : Expr) : Bool := noRead (atzSlots br raw true) raw

/-- stage S5 on the raw tree -/
def s5Raw (br : Nat → Bool) (raw : Expr) : Bool := s5ok br raw true && unref5OK br raw

end Fancy
