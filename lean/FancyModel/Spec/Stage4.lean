import FancyModel.Spec.Stage
/-!
# Stage S4 of the engine refinement (decidable predicates; the proofs are in Lemmas/SimCompile4.lean,
Lemmas/Atomize.lean, Proofs/C01g.lean)

Stage S3 demands that the easy constant-size prefix / suffix run of a concatenation, which the compiler
hands to the automata engine as ONE `Delegate` (first result only), owns no capture group or is linear.
Stage S4 drops the demand for the concatenation at the TOP of the pattern, provided the rest of the
pattern does not touch the own groups of such a prefix run (`unrefOK`): all results of the run are at one
position and differ only in those groups, so the first one stands for all of them.
-/
namespace Fancy

mutual
/-- the slots an expression may write: those of its capture groups, and slot 0 for `\K`
    (= `ownSlots` of Proofs/C02.lean: `ownSlotsS_eq`, Lemmas/Atomize.lean) -/
def ownSlotsS : Expr → List Nat
  | .group g e => (2 * g) :: (2 * g + 1) :: ownSlotsS e
  | .concat es => ownSlotsListS es
  | .alt es => ownSlotsListS es
  | .look e _ => ownSlotsS e
  | .repeat e _ _ _ => ownSlotsS e
  | .atomic e => ownSlotsS e
  | .cond c y n => ownSlotsS c ++ ownSlotsS y ++ ownSlotsS n
  | .keepOut => [0]
  | _ => []
def ownSlotsListS : List Expr → List Nat
  | [] => []
  | e :: es => ownSlotsS e ++ ownSlotsListS es
end

mutual
/-- `e` neither reads (`\g`, `(?(g)…)`) nor writes (a group, `\K`) a slot of `U` -/
def untouched (U : List Nat) : Expr → Bool
  | .backref g => !U.contains (2 * g) && !U.contains (2 * g + 1)
  | .backrefExists g => !U.contains (2 * g)
  | .group g e => !U.contains (2 * g) && !U.contains (2 * g + 1) && untouched U e
  | .keepOut => !U.contains 0
  | .concat es => untouchedAll U es
  | .alt es => untouchedAll U es
  | .look e _ => untouched U e
  | .repeat e _ _ _ => untouched U e
  | .atomic e => untouched U e
  | .cond c y n => untouched U c && untouched U y && untouched U n
  | _ => true
def untouchedAll (U : List Nat) : List Expr → Bool
  | [] => true
  | e :: es => untouched U e && untouchedAll U es
end

/-- what the semantic half asks of the top-level concatenation: the prefix run is as in stage S3, or the
    rest of the pattern does not touch its own groups (nothing is asked of the suffix run: it is last) -/
def unrefOK (br : Nat → Bool) (es : List Expr) : Bool :=
  (groupCountList (es.take (concatSplit br es true).1) == 0 || linearAll (es.take (concatSplit br es true).1)) ||
    untouchedAll (ownSlotsListS (es.take (concatSplit br es true).1)) (es.drop (concatSplit br es true).1)

/-- stage S4 on the raw tree: stage S3, or a top-level concatenation whose children are stage S3 (each in
    a hard context) with no demand on the groups of its delegated runs except `unrefOK` -/
def s4ok (br : Nat → Bool) (raw : Expr) : Bool :=
  s3ok br raw true ||
    match raw with
    | .concat es => s3okAll br es && noBareEndZAll es && unrefOK br es
    | _ => false

end Fancy
