import FancyModel.Model.Analyze
/-!
# Domain predicates of the engine theorems (DESIGN.md §3.3) — all decidable, all evaluated by the
driver for every explored pattern.
-/
namespace Fancy

mutual
/-- every `hi = ∞` repeat has a body that cannot match the empty string (excludes F1) -/
def noEmptyLoop : Expr → Bool
  | .concat es => noEmptyLoopAll es
  | .alt es => noEmptyLoopAll es
  | .group _ e => noEmptyLoop e
  | .look e _ => noEmptyLoop e
  | .repeat e _ hi _ => noEmptyLoop e && (hi.isSome || minSize e > 0)
  | .atomic e => noEmptyLoop e
  | .cond c y n => noEmptyLoop c && noEmptyLoop y && noEmptyLoop n
  | _ => true
def noEmptyLoopAll : List Expr → Bool
  | [] => true
  | e :: es => noEmptyLoop e && noEmptyLoopAll es
end

mutual
def hasCond : Expr → Bool
  | .concat es => hasCondAny es
  | .alt es => hasCondAny es
  | .group _ e => hasCond e
  | .look e _ => hasCond e
  | .repeat e _ _ _ => hasCond e
  | .atomic e => hasCond e
  | .cond _ _ _ => true
  | _ => false
def hasCondAny : List Expr → Bool
  | [] => false
  | e :: es => hasCond e || hasCondAny es
end

mutual
/-- no conditional inside an atomic group, a positive look-around, or another conditional's
    condition (excludes F8: the false path leaks an auxiliary-stack entry) -/
def noCondLeak : Expr → Bool
  | .concat es => noCondLeakAll es
  | .alt es => noCondLeakAll es
  | .group _ e => noCondLeak e
  | .look e .ahead => !hasCond e
  | .look e .behind => !hasCond e
  | .look e _ => noCondLeak e
  | .repeat e _ _ _ => noCondLeak e
  | .atomic e => !hasCond e
  | .cond c y n => !hasCond c && noCondLeak y && noCondLeak n
  | _ => true
def noCondLeakAll : List Expr → Bool
  | [] => true
  | e :: es => noCondLeak e && noCondLeakAll es
end

mutual
/-- every back-reference / group test names a group whose closing parenthesis precedes it;
    threads the list of closed groups (excludes F10) -/
def closedGo : Expr → List Nat → Bool × List Nat
  | .group g e, cl => let r := closedGo e cl; (r.1, g :: r.2)
  | .concat es, cl => closedGoList es cl
  | .alt es, cl => closedGoList es cl
  | .look e _, cl => closedGo e cl
  | .repeat e _ _ _, cl => closedGo e cl
  | .atomic e, cl => closedGo e cl
  | .backref g, cl => (cl.contains g, cl)
  | .backrefExists g, cl => (cl.contains g, cl)
  | .cond c y n, cl =>
    let rc := closedGo c cl
    let ry := closedGo y rc.2
    let rn := closedGo n ry.2
    (rc.1 && ry.1 && rn.1, rn.2)
  | _, cl => (true, cl)
def closedGoList : List Expr → List Nat → Bool × List Nat
  | [], cl => (true, cl)
  | e :: es, cl =>
    let r := closedGo e cl
    let rs := closedGoList es r.2
    (r.1 && rs.1, rs.2)
end

def closed (e : Expr) : Bool := (closedGo e []).1

mutual
/-- shape facts the parser guarantees: literals are one character, alternations are non-empty,
    no subroutine calls -/
def wellShaped : Expr → Bool
  | .literal val _ => val.length == 1
  | .concat es => wellShapedAll es
  | .alt es => !es.isEmpty && wellShapedAll es
  | .group _ e => wellShaped e
  | .look e _ => wellShaped e
  | .repeat e _ _ _ => wellShaped e
  | .atomic e => wellShaped e
  | .cond c y n => wellShaped c && wellShaped y && wellShaped n
  | .subroutine _ => false
  | _ => true
def wellShapedAll : List Expr → Bool
  | [] => true
  | e :: es => wellShaped e && wellShapedAll es
end

mutual
/-- the sizes written on `Delegate` leaves fit `usize` (the parser writes only 0 and 1) -/
def leafSizesOK : Expr → Bool
  | .delegate _ size _ => decide (size ≤ UNSET)
  | .concat es => leafSizesOKList es
  | .alt es => leafSizesOKList es
  | .group _ e => leafSizesOK e
  | .look e _ => leafSizesOK e
  | .repeat e _ _ _ => leafSizesOK e
  | .atomic e => leafSizesOK e
  | .cond c y n => leafSizesOK c && leafSizesOK y && leafSizesOK n
  | _ => true
def leafSizesOKList : List Expr → Bool
  | [] => true
  | e :: es => leafSizesOK e && leafSizesOKList es
end

/-! ## Stage predicates of the engine refinement (DESIGN.md §3.4, §12) -/

mutual
/-- no `\Z` delegate (`inner = "\n*$"`, `size = 0`) outside a look-around -/
def noBareEndZ : Expr → Bool
  | .delegate inner size _ => !(size == 0 && inner == ['\n', '*', '$'])
  | .concat es => noBareEndZAll es
  | .alt es => noBareEndZAll es
  | .group _ e => noBareEndZ e
  | .look _ _ => true
  | .repeat e _ _ _ => noBareEndZ e
  | .atomic e => noBareEndZ e
  | .cond c y n => noBareEndZ c && noBareEndZ y && noBareEndZ n
  | _ => true
def noBareEndZAll : List Expr → Bool
  | [] => true
  | e :: es => noBareEndZ e && noBareEndZAll es
end

mutual
/-- no conditional anywhere inside: the code is balanced on the auxiliary stack -/
def condFree : Expr → Bool
  | .cond _ _ _ => false
  | .concat es => condFreeAll es
  | .alt es => condFreeAll es
  | .group _ e => condFree e
  | .look e _ => condFree e
  | .repeat e _ _ _ => condFree e
  | .atomic e => condFree e
  | _ => true
def condFreeAll : List Expr → Bool
  | [] => true
  | e :: es => condFree e && condFreeAll es
end

def isAlt : Expr → Bool
  | .alt _ => true
  | _ => false

mutual
def s2ok : Expr → Bool
  | .empty => true
  | .any _ => true
  | .assertion _ => true
  | .literal v ci => !ci && v.length == 1
  | .concat es => s2okAll es
  | .alt es => !es.isEmpty && s2okAll es
  | .group _ e => s2ok e
  | .repeat e _ hi _ => s2ok e && (hi != none || decide (0 < minSize e))
  | .look e .ahead => s2ok e && condFree e
  | .look e .aheadNeg => s2ok e
  | .look e .behind => s2ok e && condFree e && !isAlt e && noBareEndZ e
  | .look e .behindNeg => s2ok e && !isAlt e && noBareEndZ e
  | .backref _ => true
  | .atomic e => s2ok e && condFree e
  | .keepOut => true
  | .contPrev => true
  | .backrefExists _ => true
  | .cond c y n => s2ok c && condFree c && s2ok y && s2ok n
  | .delegate _ _ _ => false
  | .subroutine _ => false
def s2okAll : List Expr → Bool
  | [] => true
  | e :: es => s2ok e && s2okAll es
end


mutual
/-- every capture slot the expression touches lies below `n` -/
def slotsBelow (n : Nat) : Expr → Bool
  | .group g e => decide (2 * g + 1 < n) && slotsBelow n e
  | .backref g => decide (2 * g + 1 < n)
  | .keepOut => decide (0 < n)
  | .concat es => slotsBelowAll n es
  | .alt es => slotsBelowAll n es
  | .repeat e _ _ _ => slotsBelow n e
  | .look e _ => slotsBelow n e
  | .atomic e => slotsBelow n e
  | .backrefExists g => decide (2 * g + 1 < n)
  | .cond c y f => slotsBelow n c && slotsBelow n y && slotsBelow n f
  | _ => true
def slotsBelowAll (n : Nat) : List Expr → Bool
  | [] => true
  | e :: es => slotsBelow n e && slotsBelowAll n es
end

end Fancy
