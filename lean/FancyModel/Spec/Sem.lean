import FancyModel.Model.Basic
/-!
# Reference semantics (DESIGN.md §3.2)

`sem c e st` lists *all* ways `e` can match from state `st`, in priority order (leftmost
alternative first; greedy = more iterations first, lazy = fewer first). It is written from the
property statements (Perl / Oniguruma ordered backtracking), not from the structure of the code.
Positions are code-point indices into `c.text`.
-/
namespace Fancy

/-- Matching state: position and capture slots (`2g` = start of group `g`, `2g+1` = its end). -/
structure St where
  ix : Nat
  slots : List (Option Nat)
deriving DecidableEq, Repr, Inhabited

/-- Search context. The three tables are parameters: no theorem depends on their values. -/
structure Ctx where
  text : List Char
  /-- position the search was started from (for `\G` and the start cap) -/
  pos : Nat
  /-- the iterator skipped past an empty match (then `\G` cannot hold) -/
  skipped : Bool
  isWord : Char → Bool
  /-- `cls inner casei c`: does the one-character class `inner` accept `c` -/
  cls : List Char → Bool → Char → Bool
  /-- `ceq casei a b`: literal character `a` matches text character `b` -/
  ceq : Bool → Char → Char → Bool

namespace Ctx
def len (c : Ctx) : Nat := c.text.length
def at? (c : Ctx) (i : Nat) : Option Char := c.text[i]?

def wordAt (c : Ctx) (i : Nat) : Bool :=
  match c.at? i with | some ch => c.isWord ch | none => false
def wordBefore (c : Ctx) (i : Nat) : Bool := i > 0 && c.wordAt (i - 1)

/-- zero-width assertions (regex-automata `LookMatcher`, unicode word boundaries) -/
def assertion (c : Ctx) (a : Assertion) (ix : Nat) : Bool :=
  match a with
  | .startText => ix == 0
  | .endText => ix == c.len
  | .startLine false => ix == 0 || c.at? (ix - 1) == some '\n'
  | .endLine false => ix == c.len || c.at? ix == some '\n'
  | .startLine true =>
      ix == 0 || c.at? (ix - 1) == some '\n' ||
        (c.at? (ix - 1) == some '\r' && c.at? ix != some '\n')
  | .endLine true =>
      ix == c.len || c.at? ix == some '\r' ||
        (c.at? ix == some '\n' && (ix == 0 || c.at? (ix - 1) != some '\r'))
  | .wordB => c.wordBefore ix != c.wordAt ix
  | .notWordB => c.wordBefore ix == c.wordAt ix
  | .leftWord => !c.wordBefore ix && c.wordAt ix
  | .rightWord => c.wordBefore ix && !c.wordAt ix

/-- does `lit` (with case folding if `casei`) occur at `ix`? -/
def litAt (c : Ctx) (casei : Bool) : List Char → Nat → Bool
  | [], _ => true
  | a :: as, ix => match c.at? ix with
    | some b => c.ceq casei a b && litAt c casei as (ix + 1)
    | none => false

/-- is `text[lo..hi]` equal to `text[ix..ix+(hi-lo)]` (and inside the text)? -/
def sameAt (c : Ctx) (lo hi ix : Nat) : Bool :=
  ix + (hi - lo) ≤ c.len &&
    (List.range (hi - lo)).all fun k => c.at? (lo + k) == c.at? (ix + k)

/-- number of consecutive newlines starting at `ix` -/
def newlinesFrom (c : Ctx) (ix : Nat) : Nat :=
  ((c.text.drop ix).takeWhile (· == '\n')).length
end Ctx

def St.setSlot (st : St) (i : Nat) (v : Option Nat) : St := { st with slots := st.slots.set i v }
def St.slot (st : St) (i : Nat) : Option Nat := (st.slots[i]?).join

/-- The unbounded/bounded repetition loop over an arbitrary body semantics.
    `hi = none`: after `lo` iterations an iteration that consumed nothing *ends the loop*
    (Perl / PCRE / Oniguruma rule). `hi = some h`: plain counted unrolling. -/
def repLoop (body : St → List St) (lo : Nat) (hi : Option Nat) (greedy : Bool) :
    Nat → Nat → St → List St
  | 0, _, _ => []
  | fuel + 1, count, st =>
    if hi = some count then [st] else
    let iters := (body st).flatMap fun r =>
      if hi.isNone && decide (lo ≤ count) && r.ix == st.ix then [r]
      else repLoop body lo hi greedy fuel (count + 1) r
    if count < lo then iters
    else if greedy then iters ++ [st] else st :: iters

/-- look-behind over an arbitrary body: some start `j ≤ ix` has a result ending exactly at `ix`
    (candidates from the nearest start outwards) -/
def behindOne (body : St → List St) (st : St) : List St :=
  (List.range (st.ix + 1)).flatMap fun k =>
    ((body { st with ix := st.ix - k }).filter (fun r => r.ix == st.ix))

def firstOnly (l : List St) : List St := l.head?.toList

/-- is the set of slots written *inside* a class/`\Z` delegate node empty: yes, they have no groups -/
def delegateSem (c : Ctx) (inner : List Char) (size : Nat) (casei : Bool) (st : St) : List St :=
  if size == 1 then
    match c.at? st.ix with
    | some ch => if c.cls inner casei ch then [{ st with ix := st.ix + 1 }] else []
    | none => []
  else if size == 0 && inner == ['\n', '*', '$'] then
    -- `\Z`: greedy newlines then end of text; only the greedy count can reach the end
    let k := c.newlinesFrom st.ix
    if st.ix + k == c.len then [{ st with ix := st.ix + k }] else []
  else []

mutual
def sem (c : Ctx) : Expr → St → List St
  | .empty, st => [st]
  | .any nl, st =>
    match c.at? st.ix with
    | some ch => if nl || ch != '\n' then [{ st with ix := st.ix + 1 }] else []
    | none => []
  | .assertion a, st => if c.assertion a st.ix then [st] else []
  | .literal val casei, st =>
    if c.litAt casei val st.ix then [{ st with ix := st.ix + val.length }] else []
  | .concat es, st => semConcat c es st
  | .alt es, st => semAlt c es st
  | .group g e, st =>
    (sem c e (st.setSlot (2 * g) (some st.ix))).map fun r => r.setSlot (2 * g + 1) (some r.ix)
  | .look e .ahead, st => (firstOnly (sem c e st)).map fun r => { r with ix := st.ix }
  | .look e .aheadNeg, st => if (sem c e st).isEmpty then [st] else []
  | .look e .behind, st =>
    (firstOnly (semBehind c e st)).map fun r => { r with ix := st.ix }
  | .look e .behindNeg, st => if (semBehind c e st).isEmpty then [st] else []
  | .repeat e lo hi greedy, st =>
    repLoop (sem c e) lo hi greedy (max lo (hi.getD 0) + c.len + 2) 0 st
  | .delegate inner size casei, st => delegateSem c inner size casei st
  | .backref g, st =>
    match st.slot (2 * g), st.slot (2 * g + 1) with
    | some lo, some hi =>
      if lo ≤ hi && c.sameAt lo hi st.ix then [{ st with ix := st.ix + (hi - lo) }] else []
    | _, _ => []
  | .atomic e, st => firstOnly (sem c e st)
  | .keepOut, st => [st.setSlot 0 (some st.ix)]
  | .contPrev, st => if st.ix == c.pos && !c.skipped then [st] else []
  | .backrefExists g, st => if (st.slot (2 * g)).isSome then [st] else []
  | .cond cnd y n, st =>
    match (sem c cnd st).head? with
    | some r => sem c y r
    | none => sem c n st
  | .subroutine _, _ => []
def semConcat (c : Ctx) : List Expr → St → List St
  | [], st => [st]
  | e :: es, st => (sem c e st).flatMap (semConcat c es)
def semAlt (c : Ctx) : List Expr → St → List St
  | [], _ => []
  | e :: es, st => sem c e st ++ semAlt c es st
/-- look-behind body: the top-level alternatives are tried in order -/
def semBehind (c : Ctx) : Expr → St → List St
  | .alt es, st => semBehindAlts c es st
  | e, st => behindOne (sem c e) st
def semBehindAlts (c : Ctx) : List Expr → St → List St
  | [], _ => []
  | e :: es, st => behindOne (sem c e) st ++ semBehindAlts c es st
end

/-- Result of a search: the slots of the winning path with slot 1 := end and the start capped
    into `[pos, end]`. -/
structure Found where
  slots : List (Option Nat)
deriving DecidableEq, Repr

def initSlots (nGroups : Nat) : List (Option Nat) := List.replicate (2 * nGroups) none

/-- finish a successful path that began at `start` and ended in `r` -/
def finish (c : Ctx) (r : St) : Found :=
  let s0 := (r.slot 0).getD r.ix
  let s0 := if s0 > r.ix then r.ix else s0
  let s0 := if s0 < c.pos then c.pos else s0
  ⟨(r.slots.set 0 (some s0)).set 1 (some r.ix)⟩

/-- try the start positions `start, start+1, …` (`n` of them) -/
def scanFrom (c : Ctx) (e : Expr) (nGroups : Nat) : Nat → Nat → Option Found
  | 0, _ => none
  | n + 1, start =>
    match (sem c e ⟨start, (initSlots nGroups).set 0 (some start)⟩).head? with
    | some r => some (finish c r)
    | none => scanFrom c e nGroups n (start + 1)

/-- The reference search: leftmost start `≥ pos`, first result in priority order. -/
def refSearch (c : Ctx) (e : Expr) (nGroups : Nat) : Option Found :=
  if c.pos ≤ c.len then scanFrom c e nGroups (c.len - c.pos + 1) c.pos else none

end Fancy
