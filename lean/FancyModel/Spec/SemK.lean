import FancyModel.Spec.Sem
/-!
# First-result evaluation of the reference semantics (continuation-passing)

`semK c e st k` is the first result `r` of `sem c e st` (in priority order) on which the
continuation `k` succeeds — computed without materialising the (possibly exponential) result list.
This is what the executable model and the driver run; `Lemmas/SemK.lean` proves
`semK c e st k = (sem c e st).findSome? k`, so everything stated about `sem` transfers.
-/
namespace Fancy

/-- first success of `k` over `repLoop body …` -/
def repLoopK {α : Type} (bodyK : St → (St → Option α) → Option α) (lo : Nat) (hi : Option Nat)
    (greedy : Bool) : Nat → Nat → St → (St → Option α) → Option α
  | 0, _, _, _ => none
  | fuel + 1, count, st, k =>
    if hi = some count then k st else
    let iters : Option α := bodyK st fun r =>
      if hi.isNone && decide (lo ≤ count) && r.ix == st.ix then k r
      else repLoopK bodyK lo hi greedy fuel (count + 1) r k
    if count < lo then iters
    else if greedy then (match iters with | some a => some a | none => k st)
    else (match k st with | some a => some a | none => iters)

/-- first success of `k` over `behindOne body st`, trying start offsets `ix, ix-1, …`;
    `n` counts the offsets still to try and `j = st.ix - (number tried)` -/
def behindOneK {α : Type} (bodyK : St → (St → Option α) → Option α) (st : St)
    (k : St → Option α) : Nat → Nat → Option α
  | 0, _ => none
  | n + 1, d =>
    match bodyK { st with ix := st.ix - d } (fun r => if r.ix == st.ix then k r else none) with
    | some a => some a
    | none => behindOneK bodyK st k n (d + 1)

mutual
def semK {α : Type} (c : Ctx) : Expr → St → (St → Option α) → Option α
  | .empty, st, k => k st
  | .any nl, st, k =>
    match c.at? st.ix with
    | some ch => if nl || ch != '\n' then k { st with ix := st.ix + 1 } else none
    | none => none
  | .assertion a, st, k => if c.assertion a st.ix then k st else none
  | .literal val casei, st, k =>
    if c.litAt casei val st.ix then k { st with ix := st.ix + val.length } else none
  | .concat es, st, k => semKConcat c es st k
  | .alt es, st, k => semKAlt c es st k
  | .group g e, st, k =>
    semK c e (st.setSlot (2 * g) (some st.ix)) fun r => k (r.setSlot (2 * g + 1) (some r.ix))
  | .look e .ahead, st, k =>
    match semK c e st some with
    | some r => k { r with ix := st.ix }
    | none => none
  | .look e .aheadNeg, st, k =>
    match semK (α := St) c e st some with
    | some _ => none
    | none => k st
  | .look e .behind, st, k =>
    match semKBehind c e st some with
    | some r => k { r with ix := st.ix }
    | none => none
  | .look e .behindNeg, st, k =>
    match semKBehind (α := St) c e st some with
    | some _ => none
    | none => k st
  | .repeat e lo hi greedy, st, k =>
    repLoopK (semK c e) lo hi greedy (max lo (hi.getD 0) + c.len + 2) 0 st k
  | .delegate inner size casei, st, k => (delegateSem c inner size casei st).findSome? k
  | .backref g, st, k =>
    match st.slot (2 * g), st.slot (2 * g + 1) with
    | some lo, some hi =>
      if lo ≤ hi && c.sameAt lo hi st.ix then k { st with ix := st.ix + (hi - lo) } else none
    | _, _ => none
  | .atomic e, st, k =>
    match semK c e st some with
    | some r => k r
    | none => none
  | .keepOut, st, k => k (st.setSlot 0 (some st.ix))
  | .contPrev, st, k => if st.ix == c.pos && !c.skipped then k st else none
  | .backrefExists g, st, k => if (st.slot (2 * g)).isSome then k st else none
  | .cond cnd y n, st, k =>
    match semK c cnd st some with
    | some r => semK c y r k
    | none => semK c n st k
  | .subroutine _, _, _ => none
def semKConcat {α : Type} (c : Ctx) : List Expr → St → (St → Option α) → Option α
  | [], st, k => k st
  | e :: es, st, k => semK c e st fun r => semKConcat c es r k
def semKAlt {α : Type} (c : Ctx) : List Expr → St → (St → Option α) → Option α
  | [], _, _ => none
  | e :: es, st, k =>
    match semK c e st k with
    | some a => some a
    | none => semKAlt c es st k
def semKBehind {α : Type} (c : Ctx) : Expr → St → (St → Option α) → Option α
  | .alt es, st, k => semKBehindAlts c es st k
  | e, st, k => behindOneK (semK c e) st k (st.ix + 1) 0
def semKBehindAlts {α : Type} (c : Ctx) : List Expr → St → (St → Option α) → Option α
  | [], _, _ => none
  | e :: es, st, k =>
    match behindOneK (semK c e) st k (st.ix + 1) 0 with
    | some a => some a
    | none => semKBehindAlts c es st k
end

/-- `scanFrom` with first-result evaluation -/
def scanFromK (c : Ctx) (e : Expr) (nGroups : Nat) : Nat → Nat → Option Found
  | 0, _ => none
  | n + 1, start =>
    match semK c e ⟨start, (initSlots nGroups).set 0 (some start)⟩ some with
    | some r => some (finish c r)
    | none => scanFromK c e nGroups n (start + 1)

/-- `refSearch` with first-result evaluation -/
def refSearchK (c : Ctx) (e : Expr) (nGroups : Nat) : Option Found :=
  if c.pos ≤ c.len then scanFromK c e nGroups (c.len - c.pos + 1) c.pos else none

end Fancy
