import FancyModel.Lemmas.AuxStack
import FancyModel.Lemmas.AVM
/-!
# The structured whole-copy machine: every instruction of the VM (definitions)

`SCfg` is a configuration over `SState` (Lemmas/AuxStack.lean): the `nS` ordinary slots (capture
slots and loop counters), the auxiliary stack of `BeginAtomic`/`EndAtomic` as a separate list, and a
branch stack of whole copies of both. `sstep` is `Model/VM.step` transcribed to this level for *every*
instruction; `Big2` is the big-step relation. The link to the interpreter (`runLoop` on the undo-log
`State`) is in `Lemmas/AVM2.lean`; the simulation of the reference semantics by compiled code is
stated against `Big2` (`Lemmas/Sim2*.lean`).
-/
namespace Fancy

inductive SCfg where
  | run (pc ix : Nat) (slots astk : List Nat) (stack : List SBranch)
  | fail (stack : List SBranch)

/-- `copyGroups` on a plain slot vector: write the pairs of the groups `sg .. sg+n-1` that took part -/
def copyGroupsA (r : St) (sg : Nat) : Nat → List Nat → Option (List Nat)
  | 0, sl => some sl
  | n + 1, sl =>
    match copyGroupsA r sg n sl with
    | none => none
    | some sl =>
      let g := sg + n
      match r.slot (g * 2), r.slot (g * 2 + 1) with
      | some a, some b => if g * 2 + 1 < sl.length then some ((sl.set (g * 2) a).set (g * 2 + 1) b) else none
      | some _, none => none
      | none, _ => some sl

/-- drop the branches above the first one whose pc is `target`, and that one too -/
def dropUntil (target : Nat) : List SBranch → Option (List SBranch)
  | [] => none
  | b :: rest => if b.pc == target then some rest else dropUntil target rest

/-- one instruction on a structured whole-copy configuration; `none`: a panic site, or `End` -/
def sstep (c : Ctx) (prog : List Insn) (nS : Nat) (pc ix : Nat) (slots astk : List Nat) (stack : List SBranch) :
    Option SCfg :=
  match prog[pc]? with
  | none => none
  | some .end_ => none
  | some .any =>
    match c.at? ix with
    | some _ => some (.run (pc + 1) (ix + 1) slots astk stack)
    | none => some (.fail stack)
  | some .anyNoNL =>
    match c.at? ix with
    | some ch => if ch != '\n' then some (.run (pc + 1) (ix + 1) slots astk stack) else some (.fail stack)
    | none => some (.fail stack)
  | some (.lit val) =>
    if c.litAt false val ix then some (.run (pc + 1) (ix + val.length) slots astk stack) else some (.fail stack)
  | some (.assertion a) => if c.assertion a ix then some (.run (pc + 1) ix slots astk stack) else some (.fail stack)
  | some (.split x y) => some (.run x ix slots astk (⟨y, ix, slots, astk⟩ :: stack))
  | some (.jmp t) => some (.run t ix slots astk stack)
  | some (.save slot) => if slot < nS then some (.run (pc + 1) ix (slots.set slot ix) astk stack) else none
  | some (.save0 slot) => if slot < nS then some (.run (pc + 1) ix (slots.set slot 0) astk stack) else none
  | some (.restore slot) =>
    if slot < nS then
      match slots[slot]? with
      | some v =>
        -- the restored value is a position inside the text (never an unset slot): what the byte-level
        -- refinement needs of a run (`Lemmas/VMBytesInv.lean`, `tameOK`); compiled code restores the
        -- position its look-around saved
        if v ≤ c.len then some (.run (pc + 1) v slots astk stack) else none
      | none => none
    else none
  | some (.repeatGr lo hi next rep) =>
    if rep < nS then
      match slots[rep]? with
      | none => none
      | some cnt =>
        if hi == some cnt then some (.run next ix slots astk stack) else
        -- an unbounded loop counts its iterations, each of which advances: the counter never exceeds the
        -- text length (in particular it is not `usize::MAX`, where vm.rs would leave the loop)
        if hi == none && decide (c.len < cnt) then none else
        let slots' := slots.set rep (cnt + 1)
        if cnt ≥ lo then some (.run (pc + 1) ix slots' astk (⟨next, ix, slots', astk⟩ :: stack))
        else some (.run (pc + 1) ix slots' astk stack)
    else none
  | some (.repeatNg lo hi next rep) =>
    if rep < nS then
      match slots[rep]? with
      | none => none
      | some cnt =>
        if hi == some cnt then some (.run next ix slots astk stack) else
        -- an unbounded loop counts its iterations, each of which advances: the counter never exceeds the
        -- text length (in particular it is not `usize::MAX`, where vm.rs would leave the loop)
        if hi == none && decide (c.len < cnt) then none else
        let slots' := slots.set rep (cnt + 1)
        if cnt ≥ lo then some (.run next ix slots' astk (⟨pc + 1, ix, slots', astk⟩ :: stack))
        else some (.run (pc + 1) ix slots' astk stack)
    else none
  | some (.repeatEpsGr lo next rep check) =>
    if rep < nS ∧ check < nS then
      match slots[rep]?, slots[check]? with
      | some cnt, some chk =>
        if cnt > lo && chk == ix then some (.fail stack) else
        let slots' := slots.set rep (cnt + 1)
        if cnt ≥ lo then
          let slots'' := slots'.set check ix
          some (.run (pc + 1) ix slots'' astk (⟨next, ix, slots'', astk⟩ :: stack))
        else some (.run (pc + 1) ix slots' astk stack)
      | _, _ => none
    else none
  | some (.repeatEpsNg lo next rep check) =>
    if rep < nS ∧ check < nS then
      match slots[rep]?, slots[check]? with
      | some cnt, some chk =>
        if cnt > lo && chk == ix then some (.fail stack) else
        let slots' := slots.set rep (cnt + 1)
        if cnt ≥ lo then
          let slots'' := slots'.set check ix
          some (.run next ix slots'' astk (⟨pc + 1, ix, slots'', astk⟩ :: stack))
        else some (.run (pc + 1) ix slots' astk stack)
      | _, _ => none
    else none
  | some (.goBack n) =>
    match goBack ix n with
    | some ix' => some (.run (pc + 1) ix' slots astk stack)
    | none => some (.fail stack)
  | some .failNegLook =>
    match dropUntil (pc + 1) stack with
    | some rest => some (.fail rest)
    | none => none
  | some (.backref slot) =>
    if slot + 1 < nS then
      match slots[slot]?, slots[slot + 1]? with
      | some lo, some hi =>
        if lo == UNSET || hi == UNSET then some (.fail stack)
        else if lo > hi then some (.fail stack)
        else if c.sameAt lo hi ix then some (.run (pc + 1) (ix + (hi - lo)) slots astk stack) else some (.fail stack)
      | _, _ => none
    else none
  | some (.backrefExists g) =>
    if g * 2 < nS then
      match slots[g * 2]? with
      | some lo => if lo == UNSET then some (.fail stack) else some (.run (pc + 1) ix slots astk stack)
      | none => none
    else none
  | some .beginAtomic => some (.run (pc + 1) ix slots (stack.length :: astk) stack)
  | some .endAtomic =>
    match astk with
    | [] => none
    | count :: rest =>
      if count ≤ stack.length then some (.run (pc + 1) ix slots rest (stack.drop (stack.length - count))) else none
  | some (.delegate es sg eg) =>
    match delegateOracle c es sg eg ix slots with
    | none => some (.fail stack)
    | some r =>
      if sg == eg then some (.run (pc + 1) r.ix slots astk stack)
      else match copyGroupsA r sg (eg - sg) slots with
        | some slots' => some (.run (pc + 1) r.ix slots' astk stack)
        | none => none
  | some .contPrev => if ix != c.pos || c.skipped then some (.fail stack) else some (.run (pc + 1) ix slots astk stack)

inductive Big2 (c : Ctx) (prog : List Insn) (nS : Nat) : SCfg → Ans → Prop where
  /-- `End`: the answer is the (capped) slot vector truncated to any `k` cells — the caller of the VM
      (`Regex::captures`) truncates to the capture slots; the auxiliary slots beyond are not observable -/
  | done (pc ix : Nat) (slots astk : List Nat) (stack : List SBranch) (k : Nat) :
      prog[pc]? = some .end_ → 1 < k → k ≤ nS → slots.length = nS →
      Big2 c prog nS (.run pc ix slots astk stack) (.matched ((capSaves slots c.pos).take k))
  | step (pc ix : Nat) (slots astk : List Nat) (stack : List SBranch) (cfg' : SCfg) (a : Ans) :
      sstep c prog nS pc ix slots astk stack = some cfg' → Big2 c prog nS cfg' a →
      Big2 c prog nS (.run pc ix slots astk stack) a
  | failEmpty : Big2 c prog nS (.fail []) .noMatch
  | failPop (b : SBranch) (rest : List SBranch) (a : Ans) :
      Big2 c prog nS (.run b.pc b.ix b.slots b.astk rest) a → Big2 c prog nS (.fail (b :: rest)) a

/-- The outcomes the link theorem allows: a resource stop, or the abstract answer — where a match
    reports a slot vector of which the abstract answer is a prefix (the cells beyond hold auxiliary
    slots and the auxiliary stack, which `Regex::captures` truncates away). -/
def Good2 (nS : Nat) (out : Outcome) (a : Ans) : Prop :=
  out = .outOfFuel ∨ out = .errStack ∨ out = .errLimit ∨
    match a with
    | .noMatch => out = .noMatch
    | .matched sl => ∃ saves, out = .matched saves ∧ saves.take sl.length = sl

/-- every `Delegate` of the program reads and writes only ordinary slots: running its oracle on the
    flat vector and on its first `nS` cells gives the same position and the same group pairs -/
def DelegOK (c : Ctx) (prog : List Insn) (nS : Nat) : Prop :=
  ∀ (pc : Nat) (es : List Expr) (sg eg : Nat), prog[pc]? = some (Insn.delegate es sg eg) →
    eg * 2 ≤ nS ∧ sg ≤ eg ∧
    ∀ ix (flat : List Nat), nS ≤ flat.length →
      (delegateOracle c es sg eg ix flat).isSome = (delegateOracle c es sg eg ix (flat.take nS)).isSome ∧
      ∀ r r', delegateOracle c es sg eg ix flat = some r → delegateOracle c es sg eg ix (flat.take nS) = some r' →
        r.ix = r'.ix ∧ ∀ g, sg ≤ g → g < eg → r.slot (g * 2) = r'.slot (g * 2) ∧ r.slot (g * 2 + 1) = r'.slot (g * 2 + 1)

end Fancy
