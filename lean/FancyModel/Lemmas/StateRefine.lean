import FancyModel.Model.State
/-!
# The undo-log state refines whole-state copies (helper lemmas for `Proofs/C20.lean`)

`abs` maps the concrete `State` (current slots + a copy-on-write undo log split into segments by
the `nsave` fields) to the reference the property describes: current slots and a stack of *whole
copies*. Every operation is shown to commute with `abs` under the invariant `Inv`.
-/
namespace Fancy
open State

/-- undo log entries, newest first: older entries are applied later and therefore win -/
def undo (saves : List Nat) (log : List (Nat × Nat)) : List Nat :=
  log.foldl (fun sv e => sv.set e.1 e.2) saves

structure ABranch where
  pc : Nat
  ix : Nat
  saves : List Nat
deriving DecidableEq, Repr

/-- the whole-copy reference state -/
structure AState where
  saves : List Nat
  stack : List ABranch
deriving DecidableEq, Repr

def absStack : List Nat → Nat → List (Nat × Nat) → List Branch → List ABranch
  | _, _, _, [] => []
  | cur, n, log, b :: bs =>
    ⟨b.pc, b.ix, undo cur (log.take n)⟩ :: absStack (undo cur (log.take n)) b.nsave (log.drop n) bs

def abs (s : State) : AState := ⟨s.saves, absStack s.saves s.nsave s.oldsave s.stack⟩

/-- the invariant of reachable states -/
structure Inv (s : State) : Prop where
  len : s.nsave + sumNsave s.stack ≤ s.oldsave.length
  slots : ∀ e ∈ s.oldsave, e.1 < s.saves.length

/-! ## `undo` -/

@[simp] theorem undo_nil (sv : List Nat) : undo sv [] = sv := rfl
@[simp] theorem undo_cons (sv : List Nat) (e : Nat × Nat) (es : List (Nat × Nat)) :
    undo sv (e :: es) = undo (sv.set e.1 e.2) es := rfl

theorem undo_append (sv : List Nat) (a b : List (Nat × Nat)) :
    undo sv (a ++ b) = undo (undo sv a) b := by
  simp [undo, List.foldl_append]

@[simp] theorem undo_length (sv : List Nat) (log : List (Nat × Nat)) : (undo sv log).length = sv.length := by
  induction log generalizing sv with
  | nil => rfl
  | cons e es ih => simp [ih]

/-- pointwise: the *oldest* entry for a slot decides its value -/
theorem undo_getElem? (log : List (Nat × Nat)) (sv : List Nat) (i : Nat) :
    (undo sv log)[i]? =
      match log.reverse.find? (fun e => e.1 == i) with
      | some e => if i < sv.length then some e.2 else none
      | none => sv[i]? := by
  induction log generalizing sv with
  | nil => simp
  | cons e es ih =>
    rw [undo_cons, ih, List.reverse_cons, List.find?_append]
    cases h : es.reverse.find? (fun e => e.1 == i) with
    | some e' => simp
    | none =>
      simp only [Option.none_or, List.find?_cons, List.find?_nil]
      by_cases hi : e.1 = i
      · subst hi
        simp only [beq_self_eq_true]
        by_cases hl : e.1 < sv.length
        · simp [hl]
        · simp [hl, List.getElem?_eq_none (Nat.le_of_not_lt (by simpa using hl))]
      · have : (e.1 == i) = false := by simp [hi]
        simp only [this]
        rw [List.getElem?_set_ne hi]

theorem undo_set_of_mem (log : List (Nat × Nat)) (saves : List Nat) (slot val : Nat)
    (h : log.any (fun e => e.1 == slot) = true) :
    undo (saves.set slot val) log = undo saves log := by
  induction log generalizing saves with
  | nil => simp at h
  | cons e es ih =>
    simp only [undo_cons]
    by_cases he : e.1 = slot
    · subst he; simp [List.set_set]
    · have : es.any (fun e => e.1 == slot) = true := by simpa [he] using h
      rw [List.set_comm _ _ (by omega : slot ≠ e.1)]
      exact ih _ this

/-! ## `restore` is `undo` -/

theorem restore_eq (n : Nat) (log : List (Nat × Nat)) (saves : List Nat)
    (hn : n ≤ log.length) (hs : ∀ e ∈ log.take n, e.1 < saves.length) :
    restore n log saves = some (log.drop n, undo saves (log.take n)) := by
  induction n generalizing log saves with
  | zero => simp [restore]
  | succ n ih =>
    cases log with
    | nil => simp at hn
    | cons e es =>
      obtain ⟨slot, value⟩ := e
      have h1 : slot < saves.length := hs (slot, value) (by simp)
      simp only [restore, h1, ↓reduceIte, List.take_succ_cons, List.drop_succ_cons, undo_cons]
      apply ih
      · simpa using hn
      · intro e he
        simpa using hs e (by simp [he])

/-! ## `push`, `pop`, `save` commute with `abs` -/

def AState.push (a : AState) (pc ix : Nat) : AState := { a with stack := ⟨pc, ix, a.saves⟩ :: a.stack }

def AState.pop (a : AState) : Option (AState × Nat × Nat) :=
  match a.stack with
  | [] => none
  | b :: rest => some (⟨b.saves, rest⟩, b.pc, b.ix)

def AState.save (a : AState) (slot val : Nat) : AState := { a with saves := a.saves.set slot val }

/-- discard the alternatives above `count` (atomic commit), keep the current values -/
def AState.cut (a : AState) (count : Nat) : AState := { a with stack := a.stack.drop (a.stack.length - count) }

theorem sumNsave_cons (b : Branch) (bs : List Branch) : sumNsave (b :: bs) = b.nsave + sumNsave bs := by
  simp [sumNsave]

theorem abs_push (s s' : State) (pc ix : Nat) (h : s.push pc ix = .ok s') :
    abs s' = (abs s).push pc ix := by
  unfold State.push at h
  split at h
  · cases h
    simp [abs, absStack, AState.push]
  · cases h

theorem inv_push (s s' : State) (pc ix : Nat) (hi : Inv s) (h : s.push pc ix = .ok s') : Inv s' := by
  unfold State.push at h
  split at h
  · cases h
    exact ⟨by simpa [sumNsave_cons] using hi.len, hi.slots⟩
  · cases h

theorem mem_take_of {α} {l : List α} {n : Nat} {x : α} (h : x ∈ l.take n) : x ∈ l :=
  List.mem_of_mem_take h

theorem pop_spec (s : State) (hi : Inv s) (b : Branch) (rest : List Branch) (hs : s.stack = b :: rest) :
    ∃ s', s.pop = some (s', b.pc, b.ix) ∧ (abs s).pop = some (abs s', b.pc, b.ix) ∧ Inv s' ∧ s'.maxStack = s.maxStack := by
  have hn : s.nsave ≤ s.oldsave.length := by have := hi.len; omega
  have hr := restore_eq s.nsave s.oldsave s.saves hn (fun e he => hi.slots e (mem_take_of he))
  refine ⟨{ s with saves := undo s.saves (s.oldsave.take s.nsave), oldsave := s.oldsave.drop s.nsave,
                   stack := rest, nsave := b.nsave }, ?_, ?_, ?_, rfl⟩
  · simp [State.pop, hr, hs]
  · simp [abs, hs, absStack, AState.pop]
  · constructor
    · have := hi.len
      simp only [hs, sumNsave_cons] at this
      simp only [List.length_drop]
      omega
    · intro e he
      simp only [undo_length]
      exact hi.slots e (List.mem_of_mem_drop he)

theorem save_spec (s : State) (hi : Inv s) (slot val : Nat) (hslot : slot < s.saves.length) :
    ∃ s', s.save slot val = some s' ∧ abs s' = (abs s).save slot val ∧ Inv s' ∧ s'.maxStack = s.maxStack := by
  have hn : s.nsave ≤ s.oldsave.length := by have := hi.len; omega
  unfold State.save
  simp only [Nat.not_lt.mpr hn, ↓reduceIte, Nat.not_le.mpr hslot]
  split
  · rename_i hmem
    refine ⟨_, rfl, ?_, ?_, rfl⟩
    · simp only [abs, AState.save]
      cases hst : s.stack with
      | nil => simp [absStack]
      | cons b bs =>
        simp only [absStack]
        rw [undo_set_of_mem _ _ _ _ hmem]
    · exact ⟨hi.len, by simpa using hi.slots⟩
  · rename_i hmem
    refine ⟨_, rfl, ?_, ?_, rfl⟩
    · simp only [abs, AState.save]
      cases hst : s.stack with
      | nil => simp [absStack]
      | cons b bs =>
        simp only [absStack, List.take_succ_cons, List.drop_succ_cons, undo_cons, List.set_set]
        have : (s.saves.set slot (s.saves.getD slot 0)) = s.saves := by
          rw [List.getD_eq_getElem?_getD, List.getElem?_eq_getElem hslot]
          simp
        rw [this]
    · constructor
      · simpa using Nat.succ_le_succ hi.len |> fun h => by omega
      · intro e he
        simp only [List.length_set]
        rcases List.mem_cons.mp he with rfl | he
        · exact hslot
        · exact hi.slots e he

end Fancy

namespace Fancy
open State

/-! ## `backtrack_cut` -/

theorem cutKeep_find (seen : List Nat) (l : List (Nat × Nat)) (i : Nat) (h : seen.contains i = false) :
    (cutKeep seen l).find? (fun e => e.1 == i) = l.find? (fun e => e.1 == i) := by
  induction l generalizing seen with
  | nil => simp [cutKeep]
  | cons e es ih =>
    unfold cutKeep
    by_cases hc : seen.contains e.1 = true
    · have hne : (e.1 == i) = false := by
        cases hb : (e.1 == i) with
        | false => rfl
        | true =>
          have : e.1 = i := by simpa using hb
          rw [this] at hc; rw [hc] at h; cases h
      simp only [hc, ↓reduceIte, List.find?_cons, hne]
      exact ih seen h
    · simp only [hc, Bool.false_eq_true, ↓reduceIte, List.find?_cons]
      cases hb : (e.1 == i) with
      | true => rfl
      | false =>
        apply ih
        have hne : ¬ (e.1 = i) := by simpa using hb
        simp only [List.contains_cons, Bool.or_eq_false_iff]
        refine ⟨?_, h⟩
        cases hq : (i == e.1) with
        | false => rfl
        | true => exact absurd (by simpa using hq : i = e.1).symm hne

theorem find_none_not_contains (seg : List (Nat × Nat)) (i : Nat)
    (h : seg.reverse.find? (fun e => e.1 == i) = none) : (seg.map (·.1)).contains i = false := by
  rw [List.find?_eq_none] at h
  cases hc : (seg.map (·.1)).contains i with
  | false => rfl
  | true =>
    rw [List.contains_iff_mem] at hc
    obtain ⟨e, he, hei⟩ := List.mem_map.mp hc
    have := h e (by simpa using he)
    simp [hei] at this

/-- the compaction of `backtrack_cut` does not change what undoing the merged segment yields -/
theorem undo_compact (sv : List Nat) (top seg : List (Nat × Nat)) :
    undo sv ((cutKeep (seg.map (·.1)) top.reverse).reverse ++ seg) = undo sv (top ++ seg) := by
  apply List.ext_getElem?
  intro i
  rw [undo_getElem?, undo_getElem?]
  simp only [List.reverse_append, List.reverse_reverse, List.find?_append]
  cases h : seg.reverse.find? (fun e => e.1 == i) with
  | some e => simp
  | none =>
    simp only [Option.none_or]
    rw [cutKeep_find _ _ _ (find_none_not_contains seg i h)]

theorem absStack_drop (cur : List Nat) (n : Nat) (log : List (Nat × Nat)) (bs : List Branch) (k : Nat)
    (hk : k ≤ bs.length) (hlen : n + sumNsave (bs.take k) ≤ log.length) :
    (absStack cur n log bs).drop k =
      match bs.drop k with
      | [] => []
      | b :: rest =>
        ⟨b.pc, b.ix, undo cur (log.take (n + sumNsave (bs.take k)))⟩ ::
          absStack (undo cur (log.take (n + sumNsave (bs.take k)))) b.nsave
            (log.drop (n + sumNsave (bs.take k))) rest := by
  induction k generalizing cur n log bs with
  | zero =>
    cases bs with
    | nil => simp [absStack]
    | cons b rest => simp [absStack, sumNsave]
  | succ k ih =>
    cases bs with
    | nil => simp at hk
    | cons b rest =>
      simp only [absStack, List.drop_succ_cons, List.take_succ_cons]
      have hk' : k ≤ rest.length := by simpa using hk
      simp only [List.take_succ_cons, sumNsave_cons] at hlen
      have hlen' : b.nsave + sumNsave (rest.take k) ≤ (log.drop n).length := by
        simp only [List.length_drop]; omega
      rw [ih (undo cur (log.take n)) b.nsave (log.drop n) rest hk' hlen']
      cases hrest : rest.drop k with
      | nil => simp
      | cons b' rest' =>
        simp only [sumNsave_cons]
        have e1 : log.take (n + (b.nsave + sumNsave (rest.take k))) =
            log.take n ++ (log.drop n).take (b.nsave + sumNsave (rest.take k)) := by
          rw [List.take_add]
        have e2 : (log.drop n).drop (b.nsave + sumNsave (rest.take k)) =
            log.drop (n + (b.nsave + sumNsave (rest.take k))) := by
          rw [List.drop_drop]
        rw [e1, undo_append, e2]

theorem sumNsave_append (a b : List Branch) : sumNsave (a ++ b) = sumNsave a + sumNsave b := by
  simp [sumNsave]

theorem sumNsave_take_le (bs : List Branch) (k : Nat) : sumNsave (bs.take k) ≤ sumNsave bs := by
  conv => rhs; rw [← List.take_append_drop k bs]
  rw [sumNsave_append]; omega

theorem take_succ_getElem {α} (l : List α) (k : Nat) (b : α) (h : l[k]? = some b) :
    l.take (k + 1) = l.take k ++ [b] := by
  rw [List.take_succ, h]; rfl

theorem cutKeep_mem (seen : List Nat) (l : List (Nat × Nat)) (e : Nat × Nat) (h : e ∈ cutKeep seen l) : e ∈ l := by
  induction l generalizing seen with
  | nil => simp [cutKeep] at h
  | cons x xs ih =>
    unfold cutKeep at h
    split at h
    · exact List.mem_cons_of_mem _ (ih _ h)
    · rcases List.mem_cons.mp h with rfl | h
      · simp
      · exact List.mem_cons_of_mem _ (ih _ h)

theorem cutKeep_length_le (seen : List Nat) (l : List (Nat × Nat)) : (cutKeep seen l).length ≤ l.length := by
  induction l generalizing seen with
  | nil => simp [cutKeep]
  | cons x xs ih =>
    unfold cutKeep
    split
    · have := ih seen; simp; omega
    · have := ih (x.1 :: seen); simp; omega

theorem cut_abs_core (cur : List Nat) (log : List (Nat × Nat)) (m1 bn : Nat) (b' : Branch)
    (rest' : List Branch) (h : m1 + bn ≤ log.length) :
    absStack cur ((cutKeep (((log.drop m1).take bn).map (·.1)) (log.take m1).reverse).length + bn)
        ((cutKeep (((log.drop m1).take bn).map (·.1)) (log.take m1).reverse).reverse ++
          (log.drop m1).take bn ++ log.drop (m1 + bn)) (b' :: rest')
      = ⟨b'.pc, b'.ix, undo cur (log.take (m1 + bn))⟩ ::
          absStack (undo cur (log.take (m1 + bn))) b'.nsave (log.drop (m1 + bn)) rest' := by
  generalize hseg : (log.drop m1).take bn = seg
  generalize hkept : cutKeep (seg.map (·.1)) (log.take m1).reverse = kept
  have hseglen : seg.length = bn := by
    rw [← hseg]; simp only [List.length_take, List.length_drop]; omega
  have ht : (kept.reverse ++ seg ++ log.drop (m1 + bn)).take (kept.length + bn) = kept.reverse ++ seg := by
    rw [List.take_append_of_le_length (by simp [hseglen])]
    rw [List.take_of_length_le (by simp [hseglen])]
  have hdr : (kept.reverse ++ seg ++ log.drop (m1 + bn)).drop (kept.length + bn) = log.drop (m1 + bn) := by
    rw [List.drop_append_of_le_length (by simp [hseglen])]
    rw [List.drop_of_length_le (by simp [hseglen])]
    simp
  have hsplit : log.take (m1 + bn) = log.take m1 ++ seg := by
    rw [List.take_add, hseg]
  simp only [absStack, ht, hdr]
  rw [hsplit, ← hkept, undo_compact]

theorem absStack_length (cur : List Nat) (n : Nat) (log : List (Nat × Nat)) (bs : List Branch) :
    (absStack cur n log bs).length = bs.length := by
  induction bs generalizing cur n log with
  | nil => rfl
  | cons b bs ih => simp [absStack, ih]

theorem cut_spec (s : State) (hi : Inv s) (count : Nat) (hc : count ≤ s.stack.length) :
    ∃ s', s.backtrackCut count = some s' ∧ abs s' = (abs s).cut count ∧ Inv s' ∧ s'.maxStack = s.maxStack := by
  unfold State.backtrackCut
  by_cases heq : s.stack.length = count
  · refine ⟨s, by simp [heq], ?_, hi, rfl⟩
    simp only [AState.cut, abs, absStack_length, heq, Nat.sub_self, List.drop_zero]
  · have hlt : count < s.stack.length := by omega
    simp only [beq_iff_eq, heq, ↓reduceIte, Nat.not_lt.mpr hc]
    generalize hk : s.stack.length - count = k
    have hk1 : 1 ≤ k := by omega
    have hkl : k ≤ s.stack.length := by omega
    obtain ⟨b, hb⟩ : ∃ b, s.stack[k - 1]? = some b := by
      have : k - 1 < s.stack.length := by omega
      exact ⟨s.stack[k - 1], List.getElem?_eq_getElem this⟩
    have htake : s.stack.take k = s.stack.take (k - 1) ++ [b] := by
      have := take_succ_getElem s.stack (k - 1) b hb
      rwa [Nat.sub_add_cancel hk1] at this
    have hsum : sumNsave (s.stack.take k) = sumNsave (s.stack.take (k - 1)) + b.nsave := by
      rw [htake, sumNsave_append]; simp [sumNsave]
    have hle := sumNsave_take_le s.stack k
    have hlen := hi.len
    simp only [hb]
    have hfit : ¬ (s.nsave + sumNsave (s.stack.take (k - 1)) + b.nsave > s.oldsave.length) := by omega
    simp only [hfit, ↓reduceIte]
    refine ⟨_, rfl, ?_, ?_, rfl⟩
    · -- abstraction commutes
      simp only [abs, AState.cut]
      congr 1
      rw [absStack_length, hk, absStack_drop s.saves s.nsave s.oldsave s.stack k hkl (by omega)]
      cases hd : s.stack.drop k with
      | nil => simp [absStack]
      | cons b' rest' =>
        have hm : s.nsave + sumNsave (s.stack.take k) = s.nsave + sumNsave (s.stack.take (k - 1)) + b.nsave := by omega
        simp only [hm]
        exact cut_abs_core s.saves s.oldsave _ b.nsave b' rest' (by omega)
    · -- invariant
      constructor
      · simp only [List.length_append, List.length_reverse, List.length_drop, List.length_take]
        have h1 : sumNsave s.stack = sumNsave (s.stack.take k) + sumNsave (s.stack.drop k) := by
          conv => lhs; rw [← List.take_append_drop k s.stack]
          rw [sumNsave_append]
        have : min b.nsave (s.oldsave.length - (s.nsave + sumNsave (s.stack.take (k - 1)))) = b.nsave := by omega
        omega
      · intro e he
        simp only [List.mem_append, List.mem_reverse] at he
        rcases he with (he | he) | he
        · have := cutKeep_mem _ _ _ he
          exact hi.slots e (mem_take_of (by simpa using this))
        · exact hi.slots e (List.mem_of_mem_drop (mem_take_of he))
        · exact hi.slots e (List.mem_of_mem_drop he)

end Fancy

namespace Fancy
theorem abs_stack_length_eq (s : State) : (abs s).stack.length = s.stack.length := by
  simp [abs, absStack_length]
end Fancy
