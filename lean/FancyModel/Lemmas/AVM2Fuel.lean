import FancyModel.Lemmas.AVM2
/-!
# Termination of the interpreter wherever the structured machine reaches an answer

`Big2N` is `Big2` (Lemmas/AVM2Defs.lean) with a counter: the number of instructions the structured
machine executes up to its answer (`done` = 1, `step` = n + 1, `failEmpty` = 0, `failPop` = n: popping
an alternative costs the interpreter no loop iteration). `big2_iff_big2N`: `Big2 … ↔ ∃ n, Big2N … n`.

`link2N`: if the structured machine answers within `n` instructions, the interpreter (`runLoop` on
the undo-log `State`) started from any state representing the configuration
* does not return `outOfFuel` as soon as `n ≤ fuel`, and
* counts at most `n` further steps in its `Stats`, whatever the fuel.
`link2_terminates` / `link2_initial_terminates` are the qualitative corollaries.
-/
namespace Fancy
open State

/-- analogue of `Follows2` for fuel: the amount of fuel `N` suffices, uniformly in the concrete state -/
def Terminates2 (c : Ctx) (prog : List Insn) (nS : Nat) (o : VMOpts) : SCfg → Nat → Prop
  | .run pc ix slots astk stack, N => ∀ (s : State) (σ : SState), Inv2 nS s σ → σ = ⟨slots, astk, stack⟩ →
      ∀ (fuel : Nat) (st : Stats), N ≤ fuel → (runLoop c prog o fuel pc ix s st).1 ≠ .outOfFuel
  | .fail stack, N => ∀ (s : State) (σ : SState), Inv2 nS s σ → σ.stack = stack →
      ∀ (fuel : Nat) (st : Stats), N ≤ fuel → (afterFail c prog o fuel s st).1 ≠ .outOfFuel

/-- the step counter of the interpreter advances by at most `N`, whatever the fuel -/
def StepsBound2 (c : Ctx) (prog : List Insn) (nS : Nat) (o : VMOpts) : SCfg → Nat → Prop
  | .run pc ix slots astk stack, N => ∀ (s : State) (σ : SState), Inv2 nS s σ → σ = ⟨slots, astk, stack⟩ →
      ∀ (fuel : Nat) (st : Stats), (runLoop c prog o fuel pc ix s st).2.steps ≤ st.steps + N
  | .fail stack, N => ∀ (s : State) (σ : SState), Inv2 nS s σ → σ.stack = stack →
      ∀ (fuel : Nat) (st : Stats), (afterFail c prog o fuel s st).2.steps ≤ st.steps + N

/-- `Big2` with the number of executed instructions -/
inductive Big2N (c : Ctx) (prog : List Insn) (nS : Nat) : SCfg → Ans → Nat → Prop where
  | done (pc ix : Nat) (slots astk : List Nat) (stack : List SBranch) (k : Nat) :
      prog[pc]? = some .end_ → 1 < k → k ≤ nS → slots.length = nS →
      Big2N c prog nS (.run pc ix slots astk stack) (.matched ((capSaves slots c.pos).take k)) 1
  | step (pc ix : Nat) (slots astk : List Nat) (stack : List SBranch) (cfg' : SCfg) (a : Ans) (n : Nat) :
      sstep c prog nS pc ix slots astk stack = some cfg' → Big2N c prog nS cfg' a n →
      Big2N c prog nS (.run pc ix slots astk stack) a (n + 1)
  | failEmpty : Big2N c prog nS (.fail []) .noMatch 0
  | failPop (b : SBranch) (rest : List SBranch) (a : Ans) (n : Nat) :
      Big2N c prog nS (.run b.pc b.ix b.slots b.astk rest) a n → Big2N c prog nS (.fail (b :: rest)) a n

theorem Big2N.big2 {c : Ctx} {prog : List Insn} {nS : Nat} {cfg : SCfg} {a : Ans} {n : Nat}
    (h : Big2N c prog nS cfg a n) : Big2 c prog nS cfg a := by
  induction h with
  | done pc ix slots astk stack k h1 h2 h3 h4 => exact .done pc ix slots astk stack k h1 h2 h3 h4
  | step pc ix slots astk stack cfg' a n hs _ ih => exact .step pc ix slots astk stack cfg' a hs ih
  | failEmpty => exact .failEmpty
  | failPop b rest a n _ ih => exact .failPop b rest a ih

theorem Big2.big2N {c : Ctx} {prog : List Insn} {nS : Nat} {cfg : SCfg} {a : Ans}
    (h : Big2 c prog nS cfg a) : ∃ n, Big2N c prog nS cfg a n := by
  induction h with
  | done pc ix slots astk stack k h1 h2 h3 h4 => exact ⟨1, .done pc ix slots astk stack k h1 h2 h3 h4⟩
  | step pc ix slots astk stack cfg' a hs _ ih =>
    obtain ⟨n, hn⟩ := ih
    exact ⟨n + 1, .step pc ix slots astk stack cfg' a n hs hn⟩
  | failEmpty => exact ⟨0, .failEmpty⟩
  | failPop b rest a _ ih =>
    obtain ⟨n, hn⟩ := ih
    exact ⟨n, .failPop b rest a n hn⟩

/-- `Big2` is `Big2N` with the counter forgotten -/
theorem big2_iff_big2N (c : Ctx) (prog : List Insn) (nS : Nat) (cfg : SCfg) (a : Ans) :
    Big2 c prog nS cfg a ↔ ∃ n, Big2N c prog nS cfg a n :=
  ⟨Big2.big2N, fun ⟨_, h⟩ => h.big2⟩

/-- the statement proved by induction: both bounds at once -/
def Bound2 (c : Ctx) (prog : List Insn) (nS : Nat) (o : VMOpts) : SCfg → Nat → Prop
  | .run pc ix slots astk stack, N => ∀ (s : State) (σ : SState), Inv2 nS s σ → σ = ⟨slots, astk, stack⟩ →
      ∀ (fuel : Nat) (st : Stats),
        (N ≤ fuel → (runLoop c prog o fuel pc ix s st).1 ≠ .outOfFuel) ∧
        (runLoop c prog o fuel pc ix s st).2.steps ≤ st.steps + N
  | .fail stack, N => ∀ (s : State) (σ : SState), Inv2 nS s σ → σ.stack = stack →
      ∀ (fuel : Nat) (st : Stats),
        (N ≤ fuel → (afterFail c prog o fuel s st).1 ≠ .outOfFuel) ∧
        (afterFail c prog o fuel s st).2.steps ≤ st.steps + N

theorem bound2 (c : Ctx) (prog : List Insn) (nS : Nat) (o : VMOpts) (hd : DelegOK c prog nS)
    (cfg : SCfg) (a : Ans) (n : Nat) (h : Big2N c prog nS cfg a n) : Bound2 c prog nS o cfg n := by
  induction h with
  | done pc ix slots astk stack k hend hk hkn hlen =>
    intro s σ _ _ fuel st
    cases fuel with
    | zero => exact ⟨fun hle => absurd hle (by omega), by simp [runLoop]⟩
    | succ fuel =>
      rw [runLoop_succ]
      simp only [step, hend]
      cases capStart s c.pos <;> exact ⟨fun _ => by simp, Nat.le_refl _⟩
  | step pc ix slots astk stack cfg' a n hstep hbig ih =>
    intro s σ hi hσ fuel st
    cases fuel with
    | zero => exact ⟨fun hle => absurd hle (by omega), by simp [runLoop]⟩
    | succ fuel =>
      rw [runLoop_succ]
      subst hσ
      have hrel := step_sim2 c prog nS pc ix s _ hi hd cfg' hstep
      generalize hst : step c prog pc ix s = sr at hrel
      cases hrel with
      | cont pc' ix' s' σ' hi' =>
        obtain ⟨t1, t2⟩ := ih s' σ' hi' rfl fuel
          { steps := st.steps + 1, backtracks := st.backtracks, maxDepth := max st.maxDepth s'.stack.length }
        exact ⟨fun hle => t1 (by omega), by simp only at t2 ⊢; omega⟩
      | fail s' σ' hi' =>
        obtain ⟨t1, t2⟩ := ih s' σ' hi' rfl fuel { st with steps := st.steps + 1 }
        exact ⟨fun hle => t1 (by omega), by simp only at t2 ⊢; omega⟩
      | overflow _ => exact ⟨fun _ => by simp, by simp only; omega⟩
  | failEmpty =>
    intro s σ hi hσ fuel st
    unfold afterFail
    have hl := hi.stack_length
    rw [hσ] at hl
    have : s.stack = [] := List.eq_nil_of_length_eq_zero (by simpa using hl.symm)
    simp [this]
  | failPop b rest a n hbig ih =>
    intro s σ hi hσ fuel st
    unfold afterFail
    obtain ⟨s'', h1, h2, h3, _⟩ := rep_pop hi b rest hσ
    have hne : s.stack.isEmpty = false := by
      cases hst : s.stack with
      | nil => rw [hst] at h3; simp at h3
      | cons _ _ => rfl
    simp only [hne, Bool.false_eq_true, ↓reduceIte]
    split
    · exact ⟨fun _ => by simp, by simp only; omega⟩
    · simp only [h1]
      exact ih s'' _ h2 rfl fuel _

/-- **fuel `n` suffices** when the structured machine answers within `n` instructions -/
theorem link2N (c : Ctx) (prog : List Insn) (nS : Nat) (o : VMOpts) (hd : DelegOK c prog nS)
    (cfg : SCfg) (a : Ans) (n : Nat) (h : Big2N c prog nS cfg a n) : Terminates2 c prog nS o cfg n := by
  have hb := bound2 c prog nS o hd cfg a n h
  cases cfg with
  | run pc ix slots astk stack => exact fun s σ hi hσ fuel st => (hb s σ hi hσ fuel st).1
  | fail stack => exact fun s σ hi hσ fuel st => (hb s σ hi hσ fuel st).1

/-- … and the interpreter counts at most `n` further steps, whatever the fuel -/
theorem link2N_steps (c : Ctx) (prog : List Insn) (nS : Nat) (o : VMOpts) (hd : DelegOK c prog nS)
    (cfg : SCfg) (a : Ans) (n : Nat) (h : Big2N c prog nS cfg a n) : StepsBound2 c prog nS o cfg n := by
  have hb := bound2 c prog nS o hd cfg a n h
  cases cfg with
  | run pc ix slots astk stack => exact fun s σ hi hσ fuel st => (hb s σ hi hσ fuel st).2
  | fail stack => exact fun s σ hi hσ fuel st => (hb s σ hi hσ fuel st).2

/-- **the interpreter terminates wherever the structured machine reaches an answer** -/
theorem link2_terminates (c : Ctx) (prog : List Insn) (nS : Nat) (o : VMOpts) (hd : DelegOK c prog nS)
    (cfg : SCfg) (a : Ans) (h : Big2 c prog nS cfg a) : ∃ N, Terminates2 c prog nS o cfg N := by
  obtain ⟨n, hn⟩ := h.big2N
  exact ⟨n, link2N c prog nS o hd cfg a n hn⟩

/-- quantitative form from the initial state of a run: fuel `n` suffices (so does `n + 1`), and
    at most `n` steps are counted -/
theorem link2N_initial (c : Ctx) (p : Prog) (o : VMOpts) (hd : DelegOK c p.body p.nSaves) (a : Ans) (n : Nat)
    (h : Big2N c p.body p.nSaves (.run 0 c.pos (List.replicate p.nSaves UNSET) [] []) a n) (fuel : Nat) :
    (n ≤ fuel → (run c p o fuel).1 ≠ .outOfFuel) ∧ (run c p o fuel).2.steps ≤ n := by
  have hb := bound2 c p.body p.nSaves o hd _ a n h _ _ (inv2_init p.nSaves o.maxStack) rfl fuel {}
  exact ⟨hb.1, by simpa [run] using hb.2⟩

/-- the form used by the property theorems: from the initial state of a run -/
theorem link2_initial_terminates (c : Ctx) (p : Prog) (o : VMOpts) (hd : DelegOK c p.body p.nSaves) (a : Ans)
    (h : Big2 c p.body p.nSaves (.run 0 c.pos (List.replicate p.nSaves UNSET) [] []) a) :
    ∃ N, ∀ fuel, N ≤ fuel → (run c p o fuel).1 ≠ .outOfFuel := by
  obtain ⟨n, hn⟩ := h.big2N
  exact ⟨n, fun fuel => (link2N_initial c p o hd a n hn fuel).1⟩

/-! ## the concrete instance of Lemmas/AVM2.lean: the hypotheses are satisfiable -/

/-- `exProg` answers within 7 instructions -/
theorem exBig2N (c : Ctx) :
    Big2N c exProg 2 (.run 0 c.pos (List.replicate 2 UNSET) [] []) (.matched [c.pos, c.pos]) 7 := by
  refine .step _ _ _ _ _ _ _ _ (by rfl : sstep c exProg 2 0 _ _ _ _ = some _) ?_
  refine .step _ _ _ _ _ _ _ _ (by rfl : sstep c exProg 2 1 _ _ _ _ = some _) ?_
  refine .step _ _ _ _ _ _ _ _ (by rfl : sstep c exProg 2 2 _ _ _ _ = some _) ?_
  refine .step _ _ _ _ _ _ _ _ (by rfl : sstep c exProg 2 3 _ _ _ _ = some _) ?_
  show Big2N c exProg 2 (.run 4 c.pos [c.pos, UNSET] [] []) _ _
  have h4 : sstep c exProg 2 4 c.pos [c.pos, UNSET] [] [] = some (.run 5 c.pos [c.pos, UNSET] [] []) := by
    simp [sstep, exProg, delegateOracle, semKConcat, copyGroupsA, St.slot, clearGroups, viewSlots]
  refine .step _ _ _ _ _ _ _ _ h4 ?_
  refine .step _ _ _ _ _ _ _ _ (by rfl : sstep c exProg 2 5 _ _ _ _ = some _) ?_
  have := Big2N.done (c := c) (prog := exProg) (nS := 2) 6 c.pos [c.pos, c.pos] [] [] 2 rfl (by decide) (by decide) rfl
  simpa [capSaves] using this

example (c : Ctx) (o : VMOpts) :
    Terminates2 c exProg 2 o (.run 0 c.pos (List.replicate 2 UNSET) [] []) 7 :=
  link2N c exProg 2 o (exDelegOK c) _ _ 7 (exBig2N c)

example (c : Ctx) (o : VMOpts) :
    ∃ N, Terminates2 c exProg 2 o (.run 0 c.pos (List.replicate 2 UNSET) [] []) N :=
  link2_terminates c exProg 2 o (exDelegOK c) _ _ (exBig2 c)

example (c : Ctx) (o : VMOpts) (fuel : Nat) :
    (7 ≤ fuel → (run c ⟨exProg, 2⟩ o fuel).1 ≠ .outOfFuel) ∧ (run c ⟨exProg, 2⟩ o fuel).2.steps ≤ 7 :=
  link2N_initial c ⟨exProg, 2⟩ o (exDelegOK c) _ 7 (exBig2N c) fuel

example (c : Ctx) (o : VMOpts) : ∃ N, ∀ fuel, N ≤ fuel → (run c ⟨exProg, 2⟩ o fuel).1 ≠ .outOfFuel :=
  link2_initial_terminates c ⟨exProg, 2⟩ o (exDelegOK c) _ (exBig2 c)

end Fancy
