import FancyModel.Lemmas.SimCompile
import FancyModel.Proofs.C16
import FancyModel.Proofs.C01
/-!
# From the simulation to the search result (top level of the engine refinement)

* `slotsBelow_renumber`: a numbered tree that passes the analyzer's reference check only touches
  capture slots below `2 * n_groups`.
* `scanFrom_findSome`, `sem_wrapped`: the reference search and the first result of the wrapped tree
  `(?s:.)*?(e)` are the same "first start position with a result".
* `finish_eq`: the slot vector the VM reports at `End` (after the start caps) is the reference's
  `finish`.
-/
namespace Fancy

/-! ## Slots of a numbered, checked tree -/

mutual
theorem slotsBelow_renumber (M : Nat) (hM : 0 < M) : ∀ (e : Expr) (n m : Nat),
    checkRefs (renumber e n).1 n = .ok m → m ≤ M → slotsBelow (2 * M) (renumber e n).1 = true
  | .group g c, n, m, h, hm => by
    simp only [renumber, checkRefs] at h
    have hc := checkRefs_count _ _ _ h
    simp only [renumber, slotsBelow, Bool.and_eq_true, decide_eq_true_eq]
    exact ⟨by omega, slotsBelow_renumber M hM c (n + 1) m h hm⟩
  | .concat es, n, m, h, hm => by
    simp only [renumber, checkRefs] at h
    simp only [renumber, slotsBelow]
    exact slotsBelowAll_renumber M hM es n m h hm
  | .alt es, n, m, h, hm => by
    simp only [renumber, checkRefs] at h
    simp only [renumber, slotsBelow]
    exact slotsBelowAll_renumber M hM es n m h hm
  | .look c la, n, m, h, hm => by
    simp only [renumber, checkRefs] at h
    simp only [renumber, slotsBelow]
    exact slotsBelow_renumber M hM c n m h hm
  | .repeat c lo hi g, n, m, h, hm => by
    simp only [renumber, checkRefs] at h
    simp only [renumber, slotsBelow]
    exact slotsBelow_renumber M hM c n m h hm
  | .atomic c, n, m, h, hm => by
    simp only [renumber, checkRefs] at h
    simp only [renumber, slotsBelow]
    exact slotsBelow_renumber M hM c n m h hm
  | .backref g, n, m, h, hm => by
    simp only [renumber, checkRefs] at h
    simp only [renumber, slotsBelow, decide_eq_true_eq]
    split at h
    · cases h
    · cases h; omega
  | .backrefExists g, n, m, h, hm => by
    simp only [renumber, checkRefs] at h
    simp only [renumber, slotsBelow, decide_eq_true_eq]
    split at h
    · cases h
    · cases h; omega
  | .cond c y f, n, m, h, hm => by
    simp only [renumber, checkRefs] at h
    simp only [renumber, slotsBelow, Bool.and_eq_true]
    cases h1 : checkRefs (renumber c n).1 n with
    | error e => simp [h1] at h
    | ok n1 =>
      have e1 := checkRefs_count _ _ _ h1
      rw [groupCount_renumber] at e1
      have r1 := renumber_snd c n
      simp only [h1] at h
      have hn1 : (renumber c n).2 = n1 := by omega
      rw [hn1] at h
      cases h2 : checkRefs (renumber y n1).1 n1 with
      | error e => simp [h2] at h
      | ok n2 =>
        have e2 := checkRefs_count _ _ _ h2
        rw [groupCount_renumber] at e2
        have r2 := renumber_snd y n1
        simp only [h2] at h
        have hn2 : (renumber y n1).2 = n2 := by omega
        rw [hn2] at h
        have e3 := checkRefs_count _ _ _ h
        rw [hn1, hn2]
        exact ⟨⟨slotsBelow_renumber M hM c n n1 h1 (by omega), slotsBelow_renumber M hM y n1 n2 h2 (by omega)⟩,
          slotsBelow_renumber M hM f n2 m h hm⟩
  | .keepOut, n, m, h, hm => by simp only [renumber, slotsBelow, decide_eq_true_eq]; omega
  | .empty, _, _, _, _ | .any _, _, _, _, _ | .assertion _, _, _, _, _ | .literal _ _, _, _, _, _
  | .delegate _ _ _, _, _, _, _ | .contPrev, _, _, _, _ | .subroutine _, _, _, _, _ => by
    simp [renumber, slotsBelow]
theorem slotsBelowAll_renumber (M : Nat) (hM : 0 < M) : ∀ (es : List Expr) (n m : Nat),
    checkRefsList (renumberList es n).1 n = .ok m → m ≤ M → slotsBelowAll (2 * M) (renumberList es n).1 = true
  | [], _, _, _, _ => by simp [renumberList, slotsBelowAll]
  | e :: es, n, m, h, hm => by
    simp only [renumberList, checkRefsList] at h
    simp only [renumberList, slotsBelowAll, Bool.and_eq_true]
    cases h1 : checkRefs (renumber e n).1 n with
    | error err => simp [h1] at h
    | ok n1 =>
      have e1 := checkRefs_count _ _ _ h1
      rw [groupCount_renumber] at e1
      have r1 := renumber_snd e n
      simp only [h1] at h
      have hn1 : (renumber e n).2 = n1 := by omega
      rw [hn1] at h
      have e2 := checkRefsList_count _ _ _ h
      rw [hn1]
      exact ⟨slotsBelow_renumber M hM e n n1 h1 (by omega), slotsBelowAll_renumber M hM es n1 m h hm⟩
end

/-! ## The reference search as "first start position with a result" -/

theorem scanFrom_findSome (c : Ctx) (e : Expr) (nGroups : Nat) (n start : Nat) :
    scanFrom c e nGroups n start =
      (List.range n).findSome? fun k =>
        ((sem c e ⟨start + k, (initSlots nGroups).set 0 (some (start + k))⟩).head?).map (finish c) := by
  induction n generalizing start with
  | zero => simp [scanFrom]
  | succ n ih =>
    rw [List.range_succ_eq_map]
    simp only [scanFrom, List.findSome?_cons, Nat.add_zero, List.findSome?_map]
    cases hh : (sem c e ⟨start, (initSlots nGroups).set 0 (some start)⟩).head? with
    | some r => simp
    | none =>
      simp only [Option.map_none]
      rw [ih (start + 1)]
      congr 1
      funext k
      simp only [Function.comp, Nat.succ_eq_add_one]
      have : start + 1 + k = start + (k + 1) := by omega
      rw [this]

/-- first result of the wrapped tree from the initial state of a search -/
theorem sem_wrapped_head (c : Ctx) (raw : Expr) (nGroups : Nat) (hpos : c.pos ≤ c.len) :
    (sem c (.concat [.repeat (.any true) 0 none false, .group 0 raw]) ⟨c.pos, initSlots nGroups⟩).head? =
      (List.range (c.len - c.pos + 1)).findSome? fun k =>
        ((sem c raw ⟨c.pos + k, (initSlots nGroups).set 0 (some (c.pos + k))⟩).head?).map
          fun r => r.setSlot 1 (some r.ix) := by
  simp only [sem, semConcat]
  have h1 := C01_lazy_any_star c ⟨c.pos, initSlots nGroups⟩ hpos
  simp only [sem] at h1
  rw [h1]
  simp only [List.flatMap_map, List.head?_flatMap]
  congr 1
  funext k
  have : ∀ (l : List St), (l.flatMap fun a => [a]) = l := by
    intro l; induction l with
    | nil => rfl
    | cons a as ih => simp [ih]
  have h2 : semConcat c [] = fun a => [a] := by funext a; simp [semConcat]
  simp only [semConcat, sem, h2, this, St.setSlot, List.head?_map, Nat.mul_zero, Nat.zero_add]

/-! ## What `End` reports is the reference's `finish` -/

theorem viewSlots_unview (sl : List (Option Nat)) (h : ∀ v, some v ∈ sl → v ≠ UNSET) :
    viewSlots (unview sl) = sl := by
  induction sl with
  | nil => rfl
  | cons a as ih =>
    simp only [viewSlots, unview, List.map_cons, List.map_map, List.cons.injEq]
    constructor
    · cases a with
      | none => simp
      | some v =>
        have := h v (by simp)
        simp [this]
    · have := ih (fun v hv => h v (by simp [hv]))
      simpa [viewSlots, unview] using this

theorem finish_eq (c : Ctx) (r : St) (n : Nat) (hg : r.Good c n) (hn : 1 < n) (hlen : c.len < UNSET)
    (hpos : c.pos ≤ c.len) :
    (viewSlots (capSaves (unview (r.setSlot 1 (some r.ix)).slots) c.pos)).take n = (finish c r).slots := by
  have hl : r.slots.length = n := hg.len
  have h1 : (unview (r.slots.set 1 (some r.ix)))[1]? = some r.ix := by
    rw [unview_getElem?, List.getElem?_set_self (by omega)]; rfl
  have h0 : (unview (r.slots.set 1 (some r.ix)))[0]? = some ((r.slot 0).getD UNSET) := by
    rw [unview_getElem?, List.getElem?_set_ne (by omega)]
    simp only [St.slot]
    rw [List.getElem?_eq_getElem (by omega)]
    simp
  simp only [St.setSlot, capSaves, h1, h0, finish]
  -- the capped start
  have hcap : (if (if (r.slot 0).getD UNSET > r.ix then r.ix else (r.slot 0).getD UNSET) < c.pos then c.pos
        else (if (r.slot 0).getD UNSET > r.ix then r.ix else (r.slot 0).getD UNSET)) =
      (if (if (r.slot 0).getD r.ix > r.ix then r.ix else (r.slot 0).getD r.ix) < c.pos then c.pos
        else (if (r.slot 0).getD r.ix > r.ix then r.ix else (r.slot 0).getD r.ix)) := by
    cases h : r.slot 0 with
    | none =>
      have := hg.ix
      simp only [Option.getD_none]
      have h2 : UNSET > r.ix := by omega
      simp [h2]
    | some v => simp
  rw [hcap]
  have hs0 : (if (if (r.slot 0).getD r.ix > r.ix then r.ix else (r.slot 0).getD r.ix) < c.pos then c.pos
        else (if (r.slot 0).getD r.ix > r.ix then r.ix else (r.slot 0).getD r.ix)) ≤ c.len := by
    have := hg.ix
    split <;> (try split) <;> omega
  generalize (if (if (r.slot 0).getD r.ix > r.ix then r.ix else (r.slot 0).getD r.ix) < c.pos then c.pos
        else (if (r.slot 0).getD r.ix > r.ix then r.ix else (r.slot 0).getD r.ix)) = s0 at hs0
  rw [← unview_set, viewSlots_unview]
  · rw [List.take_of_length_le (by simp [hl])]
    rw [List.set_comm _ _ (by omega : (1:Nat) ≠ 0)]
  · intro v hv
    have hv' : v ≤ c.len := by
      rcases List.mem_or_eq_of_mem_set hv with hm | he
      · rcases List.mem_or_eq_of_mem_set hm with hm2 | he2
        · exact hg.vals v hm2
        · cases he2; exact hg.ix
      · cases he; exact hs0
    omega

end Fancy

namespace Fancy

/-! ## Core programs allocate no auxiliary slots -/

mutual
theorem visit_core_nsv (br : Nat → Bool) : ∀ (e : Expr) (pc nsv gix : Nat) (code : Code) (nsv' : Nat),
    isCore e = true → visit br e true pc nsv gix = .ok (code, nsv') → nsv' = nsv
  | .empty, pc, nsv, gix, code, nsv', _, hv | .any true, pc, nsv, gix, code, nsv', _, hv
  | .any false, pc, nsv, gix, code, nsv', _, hv | .assertion _, pc, nsv, gix, code, nsv', _, hv
  | .backref _, pc, nsv, gix, code, nsv', _, hv | .keepOut, pc, nsv, gix, code, nsv', _, hv
  | .contPrev, pc, nsv, gix, code, nsv', _, hv => by
    rw [visit] at hv
    simp at hv
    exact hv.2.symm
  | .literal v ci, pc, nsv, gix, code, nsv', hcore, hv => by
    simp only [isCore, Bool.and_eq_true, Bool.not_eq_true'] at hcore
    have hci : ci = false := hcore.1
    subst hci
    rw [visit] at hv
    simp at hv
    exact hv.2.symm
  | .group g e, pc, nsv, gix, code, nsv', hcore, hv => by
    rw [visit] at hv
    simp only [Bool.not_true, Bool.false_and, Bool.false_eq_true, ↓reduceIte] at hv
    cases hb : visit br e true (pc + 1) nsv (gix + 1) with
    | error err => simp [hb] at hv
    | ok p =>
      obtain ⟨code1, nsv1⟩ := p
      simp only [hb, Except.ok.injEq, Prod.mk.injEq] at hv
      simp only [isCore] at hcore
      have := visit_core_nsv br e (pc + 1) nsv (gix + 1) code1 nsv1 hcore hb
      omega
  | .concat es, pc, nsv, gix, code, nsv', hcore, hv => by
    rw [visit] at hv
    simp only [Bool.not_true, Bool.false_and, Bool.false_eq_true, ↓reduceIte] at hv
    simp only [isCore] at hcore
    generalize concatSplit br es true = sp at hv
    cases hb : visitMiddle br es sp.1 (sp.2 - sp.1)
        (pc + (compileDelegates (es.take sp.1) gix).length) nsv (gix + groupCountList (es.take sp.1)) with
    | error err => simp [hb] at hv
    | ok p =>
      obtain ⟨mid, nsv1⟩ := p
      simp only [hb, Except.ok.injEq, Prod.mk.injEq] at hv
      have := visitMiddle_core_nsv br es _ _ _ nsv _ mid nsv1 hcore hb
      omega
  | .alt es, pc, nsv, gix, code, nsv', hcore, hv => by
    rw [visit] at hv
    simp only [Bool.not_true, Bool.false_and, Bool.false_eq_true, ↓reduceIte] at hv
    simp only [isCore, Bool.and_eq_true] at hcore
    cases hb : visitAlt br es true pc nsv gix with
    | error err => simp [hb] at hv
    | ok p =>
      obtain ⟨f, endPc, nsv1⟩ := p
      simp only [hb, Except.ok.injEq, Prod.mk.injEq] at hv
      have := visitAlt_core_nsv br es pc nsv gix f endPc nsv1 hcore.2 hb
      omega
  | .repeat e lo hi greedy, pc, nsv, gix, code, nsv', hcore, hv => by
    simp only [isCore, Bool.and_eq_true, Bool.or_eq_true, beq_iff_eq, decide_eq_true_eq] at hcore
    obtain ⟨hce, hshape⟩ := hcore
    rw [visit] at hv
    simp only [Bool.not_true, Bool.false_and, Bool.false_eq_true, ↓reduceIte] at hv
    rcases hshape with ⟨rfl, rfl⟩ | ⟨⟨rfl, hlo⟩, hm⟩
    · simp only [beq_self_eq_true, Bool.and_self, ↓reduceIte] at hv
      cases hb : visit br e true (pc + 1) nsv gix with
      | error err => simp [hb] at hv
      | ok p =>
        obtain ⟨code1, nsv1⟩ := p
        simp only [hb, Except.ok.injEq, Prod.mk.injEq] at hv
        have := visit_core_nsv br e (pc + 1) nsv gix code1 nsv1 hce hb
        omega
    · have hm0 : ¬ (minSize e = 0) := by omega
      rcases hlo with rfl | rfl
      · simp only [beq_self_eq_true, reduceCtorEq, Bool.and_false, Bool.false_eq_true, ↓reduceIte,
          Bool.true_or, Bool.true_and, beq_iff_eq, hm0, Bool.and_self] at hv
        cases hb : visit br e true (pc + 1) nsv gix with
        | error err => simp [hb] at hv
        | ok p =>
          obtain ⟨code1, nsv1⟩ := p
          simp only [hb, Except.ok.injEq, Prod.mk.injEq] at hv
          have := visit_core_nsv br e (pc + 1) nsv gix code1 nsv1 hce hb
          omega
      · simp only [Nat.succ_ne_self, reduceCtorEq, Bool.and_false, Bool.false_eq_true, ↓reduceIte,
          Bool.true_or, Bool.true_and, beq_iff_eq, hm0, Bool.and_self, beq_self_eq_true, Nat.add_one_ne_zero,
          Bool.false_and] at hv
        cases hb : visit br e true pc nsv gix with
        | error err => simp [hb] at hv
        | ok p =>
          obtain ⟨code1, nsv1⟩ := p
          simp only [hb, Except.ok.injEq, Prod.mk.injEq] at hv
          have := visit_core_nsv br e pc nsv gix code1 nsv1 hce hb
          simp at hv
          omega
  | .look _ _, _, _, _, _, _, h, _ | .delegate _ _ _, _, _, _, _, _, h, _
  | .atomic _, _, _, _, _, _, h, _ | .backrefExists _, _, _, _, _, _, h, _
  | .cond _ _ _, _, _, _, _, _, h, _ | .subroutine _, _, _, _, _, _, h, _ => by
    simp [isCore] at h
termination_by e => sizeOf e
decreasing_by all_goals (simp_wf; try omega)
theorem visitMiddle_core_nsv (br : Nat → Bool) : ∀ (es : List Expr) (skip take pc nsv gix : Nat) (code : Code) (nsv' : Nat),
    isCoreAll es = true → visitMiddle br es skip take pc nsv gix = .ok (code, nsv') → nsv' = nsv
  | [], skip, take, pc, nsv, gix, code, nsv', _, hv => by
    simp only [visitMiddle, Except.ok.injEq, Prod.mk.injEq] at hv
    exact hv.2.symm
  | e :: es, skip + 1, take, pc, nsv, gix, code, nsv', hcore, hv => by
    simp only [visitMiddle] at hv
    simp only [isCoreAll, Bool.and_eq_true] at hcore
    exact visitMiddle_core_nsv br es skip take pc nsv gix code nsv' hcore.2 hv
  | e :: es, 0, 0, pc, nsv, gix, code, nsv', _, hv => by
    simp only [visitMiddle, Except.ok.injEq, Prod.mk.injEq] at hv
    exact hv.2.symm
  | e :: es, 0, take + 1, pc, nsv, gix, code, nsv', hcore, hv => by
    simp only [visitMiddle] at hv
    simp only [isCoreAll, Bool.and_eq_true] at hcore
    cases hb : visit br e true pc nsv gix with
    | error err => simp [hb] at hv
    | ok p =>
      obtain ⟨c1, nsv1⟩ := p
      simp only [hb] at hv
      cases hb2 : visitMiddle br es 0 take (pc + c1.length) nsv1 (gix + groupCount e) with
      | error err => simp [hb2] at hv
      | ok p2 =>
        obtain ⟨c2, nsv2⟩ := p2
        simp only [hb2, Except.ok.injEq, Prod.mk.injEq] at hv
        have h1 := visit_core_nsv br e pc nsv gix c1 nsv1 hcore.1 hb
        have h2 := visitMiddle_core_nsv br es 0 take (pc + c1.length) nsv1 _ c2 nsv2 hcore.2 hb2
        omega
termination_by es => sizeOf es
decreasing_by all_goals (simp_wf; try omega)
theorem visitAlt_core_nsv (br : Nat → Bool) : ∀ (es : List Expr) (pc nsv gix : Nat) (f : Nat → Code) (endPc nsv' : Nat),
    isCoreAll es = true → visitAlt br es true pc nsv gix = .ok (f, endPc, nsv') → nsv' = nsv
  | [], pc, nsv, gix, f, endPc, nsv', _, hv => by
    simp only [visitAlt, Except.ok.injEq, Prod.mk.injEq] at hv
    exact hv.2.2.symm
  | [e], pc, nsv, gix, f, endPc, nsv', hcore, hv => by
    simp only [visitAlt] at hv
    simp only [isCoreAll, Bool.and_eq_true] at hcore
    cases hb : visit br e true pc nsv gix with
    | error err => simp [hb] at hv
    | ok p =>
      obtain ⟨c1, nsv1⟩ := p
      simp only [hb, Except.ok.injEq, Prod.mk.injEq] at hv
      have := visit_core_nsv br e pc nsv gix c1 nsv1 hcore.1 hb
      omega
  | e :: e2 :: es, pc, nsv, gix, f, endPc, nsv', hcore, hv => by
    simp only [visitAlt] at hv
    simp only [isCoreAll, Bool.and_eq_true] at hcore
    cases hb : visit br e true (pc + 1) nsv gix with
    | error err => simp [hb] at hv
    | ok p =>
      obtain ⟨c1, nsv1⟩ := p
      simp only [hb] at hv
      cases hb2 : visitAlt br (e2 :: es) true (pc + 1 + c1.length + 1) nsv1 (gix + groupCount e) with
      | error err => simp [hb2] at hv
      | ok p2 =>
        obtain ⟨f2, endPc2, nsv2⟩ := p2
        simp only [hb2, Except.ok.injEq, Prod.mk.injEq] at hv
        have h1 := visit_core_nsv br e (pc + 1) nsv gix c1 nsv1 hcore.1 hb
        have h2 := visitAlt_core_nsv br (e2 :: es) _ nsv1 _ f2 endPc2 nsv2
          (by simp [isCoreAll, hcore.2.1, hcore.2.2]) hb2
        omega
termination_by es => sizeOf es
decreasing_by all_goals (simp_wf; try omega)
end

end Fancy
