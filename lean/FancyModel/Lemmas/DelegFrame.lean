import FancyModel.Lemmas.AVM2Defs
import FancyModel.Spec.Stage
import FancyModel.Lemmas.SimCompile
import FancyModel.Lemmas.SemK
/-!
# Delegates read and write only ordinary slots

The VM's slot vector is `flat = slots ++ tail`: `nS` ordinary cells followed by the auxiliary stack.
The concrete `Delegate` instruction runs `delegateOracle` on the whole vector, the abstract machine
on `flat.take nS`. This file proves that the two agree on everything that is observed:

* `sem_ext` (+ companions): the reference semantics of an expression whose slot indices are all
  `< k` (`slotsBelow k e`) is *independent of extra trailing slots*: from a state with at least `k`
  slots, appending `extra` to the slot vector appends `extra` to the slot vector of every result,
  in the same order, and changes nothing else; every result has as many slots as the start state;
* `delegateOracle_frame`: `delegateOracle` on `flat` and on `flat.take nS` agree on `isSome`, the end
  position and every slot `j < nS`;
* `delegOK_of_prog`: the hypothesis `DelegOK` of the link theorem `link2` (Lemmas/AVM2.lean) follows
  from the decidable program condition `progDelegOK`.
-/
namespace Fancy

/-- append `x` to the slot vector of a state -/
def extSt (x : List (Option Nat)) (r : St) : St := ⟨r.ix, r.slots ++ x⟩

@[simp] theorem extSt_ix (x : List (Option Nat)) (r : St) : (extSt x r).ix = r.ix := rfl
@[simp] theorem extSt_slots (x : List (Option Nat)) (r : St) : (extSt x r).slots = r.slots ++ x := rfl

theorem extSt_withIx (x : List (Option Nat)) (r : St) (j : Nat) :
    { extSt x r with ix := j } = extSt x { r with ix := j } := rfl

theorem extSt_setSlot (x : List (Option Nat)) (r : St) (i : Nat) (v : Option Nat) (h : i < r.slots.length) :
    (extSt x r).setSlot i v = extSt x (r.setSlot i v) := by
  simp [extSt, St.setSlot, List.set_append_left _ _ h]

theorem extSt_slot (x : List (Option Nat)) (r : St) (i : Nat) (h : i < r.slots.length) :
    (extSt x r).slot i = r.slot i := by
  simp [extSt, St.slot, List.getElem?_append_left h]

/-- `f` neither reads nor writes slots at index `≥ k`: from a state with at least `k` slots, extra
    trailing slots are carried unchanged to every result, and results keep the number of slots -/
def Ext (k : Nat) (f : St → List St) : Prop :=
  ∀ (st : St) (x : List (Option Nat)), k ≤ st.slots.length →
    f (extSt x st) = (f st).map (extSt x) ∧ ∀ r, r ∈ f st → r.slots.length = st.slots.length

theorem flatMap_extSt (x : List (Option Nat)) (l : List St) (g g' : St → List St)
    (hg : ∀ r, r ∈ l → g' (extSt x r) = (g r).map (extSt x)) :
    (l.map (extSt x)).flatMap g' = (l.flatMap g).map (extSt x) := by
  induction l with
  | nil => rfl
  | cons a l ih =>
    simp only [List.map_cons, List.flatMap_cons, List.map_append]
    rw [hg a (by simp), ih (fun r hr => hg r (by simp [hr]))]

theorem flatMap_congr' {α β : Type} (l : List α) (f g : α → List β) (h : ∀ a, a ∈ l → f a = g a) :
    l.flatMap f = l.flatMap g := by
  induction l with
  | nil => rfl
  | cons a l ih =>
    simp only [List.flatMap_cons]
    rw [h a (by simp), ih (fun b hb => h b (by simp [hb]))]

/-- close `(if p then [extSt x a] else []) = List.map (extSt x) (if p then [a] else [])`-style goals -/
macro "ext_leaf" : tactic => `(tactic| ((repeat' split) <;> simp_all [extSt]))

theorem firstOnly_map (f : St → St) (l : List St) : firstOnly (l.map f) = (firstOnly l).map f := by
  cases l <;> rfl

theorem firstOnly_mem' (l : List St) (r : St) (h : r ∈ firstOnly l) : r ∈ l := by
  cases l with
  | nil => simp [firstOnly] at h
  | cons a l => simp [firstOnly] at h; simp [h]

theorem repLoop_ext (k : Nat) (body : St → List St) (hb : Ext k body) (lo : Nat) (hi : Option Nat)
    (greedy : Bool) : ∀ fuel count, Ext k (repLoop body lo hi greedy fuel count) := by
  intro fuel
  induction fuel with
  | zero => intro count st x _; simp [repLoop]
  | succ fuel ih =>
    intro count st x hk
    obtain ⟨hb1, hb2⟩ := hb st x hk
    have hI1 : ((body (extSt x st)).flatMap fun r =>
          if hi.isNone && decide (lo ≤ count) && r.ix == (extSt x st).ix then [r]
          else repLoop body lo hi greedy fuel (count + 1) r) =
        ((body st).flatMap fun r =>
          if hi.isNone && decide (lo ≤ count) && r.ix == st.ix then [r]
          else repLoop body lo hi greedy fuel (count + 1) r).map (extSt x) := by
      rw [hb1]
      apply flatMap_extSt
      intro r hr
      simp only [extSt_ix]
      have := (ih (count + 1) r x (by rw [hb2 r hr]; exact hk)).1
      by_cases hp : (hi.isNone && decide (lo ≤ count) && r.ix == st.ix) = true
      · simp only [hp, if_true, List.map_cons, List.map_nil]
      · simp only [hp, if_false, this, Bool.false_eq_true]
    have hI2 : ∀ q, q ∈ ((body st).flatMap fun r =>
          if hi.isNone && decide (lo ≤ count) && r.ix == st.ix then [r]
          else repLoop body lo hi greedy fuel (count + 1) r) → q.slots.length = st.slots.length := by
      intro q hq
      simp only [List.mem_flatMap] at hq
      obtain ⟨r, hr, hq⟩ := hq
      have hl := hb2 r hr
      split at hq
      · simp only [List.mem_singleton] at hq; subst hq; exact hl
      · rw [← hl]; exact (ih (count + 1) r x (by rw [hl]; exact hk)).2 q hq
    refine ⟨?_, ?_⟩
    · unfold repLoop
      simp only [hI1]
      split
      · rfl
      · split
        · rfl
        · split
          · simp
          · simp
    · intro q hq
      unfold repLoop at hq
      split at hq
      · simp only [List.mem_singleton] at hq; subst hq; rfl
      · split at hq
        · exact hI2 q hq
        · split at hq
          · rcases List.mem_append.mp hq with hq | hq
            · exact hI2 q hq
            · simp only [List.mem_singleton] at hq; subst hq; rfl
          · rcases List.mem_cons.mp hq with hq | hq
            · subst hq; rfl
            · exact hI2 q hq

theorem behindOne_ext (k : Nat) (body : St → List St) (hb : Ext k body) : Ext k (behindOne body) := by
  intro st x hk
  refine ⟨?_, ?_⟩
  · simp only [behindOne, extSt_ix, List.map_flatMap]
    apply flatMap_congr'
    intro j _
    rw [extSt_withIx, (hb { st with ix := st.ix - j } x hk).1, List.filter_map]
    rfl
  · intro r hr
    simp only [behindOne, List.mem_flatMap, List.mem_filter] at hr
    obtain ⟨j, _, hr, _⟩ := hr
    exact (hb { st with ix := st.ix - j } x hk).2 r hr

theorem slotsBelowAll_mem (k : Nat) (es : List Expr) (h : slotsBelowAll k es = true) :
    ∀ e, e ∈ es → slotsBelow k e = true := by
  induction es with
  | nil => intro e he; simp at he
  | cons a es ih =>
    simp only [slotsBelowAll, Bool.and_eq_true] at h
    intro e he
    rcases List.mem_cons.mp he with rfl | he
    · exact h.1
    · exact ih h.2 e he

theorem semBehindAlts_ext_of (c : Ctx) (k : Nat) (es : List Expr)
    (hsem : ∀ e', e' ∈ es → Ext k (sem c e')) : Ext k (semBehindAlts c es) := by
  induction es with
  | nil => intro st x _; simp [semBehindAlts]
  | cons e es ih =>
    intro st x hk
    obtain ⟨h1, h2⟩ := behindOne_ext k _ (hsem e (by simp)) st x hk
    obtain ⟨h3, h4⟩ := ih (fun e' he' => hsem e' (by simp [he'])) st x hk
    refine ⟨?_, ?_⟩
    · simp only [semBehindAlts, h1, h3, List.map_append]
    · intro r hr
      simp only [semBehindAlts, List.mem_append] at hr
      rcases hr with hr | hr
      · exact h2 r hr
      · exact h4 r hr

/-- a look-behind body, given the property for every expression not larger than the body -/
theorem semBehind_ext_of (c : Ctx) (k : Nat) (e : Expr)
    (hsem : ∀ e', sizeOf e' ≤ sizeOf e → slotsBelow k e' = true → Ext k (sem c e'))
    (h : slotsBelow k e = true) : Ext k (semBehind c e) := by
  cases e with
  | alt es =>
    simp only [slotsBelow] at h
    have := semBehindAlts_ext_of c k es (fun e' he' => hsem e' (by
      have := List.sizeOf_lt_of_mem he'
      simp only [Expr.alt.sizeOf_spec]; omega) (slotsBelowAll_mem k es h e' he'))
    intro st x hk
    simpa only [semBehind] using this st x hk
  | _ =>
    have := behindOne_ext k _ (hsem _ (Nat.le_refl _) h)
    intro st x hk
    simpa only [semBehind] using this st x hk

mutual
/-- **frame lemma for extra trailing slots** -/
theorem sem_ext (c : Ctx) (k : Nat) : ∀ (e : Expr), slotsBelow k e = true → Ext k (sem c e)
  | .empty, _ => by intro st x _; simp [sem]
  | .any nl, _ => by
    intro st x _
    refine ⟨?_, ?_⟩
    · simp only [sem, extSt_ix]
      ext_leaf
    · intro r hr
      simp only [sem] at hr
      split at hr
      · split at hr
        · simp at hr; subst hr; rfl
        · simp at hr
      · simp at hr
  | .assertion a, _ => by
    intro st x _
    refine ⟨?_, ?_⟩
    · simp only [sem, extSt_ix]; ext_leaf
    · intro r hr
      simp only [sem] at hr; split at hr
      · simp at hr; subst hr; rfl
      · simp at hr
  | .literal val casei, _ => by
    intro st x _
    refine ⟨?_, ?_⟩
    · simp only [sem, extSt_ix]; ext_leaf
    · intro r hr
      simp only [sem] at hr; split at hr
      · simp at hr; subst hr; rfl
      · simp at hr
  | .concat es, h => by
    have := semConcat_ext c k es (by simpa only [slotsBelow] using h)
    intro st x hk
    simpa only [sem] using this st x hk
  | .alt es, h => by
    have := semAlt_ext c k es (by simpa only [slotsBelow] using h)
    intro st x hk
    simpa only [sem] using this st x hk
  | .group g e, h => by
    simp only [slotsBelow, Bool.and_eq_true, decide_eq_true_eq] at h
    have ih := sem_ext c k e h.2
    intro st x hk
    have hk2 : k ≤ (st.setSlot (2 * g) (some st.ix)).slots.length := by simpa [St.setSlot] using hk
    obtain ⟨h1, h2⟩ := ih (st.setSlot (2 * g) (some st.ix)) x hk2
    have hlen : ∀ r, r ∈ sem c e (st.setSlot (2 * g) (some st.ix)) → r.slots.length = st.slots.length := by
      intro r hr; have := h2 r hr; simpa [St.setSlot] using this
    refine ⟨?_, ?_⟩
    · simp only [sem, extSt_ix]
      rw [extSt_setSlot _ _ _ _ (by omega), h1, List.map_map, List.map_map]
      apply List.map_congr_left
      intro r hr
      have := hlen r hr
      simp only [Function.comp, extSt_ix]
      rw [extSt_setSlot _ _ _ _ (by omega)]
    · intro r hr
      simp only [sem, List.mem_map] at hr
      obtain ⟨r', hr', rfl⟩ := hr
      have := hlen r' hr'
      simpa [St.setSlot] using this
  | .look e .ahead, h => by
    simp only [slotsBelow] at h
    have ih := sem_ext c k e h
    intro st x hk
    obtain ⟨h1, h2⟩ := ih st x hk
    refine ⟨?_, ?_⟩
    · simp only [sem, extSt_ix]
      rw [h1, firstOnly_map, List.map_map, List.map_map]
      rfl
    · intro r hr
      simp only [sem, List.mem_map] at hr
      obtain ⟨r', hr', rfl⟩ := hr
      exact h2 r' (firstOnly_mem' _ _ hr')
  | .look e .aheadNeg, h => by
    simp only [slotsBelow] at h
    have ih := sem_ext c k e h
    intro st x hk
    obtain ⟨h1, _⟩ := ih st x hk
    refine ⟨?_, ?_⟩
    · simp only [sem]
      rw [h1, List.isEmpty_map]
      ext_leaf
    · intro r hr
      simp only [sem] at hr; split at hr
      · simp at hr; subst hr; rfl
      · simp at hr
  | .look e .behind, h => by
    simp only [slotsBelow] at h
    have ih := semBehind_ext_of c k e (fun e' _ h' => sem_ext c k e' h') h
    intro st x hk
    obtain ⟨h1, h2⟩ := ih st x hk
    refine ⟨?_, ?_⟩
    · simp only [sem, extSt_ix]
      rw [h1, firstOnly_map, List.map_map, List.map_map]
      rfl
    · intro r hr
      simp only [sem, List.mem_map] at hr
      obtain ⟨r', hr', rfl⟩ := hr
      exact h2 r' (firstOnly_mem' _ _ hr')
  | .look e .behindNeg, h => by
    simp only [slotsBelow] at h
    have ih := semBehind_ext_of c k e (fun e' _ h' => sem_ext c k e' h') h
    intro st x hk
    obtain ⟨h1, _⟩ := ih st x hk
    refine ⟨?_, ?_⟩
    · simp only [sem]
      rw [h1, List.isEmpty_map]
      ext_leaf
    · intro r hr
      simp only [sem] at hr; split at hr
      · simp at hr; subst hr; rfl
      · simp at hr
  | .repeat e lo hi greedy, h => by
    simp only [slotsBelow] at h
    have ih := sem_ext c k e h
    intro st x hk
    simpa only [sem] using repLoop_ext k (sem c e) ih lo hi greedy _ 0 st x hk
  | .delegate inner size casei, _ => by
    intro st x _
    refine ⟨?_, ?_⟩
    · simp only [sem, delegateSem, extSt_ix]
      ext_leaf
    · intro r hr
      simp only [sem, delegateSem] at hr
      split at hr
      · split at hr
        · split at hr
          · simp at hr; subst hr; rfl
          · simp at hr
        · simp at hr
      · split at hr
        · split at hr
          · simp at hr; subst hr; rfl
          · simp at hr
        · simp at hr
  | .backref g, h => by
    simp only [slotsBelow, decide_eq_true_eq] at h
    intro st x hk
    refine ⟨?_, ?_⟩
    · simp only [sem, extSt_ix]
      rw [extSt_slot _ _ _ (by omega), extSt_slot _ _ _ (by omega)]
      ext_leaf
    · intro r hr
      simp only [sem] at hr
      split at hr
      · split at hr
        · simp at hr; subst hr; rfl
        · simp at hr
      · simp at hr
  | .atomic e, h => by
    simp only [slotsBelow] at h
    have ih := sem_ext c k e h
    intro st x hk
    obtain ⟨h1, h2⟩ := ih st x hk
    refine ⟨?_, ?_⟩
    · simp only [sem]
      rw [h1, firstOnly_map]
    · intro r hr
      simp only [sem] at hr
      exact h2 r (firstOnly_mem' _ _ hr)
  | .keepOut, h => by
    simp only [slotsBelow, decide_eq_true_eq] at h
    intro st x hk
    refine ⟨?_, ?_⟩
    · simp only [sem, extSt_ix]
      rw [extSt_setSlot _ _ _ _ (by omega)]
      rfl
    · intro r hr
      simp [sem] at hr; subst hr; simp [St.setSlot]
  | .contPrev, _ => by
    intro st x _
    refine ⟨?_, ?_⟩
    · simp only [sem, extSt_ix]; ext_leaf
    · intro r hr
      simp only [sem] at hr; split at hr
      · simp at hr; subst hr; rfl
      · simp at hr
  | .backrefExists g, h => by
    simp only [slotsBelow, decide_eq_true_eq] at h
    intro st x hk
    refine ⟨?_, ?_⟩
    · simp only [sem]
      rw [extSt_slot _ _ _ (by omega)]
      ext_leaf
    · intro r hr
      simp only [sem] at hr; split at hr
      · simp at hr; subst hr; rfl
      · simp at hr
  | .cond cnd y n, h => by
    simp only [slotsBelow, Bool.and_eq_true] at h
    have ihc := sem_ext c k cnd h.1.1
    have ihy := sem_ext c k y h.1.2
    have ihn := sem_ext c k n h.2
    intro st x hk
    obtain ⟨h1, h2⟩ := ihc st x hk
    refine ⟨?_, ?_⟩
    · simp only [sem]
      rw [h1, List.head?_map]
      cases hh : (sem c cnd st).head? with
      | none => exact (ihn st x hk).1
      | some r1 =>
        have hl := h2 r1 (List.mem_of_mem_head? hh)
        exact (ihy r1 x (by rw [hl]; exact hk)).1
    · intro r hr
      simp only [sem] at hr
      split at hr
      · rename_i r1 hh
        have hl := h2 r1 (List.mem_of_mem_head? hh)
        rw [← hl]
        exact (ihy r1 x (by rw [hl]; exact hk)).2 r hr
      · exact (ihn st x hk).2 r hr
  | .subroutine g, _ => by intro st x _; simp [sem]
termination_by e => sizeOf e
decreasing_by all_goals (simp_wf; try omega)
theorem semConcat_ext (c : Ctx) (k : Nat) : ∀ (es : List Expr), slotsBelowAll k es = true →
    Ext k (semConcat c es)
  | [], _ => by intro st x _; simp [semConcat]
  | e :: es, h => by
    simp only [slotsBelowAll, Bool.and_eq_true] at h
    have ih1 := sem_ext c k e h.1
    have ih2 := semConcat_ext c k es h.2
    intro st x hk
    obtain ⟨h1, h2⟩ := ih1 st x hk
    refine ⟨?_, ?_⟩
    · simp only [semConcat]
      rw [h1]
      apply flatMap_extSt
      intro r hr
      exact (ih2 r x (by rw [h2 r hr]; exact hk)).1
    · intro r hr
      simp only [semConcat, List.mem_flatMap] at hr
      obtain ⟨r1, hr1, hr⟩ := hr
      have hl := h2 r1 hr1
      rw [← hl]
      exact (ih2 r1 x (by rw [hl]; exact hk)).2 r hr
termination_by es => sizeOf es
decreasing_by all_goals (simp_wf; try omega)
theorem semAlt_ext (c : Ctx) (k : Nat) : ∀ (es : List Expr), slotsBelowAll k es = true →
    Ext k (semAlt c es)
  | [], _ => by intro st x _; simp [semAlt]
  | e :: es, h => by
    simp only [slotsBelowAll, Bool.and_eq_true] at h
    have ih1 := sem_ext c k e h.1
    have ih2 := semAlt_ext c k es h.2
    intro st x hk
    obtain ⟨h1, h2⟩ := ih1 st x hk
    obtain ⟨h3, h4⟩ := ih2 st x hk
    refine ⟨?_, ?_⟩
    · simp only [semAlt, h1, h3, List.map_append]
    · intro r hr
      simp only [semAlt, List.mem_append] at hr
      rcases hr with hr | hr
      · exact h2 r hr
      · exact h4 r hr
termination_by es => sizeOf es
decreasing_by all_goals (simp_wf; try omega)
end

/-- **frame lemma for extra trailing slots**, expression form: an expression whose slot indices are all
    below `k`, run from a state with at least `k` slots, carries any extra trailing slots unchanged to
    every result (same results, same order), and every result keeps the number of slots -/
theorem sem_frame_extra (c : Ctx) (k : Nat) (e : Expr) (h : slotsBelow k e = true) (ix : Nat)
    (sl extra : List (Option Nat)) (hk : k ≤ sl.length) :
    sem c e ⟨ix, sl ++ extra⟩ = (sem c e ⟨ix, sl⟩).map (fun r => ⟨r.ix, r.slots ++ extra⟩) ∧
      ∀ r, r ∈ sem c e ⟨ix, sl⟩ → r.slots.length = sl.length :=
  sem_ext c k e h ⟨ix, sl⟩ extra hk

/-- the same for a concatenation (the form the delegate oracle runs) -/
theorem semConcat_frame_extra (c : Ctx) (k : Nat) (es : List Expr) (h : slotsBelowAll k es = true) (ix : Nat)
    (sl extra : List (Option Nat)) (hk : k ≤ sl.length) :
    semConcat c es ⟨ix, sl ++ extra⟩ = (semConcat c es ⟨ix, sl⟩).map (fun r => ⟨r.ix, r.slots ++ extra⟩) ∧
      ∀ r, r ∈ semConcat c es ⟨ix, sl⟩ → r.slots.length = sl.length :=
  semConcat_ext c k es h ⟨ix, sl⟩ extra hk

/-- the hypotheses are satisfiable on a non-trivial instance: `(?:(a)\1|\K)` with 4 slots, and the
    conclusion computed on it -/
example : slotsBelow 4 (.alt [.concat [.group 1 (.literal ['a'] false), .backref 1], .keepOut]) = true ∧
    4 ≤ ([none, none, none, none] : List (Option Nat)).length := by
  simp [slotsBelow, slotsBelowAll]

/-! ## The delegate oracle -/

theorem viewSlots_append (a b : List Nat) : viewSlots (a ++ b) = viewSlots a ++ viewSlots b := by
  simp [viewSlots]

theorem viewSlots_length (a : List Nat) : (viewSlots a).length = a.length := by
  simp [viewSlots]

/-- clearing `n` groups from `sg` on, all inside `a`, touches only `a` and keeps its length -/
theorem clearFold_append (sg : Nat) (b : List (Option Nat)) : ∀ (n : Nat) (a : List (Option Nat)),
    (∀ i, i < n → (sg + i) * 2 + 1 < a.length) →
    (List.range n).foldl (fun sl i => (sl.set ((sg + i) * 2) none).set ((sg + i) * 2 + 1) none) (a ++ b) =
      (List.range n).foldl (fun sl i => (sl.set ((sg + i) * 2) none).set ((sg + i) * 2 + 1) none) a ++ b ∧
    ((List.range n).foldl (fun sl i => (sl.set ((sg + i) * 2) none).set ((sg + i) * 2 + 1) none) a).length =
      a.length := by
  intro n
  induction n with
  | zero => intro a _; simp
  | succ n ih =>
    intro a h
    obtain ⟨h1, h2⟩ := ih a (fun i hi => h i (by omega))
    have hn := h n (by omega)
    simp only [List.range_succ, List.foldl_append, List.foldl_cons, List.foldl_nil]
    rw [h1]
    refine ⟨?_, ?_⟩
    · rw [List.set_append_left _ _ (by omega), List.set_append_left _ _ (by simp only [List.length_set]; omega)]
    · simp only [List.length_set]; exact h2

theorem clearGroups_append (a b : List (Option Nat)) (sg eg : Nat) (h : eg * 2 ≤ a.length) :
    clearGroups (a ++ b) sg eg = clearGroups a sg eg ++ b ∧ (clearGroups a sg eg).length = a.length := by
  unfold clearGroups
  exact clearFold_append sg b (eg - sg) a (fun i hi => by omega)

/-- the oracle on the whole vector is the oracle on the first `nS` cells with the (viewed) tail
    re-appended; the latter's result has exactly `nS` slots -/
theorem delegateOracle_ext (c : Ctx) (es : List Expr) (sg eg ix k nS : Nat) (flat : List Nat)
    (hes : slotsBelowAll k es = true) (heg : eg * 2 ≤ nS) (hk : k ≤ nS) (hn : nS ≤ flat.length) :
    delegateOracle c es sg eg ix flat =
        (delegateOracle c es sg eg ix (flat.take nS)).map (extSt (viewSlots (flat.drop nS))) ∧
      ∀ r', delegateOracle c es sg eg ix (flat.take nS) = some r' → r'.slots.length = nS := by
  have hlen : (viewSlots (flat.take nS)).length = nS := by
    rw [viewSlots_length, List.length_take]; omega
  obtain ⟨hc1, hc2⟩ := clearGroups_append (viewSlots (flat.take nS)) (viewSlots (flat.drop nS)) sg eg
    (by omega)
  have hsplit : clearGroups (viewSlots flat) sg eg =
      clearGroups (viewSlots (flat.take nS)) sg eg ++ viewSlots (flat.drop nS) := by
    rw [← hc1, ← viewSlots_append, List.take_append_drop]
  obtain ⟨h1, h2⟩ := semConcat_ext c k es hes ⟨ix, clearGroups (viewSlots (flat.take nS)) sg eg⟩
    (viewSlots (flat.drop nS)) (by simp only; omega)
  unfold delegateOracle
  simp only [semKConcat_eq, findSome?_some_eq_head?]
  refine ⟨?_, ?_⟩
  · rw [hsplit, ← List.head?_map, ← h1]
    rfl
  · intro r' hr'
    have := h2 r' (List.mem_of_mem_head? hr')
    simp only at this
    omega

/-- **delegates read and write only ordinary slots**: running the oracle on the whole vector and on
    its first `nS` cells gives the same success, the same end position and the same ordinary slots -/
theorem delegateOracle_frame (c : Ctx) (es : List Expr) (sg eg ix k nS : Nat) (flat : List Nat)
    (hes : slotsBelowAll k es = true) (heg : eg * 2 ≤ nS) (hk : k ≤ nS) (hn : nS ≤ flat.length) :
    (delegateOracle c es sg eg ix flat).isSome = (delegateOracle c es sg eg ix (flat.take nS)).isSome ∧
      ∀ r r', delegateOracle c es sg eg ix flat = some r →
        delegateOracle c es sg eg ix (flat.take nS) = some r' →
        r.ix = r'.ix ∧ ∀ j, j < nS → r.slot j = r'.slot j := by
  obtain ⟨h1, h2⟩ := delegateOracle_ext c es sg eg ix k nS flat hes heg hk hn
  refine ⟨by rw [h1, Option.isSome_map], ?_⟩
  intro r r' hr hr'
  rw [h1, hr'] at hr
  simp only [Option.map_some, Option.some.injEq] at hr
  subst hr
  have hl := h2 r' hr'
  exact ⟨rfl, fun j hj => extSt_slot _ _ _ (by omega)⟩

/-- the hypotheses of `delegateOracle_frame` on a concrete instance: the delegate `(a)\1` for group 1
    of a 4-slot program, on a vector with two auxiliary cells -/
example : slotsBelowAll 4 [.group 1 (.literal ['a'] false), .backref 1] = true ∧ 2 * 2 ≤ 4 ∧ 4 ≤ 4 ∧
    4 ≤ ([0, 7, 3, 5, 9, 9] : List Nat).length := by
  simp [slotsBelow, slotsBelowAll]

/-! ## The program condition -/

/-- **`DelegOK` from the decidable program condition** (discharges the hypothesis of `link2`) -/
theorem delegOK_of_prog (c : Ctx) (prog : List Insn) (nS : Nat) (h : progDelegOK nS prog = true) :
    DelegOK c prog nS := by
  intro pc es sg eg hp
  have hmem : Insn.delegate es sg eg ∈ prog := List.mem_of_getElem? hp
  have := (List.all_eq_true.mp h) _ hmem
  simp only [Bool.and_eq_true, decide_eq_true_eq] at this
  obtain ⟨⟨heg, hsg⟩, hes⟩ := this
  refine ⟨heg, hsg, ?_⟩
  intro ix flat hn
  obtain ⟨h1, h2⟩ := delegateOracle_frame c es sg eg ix nS nS flat hes heg (Nat.le_refl _) hn
  refine ⟨h1, ?_⟩
  intro r r' hr hr'
  obtain ⟨h3, h4⟩ := h2 r r' hr hr'
  exact ⟨h3, fun g _ hg => ⟨h4 _ (by omega), h4 _ (by omega)⟩⟩

/-- a concrete program with a real `Delegate` (group 1 = `(a)`, followed by `\1`) -/
def exDelegProg : List Insn :=
  [.save 0, .delegate [.group 1 (.literal ['a'] false), .backref 1] 1 2, .save 1, .end_]

example : progDelegOK 4 exDelegProg = true := by
  simp [progDelegOK, exDelegProg, slotsBelow, slotsBelowAll]

example (c : Ctx) : DelegOK c exDelegProg 4 :=
  delegOK_of_prog c exDelegProg 4 (by simp [progDelegOK, exDelegProg, slotsBelow, slotsBelowAll])

end Fancy
