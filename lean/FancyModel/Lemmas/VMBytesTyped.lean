import FancyModel.Lemmas.VMBytesRefine
import FancyModel.Lemmas.ProgDelegAll
/-!
# Compiled programs are well typed (slot typing of `Lemmas/VMBytesRefine.lean`)

`tauOf prog nG` is the computable slot typing of a compiled program: slot `i` is a POSITION slot iff
it is a capture slot (`i < 2 * nG`) or some `Save i` / `Restore i` / `RepeatEpsilon* { check := i }`
occurs in the program; everything else (repetition counters, the auxiliary stack) is a number slot.

`CodeOK G lo hi code` is the invariant of the compiler (`visit_codeOK` and its companions, by induction
over `visit` as in `Lemmas/ProgDelegAll.lean`): in the code of an expression whose slot indices are
below `2 * G` (`slotsBelow`), compiled with the auxiliary slots `[lo, hi)`,
* every slot used as a position is a capture slot or an auxiliary slot of the range,
* every repetition counter is an auxiliary slot of the range,
* no counter is used as a position anywhere in the code (the compiler allocates every auxiliary slot
  afresh from `nsv`),
* every `Backref` reads capture slots.

`build_wellTyped`: for every program `build` returns, `wellTyped (tauOf prog.body b.nGroups) prog.body`,
with the side facts the refinement needs (`tauOf_high`: nothing at or above `prog.nSaves` is a
position slot; `tauOf_group`: the capture slots are).
-/
namespace Fancy

def Insn.cntSlots : Insn → List Nat
  | .repeatGr _ _ _ r | .repeatNg _ _ _ r | .repeatEpsGr _ _ r _ | .repeatEpsNg _ _ r _ => [r]
  | _ => []

def Insn.brefOK (G : Nat) : Insn → Bool
  | .backref s => decide (s + 1 < 2 * G)
  | _ => true

structure CodeOK (G lo hi : Nat) (code : Code) : Prop where
  pos : ∀ i ∈ code, ∀ p ∈ i.posSlots, p < 2 * G ∨ (lo ≤ p ∧ p < hi)
  cnt : ∀ i ∈ code, ∀ r ∈ i.cntSlots, lo ≤ r ∧ r < hi
  disj : ∀ i ∈ code, ∀ r ∈ i.cntSlots, ∀ j ∈ code, r ∉ j.posSlots
  bref : ∀ i ∈ code, i.brefOK G = true

theorem CodeOK.mono {G lo hi lo' hi' : Nat} {code : Code} (h : CodeOK G lo hi code) (h1 : lo' ≤ lo) (h2 : hi ≤ hi') :
    CodeOK G lo' hi' code :=
  ⟨fun i hi p hp => by rcases h.pos i hi p hp with h | h <;> omega,
   fun i hi r hr => by have := h.cnt i hi r hr; omega, h.disj, h.bref⟩

/-- the code `c` is made of the instructions of `a` (auxiliary slots `[lo, mid)`) and of `b`
    (auxiliary slots `[mid, hi)`) -/
theorem CodeOK.of_parts {G lo mid hi : Nat} {a b c : Code} (ha : CodeOK G lo mid a) (hb : CodeOK G mid hi b)
    (hG : 2 * G ≤ lo) (h1 : lo ≤ mid) (h2 : mid ≤ hi) (hsub : ∀ i ∈ c, i ∈ a ∨ i ∈ b) : CodeOK G lo hi c := by
  refine ⟨?_, ?_, ?_, ?_⟩
  · intro i hi p hp
    rcases hsub i hi with h | h
    · rcases ha.pos i h p hp with h | h <;> omega
    · rcases hb.pos i h p hp with h | h <;> omega
  · intro i hi r hr
    rcases hsub i hi with h | h
    · have := ha.cnt i h r hr; omega
    · have := hb.cnt i h r hr; omega
  · intro i hi r hr j hj hmem
    rcases hsub i hi with h | h <;> rcases hsub j hj with h' | h'
    · exact ha.disj i h r hr j h' hmem
    · have := ha.cnt i h r hr
      rcases hb.pos j h' r hmem with h3 | h3 <;> omega
    · have := hb.cnt i h r hr
      rcases ha.pos j h' r hmem with h3 | h3 <;> omega
    · exact hb.disj i h r hr j h' hmem
  · intro i hi
    rcases hsub i hi with h | h
    · exact ha.bref i h
    · exact hb.bref i h

theorem CodeOK.nil (G lo : Nat) : CodeOK G lo lo [] := by
  refine ⟨?_, ?_, ?_, ?_⟩ <;> simp

theorem CodeOK.append {G lo mid hi : Nat} {a b : Code} (ha : CodeOK G lo mid a) (hb : CodeOK G mid hi b)
    (hG : 2 * G ≤ lo) (h1 : lo ≤ mid) (h2 : mid ≤ hi) : CodeOK G lo hi (a ++ b) :=
  CodeOK.of_parts ha hb hG h1 h2 (fun i hi => by simpa [List.mem_append] using hi)

/-- a concrete short list of instructions -/
macro "code_ok" : tactic =>
  `(tactic| (refine ⟨?_, ?_, ?_, ?_⟩ <;>
      simp [Insn.posSlots, Insn.cntSlots, Insn.brefOK] <;> omega))

/-- membership side condition of `CodeOK.of_parts` -/
macro "mem_parts" : tactic =>
  `(tactic| (intro i hi
             simp only [List.mem_append, List.mem_cons, List.not_mem_nil, or_false, false_or, List.cons_append,
               List.nil_append, List.append_assoc] at hi ⊢
             grind))

theorem codeOK_compileDelegate (G lo : Nat) (e : Expr) (gix : Nat) : CodeOK G lo lo (compileDelegate e gix) := by
  unfold compileDelegate
  split <;> code_ok

theorem codeOK_compileDelegates (G lo : Nat) (es : List Expr) (gix : Nat) : CodeOK G lo lo (compileDelegates es gix) := by
  unfold compileDelegates
  split
  · exact CodeOK.nil G lo
  · split <;> code_ok

theorem codeOK_wrapPosLook {G s hi : Nat} {body : Code} (atomic behind : Bool) (k : Nat)
    (h : CodeOK G (s + 1) hi body) (hG : 2 * G ≤ s) (hle : s + 1 ≤ hi) :
    CodeOK G s hi (wrapPosLook atomic behind s k body) := by
  have hsmall : CodeOK G s (s + 1) [.beginAtomic, .save s, .goBack k, .restore s, .endAtomic] := by code_ok
  refine CodeOK.of_parts hsmall h hG (by omega) hle ?_
  unfold wrapPosLook
  cases atomic <;> cases behind <;> mem_parts

theorem codeOK_wrapNegLook {G lo hi : Nat} {body : Code} (behind : Bool) (pc k : Nat)
    (h : CodeOK G lo hi body) (hG : 2 * G ≤ lo) (hle : lo ≤ hi) :
    CodeOK G lo hi (wrapNegLook behind pc k body) := by
  unfold wrapNegLook
  cases behind
  · have hsmall : CodeOK G lo lo [.split (pc + 1) (pc + 1 + ([] ++ body).length + 1), .failNegLook] := by code_ok
    refine CodeOK.of_parts hsmall h hG (Nat.le_refl _) hle ?_
    mem_parts
  · have hsmall : CodeOK G lo lo
        [.split (pc + 1) (pc + 1 + ([Insn.goBack k] ++ body).length + 1), .goBack k, .failNegLook] := by code_ok
    refine CodeOK.of_parts hsmall h hG (Nat.le_refl _) hle ?_
    mem_parts

theorem slotsBelowAll_cons' {n : Nat} {e : Expr} {es : List Expr} (h : slotsBelowAll n (e :: es) = true) :
    slotsBelow n e = true ∧ slotsBelowAll n es = true := by
  simpa [slotsBelowAll] using h

/-! ## Induction over the compiler -/

mutual
theorem visit_codeOK (G : Nat) (br : Nat → Bool) :
    ∀ (e : Expr) (hard : Bool) (pc nsv gix : Nat) (code : Code) (nsv' : Nat),
      slotsBelow (2 * G) e = true → 2 * G ≤ nsv → visit br e hard pc nsv gix = .ok (code, nsv') →
      CodeOK G nsv nsv' code ∧ nsv ≤ nsv'
  | .empty, hard, pc, nsv, gix, code, nsv', hn, hG, hv => by
    by_cases hdel : (!hard && !isHard br .empty) = true
    · rw [visit_easy_eq br _ hard pc nsv gix hdel] at hv
      simp only [Except.ok.injEq, Prod.mk.injEq] at hv
      obtain ⟨rfl, rfl⟩ := hv
      exact ⟨codeOK_compileDelegate G nsv _ gix, Nat.le_refl _⟩
    · rw [visit] at hv
      simp only [hdel, Bool.false_eq_true, ↓reduceIte, Except.ok.injEq, Prod.mk.injEq] at hv
      obtain ⟨rfl, rfl⟩ := hv
      exact ⟨CodeOK.nil G nsv, Nat.le_refl _⟩
  | .any nl, hard, pc, nsv, gix, code, nsv', hn, hG, hv => by
    by_cases hdel : (!hard && !isHard br (.any nl)) = true
    · rw [visit_easy_eq br _ hard pc nsv gix hdel] at hv
      simp only [Except.ok.injEq, Prod.mk.injEq] at hv
      obtain ⟨rfl, rfl⟩ := hv
      exact ⟨codeOK_compileDelegate G nsv _ gix, Nat.le_refl _⟩
    · cases nl <;>
      · rw [visit] at hv
        simp only [hdel, Bool.false_eq_true, ↓reduceIte, Except.ok.injEq, Prod.mk.injEq] at hv
        obtain ⟨rfl, rfl⟩ := hv
        exact ⟨by code_ok, Nat.le_refl _⟩
  | .assertion a, hard, pc, nsv, gix, code, nsv', hn, hG, hv => by
    by_cases hdel : (!hard && !isHard br (.assertion a)) = true
    · rw [visit_easy_eq br _ hard pc nsv gix hdel] at hv
      simp only [Except.ok.injEq, Prod.mk.injEq] at hv
      obtain ⟨rfl, rfl⟩ := hv
      exact ⟨codeOK_compileDelegate G nsv _ gix, Nat.le_refl _⟩
    · rw [visit] at hv
      simp only [hdel, Bool.false_eq_true, ↓reduceIte, Except.ok.injEq, Prod.mk.injEq] at hv
      obtain ⟨rfl, rfl⟩ := hv
      exact ⟨by code_ok, Nat.le_refl _⟩
  | .literal v ci, hard, pc, nsv, gix, code, nsv', hn, hG, hv => by
    by_cases hdel : (!hard && !isHard br (.literal v ci)) = true
    · rw [visit_easy_eq br _ hard pc nsv gix hdel] at hv
      simp only [Except.ok.injEq, Prod.mk.injEq] at hv
      obtain ⟨rfl, rfl⟩ := hv
      exact ⟨codeOK_compileDelegate G nsv _ gix, Nat.le_refl _⟩
    · rw [visit] at hv
      simp only [hdel, Bool.false_eq_true, ↓reduceIte] at hv
      cases ci with
      | false =>
        simp only [Bool.not_false, ↓reduceIte, Except.ok.injEq, Prod.mk.injEq] at hv
        obtain ⟨rfl, rfl⟩ := hv
        exact ⟨by code_ok, Nat.le_refl _⟩
      | true =>
        simp only [Bool.not_true, Bool.false_eq_true, ↓reduceIte, Except.ok.injEq, Prod.mk.injEq] at hv
        obtain ⟨rfl, rfl⟩ := hv
        exact ⟨codeOK_compileDelegate G nsv _ gix, Nat.le_refl _⟩
  | .delegate inner size ci, hard, pc, nsv, gix, code, nsv', hn, hG, hv => by
    by_cases hdel : (!hard && !isHard br (.delegate inner size ci)) = true
    · rw [visit_easy_eq br _ hard pc nsv gix hdel] at hv
      simp only [Except.ok.injEq, Prod.mk.injEq] at hv
      obtain ⟨rfl, rfl⟩ := hv
      exact ⟨codeOK_compileDelegate G nsv _ gix, Nat.le_refl _⟩
    · rw [visit] at hv
      simp only [hdel, Bool.false_eq_true, ↓reduceIte, Except.ok.injEq, Prod.mk.injEq] at hv
      obtain ⟨rfl, rfl⟩ := hv
      exact ⟨codeOK_compileDelegate G nsv _ gix, Nat.le_refl _⟩
  | .backref g, hard, pc, nsv, gix, code, nsv', hn, hG, hv => by
    rw [visit] at hv
    simp only [isHard, Bool.not_true, Bool.and_false, Bool.false_eq_true, ↓reduceIte, Except.ok.injEq, Prod.mk.injEq] at hv
    obtain ⟨rfl, rfl⟩ := hv
    simp only [slotsBelow, decide_eq_true_eq] at hn
    exact ⟨by code_ok, Nat.le_refl _⟩
  | .backrefExists g, hard, pc, nsv, gix, code, nsv', hn, hG, hv => by
    rw [visit] at hv
    simp only [isHard, Bool.not_true, Bool.and_false, Bool.false_eq_true, ↓reduceIte, Except.ok.injEq, Prod.mk.injEq] at hv
    obtain ⟨rfl, rfl⟩ := hv
    exact ⟨by code_ok, Nat.le_refl _⟩
  | .keepOut, hard, pc, nsv, gix, code, nsv', hn, hG, hv => by
    rw [visit] at hv
    simp only [isHard, Bool.not_true, Bool.and_false, Bool.false_eq_true, ↓reduceIte, Except.ok.injEq, Prod.mk.injEq] at hv
    obtain ⟨rfl, rfl⟩ := hv
    simp only [slotsBelow, decide_eq_true_eq] at hn
    exact ⟨by code_ok, Nat.le_refl _⟩
  | .contPrev, hard, pc, nsv, gix, code, nsv', hn, hG, hv => by
    rw [visit] at hv
    simp only [isHard, Bool.not_true, Bool.and_false, Bool.false_eq_true, ↓reduceIte, Except.ok.injEq, Prod.mk.injEq] at hv
    obtain ⟨rfl, rfl⟩ := hv
    exact ⟨by code_ok, Nat.le_refl _⟩
  | .subroutine g, hard, pc, nsv, gix, code, nsv', hn, hG, hv => by
    by_cases hdel : (!hard && !isHard br (.subroutine g)) = true
    · rw [visit_easy_eq br _ hard pc nsv gix hdel] at hv
      simp only [Except.ok.injEq, Prod.mk.injEq] at hv
      obtain ⟨rfl, rfl⟩ := hv
      exact ⟨codeOK_compileDelegate G nsv _ gix, Nat.le_refl _⟩
    · rw [visit] at hv
      simp only [hdel, Bool.false_eq_true, ↓reduceIte] at hv
      cases hv
  | .group g e, hard, pc, nsv, gix, code, nsv', hn, hG, hv => by
    by_cases hdel : (!hard && !isHard br (.group g e)) = true
    · rw [visit_easy_eq br _ hard pc nsv gix hdel] at hv
      simp only [Except.ok.injEq, Prod.mk.injEq] at hv
      obtain ⟨rfl, rfl⟩ := hv
      exact ⟨codeOK_compileDelegate G nsv _ gix, Nat.le_refl _⟩
    · rw [visit] at hv
      simp only [hdel, Bool.false_eq_true, ↓reduceIte] at hv
      cases hb : visit br e hard (pc + 1) nsv (gix + 1) with
      | error err => simp [hb] at hv
      | ok p =>
        obtain ⟨code1, nsv1⟩ := p
        simp only [hb, Except.ok.injEq, Prod.mk.injEq] at hv
        obtain ⟨rfl, rfl⟩ := hv
        simp only [slotsBelow, Bool.and_eq_true, decide_eq_true_eq] at hn
        obtain ⟨ih, hle⟩ := visit_codeOK G br e hard (pc + 1) nsv (gix + 1) code1 _ hn.2 hG hb
        have hsmall : CodeOK G nsv nsv [.save (g * 2), .save (g * 2 + 1)] := by code_ok
        exact ⟨CodeOK.of_parts hsmall ih hG (Nat.le_refl _) hle (by mem_parts), hle⟩
  | .concat es, hard, pc, nsv, gix, code, nsv', hn, hG, hv => by
    by_cases hdel : (!hard && !isHard br (.concat es)) = true
    · rw [visit_easy_eq br _ hard pc nsv gix hdel] at hv
      simp only [Except.ok.injEq, Prod.mk.injEq] at hv
      obtain ⟨rfl, rfl⟩ := hv
      exact ⟨codeOK_compileDelegate G nsv _ gix, Nat.le_refl _⟩
    · rw [visit] at hv
      simp only [hdel, Bool.false_eq_true, ↓reduceIte] at hv
      have hL : slotsBelowAll (2 * G) es = true := by simpa [slotsBelow] using hn
      generalize hsp : concatSplit br es hard = sp at hv
      rw [visitMiddle_skip] at hv
      cases hb : visitMiddle br (es.drop sp.1) 0 (sp.2 - sp.1)
          (pc + (compileDelegates (es.take sp.1) gix).length) nsv (gix + groupCountList (es.take sp.1)) with
      | error err => simp [hb] at hv
      | ok p =>
        obtain ⟨mid, nsv1⟩ := p
        simp only [hb, Except.ok.injEq, Prod.mk.injEq] at hv
        obtain ⟨rfl, rfl⟩ := hv
        have hsz := sizeOf_drop_le es sp.1
        obtain ⟨ihm, hle2⟩ := visitMiddle_codeOK G br (es.drop sp.1) (sp.2 - sp.1) _ nsv _ mid nsv1
          (slotsBelowAll_drop _ es sp.1 hL) hG hb
        have h1 := CodeOK.append (codeOK_compileDelegates G nsv (es.take sp.1) gix) ihm hG (Nat.le_refl _) hle2
        exact ⟨CodeOK.append h1 (codeOK_compileDelegates G nsv1 (es.drop sp.2) _) hG hle2 (Nat.le_refl _), hle2⟩
  | .alt es, hard, pc, nsv, gix, code, nsv', hn, hG, hv => by
    by_cases hdel : (!hard && !isHard br (.alt es)) = true
    · rw [visit_easy_eq br _ hard pc nsv gix hdel] at hv
      simp only [Except.ok.injEq, Prod.mk.injEq] at hv
      obtain ⟨rfl, rfl⟩ := hv
      exact ⟨codeOK_compileDelegate G nsv _ gix, Nat.le_refl _⟩
    · rw [visit] at hv
      simp only [hdel, Bool.false_eq_true, ↓reduceIte] at hv
      cases hb : visitAlt br es hard pc nsv gix with
      | error err => simp [hb] at hv
      | ok p =>
        obtain ⟨f, endPc, nsv1⟩ := p
        simp only [hb, Except.ok.injEq, Prod.mk.injEq] at hv
        obtain ⟨rfl, rfl⟩ := hv
        obtain ⟨ih, hle⟩ := visitAlt_codeOK G br es hard pc nsv gix f endPc _ (by simpa [slotsBelow] using hn) hG hb
        exact ⟨ih endPc, hle⟩
  | .repeat e lo hi greedy, hard, pc, nsv, gix, code, nsv', hn, hG, hv => by
    by_cases hdel : (!hard && !isHard br (.repeat e lo hi greedy)) = true
    · rw [visit_easy_eq br _ hard pc nsv gix hdel] at hv
      simp only [Except.ok.injEq, Prod.mk.injEq] at hv
      obtain ⟨rfl, rfl⟩ := hv
      exact ⟨codeOK_compileDelegate G nsv _ gix, Nat.le_refl _⟩
    · have hne : slotsBelow (2 * G) e = true := by simpa [slotsBelow] using hn
      rw [visit] at hv
      simp only [hdel, Bool.false_eq_true, ↓reduceIte] at hv
      by_cases hopt : (lo == 0 && hi == some 1) = true
      · simp only [hopt, ↓reduceIte] at hv
        cases hb : visit br e hard (pc + 1) nsv gix with
        | error err => simp [hb] at hv
        | ok p =>
          obtain ⟨code1, nsv1⟩ := p
          simp only [hb, Except.ok.injEq, Prod.mk.injEq] at hv
          obtain ⟨rfl, rfl⟩ := hv
          obtain ⟨ih, hle⟩ := visit_codeOK G br e hard (pc + 1) nsv gix code1 _ hne hG hb
          have hsmall : CodeOK G nsv nsv
              [.split (pc + 1) (pc + 1 + code1.length), .split (pc + 1 + code1.length) (pc + 1)] := by code_ok
          refine ⟨CodeOK.of_parts hsmall ih hG (Nat.le_refl _) hle ?_, hle⟩
          cases greedy <;> mem_parts
      · simp only [hopt, Bool.false_eq_true, ↓reduceIte] at hv
        generalize (hard || isHard br (.repeat e lo hi greedy)) = hard' at hv
        by_cases heps : (hi == none && minSize e == 0) = true
        · simp only [heps, ↓reduceIte] at hv
          cases hb : visit br e hard' (pc + 2) (nsv + 2) gix with
          | error err => simp [hb] at hv
          | ok p =>
            obtain ⟨code1, nsv1⟩ := p
            simp only [hb, Except.ok.injEq, Prod.mk.injEq] at hv
            obtain ⟨rfl, rfl⟩ := hv
            obtain ⟨ih, hle⟩ := visit_codeOK G br e hard' (pc + 2) (nsv + 2) gix code1 _ hne (by omega) hb
            have hsmall : CodeOK G nsv (nsv + 2)
                [.save0 nsv, .repeatEpsGr lo (pc + 2 + code1.length + 1) nsv (nsv + 1),
                 .repeatEpsNg lo (pc + 2 + code1.length + 1) nsv (nsv + 1), .jmp (pc + 1)] := by code_ok
            refine ⟨CodeOK.of_parts hsmall ih hG (by omega) hle ?_, by omega⟩
            cases greedy <;> mem_parts
        · simp only [heps, Bool.false_eq_true, ↓reduceIte] at hv
          by_cases hstar : (lo == 0 && hi == none) = true
          · simp only [hstar, ↓reduceIte] at hv
            cases hb : visit br e hard' (pc + 1) nsv gix with
            | error err => simp [hb] at hv
            | ok p =>
              obtain ⟨code1, nsv1⟩ := p
              simp only [hb, Except.ok.injEq, Prod.mk.injEq] at hv
              obtain ⟨rfl, rfl⟩ := hv
              obtain ⟨ih, hle⟩ := visit_codeOK G br e hard' (pc + 1) nsv gix code1 _ hne hG hb
              have hsmall : CodeOK G nsv nsv
                  [.split (pc + 1) (pc + 1 + code1.length + 1), .split (pc + 1 + code1.length + 1) (pc + 1),
                   .jmp pc] := by code_ok
              refine ⟨CodeOK.of_parts hsmall ih hG (Nat.le_refl _) hle ?_, hle⟩
              cases greedy <;> mem_parts
          · simp only [hstar, Bool.false_eq_true, ↓reduceIte] at hv
            by_cases hplus : (lo == 1 && hi == none) = true
            · simp only [hplus, ↓reduceIte] at hv
              cases hb : visit br e hard' pc nsv gix with
              | error err => simp [hb] at hv
              | ok p =>
                obtain ⟨code1, nsv1⟩ := p
                simp only [hb, Except.ok.injEq, Prod.mk.injEq] at hv
                obtain ⟨rfl, rfl⟩ := hv
                obtain ⟨ih, hle⟩ := visit_codeOK G br e hard' pc nsv gix code1 _ hne hG hb
                have hsmall : CodeOK G nsv nsv
                    [.split pc (pc + code1.length + 1), .split (pc + code1.length + 1) pc] := by code_ok
                refine ⟨CodeOK.of_parts hsmall ih hG (Nat.le_refl _) hle ?_, hle⟩
                cases greedy <;> mem_parts
            · simp only [hplus, Bool.false_eq_true, ↓reduceIte] at hv
              cases hb : visit br e hard' (pc + 2) (nsv + 1) gix with
              | error err => simp [hb] at hv
              | ok p =>
                obtain ⟨code1, nsv1⟩ := p
                simp only [hb, Except.ok.injEq, Prod.mk.injEq] at hv
                obtain ⟨rfl, rfl⟩ := hv
                obtain ⟨ih, hle⟩ := visit_codeOK G br e hard' (pc + 2) (nsv + 1) gix code1 _ hne (by omega) hb
                have hsmall : CodeOK G nsv (nsv + 1)
                    [.save0 nsv, .repeatGr lo hi (pc + 2 + code1.length + 1) nsv,
                     .repeatNg lo hi (pc + 2 + code1.length + 1) nsv, .jmp (pc + 1)] := by code_ok
                refine ⟨CodeOK.of_parts hsmall ih hG (by omega) hle ?_, by omega⟩
                cases greedy <;> mem_parts
  | .look e .ahead, hard, pc, nsv, gix, code, nsv', hn, hG, hv => by
    have hne : slotsBelow (2 * G) e = true := by simpa [slotsBelow] using hn
    rw [visit] at hv
    simp only [isHard, Bool.not_true, Bool.and_false, Bool.false_eq_true, ↓reduceIte] at hv
    cases hb : visit br e false (posLookBodyPc (isHard br e) false pc) (nsv + 1) gix with
    | error err => simp [hb] at hv
    | ok p =>
      obtain ⟨code1, nsv1⟩ := p
      simp only [hb, Except.ok.injEq, Prod.mk.injEq] at hv
      obtain ⟨rfl, rfl⟩ := hv
      obtain ⟨ih, hle⟩ := visit_codeOK G br e false _ (nsv + 1) gix code1 _ hne (by omega) hb
      exact ⟨codeOK_wrapPosLook _ _ _ ih hG hle, by omega⟩
  | .look e .aheadNeg, hard, pc, nsv, gix, code, nsv', hn, hG, hv => by
    have hne : slotsBelow (2 * G) e = true := by simpa [slotsBelow] using hn
    rw [visit] at hv
    simp only [isHard, Bool.not_true, Bool.and_false, Bool.false_eq_true, ↓reduceIte] at hv
    cases hb : visit br e false (negLookBodyPc false pc) nsv gix with
    | error err => simp [hb] at hv
    | ok p =>
      obtain ⟨code1, nsv1⟩ := p
      simp only [hb, Except.ok.injEq, Prod.mk.injEq] at hv
      obtain ⟨rfl, rfl⟩ := hv
      obtain ⟨ih, hle⟩ := visit_codeOK G br e false _ nsv gix code1 _ hne hG hb
      exact ⟨codeOK_wrapNegLook _ _ _ ih hG hle, hle⟩
  | .look e .behind, hard, pc, nsv, gix, code, nsv', hn, hG, hv => by
    have hne : slotsBelow (2 * G) e = true := by simpa [slotsBelow] using hn
    cases hia : isAlt e with
    | false =>
      have hna' := isAlt_false_ne e hia
      by_cases hcs : constSize e = true
      · rw [C13_accept_behind_const br e hna' hcs] at hv
        cases hb : visit br e false (posLookBodyPc (isHard br e) true pc) (nsv + 1) gix with
        | error err => simp [hb] at hv
        | ok p =>
          obtain ⟨code1, nsv1⟩ := p
          simp only [hb, Except.ok.injEq, Prod.mk.injEq] at hv
          obtain ⟨rfl, rfl⟩ := hv
          obtain ⟨ih, hle⟩ := visit_codeOK G br e false _ (nsv + 1) gix code1 _ hne (by omega) hb
          exact ⟨codeOK_wrapPosLook _ _ _ ih hG hle, by omega⟩
      · have hcs' : constSize e = false := by simpa using hcs
        rw [C13_accept_behind_not_const br e hna' hcs'] at hv
        cases hv
    | true =>
      obtain ⟨es, rfl⟩ := isAlt_true e hia
      rw [visit] at hv
      simp only [isHard, Bool.not_true, Bool.and_false, Bool.false_eq_true, ↓reduceIte] at hv
      by_cases hcs : constSize (.alt es) = true
      · simp only [hcs, Bool.not_true, Bool.false_eq_true, ↓reduceIte] at hv
        rw [visitAltBody_eq_visit] at hv
        cases hb : visit br (.alt es) false (posLookBodyPc (isHardAny br es) true pc) (nsv + 1) gix with
        | error err => simp [hb] at hv
        | ok p =>
          obtain ⟨code1, nsv1⟩ := p
          simp only [hb, Except.ok.injEq, Prod.mk.injEq] at hv
          obtain ⟨rfl, rfl⟩ := hv
          obtain ⟨ih, hle⟩ := visit_codeOK G br (.alt es) false _ (nsv + 1) gix code1 _ hne (by omega) hb
          exact ⟨codeOK_wrapPosLook _ _ _ ih hG hle, by omega⟩
      · have hcs' : constSize (.alt es) = false := by simpa using hcs
        simp only [hcs', Bool.not_false, ↓reduceIte] at hv
        cases hb : lookBehindAlts br es (pc + 1) nsv gix with
        | error err => simp [hb] at hv
        | ok p =>
          obtain ⟨f, endPc, nsv1⟩ := p
          simp only [hb, Except.ok.injEq, Prod.mk.injEq] at hv
          obtain ⟨rfl, rfl⟩ := hv
          obtain ⟨ih, hle⟩ := lookBehindAlts_codeOK G br es (pc + 1) nsv gix f endPc _
            (by simpa [slotsBelow] using hne) hG hb
          have hsmall : CodeOK G nsv nsv [.beginAtomic, .endAtomic] := by code_ok
          exact ⟨CodeOK.of_parts hsmall (ih endPc) hG (Nat.le_refl _) hle (by mem_parts), hle⟩
  | .look e .behindNeg, hard, pc, nsv, gix, code, nsv', hn, hG, hv => by
    have hne : slotsBelow (2 * G) e = true := by simpa [slotsBelow] using hn
    cases hia : isAlt e with
    | false =>
      have hna' := isAlt_false_ne e hia
      by_cases hcs : constSize e = true
      · rw [C13_accept_behindNeg_const br e hna' hcs] at hv
        cases hb : visit br e false (negLookBodyPc true pc) nsv gix with
        | error err => simp [hb] at hv
        | ok p =>
          obtain ⟨code1, nsv1⟩ := p
          simp only [hb, Except.ok.injEq, Prod.mk.injEq] at hv
          obtain ⟨rfl, rfl⟩ := hv
          obtain ⟨ih, hle⟩ := visit_codeOK G br e false _ nsv gix code1 _ hne hG hb
          exact ⟨codeOK_wrapNegLook _ _ _ ih hG hle, hle⟩
      · have hcs' : constSize e = false := by simpa using hcs
        rw [C13_accept_behindNeg_not_const br e hna' hcs'] at hv
        cases hv
    | true =>
      obtain ⟨es, rfl⟩ := isAlt_true e hia
      rw [visit] at hv
      simp only [isHard, Bool.not_true, Bool.and_false, Bool.false_eq_true, ↓reduceIte] at hv
      by_cases hcs : constSize (.alt es) = true
      · simp only [hcs, Bool.not_true, Bool.false_eq_true, ↓reduceIte] at hv
        rw [visitAltBody_eq_visit] at hv
        cases hb : visit br (.alt es) false (negLookBodyPc true pc) nsv gix with
        | error err => simp [hb] at hv
        | ok p =>
          obtain ⟨code1, nsv1⟩ := p
          simp only [hb, Except.ok.injEq, Prod.mk.injEq] at hv
          obtain ⟨rfl, rfl⟩ := hv
          obtain ⟨ih, hle⟩ := visit_codeOK G br (.alt es) false _ nsv gix code1 _ hne hG hb
          exact ⟨codeOK_wrapNegLook _ _ _ ih hG hle, hle⟩
      · have hcs' : constSize (.alt es) = false := by simpa using hcs
        simp only [hcs', Bool.not_false, ↓reduceIte] at hv
        exact lookBehindNegAlts_codeOK G br es pc nsv gix code nsv' (by simpa [slotsBelow] using hne) hG hv
  | .atomic e, hard, pc, nsv, gix, code, nsv', hn, hG, hv => by
    have hne : slotsBelow (2 * G) e = true := by simpa [slotsBelow] using hn
    rw [visit] at hv
    simp only [isHard, Bool.not_true, Bool.and_false, Bool.false_eq_true, ↓reduceIte] at hv
    cases hb : visit br e false (pc + 1) nsv gix with
    | error err => simp [hb] at hv
    | ok p =>
      obtain ⟨code1, nsv1⟩ := p
      simp only [hb, Except.ok.injEq, Prod.mk.injEq] at hv
      obtain ⟨rfl, rfl⟩ := hv
      obtain ⟨ih, hle⟩ := visit_codeOK G br e false (pc + 1) nsv gix code1 _ hne hG hb
      have hsmall : CodeOK G nsv nsv [.beginAtomic, .endAtomic] := by code_ok
      exact ⟨CodeOK.of_parts hsmall ih hG (Nat.le_refl _) hle (by mem_parts), hle⟩
  | .cond cnd y no, hard, pc, nsv, gix, code, nsv', hn, hG, hv => by
    simp only [slotsBelow, Bool.and_eq_true] at hn
    obtain ⟨⟨hnc, hny⟩, hnn⟩ := hn
    rw [visit] at hv
    simp only [isHard, Bool.not_true, Bool.and_false, Bool.false_eq_true, ↓reduceIte] at hv
    cases hb1 : visit br cnd hard (pc + 2) nsv gix with
    | error err => simp [hb1] at hv
    | ok p1 =>
      obtain ⟨cc, nsv1⟩ := p1
      simp only [hb1] at hv
      cases hb2 : visit br y hard (pc + 2 + cc.length + 1) nsv1 (gix + groupCount cnd) with
      | error err => simp [hb2] at hv
      | ok p2 =>
        obtain ⟨yc, nsv2⟩ := p2
        simp only [hb2] at hv
        cases hb3 : visit br no hard (pc + 2 + cc.length + 1 + yc.length + 1) nsv2 (gix + groupCount cnd + groupCount y) with
        | error err => simp [hb3] at hv
        | ok p3 =>
          obtain ⟨nc, nsv3⟩ := p3
          simp only [hb3, Except.ok.injEq, Prod.mk.injEq] at hv
          obtain ⟨rfl, rfl⟩ := hv
          obtain ⟨ih1, hle1⟩ := visit_codeOK G br cnd hard (pc + 2) nsv gix cc _ hnc hG hb1
          obtain ⟨ih2, hle2⟩ := visit_codeOK G br y hard _ nsv1 _ yc _ hny (by omega) hb2
          obtain ⟨ih3, hle3⟩ := visit_codeOK G br no hard _ nsv2 _ nc _ hnn (by omega) hb3
          have hsmall : CodeOK G nsv nsv
              [.beginAtomic, .split (pc + 2) (pc + 2 + cc.length + 1 + yc.length + 1), .endAtomic,
               .jmp (pc + 2 + cc.length + 1 + yc.length + 1 + nc.length)] := by code_ok
          have k1 := CodeOK.append hsmall ih1 hG (Nat.le_refl _) hle1
          have k2 := CodeOK.append k1 ih2 hG hle1 hle2
          exact ⟨CodeOK.of_parts k2 ih3 hG (by omega) hle3 (by mem_parts), by omega⟩
termination_by e => sizeOf e
decreasing_by all_goals (simp_wf; try (first | omega | (subst_vars; simp; try omega)))
theorem visitMiddle_codeOK (G : Nat) (br : Nat → Bool) :
    ∀ (es : List Expr) (take pc nsv gix : Nat) (code : Code) (nsv' : Nat),
      slotsBelowAll (2 * G) es = true → 2 * G ≤ nsv → visitMiddle br es 0 take pc nsv gix = .ok (code, nsv') →
      CodeOK G nsv nsv' code ∧ nsv ≤ nsv'
  | [], take, pc, nsv, gix, code, nsv', _, _, hv => by
    simp only [visitMiddle, Except.ok.injEq, Prod.mk.injEq] at hv
    obtain ⟨rfl, rfl⟩ := hv
    exact ⟨CodeOK.nil G nsv, Nat.le_refl _⟩
  | e :: es, 0, pc, nsv, gix, code, nsv', _, _, hv => by
    simp only [visitMiddle, Except.ok.injEq, Prod.mk.injEq] at hv
    obtain ⟨rfl, rfl⟩ := hv
    exact ⟨CodeOK.nil G nsv, Nat.le_refl _⟩
  | e :: es, take + 1, pc, nsv, gix, code, nsv', hn, hG, hv => by
    simp only [visitMiddle] at hv
    obtain ⟨hne, hns⟩ := slotsBelowAll_cons' hn
    cases hb : visit br e true pc nsv gix with
    | error err => simp [hb] at hv
    | ok p =>
      obtain ⟨c1, nsv1⟩ := p
      simp only [hb] at hv
      cases hb2 : visitMiddle br es 0 take (pc + c1.length) nsv1 (gix + groupCount e) with
      | error err => simp [hb2] at hv
      | ok p2 =>
        obtain ⟨c2, nsv2⟩ := p2
        simp only [hb2, Except.ok.injEq, Prod.mk.injEq] at hv
        obtain ⟨rfl, rfl⟩ := hv
        obtain ⟨ih1, hle1⟩ := visit_codeOK G br e true pc nsv gix c1 nsv1 hne hG hb
        obtain ⟨ih2, hle2⟩ := visitMiddle_codeOK G br es take (pc + c1.length) nsv1 _ c2 _ hns (by omega) hb2
        exact ⟨CodeOK.of_parts ih1 ih2 hG hle1 hle2 (by mem_parts), by omega⟩
termination_by es => sizeOf es
decreasing_by all_goals (simp_wf; try omega)
theorem visitAlt_codeOK (G : Nat) (br : Nat → Bool) :
    ∀ (es : List Expr) (hard : Bool) (pc nsv gix : Nat) (f : Nat → Code) (endPc nsv' : Nat),
      slotsBelowAll (2 * G) es = true → 2 * G ≤ nsv → visitAlt br es hard pc nsv gix = .ok (f, endPc, nsv') →
      (∀ t, CodeOK G nsv nsv' (f t)) ∧ nsv ≤ nsv'
  | [], hard, pc, nsv, gix, f, endPc, nsv', _, _, hv => by
    simp only [visitAlt, Except.ok.injEq, Prod.mk.injEq] at hv
    obtain ⟨rfl, rfl, rfl⟩ := hv
    exact ⟨fun _ => CodeOK.nil G nsv, Nat.le_refl _⟩
  | [e], hard, pc, nsv, gix, f, endPc, nsv', hn, hG, hv => by
    simp only [visitAlt] at hv
    obtain ⟨hne, _⟩ := slotsBelowAll_cons' hn
    cases hb : visit br e hard pc nsv gix with
    | error err => simp [hb] at hv
    | ok p =>
      obtain ⟨c1, nsv1⟩ := p
      simp only [hb, Except.ok.injEq, Prod.mk.injEq] at hv
      obtain ⟨rfl, rfl, rfl⟩ := hv
      obtain ⟨ih, hle⟩ := visit_codeOK G br e hard pc nsv gix c1 nsv1 hne hG hb
      exact ⟨fun _ => ih, hle⟩
  | e :: e2 :: es, hard, pc, nsv, gix, f, endPc, nsv', hn, hG, hv => by
    simp only [visitAlt] at hv
    obtain ⟨hne, hns⟩ := slotsBelowAll_cons' hn
    cases hb : visit br e hard (pc + 1) nsv gix with
    | error err => simp [hb] at hv
    | ok p =>
      obtain ⟨c1, nsv1⟩ := p
      simp only [hb] at hv
      cases hb2 : visitAlt br (e2 :: es) hard (pc + 1 + c1.length + 1) nsv1 (gix + groupCount e) with
      | error err => simp [hb2] at hv
      | ok p2 =>
        obtain ⟨f2, endPc2, nsv2⟩ := p2
        simp only [hb2, Except.ok.injEq, Prod.mk.injEq] at hv
        obtain ⟨rfl, rfl, rfl⟩ := hv
        obtain ⟨ih1, hle1⟩ := visit_codeOK G br e hard (pc + 1) nsv gix c1 nsv1 hne hG hb
        obtain ⟨ih2, hle2⟩ := visitAlt_codeOK G br (e2 :: es) hard _ nsv1 _ f2 _ _ hns (by omega) hb2
        refine ⟨fun t => ?_, by omega⟩
        have hsmall : CodeOK G nsv nsv [.split (pc + 1) (pc + 1 + c1.length + 1), .jmp t] := by code_ok
        have k1 := CodeOK.append hsmall ih1 hG (Nat.le_refl _) hle1
        exact CodeOK.of_parts k1 (ih2 t) hG hle1 hle2 (by mem_parts)
termination_by es => sizeOf es
decreasing_by all_goals (simp_wf; try omega)
theorem lookBehindAlts_codeOK (G : Nat) (br : Nat → Bool) :
    ∀ (es : List Expr) (pc nsv gix : Nat) (f : Nat → Code) (endPc nsv' : Nat),
      slotsBelowAll (2 * G) es = true → 2 * G ≤ nsv → lookBehindAlts br es pc nsv gix = .ok (f, endPc, nsv') →
      (∀ t, CodeOK G nsv nsv' (f t)) ∧ nsv ≤ nsv'
  | [], pc, nsv, gix, f, endPc, nsv', _, _, hv => by
    simp only [lookBehindAlts, Except.ok.injEq, Prod.mk.injEq] at hv
    obtain ⟨rfl, rfl, rfl⟩ := hv
    exact ⟨fun _ => CodeOK.nil G nsv, Nat.le_refl _⟩
  | [e], pc, nsv, gix, f, endPc, nsv', hn, hG, hv => by
    simp only [lookBehindAlts] at hv
    obtain ⟨hne, _⟩ := slotsBelowAll_cons' hn
    by_cases hcs : constSize e = true
    · simp only [hcs, Bool.not_true, Bool.false_eq_true, ↓reduceIte] at hv
      cases hb : visit br e false (posLookBodyPc (isHard br e) true pc) (nsv + 1) gix with
      | error err => simp [hb] at hv
      | ok p =>
        obtain ⟨c1, nsv1⟩ := p
        simp only [hb, Except.ok.injEq, Prod.mk.injEq] at hv
        obtain ⟨rfl, rfl, rfl⟩ := hv
        obtain ⟨ih, hle⟩ := visit_codeOK G br e false _ (nsv + 1) gix c1 nsv1 hne (by omega) hb
        exact ⟨fun _ => codeOK_wrapPosLook _ _ _ ih hG hle, by omega⟩
    · simp [hcs] at hv
  | e :: e2 :: es, pc, nsv, gix, f, endPc, nsv', hn, hG, hv => by
    simp only [lookBehindAlts] at hv
    obtain ⟨hne, hns⟩ := slotsBelowAll_cons' hn
    by_cases hcs : constSize e = true
    · simp only [hcs, Bool.not_true, Bool.false_eq_true, ↓reduceIte] at hv
      cases hb : visit br e false (posLookBodyPc (isHard br e) true (pc + 1)) (nsv + 1) gix with
      | error err => simp [hb] at hv
      | ok p =>
        obtain ⟨c1, nsv1⟩ := p
        simp only [hb] at hv
        cases hb2 : lookBehindAlts br (e2 :: es)
            (pc + 1 + (wrapPosLook (isHard br e) true nsv (minSize e) c1).length + 1) nsv1 (gix + groupCount e) with
        | error err => simp [hb2] at hv
        | ok p2 =>
          obtain ⟨f2, endPc2, nsv2⟩ := p2
          simp only [hb2, Except.ok.injEq, Prod.mk.injEq] at hv
          obtain ⟨rfl, rfl, rfl⟩ := hv
          obtain ⟨ih1, hle1⟩ := visit_codeOK G br e false _ (nsv + 1) gix c1 nsv1 hne (by omega) hb
          obtain ⟨ih2, hle2⟩ := lookBehindAlts_codeOK G br (e2 :: es) _ nsv1 _ f2 _ _ hns (by omega) hb2
          refine ⟨fun t => ?_, by omega⟩
          have hw := codeOK_wrapPosLook (isHard br e) true (minSize e) ih1 hG hle1
          have hsmall : CodeOK G nsv nsv
              [.split (pc + 1) (pc + 1 + (wrapPosLook (isHard br e) true nsv (minSize e) c1).length + 1), .jmp t] := by
            code_ok
          have k1 := CodeOK.append hsmall hw hG (Nat.le_refl _) (by omega)
          exact CodeOK.of_parts k1 (ih2 t) hG (by omega) hle2 (by mem_parts)
    · simp [hcs] at hv
termination_by es => sizeOf es
decreasing_by all_goals (simp_wf; try omega)
theorem lookBehindNegAlts_codeOK (G : Nat) (br : Nat → Bool) :
    ∀ (es : List Expr) (pc nsv gix : Nat) (code : Code) (nsv' : Nat),
      slotsBelowAll (2 * G) es = true → 2 * G ≤ nsv → lookBehindNegAlts br es pc nsv gix = .ok (code, nsv') →
      CodeOK G nsv nsv' code ∧ nsv ≤ nsv'
  | [], pc, nsv, gix, code, nsv', _, _, hv => by
    simp only [lookBehindNegAlts, Except.ok.injEq, Prod.mk.injEq] at hv
    obtain ⟨rfl, rfl⟩ := hv
    exact ⟨CodeOK.nil G nsv, Nat.le_refl _⟩
  | e :: es, pc, nsv, gix, code, nsv', hn, hG, hv => by
    simp only [lookBehindNegAlts] at hv
    obtain ⟨hne, hns⟩ := slotsBelowAll_cons' hn
    by_cases hcs : constSize e = true
    · simp only [hcs, Bool.not_true, Bool.false_eq_true, ↓reduceIte] at hv
      cases hb : visit br e false (negLookBodyPc true pc) nsv gix with
      | error err => simp [hb] at hv
      | ok p =>
        obtain ⟨c1, nsv1⟩ := p
        simp only [hb] at hv
        cases hb2 : lookBehindNegAlts br es (pc + (wrapNegLook true pc (minSize e) c1).length) nsv1 (gix + groupCount e) with
        | error err => simp [hb2] at hv
        | ok p2 =>
          obtain ⟨c2, nsv2⟩ := p2
          simp only [hb2, Except.ok.injEq, Prod.mk.injEq] at hv
          obtain ⟨rfl, rfl⟩ := hv
          obtain ⟨ih1, hle1⟩ := visit_codeOK G br e false _ nsv gix c1 nsv1 hne hG hb
          obtain ⟨ih2, hle2⟩ := lookBehindNegAlts_codeOK G br es _ nsv1 _ c2 nsv2 hns (by omega) hb2
          exact ⟨CodeOK.of_parts (codeOK_wrapNegLook true pc (minSize e) ih1 hG hle1) ih2 hG hle1 hle2
            (by mem_parts), by omega⟩
    · simp [hcs] at hv
termination_by es => sizeOf es
decreasing_by all_goals (simp_wf; try omega)
end

/-! ## From the invariant to the typing -/

theorem tauOf_pos {prog : List Insn} {nG : Nat} {insn : Insn} {p : Nat} (hi : insn ∈ prog) (hp : p ∈ insn.posSlots) :
    tauOf prog nG p = true := by
  simp only [tauOf, Bool.or_eq_true, decide_eq_true_eq, List.any_eq_true]
  exact Or.inr ⟨insn, hi, by simpa using hp⟩

theorem tauOf_group (prog : List Insn) (nG i : Nat) (h : i < 2 * nG) : tauOf prog nG i = true := by
  simp [tauOf, h]

theorem tauOf_false {prog : List Insn} {nG i : Nat} (h1 : 2 * nG ≤ i)
    (h2 : ∀ insn ∈ prog, i ∉ insn.posSlots) : tauOf prog nG i = false := by
  simp only [tauOf, Bool.or_eq_false_iff, decide_eq_false_iff_not, List.any_eq_false]
  exact ⟨by omega, fun insn hi => by simpa using h2 insn hi⟩

/-- nothing at or above the auxiliary range is a position slot -/
theorem tauOf_high {G lo hi : Nat} {prog : List Insn} (h : CodeOK G lo hi prog) (hG : 2 * G ≤ lo) (hle : lo ≤ hi)
    (i : Nat) (hi' : hi ≤ i) : tauOf prog G i = false :=
  tauOf_false (by omega) (fun insn hin hmem => by rcases h.pos insn hin i hmem with h | h <;> omega)

/-- **a program satisfying the compiler's invariant is well typed for `tauOf`** -/
theorem wellTyped_of_codeOK {G lo hi : Nat} {prog : List Insn} (h : CodeOK G lo hi prog) (hG : 2 * G ≤ lo)
    (hG1 : 1 ≤ G)
    (hdel : ∀ es sg eg, Insn.delegate es sg eg ∈ prog → eg ≤ G ∧ slotsBelowAll (2 * eg) es = true) :
    wellTyped (tauOf prog G) prog = true := by
  simp only [wellTyped, List.all_eq_true]
  intro insn hin
  have hnum : ∀ r, r ∈ insn.cntSlots → tauOf prog G r = false := fun r hr =>
    tauOf_false (by have := h.cnt insn hin r hr; omega) (fun j hj => h.disj insn hin r hr j hj)
  cases insn with
  | save s => exact tauOf_pos hin (by simp [Insn.posSlots])
  | restore s => exact tauOf_pos hin (by simp [Insn.posSlots])
  | repeatGr lo' hi' next rep => simp [Insn.typed, hnum rep (by simp [Insn.cntSlots])]
  | repeatNg lo' hi' next rep => simp [Insn.typed, hnum rep (by simp [Insn.cntSlots])]
  | repeatEpsGr lo' next rep check =>
    simp [Insn.typed, hnum rep (by simp [Insn.cntSlots]), tauOf_pos hin (show check ∈ _ by simp [Insn.posSlots])]
  | repeatEpsNg lo' next rep check =>
    simp [Insn.typed, hnum rep (by simp [Insn.cntSlots]), tauOf_pos hin (show check ∈ _ by simp [Insn.posSlots])]
  | backref s =>
    have := h.bref _ hin
    simp only [Insn.brefOK, decide_eq_true_eq] at this
    simp [Insn.typed, tauOf_group prog G s (by omega), tauOf_group prog G (s + 1) this]
  | end_ => simp [Insn.typed, tauOf_group prog G 0 (by omega), tauOf_group prog G 1 (by omega)]
  | delegate es sg eg =>
    obtain ⟨h1, h2⟩ := hdel es sg eg hin
    simp only [Insn.typed, h2, Bool.true_and, List.all_eq_true, List.mem_range]
    intro i hi'
    exact tauOf_group prog G i (by omega)
  | _ => rfl

/-- what `build` establishes about a compiled program: the invariant on the whole body, with `G` the
    number of groups and the auxiliary range `[2 * G, prog.nSaves)` -/
theorem build_codeOK (tree : Expr) (backrefs : List Nat) (b : Built) (prog : Prog)
    (hb : build tree backrefs = .ok b) (hk : b.kind = .fancy prog) :
    CodeOK b.nGroups (2 * b.nGroups) prog.nSaves prog.body ∧ 2 * b.nGroups ≤ prog.nSaves ∧ 1 ≤ b.nGroups ∧
      ∀ es sg eg, Insn.delegate es sg eg ∈ prog.body → eg ≤ b.nGroups ∧ slotsBelowAll (2 * eg) es = true := by
  obtain ⟨hshape, hwr, hchk, _, hcomp⟩ := build_fancy tree backrefs b prog hb hk
  have hcount := checkRefs_count _ _ _ hchk
  have hG1 : 1 ≤ b.nGroups := by
    rw [hcount, hshape]; simp [groupCount, groupCountList]; try omega
  have hsb : slotsBelow (2 * b.nGroups) b.wrapped = true := by
    have := slotsBelow_renumber b.nGroups hG1 (wrapTree tree) 0 b.nGroups (by rw [← hwr]; exact hchk) (Nat.le_refl _)
    rw [← hwr] at this; exact this
  have hnum : numbered 0 b.wrapped := by rw [hwr]; exact numbered_renumber _ _
  generalize (fun g => backrefs.contains g) = br at hcomp
  unfold compile at hcomp
  simp only at hcomp
  cases hv : visit br b.wrapped false 0 (groupCount b.wrapped * 2) 0 with
  | error err => simp [hv] at hcomp
  | ok p =>
    obtain ⟨code, nsv⟩ := p
    simp only [hv, Except.ok.injEq] at hcomp
    subst hcomp
    have hgc : groupCount b.wrapped * 2 = 2 * b.nGroups := by omega
    rw [hgc] at hv
    obtain ⟨hok, hle⟩ := visit_codeOK b.nGroups _ b.wrapped false 0 (2 * b.nGroups) 0 code nsv hsb (Nat.le_refl _) hv
    obtain ⟨hdl, _⟩ := visit_delegIn _ b.wrapped false 0 (2 * b.nGroups) 0 code nsv hnum hv
    have hend : CodeOK b.nGroups nsv nsv [Insn.end_] := by code_ok
    refine ⟨CodeOK.append hok hend (Nat.le_refl _) hle (Nat.le_refl _), hle, hG1, ?_⟩
    intro es sg eg hmem
    simp only [List.mem_append, List.mem_cons, List.not_mem_nil, or_false, reduceCtorEq] at hmem
    obtain ⟨_, _, h3, h4⟩ := (delegIn_iff _ _ _).mp hdl es sg eg hmem
    exact ⟨by omega, h4⟩

/-- **every program `build` returns is well typed for the computable typing `tauOf`**; the capture
    slots are position slots and nothing at or above `prog.nSaves` (the auxiliary stack) is -/
theorem build_wellTyped (tree : Expr) (backrefs : List Nat) (b : Built) (prog : Prog)
    (hb : build tree backrefs = .ok b) (hk : b.kind = .fancy prog) :
    wellTyped (tauOf prog.body b.nGroups) prog.body = true ∧
    (∀ i, prog.nSaves ≤ i → tauOf prog.body b.nGroups i = false) ∧
    (∀ i, i < 2 * b.nGroups → tauOf prog.body b.nGroups i = true) ∧ 1 ≤ b.nGroups := by
  obtain ⟨hok, hle, hG1, hdel⟩ := build_codeOK tree backrefs b prog hb hk
  exact ⟨wellTyped_of_codeOK hok (Nat.le_refl _) hG1 hdel, tauOf_high hok (Nat.le_refl _) hle,
    fun i hi => tauOf_group _ _ i hi, hG1⟩

end Fancy
