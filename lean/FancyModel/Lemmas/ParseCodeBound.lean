import FancyModel.Lemmas.ParseShape
import FancyModel.Lemmas.CompileLen
import FancyModel.Proofs.C16b
/-!
# The compiler's code bound of a parsed tree is linear in the pattern length

`codeBound` (Lemmas/CompileLen.lean) bounds the length of the compiled code; it is linear in the size of
the tree (the compiler does not unroll repeats). Here: the tree the parser returns has `codeBound` at
most `44 * (pattern bytes) + 1` (`parse_codeBound`), by the recursive-descent induction of
`Lemmas/ParseShape.lean` / `Proofs/C16b.lean` with a quantitative invariant: for the node parsed from
`ix` to `ix'`, with `c` the number of pattern bytes consumed (positions clamped to the pattern length),

    codeBound e ≤ 1   ∨   codeBound e + 18 ≤ 44 * c          (`SzE`)

(leaves cost 1 whatever they consume — the empty branch consumes nothing; every composite node is paid
for by bytes it owns: a quantifier byte, the `(` of a group, the `|` of an alternative, and the
children of a concatenation each consume at least one byte and are never empty). Lists of children carry
`codeBoundList es + 10 * es.length ≤ 44 * c` (`SzB`, children of a branch) and
`codeBoundList es + 35 * es.length ≤ 44 * c` (`SzA`, further alternatives, each with its `|`).
-/
namespace Fancy.Parse
open Fancy.Utf8 (codepointLen isLead)
open Fancy

/-- a leaf of the compiler's cost measure -/
def LeafC (r : Nat × Expr × PState) : Prop := codeBound r.2.1 = 1

@[simp] theorem LeafC_mk (ix : Nat) (e : Expr) (st : PState) :
    LeafC (ix, e, st) = (codeBound e = 1) := rfl

theorem codeBound_mk (k : RefKind) (g : Nat) : codeBound (k.mk g) = 1 := by
  cases k <;> simp [RefKind.mk, codeBound]

theorem leafC_parseNumberedBackref (re : Bytes) (st : PState) (ix : Nat) (k : RefKind) :
    OkP LeafC (parseNumberedBackref re st ix k) := by
  unfold parseNumberedBackref
  refine OkP.bind OkP.trivial (fun r _ => ?_)
  cases r with
  | none => trivial
  | some q =>
    obtain ⟨e, g⟩ := q
    simp only
    refine OkP.ite (fun _ => ?_) (fun _ => trivial)
    exact codeBound_mk k g

theorem leafC_parseNamedBackref (isAlnum : Char → Bool) (re : Bytes) (st : PState) (ix : Nat)
    (open_ close : List Nat) (allowRelative : Bool) (k : RefKind) :
    OkP LeafC (parseNamedBackref isAlnum re st ix open_ close allowRelative k) := by
  unfold parseNamedBackref
  refine OkP.bind OkP.trivial (fun _ _ => ?_)
  refine OkP.bind OkP.trivial (fun r _ => ?_)
  cases r with
  | none => trivial
  | some q =>
    obtain ⟨a, b, skip⟩ := q
    simp only
    split
    · exact codeBound_mk k _
    · trivial

theorem leafC_parseHex (re : Bytes) (fl : Flags) (ix digits : Nat) :
    OkP (fun r => codeBound r.2 = 1) (parseHex re fl ix digits) := by
  unfold parseHex
  refine OkP.ite (fun _ => trivial) (fun _ => ?_)
  refine OkP.bind OkP.trivial (fun b _ => ?_)
  refine OkP.bind OkP.trivial (fun p _ => ?_)
  split
  · trivial
  · refine OkP.ite (fun _ => ?_) (fun _ => trivial)
    simp [codeBound]

/-- what `parse_escape` returns: a leaf, or `\\Z` (a look-ahead over a leaf, two bytes) -/
def LeafZ (ix : Nat) (r : Nat × Expr × PState) : Prop :=
  codeBound r.2.1 = 1 ∨ (codeBound r.2.1 = 9 ∧ ix < r.1)

theorem leafC_parseEscape (isAlnum : Char → Bool) (re : Bytes) (st : PState) (ix : Nat)
    (inClass : Bool) : OkP (LeafZ ix) (parseEscape isAlnum re st ix inClass) := by
  unfold parseEscape
  split
  · trivial
  rename_i b hb
  simp only
  have one : ∀ (e : Expr), codeBound e = 1 →
      OkP (LeafZ ix) (.ok (ix + 1 + codepointLen b, e, st)) := fun e he => Or.inl he
  have hexc : ∀ n, OkP (LeafZ ix) (do
      let (e, x) ← parseHex re st.flags (ix + 1 + codepointLen b) n
      Res.ok (e, x, st)) := by
    intro n
    refine OkP.bind (leafC_parseHex re st.flags _ n) (fun r hr => ?_)
    obtain ⟨e, x⟩ := r
    exact Or.inl hr
  refine OkP.ite (fun _ => (leafC_parseNumberedBackref re st (ix + 1) .backref).mono fun _ h => Or.inl h) (fun _ => ?_)
  refine OkP.ite (fun _ => ?_) (fun _ => ?_)
  · refine OkP.ite (fun _ => ?_) (fun _ => ?_)
    · exact (leafC_parseNamedBackref ..).mono fun _ h => Or.inl h
    · exact (leafC_parseNamedBackref ..).mono fun _ h => Or.inl h
  refine OkP.ite (fun _ => one _ (by simp [codeBound])) (fun _ => ?_)
  refine OkP.ite (fun _ => one _ (by simp [codeBound])) (fun _ => ?_)
  refine OkP.ite (fun _ => Or.inr ⟨by simp [codeBound], by simp only; omega⟩) (fun _ => ?_)
  refine OkP.ite (fun _ => ?_) (fun _ => ?_)
  · refine OkP.ite (fun _ => ?_) (fun _ => one _ (by simp [codeBound]))
    exact OkP.bind OkP.trivial (fun _ _ => trivial)
  refine OkP.ite (fun _ => ?_) (fun _ => ?_)
  · refine OkP.ite (fun _ => ?_) (fun _ => one _ (by simp [codeBound]))
    exact OkP.bind OkP.trivial (fun _ _ => trivial)
  refine OkP.ite (fun _ => one _ (by simp [codeBound])) (fun _ => ?_)
  refine OkP.ite (fun _ => one _ (by simp [codeBound])) (fun _ => ?_)
  refine OkP.ite (fun _ => ?_) (fun _ => ?_)
  · exact OkP.bind OkP.trivial (fun _ _ => one _ (by simp [codeBound]))
  refine OkP.ite (fun _ => one _ (by simp [codeBound])) (fun _ => ?_)
  refine OkP.ite (fun _ => hexc 2) (fun _ => ?_)
  refine OkP.ite (fun _ => hexc 4) (fun _ => ?_)
  refine OkP.ite (fun _ => hexc 8) (fun _ => ?_)
  refine OkP.ite (fun _ => ?_) (fun _ => ?_)
  · refine OkP.bind OkP.trivial (fun b2 _ => ?_)
    refine OkP.bind OkP.trivial (fun e _ => ?_)
    refine OkP.bind OkP.trivial (fun s _ => ?_)
    exact Or.inl (by simp [codeBound])
  refine OkP.ite (fun _ => one _ (by simp [codeBound])) (fun _ => ?_)
  refine OkP.ite (fun _ => one _ (by simp [codeBound])) (fun _ => ?_)
  refine OkP.ite (fun _ => ?_) (fun _ => ?_)
  · refine OkP.ite (fun _ => trivial) (fun _ => ?_)
    refine OkP.bind OkP.trivial (fun b2 _ => ?_)
    refine OkP.ite (fun _ => (leafC_parseNumberedBackref ..).mono fun _ h => Or.inl h) (fun _ => ?_)
    refine OkP.ite (fun _ => ?_) (fun _ => ?_)
    · exact (leafC_parseNamedBackref ..).mono fun _ h => Or.inl h
    · exact (leafC_parseNamedBackref ..).mono fun _ h => Or.inl h
  refine OkP.ite (fun _ => one _ (by simp [codeBound, makeLiteral])) (fun _ => ?_)
  refine OkP.ite (fun _ => one _ (by simp [codeBound, makeLiteral])) (fun _ => ?_)
  refine OkP.ite (fun _ => one _ (by simp [codeBound, makeLiteral])) (fun _ => ?_)
  refine OkP.ite (fun _ => one _ (by simp [codeBound, makeLiteral])) (fun _ => ?_)
  refine OkP.ite (fun _ => one _ (by simp [codeBound, makeLiteral])) (fun _ => ?_)
  refine OkP.ite (fun _ => one _ (by simp [codeBound, makeLiteral])) (fun _ => ?_)
  refine OkP.ite (fun _ => one _ (by simp [codeBound, makeLiteral])) (fun _ => ?_)
  refine OkP.ite (fun _ => one _ (by simp [codeBound, makeLiteral])) (fun _ => ?_)
  refine OkP.ite (fun _ => one _ (by simp [codeBound, makeLiteral])) (fun _ => ?_)
  refine OkP.bind (okP_slice re _ _ _) (fun s hs => ?_)
  refine OkP.ite (fun _ => trivial) (fun _ => one _ ?_)
  obtain ⟨hs1, hs2⟩ := hs
  subst hs1
  simp [codeBound, makeLiteral]

/-- `parse_class` returns a `Delegate` of size 1 -/
theorem leafC_parseClass (isAlnum : Char → Bool) (re : Bytes) (st : PState) (ix : Nat) :
    OkP LeafC (parseClass isAlnum re st ix) := by
  unfold parseClass
  simp only
  refine OkP.bind OkP.trivial (fun r _ => ?_)
  obtain ⟨ix', rcls, st'⟩ := r
  simp [codeBound]

/-! ### The recursive descent -/

/-- a node parsed from `ix`: not to the left; a leaf, or paid for by the bytes consumed -/
def SzE (re : Bytes) (ix : Nat) (r : Nat × Expr × PState) : Prop :=
  ix ≤ r.1 ∧ (codeBound r.2.1 ≤ 1 ∨ codeBound r.2.1 + 18 ≤ 44 * (min r.1 re.size - min ix re.size))

/-- the children of a branch -/
def SzB (re : Bytes) (ix : Nat) (r : Nat × List Expr × PState) : Prop :=
  ix ≤ r.1 ∧ codeBoundList r.2.1 + 10 * r.2.1.length ≤ 44 * (min r.1 re.size - min ix re.size)

/-- the further alternatives of an alternation, each after its `|` -/
def SzA (re : Bytes) (ix : Nat) (r : Nat × List Expr × PState) : Prop :=
  ix ≤ r.1 ∧ codeBoundList r.2.1 + 35 * r.2.1.length ≤ 44 * (min r.1 re.size - min ix re.size) ∧
    ((re[ix]? == some (ch '|')) = true → r.2.1 ≠ [])

theorem SzE.mono {re : Bytes} {ix ix' : Nat} {r : Nat × Expr × PState} (h : SzE re ix' r) (hle : ix ≤ ix') :
    SzE re ix r := by
  obtain ⟨h1, h2⟩ := h
  refine ⟨by omega, ?_⟩
  rcases h2 with h2 | h2
  · exact Or.inl h2
  · right; omega

/-- the same node, returned further right -/
theorem SzE.right {re : Bytes} {ix i1 i2 : Nat} {e : Expr} {st st' : PState} (h : SzE re ix (i1, e, st))
    (hle : i1 ≤ i2) : SzE re ix (i2, e, st') := by
  obtain ⟨h1, h2⟩ := h
  simp only at h1 h2
  refine ⟨by simp only; omega, ?_⟩
  rcases h2 with h2 | h2
  · exact Or.inl h2
  · right; simp only; omega

/-- `check_for_close_paren` moves right and stays inside the pattern -/
theorem okP_cfcp (re : Bytes) (fl : Flags) (ix : Nat) :
    OkP (fun ix' => ix < ix' ∧ ix' ≤ re.size) (checkForCloseParen re fl ix) := by
  unfold checkForCloseParen
  refine OkP.bind (okP_optWs re fl ix) (fun ix1 h1 => ?_)
  refine OkP.ite (fun _ => trivial) (fun _ => ?_)
  refine OkP.bind (okP_byteAt re ix1 _) (fun b hb => ?_)
  refine OkP.ite (fun _ => trivial) (fun _ => ?_)
  have := lt_size_of_get hb
  simp only [OkP_ok]; omega

/-- the induction hypothesis of the descent: all functions at fuel `f` -/
structure DescC (re : Bytes) (isAlnum : Char → Bool) (f : Nat) : Prop where
  re_ : ∀ st ix d, OkP (SzE re ix) (parseRe isAlnum f re st ix d)
  alt_ : ∀ st ix d, OkP (SzA re ix) (reAltLoop isAlnum f re st ix d)
  branch_ : ∀ st ix d, OkP (SzE re ix) (parseBranch isAlnum f re st ix d)
  bloop_ : ∀ st ix d, OkP (SzB re ix) (branchLoop isAlnum f re st ix d)
  piece_ : ∀ st ix d, OkP (SzE re ix) (parsePiece isAlnum f re st ix d)
  atom_ : ∀ st ix d, OkP (SzE re ix) (parseAtom isAlnum f re st ix d)
  group_ : ∀ st ix d, ix < re.size → OkP (SzE re ix) (parseGroup isAlnum f re st ix d)
  flags_ : ∀ st ix d, OkP (SzE re ix) (parseFlags isAlnum f re st ix d)
  cond_ : ∀ st ix d, OkP (SzE re ix) (parseConditional isAlnum f re st ix d)

section steps
variable {re : Bytes} {isAlnum : Char → Bool}

theorem stepC_parseRe {f : Nat} (h : DescC re isAlnum f) (st : PState) (ix d : Nat) :
    OkP (SzE re ix) (parseRe isAlnum (f + 1) re st ix d) := by
  unfold parseRe
  refine OkP.bind (h.branch_ st ix d) (fun r hr => ?_)
  obtain ⟨ix1, child, st1⟩ := r
  have hc : SzE re ix (ix1, child, st1) := hr
  obtain ⟨h1, h2⟩ := hr
  try simp only at h1 h2 ⊢
  refine OkP.bind (okP_optWs re _ ix1) (fun ix2 h4 => ?_)
  refine OkP.bind OkP.trivial (fun _ _ => ?_)
  refine OkP.ite (fun hbar => ?_) (fun _ => ?_)
  · refine OkP.bind (h.alt_ st1 ix2 d) (fun r hr => ?_)
    obtain ⟨ix3, rest, st3⟩ := r
    obtain ⟨h5, h6, h7⟩ := hr
    try simp only at h5 h6 h7 ⊢
    have hne := h7 hbar
    have hlen : 1 ≤ rest.length := List.length_pos_iff.mpr hne
    refine ⟨by simp only; omega, Or.inr ?_⟩
    simp only [codeBound, codeBoundList]
    rcases h2 with h2 | h2 <;> omega
  · try simp only
    refine OkP.ite (fun _ => trivial) (fun _ => ?_)
    exact hc.right h4

theorem stepC_reAltLoop {f : Nat} (h : DescC re isAlnum f) (st : PState) (ix d : Nat) :
    OkP (SzA re ix) (reAltLoop isAlnum (f + 1) re st ix d) := by
  unfold reAltLoop
  refine OkP.bind OkP.trivial (fun _ _ => ?_)
  refine OkP.ite (fun hbar => ?_) (fun hno => ⟨Nat.le_refl _, by simp [codeBoundList],
    fun hyes => absurd hyes hno⟩)
  have hlt : ix < re.size := by
    have : re[ix]? = some (ch '|') := by simpa using hbar
    exact lt_size_of_get this
  refine OkP.bind (h.branch_ st (ix + 1) d) (fun r hr => ?_)
  obtain ⟨ix1, child, st1⟩ := r
  obtain ⟨h1, h2⟩ := hr
  try simp only at h1 h2 ⊢
  refine OkP.bind (okP_optWs re _ ix1) (fun ix2 h4 => ?_)
  refine OkP.bind (h.alt_ st1 ix2 d) (fun r hr => ?_)
  obtain ⟨ix3, rest, st3⟩ := r
  obtain ⟨h5, h6, _⟩ := hr
  try simp only at h5 h6 ⊢
  refine ⟨by simp only; omega, ?_, fun _ => by simp⟩
  simp only [codeBoundList, List.length_cons]
  rcases h2 with h2 | h2 <;> omega

theorem stepC_parseBranch {f : Nat} (h : DescC re isAlnum f) (st : PState) (ix d : Nat) :
    OkP (SzE re ix) (parseBranch isAlnum (f + 1) re st ix d) := by
  unfold parseBranch
  refine OkP.bind (h.bloop_ st ix d) (fun r hr => ?_)
  obtain ⟨ix1, children, st1⟩ := r
  obtain ⟨h1, h2⟩ := hr
  try simp only at h1 h2 ⊢
  match children, h2 with
  | [], _ => exact ⟨h1, Or.inl (by simp [codeBound])⟩
  | [c], h2 =>
    simp only [codeBoundList, List.length_cons, List.length_nil] at h2
    exact ⟨h1, Or.inr (by simp only; omega)⟩
  | c1 :: c2 :: cs, h2 =>
    simp only [codeBoundList, List.length_cons] at h2
    exact ⟨h1, Or.inr (by simp only [codeBound, codeBoundList]; omega)⟩

theorem stepC_branchLoop {f : Nat} (h : DescC re isAlnum f) (st : PState) (ix d : Nat) :
    OkP (SzB re ix) (branchLoop isAlnum (f + 1) re st ix d) := by
  unfold branchLoop
  refine OkP.ite (fun hlt => ?_) (fun _ => ⟨Nat.le_refl _, by simp [codeBoundList]⟩)
  refine OkP.bind (h.piece_ st ix d) (fun r hr => ?_)
  obtain ⟨next, child, st1⟩ := r
  obtain ⟨h1, h2⟩ := hr
  try simp only at h1 h2 ⊢
  refine OkP.ite (fun _ => ⟨Nat.le_refl _, by simp [codeBoundList]⟩) (fun hnx => ?_)
  have hne : next ≠ ix := by simpa using hnx
  refine OkP.bind (h.bloop_ st1 next d) (fun r hr => ?_)
  obtain ⟨ix3, rest, st3⟩ := r
  obtain ⟨h5, h6⟩ := hr
  try simp only at h5 h6 ⊢
  refine ⟨by simp only; omega, ?_⟩
  simp only
  split
  · omega
  · simp only [codeBoundList, List.length_cons]
    rcases h2 with h2 | h2 <;> omega

theorem stepC_parsePiece {f : Nat} (h : DescC re isAlnum f) (st : PState) (ix d : Nat) :
    OkP (SzE re ix) (parsePiece isAlnum (f + 1) re st ix d) := by
  unfold parsePiece
  refine OkP.bind (h.atom_ st ix d) (fun r hr => ?_)
  obtain ⟨ix1, child, st1⟩ := r
  have hc : SzE re ix (ix1, child, st1) := hr
  obtain ⟨h1, h2⟩ := hr
  try simp only at h1 h2 ⊢
  refine OkP.bind (okP_optWs re _ ix1) (fun ix2 h4 => ?_)
  refine OkP.ite (fun hlt => ?_) (fun _ => hc.right h4)
  refine OkP.bind OkP.trivial (fun b _ => ?_)
  refine OkP.bind (P := fun q => ∀ lo hi i, q = some (lo, hi, i) → ix2 ≤ i) ?_ (fun q hq => ?_)
  · have q0 : ∀ lo hi, OkP (fun q => ∀ lo hi i, q = some (lo, hi, i) → ix2 ≤ i)
        (pure (some (lo, hi, ix2)) : Res (Option (Nat × Nat × Nat))) := by
      intro lo hi lo' hi' i hi2
      cases hi2
      exact Nat.le_refl _
    refine OkP.ite (fun _ => q0 _ _) (fun _ => ?_)
    refine OkP.ite (fun _ => q0 _ _) (fun _ => ?_)
    refine OkP.ite (fun _ => q0 _ _) (fun _ => ?_)
    refine OkP.ite (fun _ => ?_) (fun _ => by intro lo hi i hi2; cases hi2)
    have hrep := okP_parseRepeat re st1.flags ix2
    cases hres : parseRepeat re st1.flags ix2 with
    | ok r =>
      rw [hres] at hrep
      obtain ⟨next, lo, hi⟩ := r
      simp only [OkP_ok] at hrep
      simp only
      refine OkP.ite (fun _ => trivial) (fun _ => ?_)
      intro lo' hi' i hi2
      cases hi2
      omega
    | err k p => intro lo hi i hi2; cases hi2
    | cerr => intro lo hi i hi2; cases hi2
    | panic s => trivial
    | outOfFuel => trivial
  · cases q with
    | none => exact hc.right h4
    | some p =>
      obtain ⟨lo, hi, i⟩ := p
      have hq1 := hq _ _ _ rfl
      simp only
      refine OkP.ite (fun _ => trivial) (fun _ => ?_)
      refine OkP.bind (okP_optWs re _ (i + 1)) (fun ix3 h6 => ?_)
      have hle4 : ix3 ≤
          (if (decide (ix3 < re.size) && re[ix3]? == some (ch '?')) = true then ix3 + 1 else ix3) := by
        split <;> omega
      generalize (if (decide (ix3 < re.size) && re[ix3]? == some (ch '?')) = true then ix3 + 1 else ix3)
        = ix4 at hle4 ⊢
      refine OkP.ite (fun _ => ?_) (fun _ => ?_)
      · refine ⟨by simp only; omega, Or.inr ?_⟩
        simp only [codeBound]
        rcases h2 with h2 | h2 <;> omega
      · refine ⟨by simp only; omega, Or.inr ?_⟩
        simp only [codeBound]
        rcases h2 with h2 | h2 <;> omega

theorem stepC_parseAtom {f : Nat} (h : DescC re isAlnum f) (st : PState) (ix d : Nat) :
    OkP (SzE re ix) (parseAtom isAlnum (f + 1) re st ix d) := by
  unfold parseAtom
  refine OkP.bind (okP_optWs re _ ix) (fun ix1 h1 => ?_)
  have leaf : ∀ (ix' : Nat) (e : Expr), ix1 ≤ ix' → codeBound e = 1 →
      OkP (SzE re ix) (.ok (ix', e, st)) :=
    fun ix' e hle he => ⟨by simp only; omega, Or.inl (by simp only; omega)⟩
  refine OkP.ite (fun _ => leaf _ _ (Nat.le_refl _) (by simp [codeBound])) (fun _ => ?_)
  refine OkP.bind (okP_byteAt re ix1 _) (fun b hb => ?_)
  have hlt : ix1 < re.size := lt_size_of_get hb
  refine OkP.ite (fun _ => leaf _ _ (by omega) (by simp [codeBound])) (fun _ => ?_)
  refine OkP.ite (fun _ => leaf _ _ (by omega) (by simp [codeBound])) (fun _ => ?_)
  refine OkP.ite (fun _ => leaf _ _ (by omega) (by simp [codeBound])) (fun _ => ?_)
  refine OkP.ite (fun _ => (h.group_ st ix1 d hlt).mono fun r hr => hr.mono h1) (fun _ => ?_)
  refine OkP.ite (fun _ => ?_) (fun _ => ?_)
  · have hA := okP_parseEscape isAlnum re st ix1 false
    have hB := leafC_parseEscape isAlnum re st ix1 false
    cases hres : parseEscape isAlnum re st ix1 false with
    | ok r =>
      rw [hres] at hA hB
      have hle : ix1 ≤ r.1 := hA.1
      refine ⟨by omega, ?_⟩
      rcases hB with hB | ⟨hB, hB2⟩
      · exact Or.inl (by omega)
      · right; omega
    | err k p => trivial
    | cerr => trivial
    | panic s => trivial
    | outOfFuel => trivial
  refine OkP.ite (fun _ => leaf _ _ (Nat.le_refl _) (by simp [codeBound])) (fun _ => ?_)
  refine OkP.ite (fun _ => ?_) (fun _ => ?_)
  · have hA := okP_parseClass isAlnum re st ix1
    have hB := leafC_parseClass isAlnum re st ix1
    cases hres : parseClass isAlnum re st ix1 with
    | ok r =>
      rw [hres] at hA hB
      have hle : ix1 ≤ r.1 := hA.1
      have hB' : codeBound r.2.1 = 1 := hB
      exact ⟨by omega, Or.inl (by omega)⟩
    | err k p => trivial
    | cerr => trivial
    | panic s => trivial
    | outOfFuel => trivial
  refine OkP.bind OkP.trivial (fun s _ => ?_)
  exact leaf _ _ (by omega) (by simp [codeBound])

/-- a leaf parsed by `parse_named_backref` at `ix'` right of `ix` -/
theorem szE_namedBackref (isAlnum : Char → Bool) (re : Bytes) (st : PState) (ix ix' : Nat) (hle : ix ≤ ix')
    (open_ close : List Nat) (allowRelative : Bool) (k : RefKind) :
    OkP (SzE re ix) (parseNamedBackref isAlnum re st ix' open_ close allowRelative k) := by
  have hA := okP_parseNamedBackref isAlnum re st ix' open_ close allowRelative k
  have hB := leafC_parseNamedBackref isAlnum re st ix' open_ close allowRelative k
  cases hres : parseNamedBackref isAlnum re st ix' open_ close allowRelative k with
  | ok r =>
    rw [hres] at hA hB
    have h1 : ix' ≤ r.1 := hA.1
    have hB' : codeBound r.2.1 = 1 := hB
    exact ⟨by omega, Or.inl (by omega)⟩
  | err k p => trivial
  | cerr => trivial
  | panic s => trivial
  | outOfFuel => trivial

theorem szE_numberedBackref (re : Bytes) (st : PState) (ix : Nat) (k : RefKind) :
    OkP (SzE re ix) (parseNumberedBackref re st ix k) := by
  have hA := okP_parseNumberedBackref re st ix k
  have hB := leafC_parseNumberedBackref re st ix k
  cases hres : parseNumberedBackref re st ix k with
  | ok r =>
    rw [hres] at hA hB
    have h1 : ix ≤ r.1 := hA.1
    have hB' : codeBound r.2.1 = 1 := hB
    exact ⟨h1, Or.inl (by omega)⟩
  | err k p => trivial
  | cerr => trivial
  | panic s => trivial
  | outOfFuel => trivial

theorem stepC_parseGroup {f : Nat} (h : DescC re isAlnum f) (st : PState) (ix d : Nat) (hix : ix < re.size) :
    OkP (SzE re ix) (parseGroup isAlnum (f + 1) re st ix d) := by
  unfold parseGroup
  refine OkP.ite (fun _ => trivial) (fun hd => ?_)
  refine OkP.bind (okP_optWs re _ (ix + 1)) (fun ix1 h1 => ?_)
  refine OkP.bind OkP.trivial (fun _ _ => ?_)
  extract_lets body st2
  have hbody : ∀ la skip st', OkP (SzE re ix) (body la skip st') := by
    intro la skip st'
    simp only [body]
    refine OkP.bind (h.re_ st' (ix1 + skip) (d + 1)) (fun r hr => ?_)
    obtain ⟨ix2, child, st3⟩ := r
    obtain ⟨h2, h3⟩ := hr
    try simp only at h2 h3 ⊢
    refine OkP.bind (okP_checkForCloseParen re _ ix2) (fun ix3 h5 => ?_)
    cases la with
    | some la =>
      refine ⟨by simp only; omega, Or.inr ?_⟩
      simp only [codeBound]
      rcases h3 with h3 | h3 <;> omega
    | none =>
      simp only
      refine OkP.ite (fun hs => ?_) (fun hs => ?_)
      · refine ⟨by simp only; omega, Or.inr ?_⟩
        simp only [codeBound]
        rcases h3 with h3 | h3 <;> omega
      · refine ⟨by simp only; omega, Or.inr ?_⟩
        simp only [codeBound]
        rcases h3 with h3 | h3 <;> omega
  clear_value body
  cases hlook : lookOf re ix1 with
  | some p =>
    obtain ⟨la, skip⟩ := p
    exact hbody _ _ _
  | none =>
    simp only
    refine OkP.ite (fun _ => ?_) (fun _ => ?_)
    · refine OkP.bind OkP.trivial (fun _ _ => ?_)
      refine OkP.bind OkP.trivial (fun r _ => ?_)
      cases r with
      | none => trivial
      | some p =>
        obtain ⟨a, b, skip⟩ := p
        exact hbody _ _ _
    refine OkP.ite (fun _ => ?_) (fun _ => ?_)
    · refine OkP.bind OkP.trivial (fun _ _ => ?_)
      refine OkP.bind OkP.trivial (fun r _ => ?_)
      cases r with
      | none => trivial
      | some p =>
        obtain ⟨a, b, skip⟩ := p
        exact hbody _ _ _
    refine OkP.ite (fun _ => szE_namedBackref isAlnum re st ix _ (by omega) _ _ _ _) (fun _ => ?_)
    refine OkP.ite (fun _ => hbody _ _ _) (fun _ => ?_)
    refine OkP.ite (fun _ => (h.cond_ st _ (d + 1)).mono fun r hr => hr.mono (by omega)) (fun _ => ?_)
    refine OkP.ite (fun _ => szE_namedBackref isAlnum re st ix _ (by omega) _ _ _ _) (fun _ => ?_)
    refine OkP.ite (fun _ => (h.flags_ st ix1 (d + 1)).mono fun r hr => hr.mono (by omega))
      (fun _ => hbody _ _ _)

theorem stepC_parseFlags {f : Nat} (h : DescC re isAlnum f) (st : PState) (ix d : Nat) :
    OkP (SzE re ix) (parseFlags isAlnum (f + 1) re st ix d) := by
  unfold parseFlags
  refine OkP.bind (okP_flagsLoop re (ix + 1) (re.size + 2) st.flags (ix + 1) false) (fun r hr => ?_)
  obtain ⟨e, fl⟩ := r
  try simp only at hr ⊢
  cases e with
  | close i =>
    simp only at hr ⊢
    exact ⟨by simp only; omega, Or.inl (by simp [codeBound])⟩
  | colon i =>
    simp only at hr ⊢
    refine OkP.bind (h.re_ _ (i + 1) d) (fun r hr2 => ?_)
    obtain ⟨ix2, child, st2⟩ := r
    try simp only at hr2 ⊢
    refine OkP.ite (fun _ => trivial) (fun _ => ?_)
    refine OkP.bind OkP.trivial (fun b _ => ?_)
    refine OkP.ite (fun _ => trivial) (fun _ => ?_)
    have hr3 : SzE re (i + 1) (ix2, child, st2) := hr2
    exact (hr3.right (Nat.le_succ _)).mono (by omega)

theorem szE_inner {re : Bytes} {ix next after : Nat} {condition inner : Expr} {st : PState}
    (h1 : ix ≤ next)
    (h2 : codeBound condition ≤ 1 ∨ codeBound condition + 18 ≤ 44 * (min next re.size - min ix re.size))
    (hle : next ≤ after) (hin : codeBound inner ≤ codeBound condition) : SzE re ix (after, inner, st) := by
  refine ⟨by simp only; omega, ?_⟩
  simp only
  rcases h2 with h2 | h2
  · exact Or.inl (by omega)
  · right; omega

theorem szE_cond {re : Bytes} {ix next next2 end_ after : Nat} {condition inner child b1 b2 : Expr} {st : PState}
    (hix : ix < re.size) (h1 : ix ≤ next)
    (h2 : codeBound condition ≤ 1 ∨ codeBound condition + 18 ≤ 44 * (min next re.size - min ix re.size))
    (h4 : next < next2 ∧ next2 ≤ re.size) (h5 : next2 ≤ end_)
    (h6 : codeBound child ≤ 1 ∨ codeBound child + 18 ≤ 44 * (min end_ re.size - min next2 re.size))
    (h8 : end_ < after) (hin : codeBound inner ≤ codeBound condition)
    (hbr : codeBound b1 + codeBound b2 ≤ codeBound child + 1) :
    SzE re ix (after, .cond inner b1 b2, st) := by
  refine ⟨by simp only; omega, Or.inr ?_⟩
  simp only [codeBound]
  rcases h2 with h2 | h2 <;> rcases h6 with h6 | h6 <;> omega

theorem stepC_parseConditional {f : Nat} (h : DescC re isAlnum f) (st : PState) (ix d : Nat) :
    OkP (SzE re ix) (parseConditional isAlnum (f + 1) re st ix d) := by
  unfold parseConditional
  refine OkP.ite (fun _ => trivial) (fun hge => ?_)
  have hix : ix < re.size := by omega
  refine OkP.bind OkP.trivial (fun b _ => ?_)
  refine OkP.bind (P := SzE re ix) ?_ (fun r hr => ?_)
  · refine OkP.ite (fun _ => szE_numberedBackref ..) (fun _ => ?_)
    refine OkP.ite (fun _ => szE_namedBackref isAlnum re st ix ix (Nat.le_refl _) _ _ _ _) (fun _ => ?_)
    refine OkP.ite (fun _ => szE_namedBackref isAlnum re st ix ix (Nat.le_refl _) _ _ _ _)
      (fun _ => h.re_ st ix d)
  obtain ⟨next, condition, st1⟩ := r
  obtain ⟨h1, h2⟩ := hr
  try simp only at h1 h2 ⊢
  refine OkP.bind (okP_cfcp re _ next) (fun next2 h4 => ?_)
  refine OkP.bind (h.re_ st1 next2 d) (fun r hr => ?_)
  obtain ⟨end_, child, st2⟩ := r
  obtain ⟨h5, h6⟩ := hr
  try simp only at h5 h6 ⊢
  have hcond1 := one_le_codeBound condition
  have hinner' : ∀ (gt : Bool) (c : Expr), codeBound (match gt, c with
      | true, .backref g => Expr.backrefExists g
      | _, c => c) ≤ codeBound c := by
    intro gt c
    split
    · simp only [codeBound]; omega
    · exact Nat.le_refl _
  have hinner := fun gt => hinner' gt condition
  refine OkP.ite (fun _ => ?_) (fun _ => ?_)
  · split
    · refine OkP.bind (okP_cfcp re _ end_) (fun after h8 => ?_)
      exact ⟨by simp only; omega, Or.inl (by simp [codeBound])⟩
    · trivial
  · refine OkP.bind (P := fun br : Expr × Expr =>
        codeBound br.1 + codeBound br.2 ≤ codeBound child + 1) ?_ (fun br hbr => ?_)
    · split
      · rename_i alternatives helse
        cases alternatives with
        | nil => trivial
        | cons t rest =>
          simp only
          split
          · rename_i e
            simp only [OkP_pure, codeBound, codeBoundList]; omega
          · simp only [OkP_pure, codeBound, codeBoundList]; omega
      · simp only [OkP_pure, codeBound]; omega
    · refine OkP.bind (okP_cfcp re _ end_) (fun after h8 => ?_)
      have hi := hinner (isDigit b || b == ch '\'' || b == ch '<')
      refine OkP.ite (fun _ => ?_) (fun _ => ?_)
      · exact szE_inner h1 h2 (by omega) hi
      · exact szE_cond hix h1 h2 h4 h5 h6 h8.1 hi hbr

end steps

/-- **the cost invariant of the recursive descent**, for every fuel, byte string, state, index, depth -/
theorem descC (re : Bytes) (isAlnum : Char → Bool) : ∀ f, DescC re isAlnum f := by
  intro f
  induction f with
  | zero =>
    constructor
    · intro st ix d; unfold parseRe; trivial
    · intro st ix d; unfold reAltLoop; trivial
    · intro st ix d; unfold parseBranch; trivial
    · intro st ix d; unfold branchLoop; trivial
    · intro st ix d; unfold parsePiece; trivial
    · intro st ix d; unfold parseAtom; trivial
    · intro st ix d _; unfold parseGroup; trivial
    · intro st ix d; unfold parseFlags; trivial
    · intro st ix d; unfold parseConditional; trivial
  | succ f ih =>
    exact {
      re_ := stepC_parseRe ih
      alt_ := stepC_reAltLoop ih
      branch_ := stepC_parseBranch ih
      bloop_ := stepC_branchLoop ih
      piece_ := stepC_parsePiece ih
      atom_ := stepC_parseAtom ih
      group_ := stepC_parseGroup ih
      flags_ := stepC_parseFlags ih
      cond_ := stepC_parseConditional ih }

/-- `parse_re` from index 0: the cost of the tree is at most `44 * (bytes) + 1` -/
theorem parseBytes_codeBound (isAlnum : Char → Bool) (re : Bytes) (casei : Bool) (t : Tree)
    (h : parseBytes isAlnum re casei = .ok t) : codeBound t.expr ≤ 44 * re.size + 1 := by
  obtain ⟨ix, st, hre, _, _⟩ := parseBytes_ok h
  have := ((descC re isAlnum _).re_ _ 0 0).of_eq hre
  obtain ⟨_, h2⟩ := this
  simp only at h2
  rcases h2 with h2 | h2 <;> omega

/-- **the code bound of a parsed pattern is linear in its length** -/
theorem parse_codeBound (isAlnum : Char → Bool) (cs : List Char) (casei : Bool) (t : Tree)
    (h : parseStr isAlnum cs casei = .ok t) : codeBound t.expr ≤ 44 * (bytesOf cs).size + 1 :=
  parseBytes_codeBound isAlnum _ casei t h

/-! ### through `wrap_tree` and the group numbering -/

mutual
theorem codeBound_renumber : ∀ (e : Expr) (n : Nat), codeBound (renumber e n).1 = codeBound e
  | .group g e, n => by simp only [renumber, codeBound, codeBound_renumber e (n + 1)]
  | .concat es, n => by simp only [renumber, codeBound, codeBoundList_renumberList es n]
  | .alt es, n => by simp only [renumber, codeBound, codeBoundList_renumberList es n]
  | .look e la, n => by simp only [renumber, codeBound, codeBound_renumber e n]
  | .repeat e lo hi g, n => by simp only [renumber, codeBound, codeBound_renumber e n]
  | .atomic e, n => by simp only [renumber, codeBound, codeBound_renumber e n]
  | .cond c y f, n => by
    simp only [renumber, codeBound, codeBound_renumber c n, codeBound_renumber y _, codeBound_renumber f _]
  | .empty, _ => rfl
  | .any _, _ => rfl
  | .assertion _, _ => rfl
  | .literal _ _, _ => rfl
  | .delegate _ _ _, _ => rfl
  | .backref _, _ => rfl
  | .keepOut, _ => rfl
  | .contPrev, _ => rfl
  | .backrefExists _, _ => rfl
  | .subroutine _, _ => rfl
theorem codeBoundList_renumberList : ∀ (es : List Expr) (n : Nat),
    codeBoundList (renumberList es n).1 = codeBoundList es
  | [], _ => rfl
  | e :: es, n => by
    simp only [renumberList, codeBoundList, codeBound_renumber e n, codeBoundList_renumberList es _]
end

theorem codeBound_wrapped (e : Expr) : codeBound (renumber (wrapTree e) 0).1 = codeBound e + 24 := by
  rw [codeBound_renumber]
  simp [wrapTree, codeBound, codeBoundList]; omega

/-- **the size hypothesis of the translated compiler from the pattern length**: a pattern shorter than
    `2^58` bytes compiles to code shorter than `usize::MAX` -/
theorem parse_codeBound_fits (isAlnum : Char → Bool) (cs : List Char) (casei : Bool) (t : Tree)
    (h : parseStr isAlnum cs casei = .ok t) (hlen : (bytesOf cs).size < 2 ^ 58) :
    codeBound (renumber (wrapTree t.expr) 0).1 < UNSET := by
  have := parse_codeBound isAlnum cs casei t h
  rw [codeBound_wrapped]
  have h58 : (2 : Nat) ^ 58 = 288230376151711744 := by decide
  rw [h58] at hlen
  simp only [UNSET]
  omega

end Fancy.Parse
