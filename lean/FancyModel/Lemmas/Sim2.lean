import FancyModel.Lemmas.AVM2Defs
import FancyModel.Lemmas.Sim
/-!
# Simulation against the full machine (engine refinement, stage S2): definitions and structural rules

`Sim2 … sm a b`: with the code of an expression at addresses `[a, b)`, the structured whole-copy
machine (`Big2`, every instruction) started at `a` in the machine image of `st` computes
`(sm st).foldr succ failA` — "try the results of the reference semantics in priority order".

Compared with `Sim` (stage S1) the statement carries what the remaining instructions need:

* the machine's ordinary slots are `unview st.slots ++ aux`: the capture slots followed by the
  auxiliary slots (loop counters, saved look-around positions). Code that owns the auxiliary slots
  `[lo, hi)` may change only those (`AuxAgree`); the continuation has to accept any values there.
* the auxiliary stack `astk` (of `BeginAtomic`/`EndAtomic`) is handed back unchanged when the code is
  *balanced*; unbalanced code (a conditional's false path never pops its entry — finding F8) hands
  back `junk ++ astk`. Atomic groups, atomic look-arounds and conditions need a balanced body.
* every alternative the code leaves on the branch stack has its pc inside `[a, b]` — what
  `FailNegativeLookAround`'s pop-until-marker relies on.
* the continuation is *parametric* in what failing back yields (`Par`): for each result it either
  passes the failure through or gives an answer that does not depend on it. In a committing context
  (`cm = true`: the continuation never fails back — the bodies of atomic groups and look-arounds,
  which the compiler visits in a non-hard context) it is `Commit`.
-/
namespace Fancy

/-- for each result: pass through, or an answer independent of what failing back yields -/
def Par (succ : St → Ans → Ans) : Prop :=
  ∀ r, (∀ acc, succ r acc = acc) ∨ (∃ a, ∀ acc, succ r acc = a)

/-- the continuation never comes back -/
def Commit (succ : St → Ans → Ans) : Prop := ∀ r acc acc', succ r acc = succ r acc'

def SuccOK (cm : Bool) (succ : St → Ans → Ans) : Prop := if cm then Commit succ else Par succ

theorem Commit.par {succ : St → Ans → Ans} (h : Commit succ) : Par succ :=
  fun r => Or.inr ⟨succ r .noMatch, fun acc => h r acc .noMatch⟩

theorem SuccOK.par {cm : Bool} {succ : St → Ans → Ans} (h : SuccOK cm succ) : Par succ := by
  cases cm with
  | true => exact Commit.par (by simpa [SuccOK] using h)
  | false => simpa [SuccOK] using h

theorem SuccOK.ofCommit {cm : Bool} {succ : St → Ans → Ans} (h : Commit succ) : SuccOK cm succ := by
  cases cm with
  | true => simpa [SuccOK] using h
  | false => simpa [SuccOK] using h.par

/-- trying a list of results under a parametric continuation is parametric -/
theorem Par.foldr_list {succ : St → Ans → Ans} (h : Par succ) (l : List St) :
    (∀ acc, l.foldr succ acc = acc) ∨ (∃ a, ∀ acc, l.foldr succ acc = a) := by
  induction l with
  | nil => left; intro acc; rfl
  | cons q qs ih =>
    simp only [List.foldr_cons]
    rcases h q with hq | ⟨a, hq⟩
    · rcases ih with h1 | ⟨a, h1⟩
      · left; intro acc; rw [hq, h1]
      · right; exact ⟨a, fun acc => by rw [hq, h1]⟩
    · right; exact ⟨a, fun acc => hq _⟩

theorem Par.foldr {succ : St → Ans → Ans} (h : Par succ) (F : St → List St) :
    Par (fun r acc => (F r).foldr succ acc) := fun r => h.foldr_list (F r)

theorem Par.const (f : St → Ans) : Par (fun r _ => f r) := fun r => Or.inr ⟨f r, fun _ => rfl⟩
theorem Commit.const (f : St → Ans) : Commit (fun r _ => f r) := fun _ _ _ => rfl

/-- `aux'` agrees with `aux` outside the owned slots `[lo, hi)` (absolute slot numbers, the auxiliary
    slots start at `n`) -/
def AuxAgree (n lo hi : Nat) (aux aux' : List Nat) : Prop :=
  aux'.length = aux.length ∧ ∀ j, n ≤ j → (j < lo ∨ hi ≤ j) → aux'[j - n]? = aux[j - n]?

theorem AuxAgree.refl (n lo hi : Nat) (aux : List Nat) : AuxAgree n lo hi aux aux := ⟨rfl, fun _ _ _ => rfl⟩

theorem AuxAgree.mono {n lo hi lo' hi' : Nat} {aux aux' : List Nat} (h : AuxAgree n lo hi aux aux')
    (h1 : lo' ≤ lo) (h2 : hi ≤ hi') : AuxAgree n lo' hi' aux aux' :=
  ⟨h.1, fun j hj hout => h.2 j hj (by omega)⟩

theorem AuxAgree.trans {n lo mid hi : Nat} {a1 a2 a3 : List Nat} (h1 : AuxAgree n lo mid a1 a2)
    (h2 : AuxAgree n mid hi a2 a3) (hle1 : lo ≤ mid) (hle2 : mid ≤ hi) : AuxAgree n lo hi a1 a3 :=
  ⟨h2.1.trans h1.1, fun j hj hout => (h2.2 j hj (by omega)).trans (h1.2 j hj (by omega))⟩

theorem AuxAgree.trans' {n lo hi : Nat} {a1 a2 a3 : List Nat} (h1 : AuxAgree n lo hi a1 a2)
    (h2 : AuxAgree n lo hi a2 a3) : AuxAgree n lo hi a1 a3 :=
  ⟨h2.1.trans h1.1, fun j hj hout => (h2.2 j hj hout).trans (h1.2 j hj hout)⟩

theorem AuxAgree.set {n lo hi : Nat} (aux : List Nat) (j v : Nat) (hn : n ≤ j) (hj : lo ≤ j ∧ j < hi) :
    AuxAgree n lo hi aux (aux.set (j - n) v) := by
  refine ⟨by simp, fun k hk hout => ?_⟩
  rw [List.getElem?_set_ne (by omega)]

/-- reading an auxiliary slot that the intervening code does not own -/
theorem AuxAgree.get {n lo hi : Nat} {aux aux' : List Nat} (h : AuxAgree n lo hi aux aux') (j : Nat) (hn : n ≤ j)
    (hout : j < lo ∨ hi ≤ j) : aux'[j - n]? = aux[j - n]? := h.2 j hn hout

def Sim2 (c : Ctx) (n nS : Nat) (prog : List Insn) (lo hi : Nat) (bal cm : Bool) (sm : St → List St) (a b : Nat) : Prop :=
  ∀ (st : St) (aux astk : List Nat) (X : List SBranch) (succ : St → Ans → Ans) (failA : Ans),
    st.Good c n → n + aux.length = nS → SuccOK cm succ →
    -- what failing into `X` yields: only demanded if every result passes the failure through
    ((∀ acc, (sm st).foldr succ acc = acc) → Big2 c prog nS (.fail X) failA) →
    -- the continuation: only demanded for results that are *reached* (all earlier ones pass the
    -- failure through); what failing back yields is only demanded if this one passes it through too
    (∀ l1 r l2, sm st = l1 ++ r :: l2 → (∀ acc, l1.foldr succ acc = acc) →
      ∀ (aux' junk : List Nat) (S : List SBranch) (acc : Ans),
        AuxAgree n lo hi aux aux' → (bal = true → junk = []) → (∀ br ∈ S, a ≤ br.pc ∧ br.pc ≤ b) →
        ((∀ acc', succ r acc' = acc') → Big2 c prog nS (.fail (S ++ X)) acc) →
        Big2 c prog nS (.run b r.ix (unview r.slots ++ aux') (junk ++ astk) (S ++ X)) (succ r acc)) →
    Big2 c prog nS (.run a st.ix (unview st.slots ++ aux) astk X) ((sm st).foldr succ failA)

/-! ## Weakenings -/

theorem Sim2.congr {c : Ctx} {n nS : Nat} {prog : List Insn} {lo hi : Nat} {bal cm : Bool} {f g : St → List St} {a b : Nat}
    (h : Sim2 c n nS prog lo hi bal cm f a b) (hfg : ∀ st, f st = g st) : Sim2 c n nS prog lo hi bal cm g a b := by
  have : f = g := funext hfg
  rwa [this] at h

theorem Sim2.cast {c : Ctx} {n nS : Nat} {prog : List Insn} {lo hi : Nat} {bal cm : Bool} {f : St → List St} {a b a' b' : Nat}
    (h : Sim2 c n nS prog lo hi bal cm f a b) (ha : a' = a) (hb : b' = b) : Sim2 c n nS prog lo hi bal cm f a' b' := by
  subst ha; subst hb; exact h

/-- owning more auxiliary slots is weaker -/
theorem Sim2.widen {c : Ctx} {n nS : Nat} {prog : List Insn} {lo hi lo' hi' : Nat} {bal cm : Bool} {f : St → List St} {a b : Nat}
    (h : Sim2 c n nS prog lo hi bal cm f a b) (h1 : lo' ≤ lo) (h2 : hi ≤ hi') : Sim2 c n nS prog lo' hi' bal cm f a b := by
  intro st aux astk X succ failA hg hl hsucc hf hs
  exact h st aux astk X succ failA hg hl hsucc hf
    (fun l1 r l2 hsp hpass aux' junk S acc hag hb hS hacc => hs l1 r l2 hsp hpass aux' junk S acc (hag.mono h1 h2) hb hS hacc)

/-- balanced code is in particular code (the continuation just gets `junk = []`) -/
theorem Sim2.unbal {c : Ctx} {n nS : Nat} {prog : List Insn} {lo hi : Nat} {bal cm : Bool} {f : St → List St} {a b : Nat}
    (h : Sim2 c n nS prog lo hi true cm f a b) : Sim2 c n nS prog lo hi bal cm f a b := by
  intro st aux astk X succ failA hg hl hsucc hf hs
  exact h st aux astk X succ failA hg hl hsucc hf
    (fun l1 r l2 hsp hpass aux' junk S acc hag hb hS hacc => by
      have hj : junk = [] := hb rfl
      subst hj
      exact hs l1 r l2 hsp hpass aux' [] S acc hag (fun _ => rfl) hS hacc)

/-- code proved for parametric continuations works in a committing context -/
theorem Sim2.toCommit {c : Ctx} {n nS : Nat} {prog : List Insn} {lo hi : Nat} {bal cm : Bool} {f : St → List St} {a b : Nat}
    (h : Sim2 c n nS prog lo hi bal false f a b) : Sim2 c n nS prog lo hi bal cm f a b := by
  intro st aux astk X succ failA hg hl hsucc hf hs
  exact h st aux astk X succ failA hg hl (by simpa [SuccOK] using hsucc.par) hf hs

/-- the pc range may be enlarged -/
theorem mem_split {α : Type} {x : α} {l : List α} (h : x ∈ l) : ∃ l1 l2, l = l1 ++ x :: l2 := List.append_of_mem h

/-! ## Structural rules -/

theorem Sim2.nil (c : Ctx) (n nS : Nat) (prog : List Insn) (lo hi : Nat) (bal cm : Bool) (a : Nat) :
    Sim2 c n nS prog lo hi bal cm (fun st => [st]) a a := by
  intro st aux astk X succ failA hg hl hsucc hf hs
  simp only [List.foldr_cons, List.foldr_nil]
  have := hs [] st [] rfl (fun _ => rfl) aux [] [] failA (AuxAgree.refl _ _ _ _) (fun _ => rfl) (by simp)
    (fun hp => by simpa using hf (by simpa using hp))
  simpa using this

/-- sequencing, general form: `f` owns `[lo, mid)`, `g` owns `[mid, hi)`; `f` is claimed for the
    continuation class `cm1`, which must contain "then `g`, then a continuation of class `cm`" -/
theorem Sim2.seqGen {c : Ctx} {n nS : Nat} {prog : List Insn} {lo mid hi : Nat} {bal cm cm1 : Bool} {f g : St → List St} {a m b : Nat}
    (h1 : Sim2 c n nS prog lo mid bal cm1 f a m) (h2 : Sim2 c n nS prog mid hi bal cm g m b) (hk : KeepsGood c n f)
    (hcls : ∀ succ, SuccOK cm succ → SuccOK cm1 (fun r acc => (g r).foldr succ acc))
    (hle1 : lo ≤ mid) (hle2 : mid ≤ hi) (ham : a ≤ m) (hmb : m ≤ b) :
    Sim2 c n nS prog lo hi bal cm (fun st => (f st).flatMap g) a b := by
  intro st aux astk X succ failA hg hl hsucc hf hs
  rw [foldr_flatMap]
  apply h1 st aux astk X (fun r acc => (g r).foldr succ acc) failA hg hl (hcls succ hsucc)
    (fun hp => hf (fun acc => by rw [foldr_flatMap]; exact hp acc))
  intro l1 r1 l2 hsp1 hpass1 aux1 junk1 S1 acc1 hag1 hb1 hS1 hf1
  have hl1 : n + aux1.length = nS := by rw [hag1.1]; exact hl
  have hr1 : r1 ∈ f st := by rw [hsp1]; simp
  apply h2 r1 aux1 (junk1 ++ astk) (S1 ++ X) succ acc1 (hk st r1 hg hr1) hl1 hsucc hf1
  intro m1 r2 m2 hsp2 hpass2 aux2 junk2 S2 acc2 hag2 hb2 hS2 hf2
  have hsplit : (f st).flatMap g = (l1.flatMap g ++ m1) ++ r2 :: (m2 ++ l2.flatMap g) := by
    rw [hsp1, List.flatMap_append, List.flatMap_cons, hsp2]
    simp [List.append_assoc]
  have hpass : ∀ acc, (l1.flatMap g ++ m1).foldr succ acc = acc := by
    intro acc
    rw [List.foldr_append, hpass2, foldr_flatMap]
    exact hpass1 acc
  have := hs (l1.flatMap g ++ m1) r2 (m2 ++ l2.flatMap g) hsplit hpass aux2 (junk2 ++ junk1) (S2 ++ S1) acc2
    (hag1.trans hag2 hle1 hle2)
    (fun hb => by rw [hb1 hb, hb2 hb]; rfl)
    (fun br hbr => by
      rcases List.mem_append.mp hbr with h | h
      · have := hS2 br h; omega
      · have := hS1 br h; omega)
    (fun hp => by simpa [List.append_assoc] using hf2 hp)
  simpa [List.append_assoc] using this

/-- sequencing: `f` owns `[lo, mid)`, `g` owns `[mid, hi)` -/
theorem Sim2.seq {c : Ctx} {n nS : Nat} {prog : List Insn} {lo mid hi : Nat} {bal cm : Bool} {f g : St → List St} {a m b : Nat}
    (h1 : Sim2 c n nS prog lo mid bal false f a m) (h2 : Sim2 c n nS prog mid hi bal cm g m b) (hk : KeepsGood c n f)
    (hle1 : lo ≤ mid) (hle2 : mid ≤ hi) (ham : a ≤ m) (hmb : m ≤ b) :
    Sim2 c n nS prog lo hi bal cm (fun st => (f st).flatMap g) a b :=
  Sim2.seqGen h1 h2 hk (fun succ hsucc => by simpa [SuccOK] using hsucc.par.foldr g) hle1 hle2 ham hmb

/-- sequencing with a second part that always has exactly one result (a `Save`, a `Jmp`): the
    continuation class is kept, so the first part may be code that is only correct under committing
    continuations -/
theorem Sim2.seqTotal {c : Ctx} {n nS : Nat} {prog : List Insn} {lo mid hi : Nat} {bal cm : Bool} {f : St → List St} {g1 : St → St} {a m b : Nat}
    (h1 : Sim2 c n nS prog lo mid bal cm f a m) (h2 : Sim2 c n nS prog mid hi bal cm (fun st => [g1 st]) m b)
    (hk : KeepsGood c n f) (hle1 : lo ≤ mid) (hle2 : mid ≤ hi) (ham : a ≤ m) (hmb : m ≤ b) :
    Sim2 c n nS prog lo hi bal cm (fun st => (f st).flatMap fun r => [g1 r]) a b :=
  Sim2.seqGen h1 h2 hk (fun succ hsucc => by
    cases cm with
    | true =>
      have hc : Commit succ := by simpa [SuccOK] using hsucc
      have : Commit (fun r acc => succ (g1 r) acc) := fun r acc acc' => hc (g1 r) acc acc'
      simpa [SuccOK] using this
    | false =>
      have hp : Par succ := by simpa [SuccOK] using hsucc
      have : Par (fun r acc => succ (g1 r) acc) := fun r => hp (g1 r)
      simpa [SuccOK] using this) hle1 hle2 ham hmb

/-- a single always-succeeding instruction that maps the capture state and leaves the rest alone -/
theorem Sim2.step1 {c : Ctx} {n nS : Nat} {prog : List Insn} {lo hi : Nat} {bal cm : Bool} {a : Nat} (upd : St → St)
    (hstep : ∀ (st : St) (aux astk : List Nat) X, st.Good c n → n + aux.length = nS →
      sstep c prog nS a st.ix (unview st.slots ++ aux) astk X =
        some (.run (a + 1) (upd st).ix (unview (upd st).slots ++ aux) astk X)) :
    Sim2 c n nS prog lo hi bal cm (fun st => [upd st]) a (a + 1) := by
  intro st aux astk X succ failA hg hl hsucc hf hs
  simp only [List.foldr_cons, List.foldr_nil]
  apply Big2.step _ _ _ _ _ _ _ (hstep st aux astk X hg hl)
  have := hs [] (upd st) [] rfl (fun _ => rfl) aux [] [] failA (AuxAgree.refl _ _ _ _) (fun _ => rfl) (by simp)
    (fun hp => by simpa using hf (by simpa using hp))
  simpa using this

/-- a single instruction that either advances (one result) or fails (no result) -/
theorem Sim2.test1 {c : Ctx} {n nS : Nat} {prog : List Insn} {lo hi : Nat} {bal cm : Bool} {a : Nat}
    (cond : St → Bool) (upd : St → St)
    (hstep : ∀ (st : St) (aux astk : List Nat) X, st.Good c n → n + aux.length = nS →
      sstep c prog nS a st.ix (unview st.slots ++ aux) astk X =
        some (if cond st then .run (a + 1) (upd st).ix (unview (upd st).slots ++ aux) astk X else .fail X)) :
    Sim2 c n nS prog lo hi bal cm (fun st => if cond st then [upd st] else []) a (a + 1) := by
  intro st aux astk X succ failA hg hl hsucc hf hs
  have h := hstep st aux astk X hg hl
  by_cases hc : cond st = true
  · simp only [hc, ↓reduceIte, List.foldr_cons, List.foldr_nil] at h hf hs ⊢
    apply Big2.step _ _ _ _ _ _ _ h
    have := hs [] (upd st) [] rfl (fun _ => rfl) aux [] [] failA (AuxAgree.refl _ _ _ _) (fun _ => rfl) (by simp)
      (fun hp => by simpa using hf (by simpa using hp))
    simpa using this
  · simp only [hc, Bool.false_eq_true, ↓reduceIte, List.foldr_nil] at h hf ⊢
    exact Big2.step _ _ _ _ _ _ _ h (hf (fun _ => trivial))

/-- alternation of two pieces of code: `Split(a+1, m+1); <f>; Jmp b; <g>` with `<f>` at `[a+1, m)` -/
theorem Sim2.alt2 {c : Ctx} {n nS : Nat} {prog : List Insn} {lo hi : Nat} {bal cm : Bool} {f g : St → List St} {a m b : Nat}
    (hsplit : prog[a]? = some (.split (a + 1) (m + 1))) (hjmp : prog[m]? = some (.jmp b))
    (h1 : Sim2 c n nS prog lo hi bal cm f (a + 1) m) (h2 : Sim2 c n nS prog lo hi bal cm g (m + 1) b)
    (ham : a + 1 ≤ m) (hmb : m + 1 ≤ b) :
    Sim2 c n nS prog lo hi bal cm (fun st => f st ++ g st) a b := by
  intro st aux astk X succ failA hg hl hsucc hf hs
  rw [List.foldr_append]
  have hstep : sstep c prog nS a st.ix (unview st.slots ++ aux) astk X =
      some (.run (a + 1) st.ix (unview st.slots ++ aux) astk (⟨m + 1, st.ix, unview st.slots ++ aux, astk⟩ :: X)) := by
    simp [sstep, hsplit]
  apply Big2.step _ _ _ _ _ _ _ hstep
  apply h1 st aux astk (⟨m + 1, st.ix, unview st.slots ++ aux, astk⟩ :: X) succ _ hg hl hsucc
  · -- failing into the pushed branch runs the second alternative (only reached if `f` passes through)
    intro hpf
    apply Big2.failPop
    exact h2 st aux astk X succ failA hg hl hsucc
      (fun hpg => hf (fun acc => by rw [List.foldr_append, hpg, hpf]))
      (fun l1 r l2 hsp hpass aux' junk S acc hag hb hS hacc =>
        hs (f st ++ l1) r l2 (by show f st ++ g st = _; rw [hsp, List.append_assoc]) (fun acc => by rw [List.foldr_append, hpass, hpf])
          aux' junk S acc hag hb (fun br hbr => by have := hS br hbr; omega) hacc)
  · intro l1 r l2 hsp hpass aux' junk S acc hag hb hS hacc
    have hj : sstep c prog nS m r.ix (unview r.slots ++ aux') (junk ++ astk)
          (S ++ ⟨m + 1, st.ix, unview st.slots ++ aux, astk⟩ :: X) =
        some (.run b r.ix (unview r.slots ++ aux') (junk ++ astk) (S ++ ⟨m + 1, st.ix, unview st.slots ++ aux, astk⟩ :: X)) := by
      simp [sstep, hjmp]
    apply Big2.step _ _ _ _ _ _ _ hj
    have := hs l1 r (l2 ++ g st) (by show f st ++ g st = _; rw [hsp]; simp [List.append_assoc]) hpass aux' junk
      (S ++ [⟨m + 1, st.ix, unview st.slots ++ aux, astk⟩]) acc hag hb
      (fun br hbr => by
        rcases List.mem_append.mp hbr with h | h
        · have := hS br h; omega
        · simp only [List.mem_singleton] at h; subst h; simp only; omega)
      (fun hp => by simpa [List.append_assoc] using hacc hp)
    simpa [List.append_assoc] using this

/-- the previous, stronger-premise form (continuation available for every result, failure evidence
    unconditional) is a consequence: convenient at the top level -/
theorem Sim2.apply_all {c : Ctx} {n nS : Nat} {prog : List Insn} {lo hi : Nat} {bal cm : Bool} {sm : St → List St} {a b : Nat}
    (h : Sim2 c n nS prog lo hi bal cm sm a b)
    (st : St) (aux astk : List Nat) (X : List SBranch) (succ : St → Ans → Ans) (failA : Ans)
    (hg : st.Good c n) (hl : n + aux.length = nS) (hsucc : SuccOK cm succ)
    (hf : Big2 c prog nS (.fail X) failA)
    (hs : ∀ r, r ∈ sm st → ∀ (aux' junk : List Nat) (S : List SBranch) (acc : Ans),
        AuxAgree n lo hi aux aux' → (bal = true → junk = []) → (∀ br ∈ S, a ≤ br.pc ∧ br.pc ≤ b) →
        ((∀ acc', succ r acc' = acc') → Big2 c prog nS (.fail (S ++ X)) acc) →
        Big2 c prog nS (.run b r.ix (unview r.slots ++ aux') (junk ++ astk) (S ++ X)) (succ r acc)) :
    Big2 c prog nS (.run a st.ix (unview st.slots ++ aux) astk X) ((sm st).foldr succ failA) :=
  h st aux astk X succ failA hg hl hsucc (fun _ => hf)
    (fun l1 r l2 hsp _ aux' junk S acc hag hb hS hacc => hs r (by rw [hsp]; simp) aux' junk S acc hag hb hS hacc)

end Fancy
