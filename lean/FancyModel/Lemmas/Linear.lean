import FancyModel.Spec.Stage
import FancyModel.Spec.Sem
/-!
# A linear expression has at most one result
-/
namespace Fancy

theorem flatMap_length_le_one {α β : Type} (l : List α) (f : α → List β) (hl : l.length ≤ 1)
    (hf : ∀ a, a ∈ l → (f a).length ≤ 1) : (l.flatMap f).length ≤ 1 := by
  cases l with
  | nil => simp
  | cons a as =>
    cases as with
    | nil => simpa using hf a (by simp)
    | cons b bs => simp at hl

/-- an exact-count loop over a body with at most one result has at most one result -/
theorem repLoop_exact_le_one (body : St → List St) (hb : ∀ st, (body st).length ≤ 1) (lo : Nat) (greedy : Bool) :
    ∀ (fuel count : Nat) (st : St), count ≤ lo → (repLoop body lo (some lo) greedy fuel count st).length ≤ 1 := by
  intro fuel
  induction fuel with
  | zero => intro count st _; simp [repLoop]
  | succ fuel ih =>
    intro count st hc
    unfold repLoop
    by_cases heq : lo = count
    · subst heq; simp
    · have hne : ¬ (some lo = some count) := by simpa using heq
      have hlt : count < lo := by omega
      simp only [hne, ↓reduceIte, Option.isNone_some, Bool.false_and, Bool.false_eq_true, hlt]
      exact flatMap_length_le_one _ _ (hb st) (fun r _ => ih (count + 1) r (by omega))

mutual
theorem linear_le_one (c : Ctx) : ∀ (e : Expr), linearE e = true → ∀ st, (sem c e st).length ≤ 1
  | .empty, _, st => by simp [sem]
  | .any nl, _, st => by
    simp only [sem]
    cases c.at? st.ix with
    | none => simp
    | some ch =>
      simp only
      by_cases h : (nl || ch != '\n') = true
      · simp [h]
      · simp only [h]; simp
  | .assertion a, _, st => by simp only [sem]; split <;> simp
  | .literal v ci, _, st => by simp only [sem]; split <;> simp
  | .delegate inner size ci, _, st => by
    simp only [sem, delegateSem]
    by_cases h1 : (size == 1) = true
    · simp only [h1, ↓reduceIte]
      cases c.at? st.ix with
      | none => simp
      | some ch =>
        simp only
        by_cases h2 : c.cls inner ci ch = true
        · simp [h2]
        · simp only [h2]; simp
    · simp only [h1, Bool.false_eq_true, ↓reduceIte]
      by_cases h3 : (size == 0 && inner == ['\n', '*', '$']) = true
      · simp only [h3, ↓reduceIte]
        by_cases h4 : (st.ix + c.newlinesFrom st.ix == c.len) = true
        · simp [h4]
        · simp only [h4]; simp
      · simp only [h3]; simp
  | .concat es, h, st => by
    simp only [linearE] at h
    simp only [sem]
    exact linearAll_le_one c es h st
  | .group g e, h, st => by
    simp only [linearE] at h
    simp only [sem, List.length_map]
    exact linear_le_one c e h _
  | .repeat e lo hi gr, h, st => by
    simp only [linearE, Bool.and_eq_true, beq_iff_eq] at h
    obtain ⟨he, rfl⟩ := h
    simp only [sem]
    exact repLoop_exact_le_one (sem c e) (linear_le_one c e he) lo gr _ 0 st (Nat.zero_le _)
  | .alt _, h, _ | .look _ _, h, _ | .backref _, h, _ | .atomic _, h, _ | .keepOut, h, _ | .contPrev, h, _
  | .backrefExists _, h, _ | .cond _ _ _, h, _ | .subroutine _, h, _ => by simp [linearE] at h
theorem linearAll_le_one (c : Ctx) : ∀ (es : List Expr), linearAll es = true → ∀ st, (semConcat c es st).length ≤ 1
  | [], _, st => by simp [semConcat]
  | e :: es, h, st => by
    simp only [linearAll, Bool.and_eq_true] at h
    simp only [semConcat]
    exact flatMap_length_le_one _ _ (linear_le_one c e h.1 st) (fun r _ => linearAll_le_one c es h.2 r)
end

/-- any two members of a list with at most one element are equal -/
theorem eq_of_mem_length_le_one {α : Type} {l : List α} (h : l.length ≤ 1) {a b : α} (ha : a ∈ l) (hb : b ∈ l) : a = b := by
  cases l with
  | nil => simp at ha
  | cons x xs =>
    cases xs with
    | nil => simp at ha hb; rw [ha, hb]
    | cons y ys => simp at h

theorem linearAll_take (es : List Expr) (k : Nat) (h : linearAll es = true) : linearAll (es.take k) = true := by
  induction es generalizing k with
  | nil => simp [linearAll]
  | cons e es ih =>
    cases k with
    | zero => simp [linearAll]
    | succ k =>
      simp only [linearAll, Bool.and_eq_true] at h
      simp only [List.take_succ_cons, linearAll, Bool.and_eq_true]
      exact ⟨h.1, ih k h.2⟩

end Fancy
