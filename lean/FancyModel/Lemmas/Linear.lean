import FancyModel.Spec.Stage
import FancyModel.Spec.Sem
import FancyModel.Lemmas.S3Glue
/-!
# All results of a linear expression are one and the same state

`linear_same` / `linearAll_same`: from a good state, any two results of a `linearE` expression are
equal. Without alternations there is at most one result; an accepted alternation (no capture groups,
all alternatives of one constant size) may have several, all equal to `{st with ix := st.ix + size}`
(`same_of_const_groupfree_one`, from `C13_const_exact` and the frame lemma). The statement holds for
every `Ctx`: nothing is assumed about the character tables.

"At most one result" is *not* true of an alternation such as `(a|b)`: the case-sensitive comparison
`Ctx.ceq false` is a free table, and with a permissive one both alternatives match.
-/
namespace Fancy

theorem flatMap_length_le_one {α β : Type} (l : List α) (f : α → List β) (hl : l.length ≤ 1)
    (hf : ∀ a, a ∈ l → (f a).length ≤ 1) : (l.flatMap f).length ≤ 1 := by
  cases l with
  | nil => simp
  | cons a as =>
    cases as with
    | nil => simpa using hf a (by simp)
    | cons b bs => simp at hl

/-- an exact-count loop over a body with at most one result has at most one result -/
theorem repLoop_exact_le_one (body : St → List St) (hb : ∀ st, (body st).length ≤ 1) (lo : Nat) (greedy : Bool) :
    ∀ (fuel count : Nat) (st : St), count ≤ lo → (repLoop body lo (some lo) greedy fuel count st).length ≤ 1 := by
  intro fuel
  induction fuel with
  | zero => intro count st _; simp [repLoop]
  | succ fuel ih =>
    intro count st hc
    unfold repLoop
    by_cases heq : lo = count
    · subst heq; simp
    · have hne : ¬ (some lo = some count) := by simpa using heq
      have hlt : count < lo := by omega
      simp only [hne, ↓reduceIte, Option.isNone_some, Bool.false_and, Bool.false_eq_true, hlt]
      exact flatMap_length_le_one _ _ (hb st) (fun r _ => ih (count + 1) r (by omega))

/-- any two members of a list with at most one element are equal -/
theorem eq_of_mem_length_le_one {α : Type} {l : List α} (h : l.length ≤ 1) {a b : α} (ha : a ∈ l) (hb : b ∈ l) : a = b := by
  cases l with
  | nil => simp at ha
  | cons x xs =>
    cases xs with
    | nil => simp at ha hb; rw [ha, hb]
    | cons y ys => simp at h

/-- an exact-count loop over a body all of whose results (from a state within the invariant `P`) are
    one state: all results of the loop are one state -/
theorem repLoop_exact_same (P : St → Prop) (body : St → List St) (hP : ∀ st r, P st → r ∈ body st → P r)
    (hb : ∀ st, P st → ∀ r q, r ∈ body st → q ∈ body st → r = q) (lo : Nat) (greedy : Bool) :
    ∀ (fuel count : Nat) (st : St), P st → count ≤ lo →
      ∀ r q, r ∈ repLoop body lo (some lo) greedy fuel count st →
        q ∈ repLoop body lo (some lo) greedy fuel count st → r = q := by
  intro fuel
  induction fuel with
  | zero => intro count st _ _ r q hr; simp [repLoop] at hr
  | succ fuel ih =>
    intro count st hst hc r q hr hq
    unfold repLoop at hr hq
    by_cases heq : lo = count
    · subst heq
      simp only [↓reduceIte, List.mem_singleton] at hr hq
      rw [hr, hq]
    · have hne : ¬ (some lo = some count) := by simpa using heq
      have hlt : count < lo := by omega
      simp only [hne, ↓reduceIte, Option.isNone_some, Bool.false_and, Bool.false_eq_true, hlt,
        List.mem_flatMap] at hr hq
      obtain ⟨r1, hr1, hr⟩ := hr
      obtain ⟨q1, hq1, hq⟩ := hq
      have h1 := hb st hst r1 q1 hr1 hq1
      subst h1
      exact ih (count + 1) r1 (hP st r1 hst hr1) (by omega) r q hr hq

/-! ## The leaves: at most one result -/

theorem sem_any_le_one (c : Ctx) (nl : Bool) (st : St) : (sem c (.any nl) st).length ≤ 1 := by
  simp only [sem]
  cases c.at? st.ix with
  | none => simp
  | some ch =>
    simp only
    by_cases h : (nl || ch != '\n') = true
    · simp [h]
    · simp only [h]; simp

theorem sem_delegate_le_one (c : Ctx) (inner : List Char) (size : Nat) (ci : Bool) (st : St) :
    (sem c (.delegate inner size ci) st).length ≤ 1 := by
  simp only [sem, delegateSem]
  by_cases h1 : (size == 1) = true
  · simp only [h1, ↓reduceIte]
    cases c.at? st.ix with
    | none => simp
    | some ch =>
      simp only
      by_cases h2 : c.cls inner ci ch = true
      · simp [h2]
      · simp only [h2]; simp
  · simp only [h1, Bool.false_eq_true, ↓reduceIte]
    by_cases h3 : (size == 0 && inner == ['\n', '*', '$']) = true
    · simp only [h3, ↓reduceIte]
      by_cases h4 : (st.ix + c.newlinesFrom st.ix == c.len) = true
      · simp [h4]
      · simp only [h4]; simp
    · simp only [h3]; simp

/-! ## A linear expression is pure -/

mutual
theorem linear_pure : ∀ (e : Expr), linearE e = true → pureExpr e = true
  | .empty, _ | .any _, _ | .assertion _, _ | .literal _ _, _ | .delegate _ _ _, _ => by simp [pureExpr]
  | .concat es, h => by
    simp only [linearE] at h
    simp only [pureExpr]
    exact linearAll_pure es h
  | .alt es, h => by
    simp only [linearE, Bool.and_eq_true] at h
    simp only [pureExpr]
    exact linearAll_pure es h.1.1
  | .group g e, h => by
    simp only [linearE] at h
    simp only [pureExpr]
    exact linear_pure e h
  | .repeat e lo hi gr, h => by
    simp only [linearE, Bool.and_eq_true] at h
    simp only [pureExpr]
    exact linear_pure e h.1
  | .look _ _, h | .backref _, h | .atomic _, h | .keepOut, h | .contPrev, h
  | .backrefExists _, h | .cond _ _ _, h | .subroutine _, h => by simp [linearE] at h
theorem linearAll_pure : ∀ (es : List Expr), linearAll es = true → pureAll es = true
  | [], _ => by simp [pureAll]
  | e :: es, h => by
    simp only [linearAll, Bool.and_eq_true] at h
    simp only [pureAll, Bool.and_eq_true]
    exact ⟨linear_pure e h.1, linearAll_pure es h.2⟩
end

/-! ## One state -/

mutual
/-- **all results of a linear expression from a good state are one and the same state** -/
theorem linear_same (c : Ctx) (n : Nat) (hlen : c.len < UNSET) : ∀ (e : Expr), linearE e = true →
    wellShaped e = true → noBareEndZ e = true → ∀ (st : St), st.Good c n →
    ∀ r q, r ∈ sem c e st → q ∈ sem c e st → r = q
  | .empty, _, _, _, st, _, r, q, hr, hq => by
    simp only [sem, List.mem_singleton] at hr hq; rw [hr, hq]
  | .any nl, _, _, _, st, _, r, q, hr, hq => eq_of_mem_length_le_one (sem_any_le_one c nl st) hr hq
  | .assertion a, _, _, _, st, _, r, q, hr, hq =>
    eq_of_mem_length_le_one (l := sem c (.assertion a) st) (by simp only [sem]; split <;> simp) hr hq
  | .literal v ci, _, _, _, st, _, r, q, hr, hq =>
    eq_of_mem_length_le_one (l := sem c (.literal v ci) st) (by simp only [sem]; split <;> simp) hr hq
  | .delegate inner size ci, _, _, _, st, _, r, q, hr, hq =>
    eq_of_mem_length_le_one (sem_delegate_le_one c inner size ci st) hr hq
  | .concat es, h, hw, hz, st, hg, r, q, hr, hq => by
    simp only [linearE] at h
    simp only [sem] at hr hq
    exact linearAll_same c n hlen es h (wellShaped_concat hw) (by simpa [noBareEndZ] using hz) st hg r q hr hq
  | .alt es, h, hw, hz, st, hg, r, q, hr, hq => by
    have hp := linear_pure (.alt es) h
    simp only [linearE, Bool.and_eq_true, beq_iff_eq] at h
    exact same_of_const_groupfree_one c n (.alt es) hw h.2 hz hp (by simpa [groupCount] using h.1.2) hlen st hg
      r q hr hq
  | .group g e, h, hw, hz, st, hg, r, q, hr, hq => by
    simp only [linearE] at h
    simp only [sem, List.mem_map] at hr hq
    obtain ⟨r1, hr1, rfl⟩ := hr
    obtain ⟨q1, hq1, rfl⟩ := hq
    have := linear_same c n hlen e h (wellShaped_group hw) (by simpa [noBareEndZ] using hz) _
      (hg.setSlot (2 * g) st.ix hg.ix) r1 q1 hr1 hq1
    rw [this]
  | .repeat e lo hi gr, h, hw, hz, st, hg, r, q, hr, hq => by
    simp only [linearE, Bool.and_eq_true, beq_iff_eq] at h
    obtain ⟨he, rfl⟩ := h
    simp only [sem] at hr hq
    have hz' : noBareEndZ e = true := by simpa [noBareEndZ] using hz
    exact repLoop_exact_same (fun s => s.Good c n) (sem c e) (fun s r' hs hr' => sem_good c n e s r' hs hr')
      (fun s hs => linear_same c n hlen e he (wellShaped_repeat hw) hz' s hs) lo gr _ 0 st hg (Nat.zero_le _)
      r q hr hq
  | .look _ _, h, _, _, _, _, _, _, _, _ | .backref _, h, _, _, _, _, _, _, _, _
  | .atomic _, h, _, _, _, _, _, _, _, _ | .keepOut, h, _, _, _, _, _, _, _, _
  | .contPrev, h, _, _, _, _, _, _, _, _ | .backrefExists _, h, _, _, _, _, _, _, _, _
  | .cond _ _ _, h, _, _, _, _, _, _, _, _ | .subroutine _, h, _, _, _, _, _, _, _, _ => by
    simp [linearE] at h
theorem linearAll_same (c : Ctx) (n : Nat) (hlen : c.len < UNSET) : ∀ (es : List Expr), linearAll es = true →
    wellShapedAll es = true → noBareEndZAll es = true → ∀ (st : St), st.Good c n →
    ∀ r q, r ∈ semConcat c es st → q ∈ semConcat c es st → r = q
  | [], _, _, _, st, _, r, q, hr, hq => by
    simp only [semConcat, List.mem_singleton] at hr hq; rw [hr, hq]
  | e :: es, h, hw, hz, st, hg, r, q, hr, hq => by
    simp only [linearAll, Bool.and_eq_true] at h
    simp only [noBareEndZAll, Bool.and_eq_true] at hz
    have hw' := wellShapedAll_cons hw
    simp only [semConcat, List.mem_flatMap] at hr hq
    obtain ⟨r1, hr1, hr⟩ := hr
    obtain ⟨q1, hq1, hq⟩ := hq
    have h1 := linear_same c n hlen e h.1 hw'.1 hz.1 st hg r1 q1 hr1 hq1
    subst h1
    exact linearAll_same c n hlen es h.2 hw'.2 hz.2 r1 (sem_good c n e st r1 hg hr1) r q hr hq
end

theorem linearAll_take (es : List Expr) (k : Nat) (h : linearAll es = true) : linearAll (es.take k) = true := by
  induction es generalizing k with
  | nil => simp [linearAll]
  | cons e es ih =>
    cases k with
    | zero => simp [linearAll]
    | succ k =>
      simp only [linearAll, Bool.and_eq_true] at h
      simp only [List.take_succ_cons, linearAll, Bool.and_eq_true]
      exact ⟨h.1, ih k h.2⟩

end Fancy
