import FancyModel.Lemmas.Atomize
import FancyModel.Spec.Stage5
/-!
# Stage S5, semantic half: atomizing the delegated runs anywhere in the tree does not change the first
result, when no back-reference / group test reads a slot owned by an atomized run

* `sem_agrR`: obliviousness of `sem` for expressions that do not READ `U` (they may write it: a run
  executed again in a loop overwrites its own slots identically on both sides).
* `DomAcc S L L'` / `Dom L L'`: the domination relation on result lists — `L'` keeps some elements of `L`
  (literally the same states, in order), and every dropped element is `Agr U`-related to an element kept
  EARLIER (`S` = the elements kept so far). Closed under `++`, `flatMap` with oblivious continuations,
  `map`, `filter`; a dominated list has the same `head?` (so `firstOnly`, emptiness, the condition of a
  conditional are the same).
* `dom_sem`: `Dom (sem c e st) (sem c (atomizeP br e hard) st)` for every constructor of the semantics —
  loops (greedy and lazy, every bound: `repLoop_dom`), look-aheads, look-behinds (`behindOne_dom`,
  `semBehindAlts_dom_of` for the backward reading of the body), atomic groups, conditionals.
* `atomizeP_head`: the two trees have the same first result.
-/
namespace Fancy

theorem noReadAll_mem {U : List Nat} : ∀ (es : List Expr), noReadAll U es = true → ∀ e ∈ es, noRead U e = true
  | [], _, e, he => by cases he
  | x :: xs, h, e, he => by
    simp only [noReadAll, Bool.and_eq_true] at h
    rcases List.mem_cons.mp he with rfl | he
    · exact h.1
    · exact noReadAll_mem xs h.2 e he

theorem semBehind_agrR_of (c : Ctx) (U : List Nat) (e : Expr) (hu : noRead U e = true)
    (hsem : ∀ e', sizeOf e' ≤ sizeOf e → noRead U e' = true →
      ∀ a b, Agr U a b → LR (Agr U) (sem c e' a) (sem c e' b)) :
    ∀ a b, Agr U a b → LR (Agr U) (semBehind c e a) (semBehind c e b) := by
  intro a b hab
  cases e with
  | alt es =>
    simp only [noRead] at hu
    simp only [semBehind]
    exact semBehindAlts_agr_of c U es (fun e' he' => hsem e' (by
      have := List.sizeOf_lt_of_mem he'
      simp only [Expr.alt.sizeOf_spec]; omega) (noReadAll_mem es hu e' he')) a b hab
  | _ =>
    simp only [semBehind]
    exact behindOne_agr _ (hsem _ (Nat.le_refl _) hu) a b hab

mutual
/-- **obliviousness**: an expression that does not touch `U` maps `Agr U`-related states to
    `Agr U`-related result lists -/
theorem sem_agrR (c : Ctx) (U : List Nat) :
    ∀ (e : Expr) (a b : St), noRead U e = true → Agr U a b → LR (Agr U) (sem c e a) (sem c e b)
  | .empty, a, b, _, hab => by simp only [sem]; exact .single hab
  | .any nl, a, b, _, hab => by
    simp only [sem, hab.1]
    split
    · split
      · exact .single (hab.withIx _)
      · exact .nil
    · exact .nil
  | .assertion as, a, b, _, hab => by
    simp only [sem, hab.1]
    split
    · exact .single hab
    · exact .nil
  | .literal val casei, a, b, _, hab => by
    simp only [sem, hab.1]
    split
    · exact .single (hab.withIx _)
    · exact .nil
  | .concat es, a, b, hu, hab => by
    simp only [noRead] at hu; simp only [sem]; exact semConcat_agrR c U es a b hu hab
  | .alt es, a, b, hu, hab => by
    simp only [noRead] at hu; simp only [sem]; exact semAlt_agrR c U es a b hu hab
  | .group g e, a, b, hu, hab => by
    simp only [noRead] at hu
    simp only [sem, hab.1]
    exact (sem_agrR c U e _ _ hu (hab.setSlot _ _)).map (fun r q hrq => by
      rw [hrq.1]; exact hrq.setSlot _ _)
  | .look e .ahead, a, b, hu, hab => by
    simp only [noRead] at hu
    simp only [sem, hab.1]
    exact (sem_agrR c U e a b hu hab).firstOnly.map (fun r q hrq => hrq.withIx _)
  | .look e .aheadNeg, a, b, hu, hab => by
    simp only [noRead] at hu
    simp only [sem, (sem_agrR c U e a b hu hab).isEmpty]
    split
    · exact .single hab
    · exact .nil
  | .look e .behind, a, b, hu, hab => by
    simp only [noRead] at hu
    simp only [sem, hab.1]
    exact (semBehind_agrR_of c U e hu (fun e' _ hu' x y hxy => sem_agrR c U e' x y hu' hxy) a b hab).firstOnly.map
      (fun r q hrq => hrq.withIx _)
  | .look e .behindNeg, a, b, hu, hab => by
    simp only [noRead] at hu
    simp only [sem, (semBehind_agrR_of c U e hu (fun e' _ hu' x y hxy => sem_agrR c U e' x y hu' hxy) a b hab).isEmpty]
    split
    · exact .single hab
    · exact .nil
  | .repeat e lo hi greedy, a, b, hu, hab => by
    simp only [noRead] at hu
    simp only [sem]
    exact repLoop_agr (sem c e) (fun x y hxy => sem_agrR c U e x y hu hxy) lo hi greedy _ 0 a b hab
  | .delegate inner size casei, a, b, _, hab => by
    simp only [sem, delegateSem, hab.1]
    split
    · split
      · split
        · exact .single (hab.withIx _)
        · exact .nil
      · exact .nil
    · split
      · split
        · exact .single (hab.withIx _)
        · exact .nil
      · exact .nil
  | .backref g, a, b, hu, hab => by
    simp only [noRead, Bool.and_eq_true] at hu
    simp only [sem, hab.slot _ (not_contains hu.1), hab.slot _ (not_contains hu.2), hab.1]
    split
    · split
      · exact .single (hab.withIx _)
      · exact .nil
    · exact .nil
  | .atomic e, a, b, hu, hab => by
    simp only [noRead] at hu
    simp only [sem]
    exact (sem_agrR c U e a b hu hab).firstOnly
  | .keepOut, a, b, _, hab => by
    simp only [sem, hab.1]; exact .single (hab.setSlot _ _)
  | .contPrev, a, b, _, hab => by
    simp only [sem, hab.1]
    split
    · exact .single hab
    · exact .nil
  | .backrefExists g, a, b, hu, hab => by
    simp only [noRead] at hu
    simp only [sem, hab.slot _ (not_contains hu)]
    split
    · exact .single hab
    · exact .nil
  | .cond cnd y n, a, b, hu, hab => by
    simp only [noRead, Bool.and_eq_true] at hu
    simp only [sem]
    rcases (sem_agrR c U cnd a b hu.1.1 hab).head with ⟨h1, h2⟩ | ⟨r, q, h1, h2, hrq⟩
    · rw [h1, h2]; exact sem_agrR c U n a b hu.2 hab
    · rw [h1, h2]; exact sem_agrR c U y r q hu.1.2 hrq
  | .subroutine _, _, _, _, _ => by simp only [sem]; exact .nil
termination_by e => sizeOf e
decreasing_by all_goals (simp_wf; try omega)
theorem semConcat_agrR (c : Ctx) (U : List Nat) :
    ∀ (es : List Expr) (a b : St), noReadAll U es = true → Agr U a b →
      LR (Agr U) (semConcat c es a) (semConcat c es b)
  | [], a, b, _, hab => by simp only [semConcat]; exact .single hab
  | e :: es, a, b, hu, hab => by
    simp only [noReadAll, Bool.and_eq_true] at hu
    simp only [semConcat]
    exact (sem_agrR c U e a b hu.1 hab).flatMap (fun r q hrq => semConcat_agrR c U es r q hu.2 hrq)
termination_by es => sizeOf es
decreasing_by all_goals (simp_wf; try omega)
theorem semAlt_agrR (c : Ctx) (U : List Nat) :
    ∀ (es : List Expr) (a b : St), noReadAll U es = true → Agr U a b →
      LR (Agr U) (semAlt c es a) (semAlt c es b)
  | [], _, _, _, _ => by simp only [semAlt]; exact .nil
  | e :: es, a, b, hu, hab => by
    simp only [noReadAll, Bool.and_eq_true] at hu
    simp only [semAlt]
    exact (sem_agrR c U e a b hu.1 hab).append (semAlt_agrR c U es a b hu.2 hab)
termination_by es => sizeOf es
decreasing_by all_goals (simp_wf; try omega)
end


/-! ## domination of result lists -/

/-- `L'` keeps some elements of `L`, in order; every dropped one is `Agr U`-related to one kept earlier
    (`S`: the elements kept so far) -/
inductive DomAcc (U : List Nat) : List St → List St → List St → Prop where
  | nil {S : List St} : DomAcc U S [] []
  | keep {S : List St} {x : St} {L L' : List St} : DomAcc U (x :: S) L L' → DomAcc U S (x :: L) (x :: L')
  | drop {S : List St} {x : St} {L L' : List St} : (∃ z, z ∈ S ∧ Agr U x z) → DomAcc U S L L' →
      DomAcc U S (x :: L) L'

abbrev Dom (U : List Nat) (L L' : List St) : Prop := DomAcc U [] L L'

theorem DomAcc.mono {U : List Nat} {S S' L L' : List St} (h : DomAcc U S L L') (hs : ∀ z, z ∈ S → z ∈ S') :
    DomAcc U S' L L' := by
  induction h generalizing S' with
  | nil => exact .nil
  | keep _ ih => exact .keep (ih (fun z hz => by
      rcases List.mem_cons.mp hz with rfl | hz
      · simp
      · exact List.mem_cons_of_mem _ (hs z hz)))
  | drop hx _ ih =>
    obtain ⟨z, hz, hxz⟩ := hx
    exact .drop ⟨z, hs z hz, hxz⟩ (ih hs)

theorem DomAcc.refl (U : List Nat) (S L : List St) : DomAcc U S L L := by
  induction L generalizing S with
  | nil => exact .nil
  | cons x xs ih => exact .keep (ih _)

theorem DomAcc.append {U : List Nat} {S L1 L1' L2 L2' : List St} (h1 : DomAcc U S L1 L1')
    (h2 : DomAcc U (L1' ++ S) L2 L2') : DomAcc U S (L1 ++ L2) (L1' ++ L2') := by
  induction h1 with
  | nil => simpa using h2
  | keep _ ih =>
    exact .keep (ih (h2.mono (fun z hz => by
      simp only [List.cons_append, List.mem_cons, List.mem_append] at hz ⊢
      rcases hz with rfl | hz | hz
      · exact Or.inr (Or.inl rfl)
      · exact Or.inl hz
      · exact Or.inr (Or.inr hz))))
  | drop hx _ ih => exact .drop hx (ih h2)

/-- a list all of whose elements are related to something already kept is dropped entirely -/
theorem DomAcc.dropAll {U : List Nat} {S A L L' : List St} (hA : ∀ a, a ∈ A → ∃ z, z ∈ S ∧ Agr U a z)
    (h : DomAcc U S L L') : DomAcc U S (A ++ L) L' := by
  induction A with
  | nil => exact h
  | cons a as ih =>
    exact .drop (hA a (by simp)) (ih (fun x hx => hA x (by simp [hx])))

/-- every element of the full list is related to an element of the kept list or of `S` -/
theorem DomAcc.covered {U : List Nat} {S L L' : List St} (h : DomAcc U S L L') :
    ∀ a, a ∈ L → ∃ z, z ∈ L' ++ S ∧ Agr U a z := by
  induction h with
  | nil => intro a ha; cases ha
  | @keep S x L L' _ ih =>
    intro a ha
    rcases List.mem_cons.mp ha with rfl | ha
    · exact ⟨a, by simp, Agr.refl _ _⟩
    · obtain ⟨z, hz, haz⟩ := ih a ha
      refine ⟨z, ?_, haz⟩
      simp only [List.mem_append, List.mem_cons] at hz ⊢
      rcases hz with hz | rfl | hz
      · exact Or.inl (Or.inr hz)
      · exact Or.inl (Or.inl rfl)
      · exact Or.inr hz
  | drop hx _ ih =>
    intro a ha
    rcases List.mem_cons.mp ha with rfl | ha
    · obtain ⟨z, hz, haz⟩ := hx
      exact ⟨z, by simp [hz], haz⟩
    · exact ih a ha

theorem DomAcc.sub {U : List Nat} {S L L' : List St} (h : DomAcc U S L L') : ∀ a, a ∈ L' → a ∈ L := by
  induction h with
  | nil => intro a ha; cases ha
  | keep _ ih =>
    intro a ha
    rcases List.mem_cons.mp ha with rfl | ha
    · simp
    · exact List.mem_cons_of_mem _ (ih a ha)
  | drop _ _ ih => intro a ha; exact List.mem_cons_of_mem _ (ih a ha)

theorem Dom.head {U : List Nat} {L L' : List St} (h : Dom U L L') : L.head? = L'.head? := by
  cases h with
  | nil => rfl
  | keep _ => rfl
  | drop hx _ => obtain ⟨z, hz, _⟩ := hx; cases hz

theorem Dom.isEmpty {U : List Nat} {L L' : List St} (h : Dom U L L') : L.isEmpty = L'.isEmpty := by
  have := h.head
  cases L <;> cases L' <;> simp_all

theorem Dom.firstOnly {U : List Nat} {L L' : List St} (h : Dom U L L') : firstOnly L = firstOnly L' := by
  simp only [Fancy.firstOnly, h.head]

theorem LR.mem_left {R : St → St → Prop} {l1 l2 : List St} (h : LR R l1 l2) :
    ∀ a, a ∈ l1 → ∃ b, b ∈ l2 ∧ R a b := by
  induction h with
  | nil => intro a ha; cases ha
  | cons hab _ ih =>
    intro a ha
    rcases List.mem_cons.mp ha with rfl | ha
    · exact ⟨_, by simp, hab⟩
    · obtain ⟨b, hb, hr⟩ := ih a ha
      exact ⟨b, List.mem_cons_of_mem _ hb, hr⟩

/-- **closure under `flatMap`**: the continuations `k` (full) and `k'` (atomized) are dominated from every
    state that occurs, and the full continuation is oblivious -/
theorem DomAcc.flatMap {U : List Nat} {S L L' : List St} {k k' : St → List St} (h : DomAcc U S L L')
    (hk : ∀ r, (r ∈ L ∨ r ∈ S) → Dom U (k r) (k' r))
    (hobl : ∀ r z, Agr U r z → LR (Agr U) (k r) (k z)) :
    DomAcc U (S.flatMap k') (L.flatMap k) (L'.flatMap k') := by
  induction h with
  | nil => exact .nil
  | @keep S x L L' _ ih =>
    simp only [List.flatMap_cons]
    refine DomAcc.append ((hk x (Or.inl (by simp))).mono (fun z hz => by cases hz)) ?_
    have := ih (fun r hr => hk r (by
      rcases hr with hr | hr
      · exact Or.inl (List.mem_cons_of_mem _ hr)
      · rcases List.mem_cons.mp hr with rfl | hr
        · exact Or.inl (by simp)
        · exact Or.inr hr))
    simpa [List.flatMap_cons] using this
  | @drop S x L L' hx _ ih =>
    simp only [List.flatMap_cons]
    obtain ⟨z, hz, hxz⟩ := hx
    refine DomAcc.dropAll (fun a ha => ?_) (ih (fun r hr => hk r (by
      rcases hr with hr | hr
      · exact Or.inl (List.mem_cons_of_mem _ hr)
      · exact Or.inr hr)))
    obtain ⟨b, hb, hab⟩ := (hobl x z hxz).mem_left a ha
    obtain ⟨w, hw, hbw⟩ := (hk z (Or.inr hz)).covered b hb
    simp only [List.append_nil] at hw
    exact ⟨w, List.mem_flatMap.mpr ⟨z, hz, hw⟩, hab.trans hbw⟩

theorem Dom.flatMap {U : List Nat} {L L' : List St} {k k' : St → List St} (h : Dom U L L')
    (hk : ∀ r, r ∈ L → Dom U (k r) (k' r))
    (hobl : ∀ r z, Agr U r z → LR (Agr U) (k r) (k z)) :
    Dom U (L.flatMap k) (L'.flatMap k') := by
  have := DomAcc.flatMap h (fun r hr => hk r (by rcases hr with hr | hr; exact hr; cases hr)) hobl
  simpa using this

theorem DomAcc.map {U : List Nat} {S L L' : List St} {f : St → St} (h : DomAcc U S L L')
    (hf : ∀ a z, Agr U a z → Agr U (f a) (f z)) : DomAcc U (S.map f) (L.map f) (L'.map f) := by
  induction h with
  | nil => exact .nil
  | keep _ ih => exact .keep (by simpa using ih)
  | drop hx _ ih =>
    obtain ⟨z, hz, hxz⟩ := hx
    exact .drop ⟨f z, List.mem_map.mpr ⟨z, hz, rfl⟩, hf _ _ hxz⟩ ih

theorem DomAcc.filter {U : List Nat} {S L L' : List St} {p : St → Bool} (h : DomAcc U S L L')
    (hp : ∀ a z, Agr U a z → p a = p z) : DomAcc U (S.filter p) (L.filter p) (L'.filter p) := by
  induction h with
  | nil => exact .nil
  | @keep S x L L' _ ih =>
    simp only [List.filter_cons] at ih ⊢
    split
    · rename_i hx; simp only [hx, if_true] at ih; exact .keep ih
    · rename_i hx; simp only [hx] at ih; exact ih
  | @drop S x L L' hx _ ih =>
    obtain ⟨z, hz, hxz⟩ := hx
    simp only [List.filter_cons]
    split
    · rename_i hpx
      exact .drop ⟨z, List.mem_filter.mpr ⟨hz, by rw [← hp x z hxz]; exact hpx⟩, hxz⟩ ih
    · exact ih

/-- the list version over a plain list: piecewise domination -/
theorem Dom.flatMap_same {α : Type} {U : List Nat} (l : List α) {f g : α → List St}
    (h : ∀ x, x ∈ l → Dom U (f x) (g x)) : Dom U (l.flatMap f) (l.flatMap g) := by
  induction l with
  | nil => exact .nil
  | cons x xs ih =>
    simp only [List.flatMap_cons]
    exact DomAcc.append (h x (by simp)) ((ih (fun y hy => h y (by simp [hy]))).mono (fun z hz => by cases hz))

/-- a run all of whose results are pairwise related is dominated by its first result -/
theorem Dom.firstOf {U : List Nat} (L : List St) (h : ∀ r, r ∈ L → ∀ q, q ∈ L → Agr U r q) :
    Dom U L (Fancy.firstOnly L) := by
  cases L with
  | nil => exact .nil
  | cons x xs =>
    simp only [Fancy.firstOnly, List.head?_cons, Option.toList_some]
    refine .keep ?_
    have : DomAcc U [x] (xs ++ []) [] :=
      DomAcc.dropAll (fun a ha => ⟨x, by simp, h a (by simp [ha]) x (by simp)⟩) .nil
    simpa using this

/-! ## the atomized tree is dominated by the original one -/

theorem atomizeP_easy (br : Nat → Bool) (e : Expr) (hard : Bool) (h : (!hard && !isHard br e) = true) :
    atomizeP br e hard = e := by
  rw [atomizeP.eq_def]; simp only [h, ↓reduceIte]

theorem atomizeAll_eq_map (br : Nat → Bool) : ∀ (es : List Expr), atomizeAll br es = es.map fun e => atomizeP br e true
  | [] => rfl
  | e :: es => by simp only [atomizeAll, List.map_cons, atomizeAll_eq_map br es]

theorem atomizeAlts_eq_map (br : Nat → Bool) (hard : Bool) :
    ∀ (es : List Expr), atomizeAlts br es hard = es.map fun e => atomizeP br e hard
  | [] => rfl
  | e :: es => by simp only [atomizeAlts, List.map_cons, atomizeAlts_eq_map br hard es]

theorem noReadAll_of_mem {U : List Nat} : ∀ (es : List Expr), (∀ e, e ∈ es → noRead U e = true) → noReadAll U es = true
  | [], _ => rfl
  | e :: es, h => by
    simp only [noReadAll, Bool.and_eq_true]
    exact ⟨h e (by simp), noReadAll_of_mem es (fun x hx => h x (by simp [hx]))⟩

theorem s5okAll_mem (br : Nat → Bool) : ∀ (es : List Expr), s5okAll br es = true → ∀ e, e ∈ es → s5ok br e true = true
  | [], _, e, he => by cases he
  | x :: xs, h, e, he => by
    simp only [s5okAll, Bool.and_eq_true] at h
    rcases List.mem_cons.mp he with rfl | he
    · exact h.1
    · exact s5okAll_mem br xs h.2 e he

theorem s5okAlts_mem (br : Nat → Bool) (hard : Bool) :
    ∀ (es : List Expr), s5okAlts br es hard = true → ∀ e, e ∈ es → s5ok br e hard = true
  | [], _, e, he => by cases he
  | x :: xs, h, e, he => by
    simp only [s5okAlts, Bool.and_eq_true] at h
    rcases List.mem_cons.mp he with rfl | he
    · exact h.1
    · exact s5okAlts_mem br hard xs h.2 e he

theorem mem_atzSlotsAll (br : Nat → Bool) : ∀ (es : List Expr) (e : Expr), e ∈ es → ∀ i, i ∈ atzSlots br e true →
    i ∈ atzSlotsAll br es
  | [], e, he, _, _ => by cases he
  | x :: xs, e, he, i, hi => by
    simp only [atzSlotsAll, List.mem_append]
    rcases List.mem_cons.mp he with rfl | he
    · exact Or.inl hi
    · exact Or.inr (mem_atzSlotsAll br xs e he i hi)

theorem mem_atzSlotsAlts (br : Nat → Bool) (hard : Bool) : ∀ (es : List Expr) (e : Expr), e ∈ es →
    ∀ i, i ∈ atzSlots br e hard → i ∈ atzSlotsAlts br es hard
  | [], e, he, _, _ => by cases he
  | x :: xs, e, he, i, hi => by
    simp only [atzSlotsAlts, List.mem_append]
    rcases List.mem_cons.mp he with rfl | he
    · exact Or.inl hi
    · exact Or.inr (mem_atzSlotsAlts br hard xs e he i hi)

theorem wellShapedAll_mem' : ∀ (es : List Expr), wellShapedAll es = true → ∀ e, e ∈ es → wellShaped e = true
  | [], _, e, he => by cases he
  | x :: xs, h, e, he => by
    simp only [wellShapedAll, Bool.and_eq_true] at h
    rcases List.mem_cons.mp he with rfl | he
    · exact h.1
    · exact wellShapedAll_mem' xs h.2 e he

section Main
variable (c : Ctx) (n : Nat) (U : List Nat) (br : Nat → Bool) (hlen : c.len < UNSET)

include hlen in
/-- a delegated run: dominated by its atomized form -/
theorem runDom (X : List Expr) (hw : wellShapedAll X = true) (hcs : constSizeAll X = true)
    (hz : noBareEndZAll X = true) (hU : ∀ i, i ∈ runSlots X → i ∈ U) (st : St) (hg : st.Good c n) :
    Dom U (semConcat c X st) (semConcat c (runA5 X) st) := by
  unfold runA5
  split
  · exact DomAcc.refl _ _ _
  · rename_i hc
    rw [semConcat_atomic_run]
    refine Dom.firstOf _ (fun r hr q hq => ?_)
    have hUo : ∀ i, i ∈ ownSlotsList X → i ∈ U := by
      intro i hi
      apply hU
      simp only [runSlots, hc, ownSlotsListS_eq]
      exact hi
    have hgr := semConcat_good c n _ st r hg hr
    have hgq := semConcat_good c n _ st q hg hq
    have hixr := const_exact_concat c X hw hcs hz st r hr (by have := hgr.ix; omega)
    have hixq := const_exact_concat c X hw hcs hz st q hq (by have := hgq.ix; omega)
    have hfr := semConcat_frame c X st r hr
    have hfq := semConcat_frame c X st q hq
    exact ⟨by omega, hfr.1.trans hfq.1.symm, fun i hi =>
      (hfr.2 i (fun h => hi (hUo i h))).trans (hfq.2 i (fun h => hi (hUo i h))).symm⟩

/-- a concatenation whose children are dominated one by one -/
theorem semConcat_dom_of (f : Expr → Expr) : ∀ (es : List Expr),
    (∀ e, e ∈ es → ∀ st, st.Good c n → Dom U (sem c e st) (sem c (f e) st)) →
    (∀ e, e ∈ es → noRead U e = true) → ∀ st, st.Good c n →
    Dom U (semConcat c es st) (semConcat c (es.map f) st)
  | [], _, _, st, _ => by simp only [List.map_nil, semConcat]; exact DomAcc.refl _ _ _
  | e :: es, hT, hnr, st, hg => by
    simp only [List.map_cons, semConcat]
    refine (hT e (by simp) st hg).flatMap (fun r hr => ?_) (fun r z hrz => ?_)
    · exact semConcat_dom_of f es (fun e' he' => hT e' (by simp [he'])) (fun e' he' => hnr e' (by simp [he']))
        r (sem_good c n e st r hg hr)
    · exact semConcat_agrR c U es r z (noReadAll_of_mem es (fun e' he' => hnr e' (by simp [he']))) hrz

theorem semAlt_dom_of (f : Expr → Expr) : ∀ (es : List Expr),
    (∀ e, e ∈ es → ∀ st, st.Good c n → Dom U (sem c e st) (sem c (f e) st)) → ∀ st, st.Good c n →
    Dom U (semAlt c es st) (semAlt c (es.map f) st)
  | [], _, st, _ => by simp only [List.map_nil, semAlt]; exact .nil
  | e :: es, hT, st, hg => by
    simp only [List.map_cons, semAlt]
    exact DomAcc.append (hT e (by simp) st hg)
      ((semAlt_dom_of f es (fun e' he' => hT e' (by simp [he'])) st hg).mono (fun z hz => by cases hz))

/-- the loop over a dominated body -/
theorem repLoop_dom (body body' : St → List St)
    (hb : ∀ st, st.Good c n → Dom U (body st) (body' st))
    (hobl : ∀ a b, Agr U a b → LR (Agr U) (body a) (body b))
    (hkg : ∀ st r, st.Good c n → r ∈ body st → r.Good c n)
    (lo : Nat) (hi : Option Nat) (greedy : Bool) :
    ∀ (fuel count : Nat) (st : St), st.Good c n →
      Dom U (repLoop body lo hi greedy fuel count st) (repLoop body' lo hi greedy fuel count st)
  | 0, _, _, _ => by simp only [repLoop]; exact .nil
  | fuel + 1, count, st, hg => by
    unfold repLoop
    split
    · exact DomAcc.refl _ _ _
    · have hiters : Dom U
          ((body st).flatMap fun r =>
            if hi.isNone && decide (lo ≤ count) && r.ix == st.ix then [r]
            else repLoop body lo hi greedy fuel (count + 1) r)
          ((body' st).flatMap fun r =>
            if hi.isNone && decide (lo ≤ count) && r.ix == st.ix then [r]
            else repLoop body' lo hi greedy fuel (count + 1) r) := by
        refine (hb st hg).flatMap (fun r hr => ?_) (fun r z hrz => ?_)
        · split
          · exact DomAcc.refl _ _ _
          · exact repLoop_dom body body' hb hobl hkg lo hi greedy fuel (count + 1) r (hkg st r hg hr)
        · rw [hrz.1]
          split
          · exact .single hrz
          · exact repLoop_agr body hobl lo hi greedy fuel (count + 1) r z hrz
      simp only
      split
      · exact hiters
      · split
        · exact DomAcc.append hiters (DomAcc.refl _ _ _)
        · exact .keep (hiters.mono (fun z hz => by cases hz))

theorem behindOne_dom (body body' : St → List St)
    (hb : ∀ st, st.Good c n → Dom U (body st) (body' st)) (st : St) (hg : st.Good c n) :
    Dom U (behindOne body st) (behindOne body' st) := by
  unfold behindOne
  refine Dom.flatMap_same _ (fun k _ => ?_)
  have := (hb { st with ix := st.ix - k } (hg.withIx _ (by have := hg.ix; omega))).filter
    (p := fun r => r.ix == st.ix) (fun a z haz => by rw [haz.1])
  simpa using this

theorem semBehindAlts_dom_of (f : Expr → Expr) : ∀ (es : List Expr),
    (∀ e, e ∈ es → ∀ st, st.Good c n → Dom U (sem c e st) (sem c (f e) st)) → ∀ st, st.Good c n →
    Dom U (semBehindAlts c es st) (semBehindAlts c (es.map f) st)
  | [], _, st, _ => by simp only [List.map_nil, semBehindAlts]; exact .nil
  | e :: es, hT, st, hg => by
    simp only [List.map_cons, semBehindAlts]
    exact DomAcc.append (behindOne_dom c n U _ _ (hT e (by simp)) st hg)
      ((semBehindAlts_dom_of f es (fun e' he' => hT e' (by simp [he'])) st hg).mono (fun z hz => by cases hz))

include hlen in
/-- **the atomized tree is dominated by the original one**, from every good state -/
theorem dom_sem : ∀ (e : Expr) (hard : Bool), s5ok br e hard = true → wellShaped e = true → noRead U e = true →
    (∀ i, i ∈ atzSlots br e hard → i ∈ U) → ∀ st, st.Good c n →
    Dom U (sem c e st) (sem c (atomizeP br e hard) st)
  | e, hard, hok, hw, hnr, hU, st, hg => by
    by_cases hdel : (!hard && !isHard br e) = true
    · rw [atomizeP_easy br e hard hdel]; exact DomAcc.refl _ _ _
    · cases e with
      | concat es =>
        rw [atomizeP]; rw [s5ok] at hok; rw [atzSlots] at hU
        simp only [hdel, Bool.false_eq_true, ↓reduceIte, Bool.and_eq_true] at hok hU ⊢
        simp only [wellShaped] at hw
        simp only [noRead] at hnr
        generalize hsp : concatSplit br es hard = sp at hU ⊢
        have hle := concatSplit_le br es hard
        rw [hsp] at hle
        have hnrm := noReadAll_mem es hnr
        have hrest : es.drop sp.1 = (es.drop sp.1).take (sp.2 - sp.1) ++ es.drop sp.2 := by
          have h1 : es.drop sp.1 = (es.drop sp.1).take (sp.2 - sp.1) ++ (es.drop sp.1).drop (sp.2 - sp.1) :=
            (List.take_append_drop _ _).symm
          have h2 : (es.drop sp.1).drop (sp.2 - sp.1) = es.drop sp.2 := by
            rw [List.drop_drop]; congr 1; omega
          rw [← h2, ← h1]
        have hmidA : ((atomizeAll br es).drop sp.1).take (sp.2 - sp.1) =
            ((es.drop sp.1).take (sp.2 - sp.1)).map fun e => atomizeP br e true := by
          rw [atomizeAll_eq_map, ← List.map_drop, ← List.map_take]
        rw [hmidA]
        -- the three parts of the full semantics
        have hfull : sem c (.concat es) st = (semConcat c (es.take sp.1) st).flatMap fun r =>
            (semConcat c ((es.drop sp.1).take (sp.2 - sp.1)) r).flatMap (semConcat c (es.drop sp.2)) := by
          simp only [sem]
          conv => lhs; rw [← List.take_append_drop sp.1 es]
          rw [semConcat_append]
          congr 1; funext r
          conv => lhs; rw [hrest]
          exact semConcat_append c _ _ r
        rw [hfull]
        simp only [sem]
        rw [semConcat_append]
        have hsuf : ∀ r, r.Good c n →
            Dom U (semConcat c (es.drop sp.2) r)
              (semConcat c (if hard = true then runA5 (es.drop sp.2) else es.drop sp.2) r) := by
          intro r hr
          cases hard with
          | false => exact DomAcc.refl _ _ _
          | true =>
            simp only [if_true]
            exact runDom c n U hlen (es.drop sp.2) (wellShapedAll_drop es sp.2 hw)
              (by rw [← hsp]; exact concatSplit_suffix_constSizeAll br es)
              (noBareEndZAll_drop es sp.2 hok.2)
              (fun i hi => hU i (by simp only [List.mem_append, if_true]; exact Or.inr (Or.inr hi))) r hr
        refine (runDom c n U hlen (es.take sp.1) (wellShapedAll_take es sp.1 hw)
          (by rw [← hsp]; exact concatSplit_prefix_constSizeAll br es hard)
          (noBareEndZAll_take es sp.1 hok.2)
          (fun i hi => hU i (by simp only [List.mem_append]; exact Or.inl hi)) st hg).flatMap
            (fun r hr => ?_) (fun r z hrz => ?_)
        · have hrg := semConcat_good c n _ st r hg hr
          rw [semConcat_append]
          refine (semConcat_dom_of c n U (fun e => atomizeP br e true) ((es.drop sp.1).take (sp.2 - sp.1))
            (fun e' he' st' hg' => ?_) (fun e' he' => hnrm e' (List.mem_of_mem_drop (List.mem_of_mem_take he')))
            r hrg).flatMap (fun r2 hr2 => hsuf r2 (semConcat_good c n _ r r2 hrg hr2))
            (fun r2 z2 h2 => semConcat_agrR c U _ r2 z2
              (noReadAll_of_mem _ (fun e' he' => hnrm e' (List.mem_of_mem_drop he'))) h2)
          have hmem : e' ∈ es := List.mem_of_mem_drop (List.mem_of_mem_take he')
          have := List.sizeOf_lt_of_mem hmem
          exact dom_sem e' true (s5okAll_mem br es hok.1 e' hmem) (wellShapedAll_mem' es hw e' hmem)
            (hnrm e' hmem)
            (fun i hi => hU i (by
              simp only [List.mem_append]
              exact Or.inr (Or.inl (mem_atzSlotsAll br es e' hmem i hi)))) st' hg'
        · have hnr2 : noReadAll U (es.drop sp.1) = true :=
            noReadAll_of_mem _ (fun e' he' => hnrm e' (List.mem_of_mem_drop he'))
          have := semConcat_agrR c U (es.drop sp.1) r z hnr2 hrz
          rw [hrest, semConcat_append, semConcat_append] at this
          exact this
      | alt es =>
        rw [atomizeP]; rw [s5ok] at hok; rw [atzSlots] at hU
        simp only [hdel, Bool.false_eq_true, ↓reduceIte, Bool.and_eq_true] at hok hU ⊢
        simp only [wellShaped, Bool.and_eq_true] at hw
        simp only [noRead] at hnr
        have hnrm := noReadAll_mem es hnr
        rw [atomizeAlts_eq_map]
        simp only [sem]
        refine semAlt_dom_of c n U _ es (fun e' he' st' hg' => ?_) st hg
        have := List.sizeOf_lt_of_mem he'
        exact dom_sem e' hard (s5okAlts_mem br hard es hok.2 e' he') (wellShapedAll_mem' es hw.2 e' he')
          (hnrm e' he') (fun i hi => hU i (mem_atzSlotsAlts br hard es e' he' i hi)) st' hg'
      | group g e =>
        rw [atomizeP]; rw [s5ok] at hok; rw [atzSlots] at hU
        simp only [hdel, Bool.false_eq_true, ↓reduceIte] at hok hU ⊢
        simp only [wellShaped] at hw
        simp only [noRead] at hnr
        simp only [sem]
        have := (dom_sem e hard hok hw hnr hU (st.setSlot (2 * g) (some st.ix)) (hg.setSlot _ _ hg.ix)).map
          (f := fun r => r.setSlot (2 * g + 1) (some r.ix)) (fun a z haz => by rw [haz.1]; exact haz.setSlot _ _)
        simpa using this
      | «repeat» e lo hi greedy =>
        rw [atomizeP]; rw [s5ok] at hok; rw [atzSlots] at hU
        simp only [hdel, Bool.false_eq_true, ↓reduceIte] at hok hU ⊢
        simp only [wellShaped] at hw
        simp only [noRead] at hnr
        simp only [sem]
        refine repLoop_dom c n U (sem c e) _ (fun st' hg' => ?_)
          (fun a b hab => sem_agrR c U e a b hnr hab) (fun st' r hg' hr => sem_good c n e st' r hg' hr)
          lo hi greedy _ 0 st hg
        by_cases hopt : (lo == 0 && hi == some 1) = true
        · simp only [hopt, if_true, Bool.and_eq_true] at hok hU ⊢
          exact dom_sem e hard hok.1 hw hnr hU st' hg'
        · simp only [hopt, Bool.false_eq_true, if_false, Bool.and_eq_true] at hok hU ⊢
          exact dom_sem e true hok.1 hw hnr hU st' hg'
      | look e la =>
        rw [atomizeP]; rw [atzSlots] at hU
        simp only [isHard, Bool.not_true, Bool.and_false, Bool.false_eq_true, ↓reduceIte] at hU ⊢
        simp only [wellShaped] at hw
        simp only [noRead] at hnr
        have hoke : s5ok br e false = true := by
          cases la with
          | ahead =>
            rw [s5ok] at hok
            simp only [isHard, Bool.not_true, Bool.and_false, Bool.false_eq_true, ↓reduceIte, Bool.and_eq_true] at hok
            exact hok.1
          | aheadNeg =>
            rw [s5ok] at hok
            simp only [isHard, Bool.not_true, Bool.and_false, Bool.false_eq_true, ↓reduceIte] at hok
            exact hok
          | behind =>
            rw [s5ok] at hok
            simp only [isHard, Bool.not_true, Bool.and_false, Bool.false_eq_true, ↓reduceIte, Bool.and_eq_true] at hok
            exact hok.1.1
          | behindNeg =>
            rw [s5ok] at hok
            simp only [isHard, Bool.not_true, Bool.and_false, Bool.false_eq_true, ↓reduceIte, Bool.and_eq_true] at hok
            exact hok.1
        have ihe : ∀ st', st'.Good c n → Dom U (sem c e st') (sem c (atomizeP br e false) st') :=
          fun st' hg' => dom_sem e false hoke hw hnr hU st' hg'
        -- the look-behind reading of the body
        have hbeh : ∀ st', st'.Good c n → Dom U (semBehind c e st') (semBehind c (atomizeP br e false) st') := by
          intro st' hg'
          by_cases he : (!false && !isHard br e) = true
          · rw [atomizeP_easy br e false he]; exact DomAcc.refl _ _ _
          · cases e with
            | alt es =>
              have hA : atomizeP br (.alt es) false = .alt (es.map fun e => atomizeP br e false) := by
                rw [atomizeP]; simp only [he, Bool.false_eq_true, ↓reduceIte, atomizeAlts_eq_map]
              rw [hA]
              simp only [semBehind]
              rw [s5ok.eq_def] at hoke; rw [atzSlots.eq_def] at hU
              simp only [he, Bool.false_eq_true, ↓reduceIte, Bool.and_eq_true] at hoke hU
              simp only [wellShaped, Bool.and_eq_true] at hw
              simp only [noRead] at hnr
              have hnrm := noReadAll_mem es hnr
              refine semBehindAlts_dom_of c n U _ es (fun e' he' st2 hg2 => ?_) st' hg'
              have h1 := List.sizeOf_lt_of_mem he'
              exact dom_sem e' false (s5okAlts_mem br false es hoke.2 e' he') (wellShapedAll_mem' es hw.2 e' he')
                (hnrm e' he') (fun i hi => hU i (mem_atzSlotsAlts br false es e' he' i hi)) st2 hg2
            | concat es =>
              have : ∀ x, semBehind c (.concat x) = behindOne (sem c (.concat x)) := fun x => by
                funext s; simp only [semBehind]
              have hA : ∃ y, atomizeP br (.concat es) false = .concat y := by
                rw [atomizeP]; simp only [he, Bool.false_eq_true, ↓reduceIte]; exact ⟨_, rfl⟩
              obtain ⟨y, hy⟩ := hA
              rw [hy, this, this, ← hy]
              exact behindOne_dom c n U _ _ ihe st' hg'
            | group g e1 =>
              have hA : atomizeP br (.group g e1) false = .group g (atomizeP br e1 false) := by
                rw [atomizeP]; simp only [he, Bool.false_eq_true, ↓reduceIte]
              have h1 : semBehind c (.group g e1) = behindOne (sem c (.group g e1)) := by funext s; simp only [semBehind]
              have h2 : semBehind c (.group g (atomizeP br e1 false)) = behindOne (sem c (.group g (atomizeP br e1 false))) := by
                funext s; simp only [semBehind]
              rw [hA, h1, h2, ← hA]
              exact behindOne_dom c n U _ _ ihe st' hg'
            | «repeat» e1 lo hi gr =>
              have hA : ∃ y, atomizeP br (.repeat e1 lo hi gr) false = .repeat y lo hi gr := by
                rw [atomizeP]; simp only [he, Bool.false_eq_true, ↓reduceIte]; exact ⟨_, rfl⟩
              obtain ⟨y, hy⟩ := hA
              have h1 : ∀ x, semBehind c (.repeat x lo hi gr) = behindOne (sem c (.repeat x lo hi gr)) := fun x => by
                funext s; simp only [semBehind]
              rw [hy, h1, h1, ← hy]
              exact behindOne_dom c n U _ _ ihe st' hg'
            | look e1 la1 =>
              have hA : atomizeP br (.look e1 la1) false = .look (atomizeP br e1 false) la1 := by
                rw [atomizeP]; simp only [isHard, Bool.not_true, Bool.and_false, Bool.false_eq_true, ↓reduceIte]
              have h1 : ∀ x, semBehind c (.look x la1) = behindOne (sem c (.look x la1)) := fun x => by
                funext s; simp only [semBehind]
              rw [hA, h1, h1, ← hA]
              exact behindOne_dom c n U _ _ ihe st' hg'
            | atomic e1 =>
              have hA : atomizeP br (.atomic e1) false = .atomic (atomizeP br e1 false) := by
                rw [atomizeP]; simp only [isHard, Bool.not_true, Bool.and_false, Bool.false_eq_true, ↓reduceIte]
              have h1 : ∀ x, semBehind c (.atomic x) = behindOne (sem c (.atomic x)) := fun x => by
                funext s; simp only [semBehind]
              rw [hA, h1, h1, ← hA]
              exact behindOne_dom c n U _ _ ihe st' hg'
            | cond c1 y1 n1 =>
              have hA : ∃ a b d, atomizeP br (.cond c1 y1 n1) false = .cond a b d := by
                rw [atomizeP]; simp only [isHard, Bool.not_true, Bool.and_false, Bool.false_eq_true, ↓reduceIte]
                exact ⟨_, _, _, rfl⟩
              obtain ⟨a, b, d, hy⟩ := hA
              have h1 : ∀ x y z, semBehind c (.cond x y z) = behindOne (sem c (.cond x y z)) := fun x y z => by
                funext s; simp only [semBehind]
              rw [hy, h1, h1, ← hy]
              exact behindOne_dom c n U _ _ ihe st' hg'
            | _ =>
              rw [atomizeP.eq_def]
              simp only [he, Bool.false_eq_true, ↓reduceIte]
              exact DomAcc.refl _ _ _
        cases la with
        | ahead =>
          simp only [sem, (ihe st hg).firstOnly]; exact DomAcc.refl _ _ _
        | aheadNeg =>
          simp only [sem, (ihe st hg).isEmpty]; exact DomAcc.refl _ _ _
        | behind =>
          simp only [sem, (hbeh st hg).firstOnly]; exact DomAcc.refl _ _ _
        | behindNeg =>
          simp only [sem, (hbeh st hg).isEmpty]; exact DomAcc.refl _ _ _
      | atomic e =>
        rw [atomizeP]; rw [s5ok] at hok; rw [atzSlots] at hU
        simp only [isHard, Bool.not_true, Bool.and_false, Bool.false_eq_true, ↓reduceIte, Bool.and_eq_true] at hok hU ⊢
        simp only [wellShaped] at hw
        simp only [noRead] at hnr
        simp only [sem, (dom_sem e false hok.1 hw hnr hU st hg).firstOnly]
        exact DomAcc.refl _ _ _
      | cond cnd y no =>
        rw [atomizeP]; rw [s5ok] at hok; rw [atzSlots] at hU
        simp only [isHard, Bool.not_true, Bool.and_false, Bool.false_eq_true, ↓reduceIte, Bool.and_eq_true] at hok hU ⊢
        simp only [wellShaped, Bool.and_eq_true] at hw
        simp only [noRead, Bool.and_eq_true] at hnr
        have hc := dom_sem cnd hard hok.1.1.1 hw.1.1 hnr.1.1
          (fun i hi => hU i (by simp only [List.mem_append]; exact Or.inl hi)) st hg
        simp only [sem, ← hc.head]
        cases hh : (sem c cnd st).head? with
        | none =>
          exact dom_sem no hard hok.2 hw.2 hnr.2
            (fun i hi => hU i (by simp only [List.mem_append]; exact Or.inr (Or.inr hi))) st hg
        | some r =>
          exact dom_sem y hard hok.1.2 hw.1.2 hnr.1.2
            (fun i hi => hU i (by simp only [List.mem_append]; exact Or.inr (Or.inl hi))) r
            (sem_good c n cnd st r hg (List.mem_of_mem_head? hh))
      | _ =>
        rw [atomizeP.eq_def]
        simp only [hdel, Bool.false_eq_true, ↓reduceIte]
        exact DomAcc.refl _ _ _
termination_by e => sizeOf e
decreasing_by all_goals (simp_wf; try subst_vars; try simp; try omega)

include hlen in
/-- **the two trees have the same first result** -/
theorem atomizeP_head (e : Expr) (hard : Bool) (hok : s5ok br e hard = true) (hw : wellShaped e = true)
    (hnr : noRead U e = true) (hU : ∀ i, i ∈ atzSlots br e hard → i ∈ U) (st : St) (hg : st.Good c n) :
    (sem c (atomizeP br e hard) st).head? = (sem c e st).head? :=
  (dom_sem c n U br hlen e hard hok hw hnr hU st hg).head.symm

end Main

end Fancy
