import FancyModel.Lemmas.AVM2Defs
/-!
# The structured whole-copy machine follows the interpreter: every instruction

`step_sim2`: one instruction of `Model/VM.step` on the undo-log `State` follows `sstep` on the
structured whole-copy configuration it represents (`Inv2`, Lemmas/AuxStack.lean) — for ALL
instructions (`Delegate` under `DelegOK`). `link2` / `link2_initial`: whenever `Big2` ends with an
answer, `runLoop` returns that answer (`Good2`: up to the cells beyond `nS`) or stops for a resource
reason.
-/
namespace Fancy
open State

/-- relation between one concrete and one abstract step -/
inductive StepRel2 (nS : Nat) : StepResult → SCfg → Prop where
  | cont (pc ix : Nat) (s : State) (σ : SState) : Inv2 nS s σ →
      StepRel2 nS (.cont pc ix s) (.run pc ix σ.slots σ.astk σ.stack)
  | fail (s : State) (σ : SState) : Inv2 nS s σ → StepRel2 nS (.fail s) (.fail σ.stack)
  | overflow (cfg : SCfg) : StepRel2 nS (.done .errStack) cfg

/-! ## helpers -/

theorem StepRel2.cont' {nS pc ix : Nat} {s : State} {σ : SState} {sl ak : List Nat} {stk : List SBranch}
    (h : Inv2 nS s σ) (e1 : σ.slots = sl) (e2 : σ.astk = ak) (e3 : σ.stack = stk) :
    StepRel2 nS (.cont pc ix s) (.run pc ix sl ak stk) := by
  subst e1 e2 e3; exact .cont _ _ _ _ h

theorem StepRel2.fail' {nS : Nat} {s : State} {σ : SState} {stk : List SBranch}
    (h : Inv2 nS s σ) (e3 : σ.stack = stk) : StepRel2 nS (.fail s) (.fail stk) := by
  subst e3; exact .fail _ _ h

/-- a `push` followed by a continuation: either the branch-stack cap, or the abstract push -/
theorem sim_pushOr {nS : Nat} {s : State} {σ : SState} (h : Inv2 nS s σ) (pcB ixB pcC ixC : Nat)
    {sl ak : List Nat} {stk : List SBranch} (e1 : σ.slots = sl) (e2 : σ.astk = ak) (e3 : σ.stack = stk) :
    StepRel2 nS (pushOr s pcB ixB fun s' => .cont pcC ixC s')
      (.run pcC ixC sl ak (⟨pcB, ixB, sl, ak⟩ :: stk)) := by
  subst e1 e2 e3
  unfold pushOr
  cases hpush : s.push pcB ixB with
  | overflow => exact .overflow _
  | ok s' =>
    obtain ⟨h2, _⟩ := rep_push h pcB ixB hpush
    exact StepRel2.cont' h2 rfl rfl rfl

/-- `dropUntil` finds the first entry with the pc -/
theorem dropUntil_some (target : Nat) : ∀ (l rest : List SBranch), dropUntil target l = some rest →
    ∃ pre b, pre ++ b :: rest = l ∧ b.pc = target ∧ ∀ x ∈ pre, x.pc ≠ target := by
  intro l
  induction l with
  | nil => intro rest h; simp [dropUntil] at h
  | cons y ys ih =>
    intro rest h
    unfold dropUntil at h
    by_cases hy : y.pc = target
    · simp only [hy, beq_self_eq_true, ↓reduceIte, Option.some.injEq] at h
      subst h
      exact ⟨[], y, rfl, hy, by simp⟩
    · have : (y.pc == target) = false := by simp [hy]
      simp only [this, Bool.false_eq_true, ↓reduceIte] at h
      obtain ⟨pre, b, e, hb, hp⟩ := ih rest h
      refine ⟨y :: pre, b, by simp [e], hb, ?_⟩
      intro z hz
      rcases List.mem_cons.mp hz with rfl | hz
      · exact hy
      · exact hp z hz

/-- `copyGroups` on the undo-log state follows `copyGroupsA` on the ordinary slots, when the two
    oracle results agree on the copied groups -/
theorem copyGroups_sim {nS : Nat} (r r' : St) (sg : Nat) :
    ∀ (n : Nat) (s : State) (σ : SState) (sl' : List Nat), Inv2 nS s σ → (sg + n) * 2 ≤ nS →
      (∀ g, sg ≤ g → g < sg + n →
        r.slot (g * 2) = r'.slot (g * 2) ∧ r.slot (g * 2 + 1) = r'.slot (g * 2 + 1)) →
      copyGroupsA r' sg n σ.slots = some sl' →
      ∃ s', copyGroups r sg n s = some s' ∧ Inv2 nS s' { σ with slots := sl' } := by
  intro n
  induction n with
  | zero =>
    intro s σ sl' h _ _ hc
    simp only [copyGroupsA, Option.some.injEq] at hc
    subst hc
    exact ⟨s, rfl, h⟩
  | succ n ih =>
    intro s σ sl' h hle hag hc
    unfold copyGroupsA at hc
    cases hrec : copyGroupsA r' sg n σ.slots with
    | none => simp [hrec] at hc
    | some sl =>
      obtain ⟨s1, e1, i1⟩ := ih s σ sl h (by omega) (fun g h1 h2 => hag g h1 (by omega)) hrec
      obtain ⟨a1, a2⟩ := hag (sg + n) (by omega) (by omega)
      simp only [hrec] at hc
      unfold copyGroups
      simp only [e1, a1, a2]
      cases hx : r'.slot ((sg + n) * 2) with
      | none =>
        simp only [hx, Option.some.injEq] at hc
        subst hc
        exact ⟨s1, rfl, i1⟩
      | some a =>
        cases hy : r'.slot ((sg + n) * 2 + 1) with
        | none => simp [hx, hy] at hc
        | some b =>
          simp only [hx, hy] at hc
          split at hc
          · cases hc
            obtain ⟨s2, f1, i2, _⟩ := rep_save i1 ((sg + n) * 2) a (by omega)
            obtain ⟨s3, g1, i3, _⟩ := rep_save i2 ((sg + n) * 2 + 1) b (by omega)
            exact ⟨s3, by simp only [f1, Option.bind_some, g1], i3⟩
          · cases hc

/-- capping the start commutes with cutting the vector down to the ordinary slots -/
theorem capSaves_take (flat : List Nat) (pos nS : Nat) (h1 : 1 < nS) (_h2 : nS ≤ flat.length) :
    (capSaves flat pos).take nS = capSaves (flat.take nS) pos := by
  unfold capSaves
  have e1 : (flat.take nS)[1]? = flat[1]? := by rw [List.getElem?_take, if_pos h1]
  have e0 : (flat.take nS)[0]? = flat[0]? := by rw [List.getElem?_take, if_pos (by omega)]
  rw [e1, e0]
  cases flat[1]? with
  | none => rfl
  | some e =>
    cases flat[0]? with
    | none => rfl
    | some s0 => simp only [List.take_set]

/-! ## one instruction -/

/-- one instruction: the concrete step follows the abstract one -/
theorem step_sim2 (c : Ctx) (prog : List Insn) (nS pc ix : Nat) (s : State) (σ : SState) (h : Inv2 nS s σ)
    (hd : DelegOK c prog nS) (cfg' : SCfg)
    (hs : sstep c prog nS pc ix σ.slots σ.astk σ.stack = some cfg') :
    StepRel2 nS (step c prog pc ix s) cfg' := by
  unfold sstep at hs
  unfold step
  cases hp : prog[pc]? with
  | none => simp [hp] at hs
  | some insn =>
    simp only [hp] at hs ⊢
    cases insn with
    | end_ => simp at hs
    | any =>
      simp only at hs ⊢
      cases hc : c.at? ix with
      | none => simp only [hc] at hs ⊢; cases hs; exact .fail s σ h
      | some ch => simp only [hc] at hs ⊢; cases hs; exact .cont _ _ s σ h
    | anyNoNL =>
      simp only at hs ⊢
      cases hc : c.at? ix with
      | none => simp only [hc] at hs ⊢; cases hs; exact .fail s σ h
      | some ch =>
        simp only [hc] at hs ⊢
        by_cases hq : (ch != '\n') = true
        · simp only [hq, ↓reduceIte] at hs ⊢; cases hs; exact .cont _ _ s σ h
        · simp only [hq, Bool.false_eq_true, ↓reduceIte] at hs ⊢; cases hs; exact .fail s σ h
    | lit val =>
      simp only at hs ⊢
      by_cases hq : (c.litAt false val ix) = true
      · simp only [hq, ↓reduceIte] at hs ⊢; cases hs; exact .cont _ _ s σ h
      · simp only [hq, Bool.false_eq_true, ↓reduceIte] at hs ⊢; cases hs; exact .fail s σ h
    | assertion a =>
      simp only at hs ⊢
      by_cases hq : (c.assertion a ix) = true
      · simp only [hq, ↓reduceIte] at hs ⊢; cases hs; exact .cont _ _ s σ h
      · simp only [hq, Bool.false_eq_true, ↓reduceIte] at hs ⊢; cases hs; exact .fail s σ h
    | split x y =>
      simp only [Option.some.injEq] at hs ⊢
      subst hs
      exact sim_pushOr h y ix x ix rfl rfl rfl
    | jmp t => simp only [Option.some.injEq] at hs ⊢; subst hs; exact .cont _ _ s σ h
    | save slot =>
      simp only at hs ⊢
      split at hs
      · rename_i hlt
        cases hs
        obtain ⟨s', h1, h2, _⟩ := rep_save h slot ix hlt
        simp only [h1]
        exact StepRel2.cont' h2 rfl rfl rfl
      · cases hs
    | save0 slot =>
      simp only at hs ⊢
      split at hs
      · rename_i hlt
        cases hs
        obtain ⟨s', h1, h2, _⟩ := rep_save h slot 0 hlt
        simp only [h1]
        exact StepRel2.cont' h2 rfl rfl rfl
      · cases hs
    | restore slot =>
      simp only at hs ⊢
      split at hs
      · rename_i hlt
        rw [rep_get h slot hlt]
        cases hv : σ.slots[slot]? with
        | none => simp [hv] at hs
        | some v =>
          simp only [hv] at hs ⊢
          split at hs
          · cases hs; exact .cont _ _ s σ h
          · cases hs
      · cases hs
    | repeatGr lo hi next rep =>
      simp only at hs ⊢
      split at hs
      · rename_i hlt
        rw [rep_get h rep hlt]
        cases hv : σ.slots[rep]? with
        | none => simp [hv] at hs
        | some cnt =>
          simp only [hv] at hs ⊢
          split at hs
          · rename_i hq
            rw [if_pos hq]; cases hs; exact .cont _ _ s σ h
          · rename_i hq
            rw [if_neg hq]
            obtain ⟨s', h1, h2, _⟩ := rep_save h rep (cnt + 1) hlt
            simp only [h1]
            split at hs
            · cases hs
            · split at hs
              · rename_i hge
                rw [if_pos hge]; cases hs
                exact sim_pushOr h2 next ix (pc + 1) ix rfl rfl rfl
              · rename_i hge
                rw [if_neg hge]; cases hs
                exact StepRel2.cont' h2 rfl rfl rfl
      · cases hs
    | repeatNg lo hi next rep =>
      simp only at hs ⊢
      split at hs
      · rename_i hlt
        rw [rep_get h rep hlt]
        cases hv : σ.slots[rep]? with
        | none => simp [hv] at hs
        | some cnt =>
          simp only [hv] at hs ⊢
          split at hs
          · rename_i hq
            rw [if_pos hq]; cases hs; exact .cont _ _ s σ h
          · rename_i hq
            rw [if_neg hq]
            obtain ⟨s', h1, h2, _⟩ := rep_save h rep (cnt + 1) hlt
            simp only [h1]
            split at hs
            · cases hs
            · split at hs
              · rename_i hge
                rw [if_pos hge]; cases hs
                exact sim_pushOr h2 (pc + 1) ix next ix rfl rfl rfl
              · rename_i hge
                rw [if_neg hge]; cases hs
                exact StepRel2.cont' h2 rfl rfl rfl
      · cases hs
    | repeatEpsGr lo next rep check =>
      simp only at hs ⊢
      split at hs
      · rename_i hlt
        rw [rep_get h rep hlt.1, rep_get h check hlt.2]
        cases hv : σ.slots[rep]? with
        | none => simp [hv] at hs
        | some cnt =>
          cases hw : σ.slots[check]? with
          | none => simp [hv, hw] at hs
          | some chk =>
            simp only [hv, hw] at hs ⊢
            split at hs
            · rename_i hq
              rw [if_pos hq]; cases hs; exact .fail s σ h
            · rename_i hq
              rw [if_neg hq]
              obtain ⟨s', h1, h2, _⟩ := rep_save h rep (cnt + 1) hlt.1
              simp only [h1]
              split at hs
              · rename_i hge
                rw [if_pos hge]; cases hs
                obtain ⟨s'', g1, g2, _⟩ := rep_save h2 check ix hlt.2
                simp only [g1]
                exact sim_pushOr g2 next ix (pc + 1) ix rfl rfl rfl
              · rename_i hge
                rw [if_neg hge]; cases hs
                exact StepRel2.cont' h2 rfl rfl rfl
      · cases hs
    | repeatEpsNg lo next rep check =>
      simp only at hs ⊢
      split at hs
      · rename_i hlt
        rw [rep_get h rep hlt.1, rep_get h check hlt.2]
        cases hv : σ.slots[rep]? with
        | none => simp [hv] at hs
        | some cnt =>
          cases hw : σ.slots[check]? with
          | none => simp [hv, hw] at hs
          | some chk =>
            simp only [hv, hw] at hs ⊢
            split at hs
            · rename_i hq
              rw [if_pos hq]; cases hs; exact .fail s σ h
            · rename_i hq
              rw [if_neg hq]
              obtain ⟨s', h1, h2, _⟩ := rep_save h rep (cnt + 1) hlt.1
              simp only [h1]
              split at hs
              · rename_i hge
                rw [if_pos hge]; cases hs
                obtain ⟨s'', g1, g2, _⟩ := rep_save h2 check ix hlt.2
                simp only [g1]
                exact sim_pushOr g2 (pc + 1) ix next ix rfl rfl rfl
              · rename_i hge
                rw [if_neg hge]; cases hs
                exact StepRel2.cont' h2 rfl rfl rfl
      · cases hs
    | failNegLook =>
      simp only at hs ⊢
      cases hdu : dropUntil (pc + 1) σ.stack with
      | none => simp [hdu] at hs
      | some rest =>
        simp only [hdu, Option.some.injEq] at hs
        subst hs
        obtain ⟨pre, b, e, hb, hpre⟩ := dropUntil_some (pc + 1) σ.stack rest hdu
        obtain ⟨s', e1, e2, _⟩ := rep_popUntil h (pc + 1) pre b rest e hb hpre
        simp only [e1]
        exact StepRel2.fail' e2 rfl
    | goBack n =>
      simp only at hs ⊢
      cases hg : goBack ix n with
      | none => simp only [hg] at hs ⊢; cases hs; exact .fail s σ h
      | some ix' => simp only [hg] at hs ⊢; cases hs; exact .cont _ _ s σ h
    | backref slot =>
      simp only at hs ⊢
      split at hs
      · rename_i hlt
        rw [rep_get h slot (by omega), rep_get h (slot + 1) hlt]
        cases h1 : σ.slots[slot]? with
        | none => simp [h1] at hs
        | some lo =>
          cases h2 : σ.slots[slot + 1]? with
          | none => simp [h1, h2] at hs
          | some hi' =>
            simp only [h1, h2] at hs ⊢
            split at hs
            · cases hs; rename_i hu; rw [if_pos hu]; exact .fail s σ h
            · rename_i hu
              rw [if_neg hu]
              split at hs
              · cases hs; rename_i hg; rw [if_pos hg]; exact .fail s σ h
              · rename_i hg
                rw [if_neg hg]
                split at hs
                · rename_i hq; rw [if_pos hq]; cases hs; exact .cont _ _ s σ h
                · rename_i hq; rw [if_neg hq]; cases hs; exact .fail s σ h
      · cases hs
    | backrefExists g =>
      simp only at hs ⊢
      split at hs
      · rename_i hlt
        rw [rep_get h (g * 2) hlt]
        cases h1 : σ.slots[g * 2]? with
        | none => simp [h1] at hs
        | some lo =>
          simp only [h1] at hs ⊢
          split at hs
          · rename_i hq; rw [if_pos hq]; cases hs; exact .fail s σ h
          · rename_i hq; rw [if_neg hq]; cases hs; exact .cont _ _ s σ h
      · cases hs
    | beginAtomic =>
      simp only [Option.some.injEq] at hs ⊢
      subst hs
      obtain ⟨s', e1, e2, _⟩ := rep_stackPush h s.backtrackCount
      simp only [e1]
      exact StepRel2.cont' e2 rfl (by simp [rep_backtrackCount h]) rfl
    | endAtomic =>
      simp only at hs ⊢
      cases hak : σ.astk with
      | nil => simp [hak] at hs
      | cons count rest =>
        simp only [hak] at hs
        split at hs
        · rename_i hc
          cases hs
          obtain ⟨s1, e1, e2, _⟩ := rep_stackPop h count rest hak
          obtain ⟨s2, g1, g2, _⟩ := rep_cut e2 count hc
          simp only [e1, g1]
          exact StepRel2.cont' g2 rfl rfl rfl
        · cases hs
    | delegate es sg eg =>
      simp only at hs ⊢
      obtain ⟨d1, d2, d3⟩ := hd pc es sg eg hp
      have hrep : Rep nS s.saves σ.slots σ.astk := h.rep.1
      have htake : s.saves.take nS = σ.slots := hrep.2.1
      obtain ⟨q1, q2⟩ := d3 ix s.saves h.len_ge
      rw [htake] at q1 q2
      cases hr' : delegateOracle c es sg eg ix σ.slots with
      | none =>
        simp only [hr'] at hs q1
        cases hs
        cases hr : delegateOracle c es sg eg ix s.saves with
        | none => exact .fail s σ h
        | some r => simp [hr] at q1
      | some r' =>
        simp only [hr'] at hs q1
        cases hr : delegateOracle c es sg eg ix s.saves with
        | none => simp [hr] at q1
        | some r =>
          obtain ⟨p1, p2⟩ := q2 r r' hr hr'
          simp only
          split at hs
          · rename_i hq
            rw [if_pos hq, p1]; cases hs; exact .cont _ _ s σ h
          · rename_i hq
            rw [if_neg hq]
            cases hcg : copyGroupsA r' sg (eg - sg) σ.slots with
            | none => simp [hcg] at hs
            | some sl' =>
              simp only [hcg, Option.some.injEq] at hs
              subst hs
              obtain ⟨s', e1, e2⟩ := copyGroups_sim r r' sg (eg - sg) s σ sl' h
                (by have : sg + (eg - sg) = eg := by omega
                    rw [this]; exact d1)
                (fun g g1 g2 => p2 g g1 (by omega)) hcg
              simp only [e1]
              rw [p1]
              exact StepRel2.cont' e2 rfl rfl rfl
    | contPrev =>
      simp only at hs ⊢
      by_cases hq : (ix != c.pos || c.skipped) = true
      · simp only [hq, ↓reduceIte] at hs ⊢; cases hs; exact .fail s σ h
      · simp only [hq, Bool.false_eq_true, ↓reduceIte] at hs ⊢; cases hs; exact .cont _ _ s σ h

/-! ## the link -/

/-- what "the interpreter follows" means for each kind of configuration -/
def Follows2 (c : Ctx) (prog : List Insn) (nS : Nat) (o : VMOpts) (a : Ans) : SCfg → Prop
  | .run pc ix slots astk stack =>
    ∀ (s : State) (σ : SState), Inv2 nS s σ → σ = ⟨slots, astk, stack⟩ → ∀ (fuel : Nat) (st : Stats),
      Good2 nS (runLoop c prog o fuel pc ix s st).1 a
  | .fail stack =>
    ∀ (s : State) (σ : SState), Inv2 nS s σ → σ.stack = stack → ∀ (fuel : Nat) (st : Stats),
      Good2 nS (afterFail c prog o fuel s st).1 a

/-- **the interpreter follows the structured whole-copy machine** -/
theorem link2 (c : Ctx) (prog : List Insn) (nS : Nat) (o : VMOpts) (hd : DelegOK c prog nS)
    (cfg : SCfg) (a : Ans) (h : Big2 c prog nS cfg a) : Follows2 c prog nS o a cfg := by
  induction h with
  | done pc ix slots astk stack k hend hk hkn hlen =>
    intro s σ hi hσ fuel st
    cases fuel with
    | zero => left; rfl
    | succ fuel =>
      rw [runLoop_succ]
      subst hσ
      have hge := hi.len_ge
      obtain ⟨s', h1, h2⟩ := capStart_saves s hi.inv c.pos (by omega)
      simp only [step, hend, h1]
      right; right; right
      refine ⟨s'.saves, rfl, ?_⟩
      have htake : s.saves.take nS = slots := hi.rep.1.2.1
      have hcs : (capSaves slots c.pos).length = nS := by
        rw [← hlen]; unfold capSaves; split <;> simp
      rw [List.length_take, hcs, Nat.min_eq_left hkn, h2, ← htake, ← capSaves_take s.saves c.pos nS (by omega) hge,
        List.take_take, Nat.min_eq_left hkn]
  | step pc ix slots astk stack cfg' a hstep hbig ih =>
    intro s σ hi hσ fuel st
    cases fuel with
    | zero => left; rfl
    | succ fuel =>
      rw [runLoop_succ]
      subst hσ
      have hrel := step_sim2 c prog nS pc ix s _ hi hd cfg' hstep
      generalize hst : step c prog pc ix s = sr at hrel
      cases hrel with
      | cont pc' ix' s' σ' hi' => exact ih s' σ' hi' rfl fuel _
      | fail s' σ' hi' => exact ih s' σ' hi' rfl fuel _
      | overflow _ => right; left; rfl
  | failEmpty =>
    intro s σ hi hσ fuel st
    unfold afterFail
    have hl := hi.stack_length
    rw [hσ] at hl
    have : s.stack = [] := List.eq_nil_of_length_eq_zero (by simpa using hl.symm)
    simp [this, Good2]
  | failPop b rest a hbig ih =>
    intro s σ hi hσ fuel st
    unfold afterFail
    obtain ⟨s'', h1, h2, h3, _⟩ := rep_pop hi b rest hσ
    have hne : s.stack.isEmpty = false := by
      cases hst : s.stack with
      | nil => rw [hst] at h3; simp at h3
      | cons _ _ => rfl
    simp only [hne, Bool.false_eq_true, ↓reduceIte]
    split
    · right; right; left; rfl
    · simp only [h1]
      exact ih s'' _ h2 rfl fuel _

/-- the form used by the property theorems: from the initial state of a run -/
theorem link2_initial (c : Ctx) (p : Prog) (o : VMOpts) (hd : DelegOK c p.body p.nSaves) (a : Ans)
    (h : Big2 c p.body p.nSaves (.run 0 c.pos (List.replicate p.nSaves UNSET) [] []) a) (fuel : Nat) :
    Good2 p.nSaves (run c p o fuel).1 a :=
  link2 c p.body p.nSaves o hd _ a h _ _ (inv2_init p.nSaves o.maxStack) rfl fuel {}

/-! ## a concrete non-trivial instance: the hypotheses of the theorems are satisfiable

`exProg` (2 ordinary slots): save the start, an atomic group around a `split` (pushes a branch that
`EndAtomic` cuts away again, via the auxiliary stack), a `Delegate` of the empty concatenation over
group 0, save the end, `End`. -/

def exProg : List Insn :=
  [.save 0, .beginAtomic, .split 3 3, .endAtomic, .delegate [] 0 1, .save 1, .end_]

/-- `DelegOK` holds of a program with a real `Delegate` -/
theorem exDelegOK (c : Ctx) : DelegOK c exProg 2 := by
  intro pc es sg eg hp
  have hpc : pc = 4 ∧ es = [] ∧ sg = 0 ∧ eg = 1 := by
    match pc, hp with
    | 0, hp => simp [exProg] at hp
    | 1, hp => simp [exProg] at hp
    | 2, hp => simp [exProg] at hp
    | 3, hp => simp [exProg] at hp
    | 4, hp => simp [exProg] at hp; simp [hp]
    | 5, hp => simp [exProg] at hp
    | 6, hp => simp [exProg] at hp
    | n + 7, hp => simp [exProg] at hp
  obtain ⟨rfl, rfl, rfl, rfl⟩ := hpc
  refine ⟨by decide, by decide, ?_⟩
  intro ix flat hl
  refine ⟨by simp [delegateOracle, semKConcat], ?_⟩
  intro r r' hr hr'
  simp only [delegateOracle, semKConcat, Option.some.injEq] at hr hr'
  subst hr hr'
  refine ⟨rfl, ?_⟩
  intro g _ hg
  have : g = 0 := by omega
  subst this
  have h0 : 0 < flat.length := by omega
  have h1 : 1 < flat.length := by omega
  simp [St.slot, clearGroups, viewSlots, Nat.min_eq_left hl, h0, h1]

/-- the hypotheses of `step_sim2` on the state `exS` of Lemmas/AuxStack.lean (one pending
    alternative, one entry on the auxiliary stack), at the `BeginAtomic` of `exProg` -/
example (c : Ctx) : StepRel2 2 (step c exProg 1 7 exS) (.run 2 7 [7, 8] [1, 9] [⟨5, 1, [7, 8], []⟩]) :=
  step_sim2 c exProg 2 1 7 exS exσ exInv2 (exDelegOK c) _ rfl

/-- a complete run of `exProg` on the structured machine -/
theorem exBig2 (c : Ctx) :
    Big2 c exProg 2 (.run 0 c.pos (List.replicate 2 UNSET) [] []) (.matched [c.pos, c.pos]) := by
  refine .step _ _ _ _ _ _ _ (by rfl : sstep c exProg 2 0 _ _ _ _ = some _) ?_
  refine .step _ _ _ _ _ _ _ (by rfl : sstep c exProg 2 1 _ _ _ _ = some _) ?_
  refine .step _ _ _ _ _ _ _ (by rfl : sstep c exProg 2 2 _ _ _ _ = some _) ?_
  refine .step _ _ _ _ _ _ _ (by rfl : sstep c exProg 2 3 _ _ _ _ = some _) ?_
  show Big2 c exProg 2 (.run 4 c.pos [c.pos, UNSET] [] []) _
  have h4 : sstep c exProg 2 4 c.pos [c.pos, UNSET] [] [] = some (.run 5 c.pos [c.pos, UNSET] [] []) := by
    simp [sstep, exProg, delegateOracle, semKConcat, copyGroupsA, St.slot, clearGroups, viewSlots]
  refine .step _ _ _ _ _ _ _ h4 ?_
  refine .step _ _ _ _ _ _ _ (by rfl : sstep c exProg 2 5 _ _ _ _ = some _) ?_
  have := Big2.done (c := c) (prog := exProg) (nS := 2) 6 c.pos [c.pos, c.pos] [] [] 2 rfl (by decide) (by decide) rfl
  simpa [capSaves] using this

example (c : Ctx) (o : VMOpts) : Follows2 c exProg 2 o (.matched [c.pos, c.pos])
    (.run 0 c.pos (List.replicate 2 UNSET) [] []) :=
  link2 c exProg 2 o (exDelegOK c) _ _ (exBig2 c)

example (c : Ctx) (o : VMOpts) (fuel : Nat) :
    Good2 2 (run c ⟨exProg, 2⟩ o fuel).1 (.matched [c.pos, c.pos]) :=
  link2_initial c ⟨exProg, 2⟩ o (exDelegOK c) _ (exBig2 c) fuel

end Fancy
