import FancyModel.Lemmas.SimCompile3
import FancyModel.Proofs.C01b
/-!
# Stage S4, machine half: the delegated runs of the TOP-LEVEL concatenation may own capture groups

Stage S3 (`s3ok`, Spec/Stage.lean) demands of the constant-size easy prefix / suffix run of a
concatenation, which the compiler hands to the automata engine as ONE `Delegate` (first result only),
that it owns no capture group or is linear. Here the demand is dropped for the concatenation at the
top of the pattern (`raw = .concat es`): the compiled code simulates the semantics of the tree in which
such a run is wrapped in an atomic group — `runA`, `concatA` — because `Delegate es` simulates
`firstOnly (semConcat c es ·)` under every continuation (`sim2_delegate_first`). `sim4_wrapped`: the code
of the wrapped pattern `(?s:.)*?(raw)` simulates `sem c (wrapA br es)`.

The semantic half (`Lemmas/Atomize.lean`): the atomized tree has the same first result as the original
one when the groups of the atomized runs are referenced nowhere.
-/
namespace Fancy

/-- a delegated run as the machine sees it: kept when all its results are one state anyway (stage S3),
    wrapped in an atomic group otherwise -/
def runA (es : List Expr) : List Expr :=
  if groupCountList es == 0 || linearAll es then es else [.atomic (.concat es)]

/-- the top-level concatenation with its delegated runs atomized (hard context) -/
def concatA (br : Nat → Bool) (es : List Expr) : Expr :=
  .concat (runA (es.take (concatSplit br es true).1) ++
    ((es.drop (concatSplit br es true).1).take ((concatSplit br es true).2 - (concatSplit br es true).1) ++
      runA (es.drop (concatSplit br es true).2)))

/-- the wrapped pattern `(?s:.)*?(raw)` with the runs of `raw = .concat es` atomized -/
def wrapA (br : Nat → Bool) (es : List Expr) : Expr :=
  .concat [.repeat (.any true) 0 none false, .group 0 (concatA br es)]

theorem semConcat_atomic_run (c : Ctx) (es : List Expr) (st : St) :
    semConcat c [.atomic (.concat es)] st = firstOnly (semConcat c es st) := by
  rw [semConcat_singleton]
  simp only [sem]

mutual
theorem groupCount_of_isLiteral : ∀ (e : Expr), isLiteral e = true → groupCount e = 0
  | .literal _ _, _ => rfl
  | .concat es, h => by
    simp only [isLiteral] at h; simp only [groupCount]; exact groupCountList_of_isLiteralAll es h
  | .empty, h => by simp [isLiteral] at h
  | .any _, h => by simp [isLiteral] at h
  | .assertion _, h => by simp [isLiteral] at h
  | .alt _, h => by simp [isLiteral] at h
  | .group _ _, h => by simp [isLiteral] at h
  | .look _ _, h => by simp [isLiteral] at h
  | .repeat _ _ _ _, h => by simp [isLiteral] at h
  | .delegate _ _ _, h => by simp [isLiteral] at h
  | .backref _, h => by simp [isLiteral] at h
  | .atomic _, h => by simp [isLiteral] at h
  | .keepOut, h => by simp [isLiteral] at h
  | .contPrev, h => by simp [isLiteral] at h
  | .backrefExists _, h => by simp [isLiteral] at h
  | .cond _ _ _, h => by simp [isLiteral] at h
  | .subroutine _, h => by simp [isLiteral] at h
theorem groupCountList_of_isLiteralAll : ∀ (es : List Expr), isLiteralAll es = true → groupCountList es = 0
  | [], _ => rfl
  | e :: es, h => by
    simp only [isLiteralAll, Bool.and_eq_true] at h
    simp only [groupCountList, groupCount_of_isLiteral e h.1, groupCountList_of_isLiteralAll es h.2]
end

/-- a run emitted by `compile_delegates` in a position whose continuation may come back, with NO demand
    on its capture groups: the code simulates the atomized run -/
theorem sim4_run (c : Ctx) (n nS : Nat) (prog : List Insn) (lo hi : Nat) (bal cm : Bool) (br : Nat → Bool)
    (es : List Expr) (gix a : Nat) (hlen : c.len < UNSET) (h : H3L n es gix) (heasy : isHardAny br es = false)
    (hcs : constSizeAll es = true) (hz : noBareEndZAll es = true)
    (hc : CodeAt prog a (compileDelegates es gix)) :
    Sim2 c n nS prog lo hi bal cm (semConcat c (runA es)) a (a + (compileDelegates es gix).length) := by
  by_cases hg0 : (groupCountList es == 0 || linearAll es) = true
  · simp only [runA, hg0, if_true]
    refine sim3_run c n nS prog lo hi bal cm br es gix a hlen h heasy hcs hz ?_ hc
    simpa using hg0
  · simp only [runA, hg0]
    have hgc : groupCountList es ≠ 0 := by
      intro h0; apply hg0; simp [h0]
    unfold compileDelegates at hc ⊢
    by_cases he : es.isEmpty = true
    · have : es = [] := by simpa using he
      subst this; exact absurd rfl hgc
    · by_cases hl : isLiteralAll es = true
      · exact absurd (groupCountList_of_isLiteralAll es hl) hgc
      · simp only [he, hl, Bool.false_eq_true, ↓reduceIte, List.length_cons, List.length_nil, Nat.zero_add] at hc ⊢
        have hp := pureAll_of_not_hard br es heasy
        have := sim2_delegate_first (lo := lo) (hi := hi) (bal := bal) (cm := cm) (nS := nS) hc.head hlen hp
          (numberedList_groupsIn es gix h.num) h.gn
        exact this.congr (fun st => (semConcat_atomic_run c es st).symm)

/-- **the top-level concatenation, hard context**: every child as in stage S3, no demand on the runs -/
theorem sim4_concat (c : Ctx) (n nS : Nat) (br : Nat → Bool) (hlen : c.len < UNSET)
    (es : List Expr) (pc nsv gix : Nat) (code : Code) (nsv' : Nat) (prog : List Insn)
    (hokAll : s3okAll br es = true) (hzAll : noBareEndZAll es = true) (h3 : H3 n (.concat es) gix)
    (hv : visit br (.concat es) true pc nsv gix = .ok (code, nsv')) (hc : CodeAt prog pc code) (hnn : n ≤ nsv) :
    nsv ≤ nsv' ∧ (nsv' ≤ nS → ∀ cm,
      Sim2 c n nS prog nsv nsv' (condFree (.concat es)) cm (sem c (concatA br es)) pc (pc + code.length)) := by
  rw [visit] at hv
  simp only [Bool.not_true, Bool.false_and, Bool.false_eq_true, ↓reduceIte] at hv
  have hL := h3.concat
  generalize hsp : concatSplit br es true = sp at hv
  have hle := concatSplit_le br es true
  rw [hsp] at hle
  rw [visitMiddle_skip] at hv
  cases hb : visitMiddle br (es.drop sp.1) 0 (sp.2 - sp.1)
      (pc + (compileDelegates (es.take sp.1) gix).length) nsv (gix + groupCountList (es.take sp.1)) with
  | error err => simp [hb] at hv
  | ok p =>
    obtain ⟨mid, nsv1⟩ := p
    simp only [hb, Except.ok.injEq, Prod.mk.injEq] at hv
    obtain ⟨rfl, rfl⟩ := hv
    have hcpre := hc.left.left
    have hcmid : CodeAt prog (pc + (compileDelegates (es.take sp.1) gix).length) mid := hc.left.right
    have hcsuf := hc.right
    obtain ⟨hle2, s2⟩ := sim3_visitMiddle c n nS br hlen (es.drop sp.1) (sp.2 - sp.1) _ nsv _ mid nsv1 prog
      (s3okAll_drop br es sp.1 hokAll) (hL.drop sp.1) hb hcmid hnn
    refine ⟨hle2, fun hnS cm => ?_⟩
    have hpfx : ∀ cmx, Sim2 c n nS prog nsv nsv (condFree (.concat es)) cmx (semConcat c (runA (es.take sp.1))) pc
        (pc + (compileDelegates (es.take sp.1) gix).length) := fun cmx =>
      sim4_run c n nS prog nsv nsv _ cmx br (es.take sp.1) gix pc hlen (hL.take sp.1)
        (by rw [← hsp]; exact concatSplit_prefix_isHardAny br es true)
        (by rw [← hsp]; exact concatSplit_prefix_constSizeAll br es true)
        (noBareEndZAll_take es sp.1 hzAll) hcpre
    have s3 : Sim2 c n nS prog nsv1 nsv1 (condFree (.concat es)) cm (semConcat c (runA (es.drop sp.2)))
        (pc + (compileDelegates (es.take sp.1) gix).length + mid.length)
        (pc + (compileDelegates (es.take sp.1) gix).length + mid.length +
          (compileDelegates (es.drop sp.2) (gix + groupCountList (es.take sp.2))).length) :=
      sim4_run c n nS prog nsv1 nsv1 _ cm br (es.drop sp.2) _ _ hlen (hL.drop sp.2)
        (by rw [← hsp]; exact concatSplit_suffix_isHardAny br es true)
        (by rw [← hsp]; exact concatSplit_suffix_constSizeAll br es)
        (noBareEndZAll_drop es sp.2 hzAll) (hcsuf.cast (by addr))
    have s2' := ((s2 hnS false (Or.inl rfl)).balTo (b2 := condFree (.concat es)) (by
      intro hb2
      simp only [condFree] at hb2
      have := condFreeAll_drop es sp.1 hb2
      simpa using condFreeAll_take _ _ this))
    have key := ((hpfx false).seq (s2'.seq s3 (keepsGood_semConcat c n _) hle2 (Nat.le_refl _) (by addr) (by addr))
      (keepsGood_semConcat c n _) (Nat.le_refl _) hle2 (by addr) (by addr))
    have := key.congr (g := sem c (concatA br es)) (fun st => by
      simp only [concatA, sem, hsp]
      rw [semConcat_append]
      congr 1; funext r; rw [semConcat_append])
    exact this.cast rfl (by addr)

/-- **the wrapped pattern**: `(?s:.)*?(raw)` with `raw = .concat es` hard — the code `compile` emits
    simulates `sem c (wrapA br es)` under committing continuations -/
theorem sim4_wrapped (c : Ctx) (n nS : Nat) (br : Nat → Bool) (hlen : c.len < UNSET)
    (es : List Expr) (pc nsv : Nat) (code : Code) (nsv' : Nat) (prog : List Insn)
    (hhard : isHard br (.concat es) = true)
    (hokAll : s3okAll br es = true) (hzAll : noBareEndZAll es = true)
    (h3 : H3 n (.concat [.repeat (.any true) 0 none false, .group 0 (.concat es)]) 0)
    (hv : visit br (.concat [.repeat (.any true) 0 none false, .group 0 (.concat es)]) false pc nsv 0 = .ok (code, nsv'))
    (hc : CodeAt prog pc code) (hnn : n ≤ nsv) :
    nsv ≤ nsv' ∧ (nsv' ≤ nS →
      Sim2 c n nS prog nsv nsv' false true (sem c (wrapA br es)) pc (pc + code.length)) := by
  have hany : isHardAny br es = true := by simpa [isHard] using hhard
  have hgh : isHard br (.group 0 (.concat es)) = true := by simp [isHard, hany]
  have hwh : isHard br (.concat [.repeat (.any true) 0 none false, .group 0 (.concat es)]) = true := by
    simp [isHard, isHardAny, hany]
  have hspw := concatSplit_wrapped br (.concat es) 0 hgh
  rw [visit] at hv
  simp only [hwh, Bool.not_true, Bool.and_false, Bool.false_eq_true, ↓reduceIte, hspw] at hv
  have hcd : ∀ g, compileDelegates [] g = [] := by intro g; simp [compileDelegates]
  simp only [List.take_zero, List.drop_zero, Nat.sub_zero, visitMiddle, hcd, List.length_nil, Nat.add_zero,
    groupCountList, groupCount, List.nil_append, Nat.zero_add] at hv
  cases hb1 : visit br (.repeat (.any true) 0 none false) true pc nsv 0 with
  | error err => simp [hb1] at hv
  | ok p1 =>
    obtain ⟨c1, nsv1⟩ := p1
    simp only [hb1] at hv
    cases hb2 : visit br (.group 0 (.concat es)) true (pc + c1.length) nsv1 0 with
    | error err => simp [hb2] at hv
    | ok p2 =>
      obtain ⟨c2, nsv2⟩ := p2
      have hd2 : List.drop 2 [Expr.repeat (.any true) 0 none false, Expr.group 0 (.concat es)] = [] := rfl
      simp only [hb2, hd2, hcd, List.append_nil, Except.ok.injEq, Prod.mk.injEq] at hv
      obtain ⟨rfl, rfl⟩ := hv
      have hL := h3.concat
      obtain ⟨h3r, hLs⟩ := hL.cons
      obtain ⟨h3g, _⟩ := hLs.cons
      have hgz : groupCount (.repeat (.any true) 0 none false) = 0 := by simp [groupCount]
      rw [hgz, Nat.add_zero] at h3g
      -- the lazy `.*?`
      have hokr : s3ok br (.repeat (.any true) 0 none false) true = true := by
        simp [s3ok, minSize]
      have hcr : CodeAt prog pc c1 := hc.left
      obtain ⟨hle1, s1⟩ := sim3_visit c n nS br hlen _ true pc nsv 0 c1 nsv1 prog hokr h3r hb1 hcr hnn
      -- the group around the top-level concatenation
      rw [visit] at hb2
      simp only [Bool.not_true, Bool.false_and, Bool.false_eq_true, ↓reduceIte] at hb2
      cases hb3 : visit br (.concat es) true (pc + c1.length + 1) nsv1 (0 + 1) with
      | error err => simp [hb3] at hb2
      | ok p3 =>
        obtain ⟨code3, nsv3⟩ := p3
        simp only [hb3, Except.ok.injEq, Prod.mk.injEq] at hb2
        obtain ⟨rfl, rfl⟩ := hb2
        obtain ⟨_, h3e⟩ := h3g.group
        have hsb := h3g.sb
        simp only [slotsBelow, Bool.and_eq_true, decide_eq_true_eq] at hsb
        have hcg : CodeAt prog (pc + c1.length) ([Insn.save (0 * 2)] ++ code3 ++ [Insn.save (0 * 2 + 1)]) := hc.right
        have hc3 : CodeAt prog (pc + c1.length + 1) code3 := hcg.left.right.cast (by addr)
        obtain ⟨hle3, ih⟩ := sim4_concat c n nS br hlen es (pc + c1.length + 1) nsv1 (0 + 1) code3 nsv3 prog
          hokAll hzAll h3e hb3 hc3 (by omega)
        refine ⟨by omega, fun hnS => ?_⟩
        have hsave2 : prog[pc + c1.length + 1 + code3.length]? = some (.save (0 * 2 + 1)) := hcg.right.head_at (by addr)
        have sg := sim2_group_cm (cm := true) (g := 0) hcg.left.left.head hsave2 (ih hnS true) hsb.1 (by omega) hle3
        have s1' := (s1 (by omega) false (Or.inl rfl)).balTo (b2 := false) (by intro h; cases h)
        have sg' := sg.balTo (b2 := false) (by intro h; cases h)
        have := (s1'.seq sg' (keepsGood_sem c n _) hle1 hle3 (by omega) (by omega)).congr
          (g := sem c (wrapA br es)) (fun st => by
            simp only [wrapA, sem, semConcat]
            congr 1; funext r
            exact (semConcat_singleton c _ r).symm)
        exact this.cast rfl (by addr)

end Fancy
