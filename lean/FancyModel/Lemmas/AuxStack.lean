import FancyModel.Lemmas.StateRefine
import FancyModel.Model.VM
/-!
# The auxiliary stack inside the slot vector

`vm::State` keeps the auxiliary stack of `BeginAtomic` / `EndAtomic` inside the `saves` vector:
cell `nS = explicit_sp` holds the stack pointer, the entries live in the cells `nS+1 .. sp-1`.
This file adds a second abstraction layer above `abs` (Lemmas/StateRefine.lean): an `SState` has the
`nS` ordinary slots, the auxiliary stack as a separate list, and a branch stack of whole copies of
both. `Rep` relates a flat slot vector to `(slots, astk)`; `RepA` relates a whole-copy state to an
`SState`; `Inv2` bundles everything that is preserved by the operations of `State`.
-/
namespace Fancy
open State

structure SBranch where
  pc : Nat
  ix : Nat
  slots : List Nat      -- the first nS cells: capture slots and loop counters
  astk : List Nat       -- auxiliary stack, top at the head
deriving DecidableEq, Repr

structure SState where
  slots : List Nat
  astk : List Nat
  stack : List SBranch  -- top at the head
deriving DecidableEq, Repr

/-- `flat` (a slot vector of the concrete / `AState` level) represents `(slots, astk)`.
    Cells above the stack pointer are unconstrained (growth is never undone). -/
def Rep (nS : Nat) (flat slots astk : List Nat) : Prop :=
  slots.length = nS ∧ flat.take nS = slots ∧
  ((flat.length = nS ∧ astk = []) ∨
   (nS < flat.length ∧ flat[nS]? = some (nS + 1 + astk.length) ∧ nS + 1 + astk.length ≤ flat.length ∧
    ∀ i, i < astk.length → flat[nS + 1 + i]? = astk.reverse[i]?))

/-- pointwise relation between the whole-copy branch stack and the `SBranch` stack -/
def RepStack (nS : Nat) : List ABranch → List SBranch → Prop
  | [], [] => True
  | a :: as, b :: bs => a.pc = b.pc ∧ a.ix = b.ix ∧ Rep nS a.saves b.slots b.astk ∧ RepStack nS as bs
  | _, _ => False

/-- the whole-copy state `a` represents `σ` -/
def RepA (nS : Nat) (a : AState) (σ : SState) : Prop :=
  Rep nS a.saves σ.slots σ.astk ∧ RepStack nS a.stack σ.stack

/-- everything the operations preserve -/
structure Inv2 (nS : Nat) (s : State) (σ : SState) : Prop where
  inv : Inv s
  sp : s.explicitSp = nS
  rep : RepA nS (abs s) σ

/-! ## `Rep` -/

theorem Rep.len_ge {nS : Nat} {flat sl ak : List Nat} (h : Rep nS flat sl ak) : nS ≤ flat.length := by
  obtain ⟨h1, h2, _⟩ := h
  have := congrArg List.length h2
  simp only [List.length_take] at this
  omega

theorem Rep.get {nS : Nat} {flat sl ak : List Nat} (h : Rep nS flat sl ak) (slot : Nat) (hs : slot < nS) :
    flat[slot]? = sl[slot]? := by
  obtain ⟨_, h2, _⟩ := h
  rw [← h2, List.getElem?_take, if_pos hs]

/-- the `nS` ordinary slots: writing one of them -/
theorem Rep.set_low {nS : Nat} {flat sl ak : List Nat} (h : Rep nS flat sl ak) (slot v : Nat) (hs : slot < nS) :
    Rep nS (flat.set slot v) (sl.set slot v) ak := by
  obtain ⟨h1, h2, h3⟩ := h
  refine ⟨by simpa using h1, by rw [List.take_set, h2], ?_⟩
  rcases h3 with ⟨a, b⟩ | ⟨a, b, c, d⟩
  · left; exact ⟨by simpa using a, b⟩
  · right
    refine ⟨by simpa using a, ?_, by simpa using c, ?_⟩
    · rw [List.getElem?_set_ne (by omega)]; exact b
    · intro i hi
      rw [List.getElem?_set_ne (by omega)]; exact d i hi

/-- writing a cell at or above the stack pointer changes nothing -/
theorem Rep.set_above {nS : Nat} {flat sl ak : List Nat} (h : Rep nS flat sl ak) (j v : Nat)
    (hj : nS + 1 + ak.length ≤ j) : Rep nS (flat.set j v) sl ak := by
  obtain ⟨h1, h2, h3⟩ := h
  refine ⟨h1, by rw [List.take_set_of_le (by omega)]; exact h2, ?_⟩
  rcases h3 with ⟨a, b⟩ | ⟨a, b, c, d⟩
  · left; exact ⟨by simpa using a, b⟩
  · right
    refine ⟨by simpa using a, ?_, by simpa using c, ?_⟩
    · rw [List.getElem?_set_ne (by omega)]; exact b
    · intro i hi
      rw [List.getElem?_set_ne (by omega)]; exact d i hi

/-- the first (unlogged) growth: the cell for the stack pointer -/
theorem Rep.append_first {nS : Nat} {flat sl ak : List Nat} (h : Rep nS flat sl ak) (hl : flat.length = nS) :
    Rep nS (flat ++ [nS + 1]) sl ak := by
  obtain ⟨h1, h2, h3⟩ := h
  refine ⟨h1, by rw [List.take_append_of_le_length (by omega)]; exact h2, ?_⟩
  rcases h3 with ⟨_, b⟩ | ⟨a, _⟩
  · right
    subst b
    refine ⟨by simp; omega, ?_, by simp; omega, by intro i hi; simp at hi⟩
    rw [List.getElem?_append_right (by omega)]
    simp [hl]
  · omega

/-- any later (unlogged) growth -/
theorem Rep.append_grown {nS : Nat} {flat sl ak : List Nat} (h : Rep nS flat sl ak) (hl : nS < flat.length)
    (x : Nat) : Rep nS (flat ++ [x]) sl ak := by
  obtain ⟨h1, h2, h3⟩ := h
  refine ⟨h1, by rw [List.take_append_of_le_length (by omega)]; exact h2, ?_⟩
  rcases h3 with ⟨a, _⟩ | ⟨a, b, c, d⟩
  · omega
  · right
    refine ⟨by simp; omega, ?_, by simp; omega, ?_⟩
    · rw [List.getElem?_append_left (by omega)]; exact b
    · intro i hi
      rw [List.getElem?_append_left (by omega)]; exact d i hi

/-- the logged write of the stack pointer that completes a `stack_push` -/
theorem Rep.commit_push {nS : Nat} {flat sl ak : List Nat} (h : Rep nS flat sl ak) (v : Nat)
    (hv : flat[nS + 1 + ak.length]? = some v) :
    Rep nS (flat.set nS (nS + 1 + ak.length + 1)) sl (v :: ak) := by
  have hlen : nS + 1 + ak.length < flat.length := by
    rcases Nat.lt_or_ge (nS + 1 + ak.length) flat.length with h | h
    · exact h
    · rw [List.getElem?_eq_none h] at hv; cases hv
  obtain ⟨h1, h2, h3⟩ := h
  refine ⟨h1, by rw [List.take_set_of_le (Nat.le_refl _)]; exact h2, ?_⟩
  rcases h3 with ⟨a, _⟩ | ⟨a, b, c, d⟩
  · omega
  · right
    refine ⟨by simpa using a, ?_, by simp; omega, ?_⟩
    · rw [List.getElem?_set_self a]; simp; omega
    · intro i hi
      rw [List.getElem?_set_ne (by omega)]
      simp only [List.length_cons] at hi
      simp only [List.reverse_cons]
      by_cases hi' : i < ak.length
      · rw [List.getElem?_append_left (by simpa using hi')]; exact d i hi'
      · have : i = ak.length := by omega
        subst this
        rw [List.getElem?_append_right (by simp)]
        simpa using hv

/-- what a non-empty auxiliary stack looks like, and the logged write that completes `stack_pop` -/
theorem Rep.commit_pop {nS : Nat} {flat sl rest : List Nat} {v : Nat} (h : Rep nS flat sl (v :: rest)) :
    flat[nS]? = some (nS + 1 + rest.length + 1) ∧ flat[nS + 1 + rest.length]? = some v ∧
    nS < flat.length ∧
    Rep nS (flat.set nS (nS + 1 + rest.length)) sl rest := by
  obtain ⟨h1, h2, h3⟩ := h
  rcases h3 with ⟨_, b⟩ | ⟨a, b, c, d⟩
  · cases b
  · simp only [List.length_cons] at b c d
    refine ⟨by rw [b]; rfl, ?_, a, h1, by rw [List.take_set_of_le (Nat.le_refl _)]; exact h2, ?_⟩
    · have := d rest.length (by omega)
      rw [this, List.reverse_cons, List.getElem?_append_right (by simp)]
      simp
    · right
      refine ⟨by simpa using a, by rw [List.getElem?_set_self a], by simp; omega, ?_⟩
      intro i hi
      rw [List.getElem?_set_ne (by omega), d i (by omega), List.reverse_cons,
        List.getElem?_append_left (by simpa using hi)]

/-- an empty auxiliary stack: either the pointer cell does not exist yet, or it holds `nS + 1` -/
theorem Rep.empty {nS : Nat} {flat sl : List Nat} (h : Rep nS flat sl []) :
    flat.length = nS ∨ (nS < flat.length ∧ flat[nS]? = some (nS + 1)) := by
  obtain ⟨_, _, h3⟩ := h
  rcases h3 with ⟨a, _⟩ | ⟨a, b, _, _⟩
  · left; exact a
  · right; exact ⟨a, by simpa using b⟩

/-! ## `RepStack` -/

theorem RepStack.length_eq {nS : Nat} : ∀ {as : List ABranch} {bs : List SBranch},
    RepStack nS as bs → as.length = bs.length
  | [], [], _ => rfl
  | _ :: _, _ :: _, h => by simp [RepStack.length_eq h.2.2.2]
  | [], _ :: _, h => h.elim
  | _ :: _, [], h => h.elim

theorem RepStack.drop {nS : Nat} : ∀ (k : Nat) {as : List ABranch} {bs : List SBranch},
    RepStack nS as bs → RepStack nS (as.drop k) (bs.drop k)
  | 0, _, _, h => by simpa using h
  | _ + 1, [], [], _ => by simp [RepStack]
  | k + 1, _ :: _, _ :: _, h => by simpa using RepStack.drop k h.2.2.2
  | _ + 1, [], _ :: _, h => h.elim
  | _ + 1, _ :: _, [], h => h.elim

/-- growing every copy by one cell -/
theorem RepStack.map_append {nS : Nat} (x : Nat) : ∀ {as : List ABranch} {bs : List SBranch},
    RepStack nS as bs →
    (∀ a ∈ as, ∀ sl ak, Rep nS a.saves sl ak → Rep nS (a.saves ++ [x]) sl ak) →
    RepStack nS (as.map fun a => ⟨a.pc, a.ix, a.saves ++ [x]⟩) bs
  | [], [], _, _ => by simp [RepStack]
  | a :: as, b :: bs, h, hp => by
    simp only [List.map_cons, RepStack]
    exact ⟨h.1, h.2.1, hp a (by simp) _ _ h.2.2.1,
      RepStack.map_append x h.2.2.2 (fun a' ha' => hp a' (by simp [ha']))⟩
  | [], _ :: _, h, _ => h.elim
  | _ :: _, [], h, _ => h.elim

/-! ## unlogged growth and `abs` -/

theorem undo_grow (cur : List Nat) (x : Nat) (log : List (Nat × Nat)) (h : ∀ e ∈ log, e.1 < cur.length) :
    undo (cur ++ [x]) log = undo cur log ++ [x] := by
  induction log generalizing cur with
  | nil => rfl
  | cons e es ih =>
    simp only [undo_cons]
    rw [List.set_append_left _ _ (h e (by simp))]
    exact ih _ (fun e' he' => by simpa using h e' (by simp [he']))

theorem absStack_grow (x : Nat) (cur : List Nat) (n : Nat) (log : List (Nat × Nat)) (bs : List Branch)
    (h : ∀ e ∈ log, e.1 < cur.length) :
    absStack (cur ++ [x]) n log bs = (absStack cur n log bs).map fun a => ⟨a.pc, a.ix, a.saves ++ [x]⟩ := by
  induction bs generalizing cur n log with
  | nil => rfl
  | cons b bs ih =>
    simp only [absStack, List.map_cons]
    rw [undo_grow cur x (log.take n) (fun e he => h e (List.mem_of_mem_take he))]
    rw [ih (undo cur (log.take n)) b.nsave (log.drop n)
      (fun e he => by simpa using h e (List.mem_of_mem_drop he))]

theorem absStack_saves_length (cur : List Nat) (n : Nat) (log : List (Nat × Nat)) (bs : List Branch) :
    ∀ a ∈ absStack cur n log bs, a.saves.length = cur.length := by
  induction bs generalizing cur n log with
  | nil => simp [absStack]
  | cons b bs ih =>
    intro a ha
    simp only [absStack, List.mem_cons] at ha
    rcases ha with rfl | ha
    · simp
    · simpa using ih _ _ _ a ha

/-- every whole copy has the length of the current vector -/
theorem abs_saves_length (s : State) : ∀ a ∈ (abs s).stack, a.saves.length = s.saves.length :=
  absStack_saves_length _ _ _ _

/-- the unlogged `self.saves.push(x)` -/
def grow (s : State) (x : Nat) : State := { s with saves := s.saves ++ [x] }

theorem abs_grow (s : State) (hi : Inv s) (x : Nat) :
    abs (grow s x) = ⟨s.saves ++ [x], (abs s).stack.map fun a => ⟨a.pc, a.ix, a.saves ++ [x]⟩⟩ := by
  simp only [abs, grow]
  rw [absStack_grow x s.saves s.nsave s.oldsave s.stack hi.slots]

theorem inv_grow (s : State) (hi : Inv s) (x : Nat) : Inv (grow s x) :=
  ⟨hi.len, fun e he => by have := hi.slots e he; simp only [grow, List.length_append]; simp; omega⟩

theorem inv2_grow_first {nS : Nat} {s : State} {σ : SState} (h : Inv2 nS s σ) (hl : s.saves.length = nS) :
    Inv2 nS (grow s (nS + 1)) σ := by
  refine ⟨inv_grow s h.inv _, h.sp, ?_⟩
  rw [abs_grow s h.inv]
  refine ⟨h.rep.1.append_first hl, RepStack.map_append _ h.rep.2 ?_⟩
  intro a ha sl ak hr
  exact hr.append_first (by rw [abs_saves_length s a ha, hl])

theorem inv2_grow {nS : Nat} {s : State} {σ : SState} (h : Inv2 nS s σ) (hl : nS < s.saves.length) (x : Nat) :
    Inv2 nS (grow s x) σ := by
  refine ⟨inv_grow s h.inv _, h.sp, ?_⟩
  rw [abs_grow s h.inv]
  refine ⟨h.rep.1.append_grown hl x, RepStack.map_append _ h.rep.2 ?_⟩
  intro a ha sl ak hr
  exact hr.append_grown (by rw [abs_saves_length s a ha]; exact hl) x

/-! ## fields the operations do not touch -/

theorem save_fields (s s' : State) (slot v : Nat) (h : s.save slot v = some s') :
    s'.explicitSp = s.explicitSp ∧ s'.stack = s.stack ∧ s'.maxStack = s.maxStack ∧
    s'.saves = s.saves.set slot v := by
  unfold State.save at h
  split at h
  · cases h
  · split at h
    · cases h
    · split at h <;> (cases h; exact ⟨rfl, rfl, rfl, rfl⟩)

theorem pop_fields (s s' : State) (pc ix : Nat) (h : s.pop = some (s', pc, ix)) :
    s'.explicitSp = s.explicitSp ∧ s'.maxStack = s.maxStack ∧ s.stack.length = s'.stack.length + 1 := by
  unfold State.pop at h
  split at h
  · cases h
  · split at h
    · cases h
    · rename_i hst
      cases h
      exact ⟨rfl, rfl, by simp [hst]⟩

theorem cut_fields (s s' : State) (count : Nat) (h : s.backtrackCut count = some s') :
    s'.explicitSp = s.explicitSp ∧ s'.maxStack = s.maxStack ∧ s'.saves = s.saves := by
  unfold State.backtrackCut at h
  split at h
  · cases h; exact ⟨rfl, rfl, rfl⟩
  · split at h
    · cases h
    · simp only at h
      split at h
      · cases h
      · split at h
        · cases h
        · cases h; exact ⟨rfl, rfl, rfl⟩

/-! ## the operations -/

theorem Inv2.stack_length {nS : Nat} {s : State} {σ : SState} (h : Inv2 nS s σ) :
    σ.stack.length = s.stack.length := by
  rw [← RepStack.length_eq h.rep.2, abs_stack_length_eq]

theorem Inv2.len_ge {nS : Nat} {s : State} {σ : SState} (h : Inv2 nS s σ) : nS ≤ s.saves.length :=
  h.rep.1.len_ge

/-- a logged write anywhere in the vector, given what the new current vector represents -/
theorem inv2_save_gen {nS : Nat} {s : State} {σ : SState} (h : Inv2 nS s σ) (slot v : Nat)
    (hslot : slot < s.saves.length) (sl' ak' : List Nat) (hr : Rep nS (s.saves.set slot v) sl' ak') :
    ∃ s', s.save slot v = some s' ∧ Inv2 nS s' ⟨sl', ak', σ.stack⟩ ∧ s'.saves = s.saves.set slot v ∧
      s'.stack.length = s.stack.length ∧ s'.maxStack = s.maxStack := by
  obtain ⟨s', h1, h2, h3, h4⟩ := save_spec s h.inv slot v hslot
  obtain ⟨f1, f2, _, f4⟩ := save_fields s s' slot v h1
  refine ⟨s', h1, ⟨h3, by rw [f1, h.sp], ?_⟩, f4, by rw [f2], h4⟩
  rw [h2]
  exact ⟨hr, h.rep.2⟩

/-- the initial state -/
theorem inv2_init (nS maxStack : Nat) :
    Inv2 nS (State.new nS maxStack) ⟨List.replicate nS UNSET, [], []⟩ := by
  refine ⟨⟨by simp [State.new, sumNsave], by simp [State.new]⟩, rfl, ?_⟩
  simp [abs, State.new, absStack, RepA, Rep, RepStack]

theorem repA_init (nS maxStack : Nat) :
    RepA nS (abs (State.new nS maxStack)) ⟨List.replicate nS UNSET, [], []⟩ :=
  (inv2_init nS maxStack).rep

theorem rep_get {nS : Nat} {s : State} {σ : SState} (h : Inv2 nS s σ) (slot : Nat) (hs : slot < nS) :
    s.get slot = σ.slots[slot]? :=
  h.rep.1.get slot hs

theorem rep_save {nS : Nat} {s : State} {σ : SState} (h : Inv2 nS s σ) (slot v : Nat) (hs : slot < nS) :
    ∃ s', s.save slot v = some s' ∧ Inv2 nS s' { σ with slots := σ.slots.set slot v } ∧
      s'.stack.length = s.stack.length ∧ s'.maxStack = s.maxStack := by
  obtain ⟨s', h1, h2, _, h4, h5⟩ := inv2_save_gen h slot v (by have := h.len_ge; omega) _ _
    (h.rep.1.set_low slot v hs)
  exact ⟨s', h1, h2, h4, h5⟩

theorem rep_push {nS : Nat} {s s' : State} {σ : SState} (h : Inv2 nS s σ) (pc ix : Nat)
    (hp : s.push pc ix = .ok s') :
    Inv2 nS s' { σ with stack := ⟨pc, ix, σ.slots, σ.astk⟩ :: σ.stack } ∧
      s'.stack.length = s.stack.length + 1 ∧ s'.maxStack = s.maxStack ∧ s.stack.length < s.maxStack := by
  have h1 := abs_push s s' pc ix hp
  have h2 := inv_push s s' pc ix h.inv hp
  unfold State.push at hp
  split at hp
  · rename_i hlt
    cases hp
    refine ⟨⟨h2, h.sp, ?_⟩, by simp, rfl, hlt⟩
    rw [h1]
    exact ⟨h.rep.1, rfl, rfl, h.rep.1, h.rep.2⟩
  · cases hp

/-- `push` succeeds exactly below the cap -/
theorem rep_push_ok {nS : Nat} {s : State} {σ : SState} (h : Inv2 nS s σ) (pc ix : Nat)
    (hlt : σ.stack.length < s.maxStack) :
    ∃ s', s.push pc ix = .ok s' ∧ Inv2 nS s' { σ with stack := ⟨pc, ix, σ.slots, σ.astk⟩ :: σ.stack } ∧
      s'.stack.length = s.stack.length + 1 ∧ s'.maxStack = s.maxStack := by
  rw [h.stack_length] at hlt
  have : s.push pc ix = .ok { s with stack := ⟨pc, ix, s.nsave⟩ :: s.stack, nsave := 0 } := by
    simp [State.push, hlt]
  obtain ⟨a, b, c, _⟩ := rep_push h pc ix this
  exact ⟨_, this, a, b, c⟩

theorem rep_push_overflow {nS : Nat} {s : State} {σ : SState} (h : Inv2 nS s σ) (pc ix : Nat) :
    s.push pc ix = .overflow ↔ s.maxStack ≤ σ.stack.length := by
  rw [h.stack_length]
  unfold State.push
  split
  · constructor
    · intro h; cases h
    · intro h; omega
  · constructor
    · intro _; omega
    · intro _; rfl

theorem rep_pop {nS : Nat} {s : State} {σ : SState} (h : Inv2 nS s σ) (b : SBranch) (rest : List SBranch)
    (hs : σ.stack = b :: rest) :
    ∃ s', s.pop = some (s', b.pc, b.ix) ∧ Inv2 nS s' ⟨b.slots, b.astk, rest⟩ ∧
      s.stack.length = s'.stack.length + 1 ∧ s'.maxStack = s.maxStack := by
  have hl := h.stack_length
  rw [hs] at hl
  obtain ⟨b0, rest0, hst⟩ : ∃ b0 rest0, s.stack = b0 :: rest0 := by
    cases hs0 : s.stack with
    | nil => rw [hs0] at hl; simp at hl
    | cons b0 r0 => exact ⟨b0, r0, rfl⟩
  obtain ⟨s', h1, h2, h3, h4⟩ := pop_spec s h.inv b0 rest0 hst
  obtain ⟨f1, _, f3⟩ := pop_fields s s' _ _ h1
  have hr := h.rep
  obtain ⟨_, hr2⟩ := hr
  rw [hs] at hr2
  cases hab : (abs s).stack with
  | nil => rw [hab] at hr2; exact hr2.elim
  | cons a as =>
    rw [hab] at hr2
    simp only [AState.pop, hab, Option.some.injEq, Prod.mk.injEq] at h2
    obtain ⟨e1, e2, e3⟩ := h2
    obtain ⟨r1, r2, r3, r4⟩ := hr2
    refine ⟨s', ?_, ⟨h3, by rw [f1, h.sp], ?_⟩, f3, h4⟩
    · rw [h1, ← e2, ← e3, r1, r2]
    · rw [← e1]; exact ⟨r3, r4⟩

theorem rep_backtrackCount {nS : Nat} {s : State} {σ : SState} (h : Inv2 nS s σ) :
    s.backtrackCount = σ.stack.length := h.stack_length.symm

theorem rep_cut {nS : Nat} {s : State} {σ : SState} (h : Inv2 nS s σ) (count : Nat)
    (hc : count ≤ σ.stack.length) :
    ∃ s', s.backtrackCut count = some s' ∧
      Inv2 nS s' { σ with stack := σ.stack.drop (σ.stack.length - count) } ∧
      s'.stack.length = count ∧ s'.maxStack = s.maxStack := by
  have hl := h.stack_length
  obtain ⟨s', h1, h2, h3, h4⟩ := cut_spec s h.inv count (by omega)
  obtain ⟨f1, _, _⟩ := cut_fields s s' count h1
  have hrep : RepA nS (abs s') { σ with stack := σ.stack.drop (σ.stack.length - count) } := by
    rw [h2]
    refine ⟨h.rep.1, ?_⟩
    simp only [AState.cut]
    rw [RepStack.length_eq h.rep.2]
    exact RepStack.drop _ h.rep.2
  refine ⟨s', h1, ⟨h3, by rw [f1, h.sp], hrep⟩, ?_, h4⟩
  have := RepStack.length_eq hrep.2
  rw [abs_stack_length_eq] at this
  rw [this]
  simp only [List.length_drop]
  omega

/-! ## `stack_push` / `stack_pop` -/

/-- `stack_push` after its first `if` -/
def stackPushCore (s : State) (val : Nat) : Option State :=
  match s.get s.explicitSp with
  | none => none
  | some sp =>
    let s' := if s.saves.length == sp then some (grow s val) else s.save sp val
    match s' with
    | none => none
    | some s' => s'.save s.explicitSp (sp + 1)

theorem stackPush_eq (s : State) (v : Nat) :
    s.stackPush v =
      stackPushCore (if s.saves.length == s.explicitSp then grow s (s.explicitSp + 1) else s) v := rfl

theorem stackPushCore_spec {nS : Nat} {s : State} {σ : SState} (h : Inv2 nS s σ) (hl : nS < s.saves.length)
    (v : Nat) :
    ∃ s', stackPushCore s v = some s' ∧ Inv2 nS s' { σ with astk := v :: σ.astk } ∧
      s'.stack.length = s.stack.length ∧ s'.maxStack = s.maxStack := by
  have hr : Rep nS s.saves σ.slots σ.astk := h.rep.1
  obtain ⟨_, _, h3⟩ := hr
  rcases h3 with ⟨a, _⟩ | ⟨_, b, c, _⟩
  · omega
  unfold stackPushCore
  simp only [State.get, h.sp, b]
  by_cases hq : s.saves.length = nS + 1 + σ.astk.length
  · -- growth by `v`
    have h2 := inv2_grow h hl v
    have hv : (grow s v).saves[nS + 1 + σ.astk.length]? = some v := by
      simp only [grow]
      rw [List.getElem?_append_right (by omega)]
      simp [hq]
    have hr2 : Rep nS (grow s v).saves σ.slots σ.astk := h2.rep.1
    obtain ⟨s', e1, e2, _, e4, e5⟩ := inv2_save_gen h2 nS (nS + 1 + σ.astk.length + 1)
      (by simp only [grow, List.length_append]; omega) σ.slots (v :: σ.astk) (hr2.commit_push v hv)
    refine ⟨s', ?_, e2, e4, e5⟩
    simp only [hq, beq_self_eq_true, ↓reduceIte]
    exact e1
  · -- logged overwrite of a cell left over from an earlier push
    have hlt : nS + 1 + σ.astk.length < s.saves.length := by omega
    obtain ⟨s1, e1, e2, e3, e4, e5⟩ := inv2_save_gen h (nS + 1 + σ.astk.length) v hlt σ.slots σ.astk
      (h.rep.1.set_above _ v (Nat.le_refl _))
    have hv : s1.saves[nS + 1 + σ.astk.length]? = some v := by
      rw [e3, List.getElem?_set_self hlt]
    have hr2 : Rep nS s1.saves σ.slots σ.astk := e2.rep.1
    obtain ⟨s', g1, g2, _, g4, g5⟩ := inv2_save_gen e2 nS (nS + 1 + σ.astk.length + 1)
      (by rw [e3]; simp only [List.length_set]; omega) σ.slots (v :: σ.astk) (hr2.commit_push v hv)
    refine ⟨s', ?_, g2, by rw [g4, e4], by rw [g5, e5]⟩
    have : (s.saves.length == nS + 1 + σ.astk.length) = false := by simp [hq]
    simp only [this, Bool.false_eq_true, ↓reduceIte, e1]
    exact g1

/-- `BeginAtomic`'s `stack_push`: never panics, pushes on the auxiliary stack -/
theorem rep_stackPush {nS : Nat} {s : State} {σ : SState} (h : Inv2 nS s σ) (v : Nat) :
    ∃ s', s.stackPush v = some s' ∧ Inv2 nS s' { σ with astk := v :: σ.astk } ∧
      s'.stack.length = s.stack.length ∧ s'.maxStack = s.maxStack := by
  rw [stackPush_eq, h.sp]
  by_cases hq : s.saves.length = nS
  · simp only [hq, beq_self_eq_true, ↓reduceIte]
    have h2 := inv2_grow_first h hq
    exact stackPushCore_spec h2 (by simp only [grow, List.length_append]; simp; omega) v
  · have : (s.saves.length == nS) = false := by simp [hq]
    simp only [this, Bool.false_eq_true, ↓reduceIte]
    exact stackPushCore_spec h (by have := h.len_ge; omega) v

/-- `EndAtomic`'s `stack_pop` on a non-empty auxiliary stack -/
theorem rep_stackPop {nS : Nat} {s : State} {σ : SState} (h : Inv2 nS s σ) (v : Nat) (rest : List Nat)
    (hs : σ.astk = v :: rest) :
    ∃ s', s.stackPop = some (s', v) ∧ Inv2 nS s' { σ with astk := rest } ∧
      s'.stack.length = s.stack.length ∧ s'.maxStack = s.maxStack := by
  have hr : Rep nS s.saves σ.slots σ.astk := h.rep.1
  rw [hs] at hr
  obtain ⟨p1, p2, p3, p4⟩ := hr.commit_pop
  obtain ⟨s', e1, e2, _, e4, e5⟩ := inv2_save_gen h nS (nS + 1 + rest.length) p3 σ.slots rest p4
  refine ⟨s', ?_, e2, e4, e5⟩
  unfold State.stackPop
  simp only [State.get, h.sp, p1, p2, e1, Option.map_some]

/-- `stack_pop` on an EMPTY auxiliary stack (the F8 territory). Two cases:
    * the pointer cell was never created (`saves.len() == explicit_sp`): `saves[explicit_sp]` is an
      index panic — `none`;
    * the pointer cell exists and holds `nS + 1`: no panic; `sp - 1 = nS`, so the pop reads the
      pointer cell itself, returns `nS + 1` as the "popped value", and writes `nS` into the pointer
      cell. The resulting vector represents no `(slots, astk)` at all (the pointer is below its base:
      the next `stack_push v` writes `v` into the pointer cell and then overwrites it with `nS + 1`,
      i.e. the pushed value is silently lost and the stack looks empty again). -/
theorem rep_stackPop_empty {nS : Nat} {s : State} {σ : SState} (h : Inv2 nS s σ) (hs : σ.astk = []) :
    (s.saves.length = nS ∧ s.stackPop = none) ∨
    (nS < s.saves.length ∧ ∃ s', s.stackPop = some (s', nS + 1) ∧ s'.saves = s.saves.set nS nS ∧ Inv s' ∧
      s'.explicitSp = nS ∧ s'.stack.length = s.stack.length ∧ s'.maxStack = s.maxStack ∧
      ∀ sl ak, ¬ Rep nS s'.saves sl ak) := by
  have hr : Rep nS s.saves σ.slots σ.astk := h.rep.1
  rw [hs] at hr
  rcases hr.empty with a | ⟨a, b⟩
  · left
    refine ⟨a, ?_⟩
    unfold State.stackPop
    simp only [State.get, h.sp]
    rw [List.getElem?_eq_none (by omega)]
  · right
    refine ⟨a, ?_⟩
    obtain ⟨s', e1, _, e3, e4⟩ := save_spec s h.inv nS nS a
    obtain ⟨f1, f2, _, f4⟩ := save_fields s s' nS nS e1
    refine ⟨s', ?_, f4, e3, by rw [f1, h.sp], by rw [f2], e4, ?_⟩
    · unfold State.stackPop
      simp only [State.get, h.sp, b, e1, Option.map_some]
    · intro sl ak hrep
      rw [f4] at hrep
      obtain ⟨_, _, h3⟩ := hrep
      rcases h3 with ⟨c, _⟩ | ⟨_, c, _, _⟩
      · simp only [List.length_set] at c; omega
      · rw [List.getElem?_set_self a] at c
        simp only [Option.some.injEq] at c
        omega

/-! ## `FailNegativeLookAround` -/

theorem rep_popUntil_gen {nS : Nat} (target : Nat) (pre : List SBranch) :
    ∀ (fuel : Nat) (s : State) (σ : SState) (b : SBranch) (rest : List SBranch),
      Inv2 nS s σ → σ.stack = pre ++ b :: rest → b.pc = target → (∀ x ∈ pre, x.pc ≠ target) →
      pre.length < fuel →
      ∃ s', popUntil target fuel s = some s' ∧ Inv2 nS s' ⟨b.slots, b.astk, rest⟩ ∧
        s'.stack.length = rest.length ∧ s'.maxStack = s.maxStack := by
  induction pre with
  | nil =>
    intro fuel s σ b rest h hs hb _ hf
    obtain ⟨f, rfl⟩ : ∃ f, fuel = f + 1 := ⟨fuel - 1, by omega⟩
    obtain ⟨s', e1, e2, _, e4⟩ := rep_pop h b rest (by simpa using hs)
    refine ⟨s', ?_, e2, e2.stack_length.symm, e4⟩
    simp [popUntil, e1, hb]
  | cons x pre ih =>
    intro fuel s σ b rest h hs hb hpre hf
    obtain ⟨f, rfl⟩ : ∃ f, fuel = f + 1 := ⟨fuel - 1, by omega⟩
    obtain ⟨s1, e1, e2, _, e4⟩ := rep_pop h x (pre ++ b :: rest) (by simpa using hs)
    have hx : x.pc ≠ target := hpre x (by simp)
    obtain ⟨s', g1, g2, g3, g4⟩ := ih f s1 _ b rest e2 rfl hb
      (fun y hy => hpre y (by simp [hy])) (by simp only [List.length_cons] at hf; omega)
    refine ⟨s', ?_, g2, g3, by rw [g4, e4]⟩
    simp [popUntil, e1, hx, g1]

/-- `FailNegativeLookAround`: pop down to (and including) the first entry whose pc is `target` -/
theorem rep_popUntil {nS : Nat} {s : State} {σ : SState} (h : Inv2 nS s σ) (target : Nat)
    (pre : List SBranch) (b : SBranch) (rest : List SBranch)
    (hs : pre ++ b :: rest = σ.stack) (hb : b.pc = target) (hpre : ∀ x ∈ pre, x.pc ≠ target) :
    ∃ s', popUntil target (s.stack.length + 1) s = some s' ∧ Inv2 nS s' ⟨b.slots, b.astk, rest⟩ ∧
      s'.stack.length = rest.length ∧ s'.maxStack = s.maxStack := by
  apply rep_popUntil_gen target pre _ s σ b rest h hs.symm hb hpre
  have := h.stack_length
  rw [← hs] at this
  simp only [List.length_append, List.length_cons] at this
  omega

/-- the decomposition `rep_popUntil` asks for exists as soon as some entry has the pc -/
theorem exists_first_pc (target : Nat) (l : List SBranch) (h : ∃ x ∈ l, x.pc = target) :
    ∃ pre b rest, pre ++ b :: rest = l ∧ b.pc = target ∧ ∀ x ∈ pre, x.pc ≠ target := by
  induction l with
  | nil => obtain ⟨x, hx, _⟩ := h; cases hx
  | cons y ys ih =>
    by_cases hy : y.pc = target
    · exact ⟨[], y, ys, rfl, hy, by simp⟩
    · obtain ⟨x, hx, hxt⟩ := h
      rcases List.mem_cons.mp hx with rfl | hx
      · exact absurd hxt hy
      · obtain ⟨pre, b, rest, e, hb, hp⟩ := ih ⟨x, hx, hxt⟩
        refine ⟨y :: pre, b, rest, by simp [e], hb, ?_⟩
        intro z hz
        rcases List.mem_cons.mp hz with rfl | hz
        · exact hy
        · exact hp z hz

/-- … and without such an entry `popUntil` runs off the stack (`self.stack.pop().unwrap()` panics) -/
theorem rep_popUntil_none {nS : Nat} (target : Nat) (l : List SBranch) :
    ∀ (fuel : Nat) (s : State) (σ : SState), Inv2 nS s σ → σ.stack = l → (∀ x ∈ l, x.pc ≠ target) →
      popUntil target fuel s = none := by
  induction l with
  | nil =>
    intro fuel s σ h hs _
    have hl := h.stack_length
    rw [hs] at hl
    have hst : s.stack = [] := List.eq_nil_of_length_eq_zero (by simpa using hl.symm)
    cases fuel with
    | zero => rfl
    | succ f =>
      have : s.pop = none := by
        unfold State.pop
        split
        · rfl
        · simp [hst]
      simp [popUntil, this]
  | cons x xs ih =>
    intro fuel s σ h hs hne
    cases fuel with
    | zero => rfl
    | succ f =>
      obtain ⟨s1, e1, e2, _, _⟩ := rep_pop h x xs hs
      have hx : x.pc ≠ target := hne x (by simp)
      simp only [popUntil, e1, beq_iff_eq, hx, ↓reduceIte]
      exact ih f s1 _ e2 rfl (fun y hy => hne y (by simp [hy]))

/-! ## a concrete non-trivial instance: the hypotheses of the lemmas are satisfiable

`exS` is the state reached from `State.new 2 10` by `push 5 1` and `stack_push 9` (with slot values
`7, 8` instead of `UNSET`): the pending alternative's copy is `[7, 8, 3, 9]` — it has the grown
length, its pointer cell reverts to `3`, and the `9` is garbage above its (empty) auxiliary stack. -/

def exS : State := ⟨[7, 8, 4, 9], [⟨5, 1, 0⟩], [(2, 3)], 1, 2, 10⟩
def exσ : SState := ⟨[7, 8], [9], [⟨5, 1, [7, 8], []⟩]⟩

theorem exInv2 : Inv2 2 exS exσ := by
  refine ⟨⟨by simp [exS, sumNsave], by simp [exS]⟩, rfl, ?_⟩
  simp [abs, absStack, RepA, Rep, RepStack, exS, exσ, undo]

example : exS.get 1 = some 8 := by rw [rep_get exInv2 1 (by decide)]; rfl
example : ∃ s', exS.save 0 5 = some s' ∧ Inv2 2 s' { exσ with slots := exσ.slots.set 0 5 } :=
  let ⟨s', a, b, _⟩ := rep_save exInv2 0 5 (by decide); ⟨s', a, b⟩
example : ∃ s', exS.push 6 2 = .ok s' ∧
    Inv2 2 s' { exσ with stack := ⟨6, 2, exσ.slots, exσ.astk⟩ :: exσ.stack } :=
  let ⟨s', a, b, _⟩ := rep_push_ok exInv2 6 2 (by decide); ⟨s', a, b⟩
example : ∃ s', exS.pop = some (s', 5, 1) ∧ Inv2 2 s' ⟨[7, 8], [], []⟩ :=
  let ⟨s', a, b, _⟩ := rep_pop exInv2 ⟨5, 1, [7, 8], []⟩ [] rfl; ⟨s', a, b⟩
example : ∃ s', exS.stackPush 1 = some s' ∧ Inv2 2 s' { exσ with astk := [1, 9] } :=
  let ⟨s', a, b, _⟩ := rep_stackPush exInv2 1; ⟨s', a, b⟩
example : ∃ s', exS.stackPop = some (s', 9) ∧ Inv2 2 s' { exσ with astk := [] } :=
  let ⟨s', a, b, _⟩ := rep_stackPop exInv2 9 [] rfl; ⟨s', a, b⟩
example : ∃ s', exS.backtrackCut 0 = some s' ∧ Inv2 2 s' { exσ with stack := [] } :=
  let ⟨s', a, b, _⟩ := rep_cut exInv2 0 (by decide); ⟨s', a, b⟩
example : ∃ s', popUntil 5 (exS.stack.length + 1) exS = some s' ∧ Inv2 2 s' ⟨[7, 8], [], []⟩ :=
  let ⟨s', a, b, _⟩ := rep_popUntil exInv2 5 [] ⟨5, 1, [7, 8], []⟩ [] rfl rfl (by simp); ⟨s', a, b⟩
/-- both cases of `rep_stackPop_empty` occur on reachable states -/
example : (State.new 2 10).stackPop = none := by decide
example : ((((State.new 2 10).stackPush 9).bind (fun s => s.stackPop)).bind
    (fun p => p.1.stackPop)).map (·.2) = some 3 := by decide

end Fancy
