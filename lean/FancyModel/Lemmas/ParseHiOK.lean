import FancyModel.Lemmas.ParseShape
import FancyModel.Proofs.C03d
/-!
# The parser never writes `some usize::MAX` as an upper bound (`hiOK`), and its alternations are non-empty
(`analyzable`): the domain conditions of the translated analyzer / compiler hold of every parsed tree

`hiOK` (Proofs/C03d.lean): no `Repeat` carries `hi = some usize::MAX`. The parser reads bounds into a
`usize` and builds the node with `hiOf hi` (`usize::MAX ↦ none`), so `{n,18446744073709551615}` IS `{n,}`,
in the crate and in the model. The proof is the recursive-descent induction of `Lemmas/ParseShape.lean`
(`parse_parsedOK`) with the predicate `hiOK` in place of `parsedOK`.
-/
namespace Fancy.Parse
open Fancy.Utf8 (codepointLen isLead)
open Fancy

theorem hiOf_ne (h : Nat) : (hiOf h != some UNSET) = true := by
  unfold hiOf
  split
  · rfl
  · rename_i hne
    have : h ≠ UNSET := by intro e; apply hne; simp [e, usizeMax, UNSET]
    simp [this]

/-- the returned node is of the parser's shape -/
def ShpH (r : Nat × Expr × PState) : Prop := hiOK r.2.1 = true

/-- the returned children are of the parser's shape -/
def ShpHL (r : Nat × List Expr × PState) : Prop := hiOKAll r.2.1 = true

@[simp] theorem ShpH_mk (ix : Nat) (e : Expr) (st : PState) :
    ShpH (ix, e, st) = (hiOK e = true) := rfl

@[simp] theorem ShpHL_mk (ix : Nat) (es : List Expr) (st : PState) :
    ShpHL (ix, es, st) = (hiOKAll es = true) := rfl

theorem hiOK_mk (k : RefKind) (g : Nat) : hiOK (k.mk g) = true := by
  cases k <;> simp [RefKind.mk, hiOK]

theorem shpH_parseNumberedBackref (re : Bytes) (st : PState) (ix : Nat) (k : RefKind) :
    OkP ShpH (parseNumberedBackref re st ix k) := by
  unfold parseNumberedBackref
  refine OkP.bind OkP.trivial (fun r _ => ?_)
  cases r with
  | none => trivial
  | some q =>
    obtain ⟨e, g⟩ := q
    simp only
    refine OkP.ite (fun _ => ?_) (fun _ => trivial)
    exact hiOK_mk k g

theorem shpH_parseNamedBackref (isAlnum : Char → Bool) (re : Bytes) (st : PState) (ix : Nat)
    (open_ close : List Nat) (allowRelative : Bool) (k : RefKind) :
    OkP ShpH (parseNamedBackref isAlnum re st ix open_ close allowRelative k) := by
  unfold parseNamedBackref
  refine OkP.bind OkP.trivial (fun _ _ => ?_)
  refine OkP.bind OkP.trivial (fun r _ => ?_)
  cases r with
  | none => trivial
  | some q =>
    obtain ⟨a, b, skip⟩ := q
    simp only
    split
    · exact hiOK_mk k _
    · trivial

theorem shpH_parseHex (re : Bytes) (fl : Flags) (ix digits : Nat) :
    OkP (fun r => hiOK r.2 = true) (parseHex re fl ix digits) := by
  unfold parseHex
  refine OkP.ite (fun _ => trivial) (fun _ => ?_)
  refine OkP.bind OkP.trivial (fun b _ => ?_)
  refine OkP.bind OkP.trivial (fun p _ => ?_)
  split
  · trivial
  · refine OkP.ite (fun _ => ?_) (fun _ => trivial)
    simp [hiOK]

/-- `parse_escape` returns a leaf of the parser's shape -/
theorem shpH_parseEscape (isAlnum : Char → Bool) (re : Bytes) (st : PState) (ix : Nat)
    (inClass : Bool) : OkP ShpH (parseEscape isAlnum re st ix inClass) := by
  unfold parseEscape
  split
  · trivial
  rename_i b hb
  simp only
  have one : ∀ (e : Expr), hiOK e = true →
      OkP ShpH (.ok (ix + 1 + codepointLen b, e, st)) := fun e he => he
  have hexc : ∀ n, OkP ShpH (do
      let (e, x) ← parseHex re st.flags (ix + 1 + codepointLen b) n
      Res.ok (e, x, st)) := by
    intro n
    refine OkP.bind (shpH_parseHex re st.flags _ n) (fun r hr => ?_)
    obtain ⟨e, x⟩ := r
    exact hr
  refine OkP.ite (fun _ => shpH_parseNumberedBackref re st (ix + 1) .backref) (fun _ => ?_)
  refine OkP.ite (fun _ => ?_) (fun _ => ?_)
  · refine OkP.ite (fun _ => ?_) (fun _ => ?_)
    · exact shpH_parseNamedBackref ..
    · exact shpH_parseNamedBackref ..
  refine OkP.ite (fun _ => one _ (by simp [hiOK])) (fun _ => ?_)
  refine OkP.ite (fun _ => one _ (by simp [hiOK])) (fun _ => ?_)
  refine OkP.ite (fun _ => one _ (by simp [hiOK])) (fun _ => ?_)
  refine OkP.ite (fun _ => ?_) (fun _ => ?_)
  · refine OkP.ite (fun _ => ?_) (fun _ => one _ (by simp [hiOK]))
    exact OkP.bind OkP.trivial (fun _ _ => trivial)
  refine OkP.ite (fun _ => ?_) (fun _ => ?_)
  · refine OkP.ite (fun _ => ?_) (fun _ => one _ (by simp [hiOK]))
    exact OkP.bind OkP.trivial (fun _ _ => trivial)
  refine OkP.ite (fun _ => one _ (by simp [hiOK])) (fun _ => ?_)
  refine OkP.ite (fun _ => one _ (by simp [hiOK])) (fun _ => ?_)
  refine OkP.ite (fun _ => ?_) (fun _ => ?_)
  · exact OkP.bind OkP.trivial (fun _ _ => one _ (by simp [hiOK]))
  refine OkP.ite (fun _ => one _ (by simp [hiOK])) (fun _ => ?_)
  refine OkP.ite (fun _ => hexc 2) (fun _ => ?_)
  refine OkP.ite (fun _ => hexc 4) (fun _ => ?_)
  refine OkP.ite (fun _ => hexc 8) (fun _ => ?_)
  refine OkP.ite (fun _ => ?_) (fun _ => ?_)
  · refine OkP.bind OkP.trivial (fun b2 _ => ?_)
    refine OkP.bind OkP.trivial (fun e _ => ?_)
    refine OkP.bind OkP.trivial (fun s _ => ?_)
    simp [hiOK]
  refine OkP.ite (fun _ => one _ (by simp [hiOK])) (fun _ => ?_)
  refine OkP.ite (fun _ => one _ (by simp [hiOK])) (fun _ => ?_)
  refine OkP.ite (fun _ => ?_) (fun _ => ?_)
  · refine OkP.ite (fun _ => trivial) (fun _ => ?_)
    refine OkP.bind OkP.trivial (fun b2 _ => ?_)
    refine OkP.ite (fun _ => shpH_parseNumberedBackref ..) (fun _ => ?_)
    refine OkP.ite (fun _ => ?_) (fun _ => ?_)
    · exact shpH_parseNamedBackref ..
    · exact shpH_parseNamedBackref ..
  refine OkP.ite (fun _ => one _ (by simp [hiOK, makeLiteral])) (fun _ => ?_)
  refine OkP.ite (fun _ => one _ (by simp [hiOK, makeLiteral])) (fun _ => ?_)
  refine OkP.ite (fun _ => one _ (by simp [hiOK, makeLiteral])) (fun _ => ?_)
  refine OkP.ite (fun _ => one _ (by simp [hiOK, makeLiteral])) (fun _ => ?_)
  refine OkP.ite (fun _ => one _ (by simp [hiOK, makeLiteral])) (fun _ => ?_)
  refine OkP.ite (fun _ => one _ (by simp [hiOK, makeLiteral])) (fun _ => ?_)
  refine OkP.ite (fun _ => one _ (by simp [hiOK, makeLiteral])) (fun _ => ?_)
  refine OkP.ite (fun _ => one _ (by simp [hiOK, makeLiteral])) (fun _ => ?_)
  refine OkP.ite (fun _ => one _ (by simp [hiOK, makeLiteral])) (fun _ => ?_)
  refine OkP.bind (okP_slice re _ _ _) (fun s hs => ?_)
  refine OkP.ite (fun _ => trivial) (fun _ => one _ ?_)
  obtain ⟨hs1, hs2⟩ := hs
  subst hs1
  simpa [hiOK, makeLiteral] using decode_char_slice hb hs2

/-- `parse_class` returns a `Delegate` of size 1 -/
theorem shpH_parseClass (isAlnum : Char → Bool) (re : Bytes) (st : PState) (ix : Nat) :
    OkP ShpH (parseClass isAlnum re st ix) := by
  unfold parseClass
  simp only
  refine OkP.bind OkP.trivial (fun r _ => ?_)
  obtain ⟨ix', rcls, st'⟩ := r
  simp [hiOK]

/-! ### The recursive descent -/

/-- outcome of the `|` loop: children of the parser's shape, at least one when the loop starts at
    a `|` -/
def AltH (re : Bytes) (ix : Nat) (r : Nat × List Expr × PState) : Prop :=
  hiOKAll r.2.1 = true ∧ ((re[ix]? == some (ch '|')) = true → r.2.1 ≠ [])

/-- the induction hypothesis of the descent: all functions at fuel `f` -/
structure DescH (re : Bytes) (isAlnum : Char → Bool) (f : Nat) : Prop where
  re_ : ∀ st ix d, OkP ShpH (parseRe isAlnum f re st ix d)
  alt_ : ∀ st ix d, OkP (AltH re ix) (reAltLoop isAlnum f re st ix d)
  branch_ : ∀ st ix d, OkP ShpH (parseBranch isAlnum f re st ix d)
  bloop_ : ∀ st ix d, OkP ShpHL (branchLoop isAlnum f re st ix d)
  piece_ : ∀ st ix d, OkP ShpH (parsePiece isAlnum f re st ix d)
  atom_ : ∀ st ix d, OkP ShpH (parseAtom isAlnum f re st ix d)
  group_ : ∀ st ix d, OkP ShpH (parseGroup isAlnum f re st ix d)
  flags_ : ∀ st ix d, OkP ShpH (parseFlags isAlnum f re st ix d)
  cond_ : ∀ st ix d, OkP ShpH (parseConditional isAlnum f re st ix d)

section steps
variable {re : Bytes} {isAlnum : Char → Bool}

theorem stepH_parseRe {f : Nat} (h : DescH re isAlnum f) (st : PState) (ix d : Nat) :
    OkP ShpH (parseRe isAlnum (f + 1) re st ix d) := by
  unfold parseRe
  refine OkP.bind (h.branch_ st ix d) (fun r hr => ?_)
  obtain ⟨ix1, child, st1⟩ := r
  have hc : hiOK child = true := hr
  try simp only at hr ⊢
  refine OkP.bind OkP.trivial (fun ix2 _ => ?_)
  refine OkP.bind OkP.trivial (fun _ _ => ?_)
  refine OkP.ite (fun hbar => ?_) (fun _ => ?_)
  · refine OkP.bind (h.alt_ st1 ix2 d) (fun r hr2 => ?_)
    obtain ⟨ix3, rest, st3⟩ := r
    obtain ⟨h5, h6⟩ := hr2
    have hne := h6 hbar
    try simp only at h5 hne ⊢
    cases rest with
    | nil => exact absurd rfl hne
    | cons r1 rs =>
      simp only [hiOKAll, Bool.and_eq_true] at h5
      simp [hiOK, hiOKAll, hc, h5.1, h5.2]
  · try simp only
    refine OkP.ite (fun _ => trivial) (fun _ => hc)

theorem stepH_reAltLoop {f : Nat} (h : DescH re isAlnum f) (st : PState) (ix d : Nat) :
    OkP (AltH re ix) (reAltLoop isAlnum (f + 1) re st ix d) := by
  unfold reAltLoop
  refine OkP.bind OkP.trivial (fun _ _ => ?_)
  refine OkP.ite (fun _ => ?_) (fun hno => ⟨rfl, fun hyes => absurd hyes hno⟩)
  refine OkP.bind (h.branch_ st (ix + 1) d) (fun r hr => ?_)
  obtain ⟨ix1, child, st1⟩ := r
  have hc : hiOK child = true := hr
  try simp only at hr ⊢
  refine OkP.bind OkP.trivial (fun ix2 _ => ?_)
  refine OkP.bind (h.alt_ st1 ix2 d) (fun r hr2 => ?_)
  obtain ⟨ix3, rest, st3⟩ := r
  obtain ⟨h5, _⟩ := hr2
  try simp only at h5 ⊢
  exact ⟨by simp [hiOKAll, hc, h5], fun _ => by simp⟩

theorem stepH_parseBranch {f : Nat} (h : DescH re isAlnum f) (st : PState) (ix d : Nat) :
    OkP ShpH (parseBranch isAlnum (f + 1) re st ix d) := by
  unfold parseBranch
  refine OkP.bind (h.bloop_ st ix d) (fun r hr => ?_)
  obtain ⟨ix1, children, st1⟩ := r
  have hc : hiOKAll children = true := hr
  try simp only at hr ⊢
  match children, hc with
  | [], _ => simp [hiOK]
  | [c], hc => simpa [hiOKAll] using hc
  | c1 :: c2 :: cs, hc => simpa [hiOK] using hc

theorem stepH_branchLoop {f : Nat} (h : DescH re isAlnum f) (st : PState) (ix d : Nat) :
    OkP ShpHL (branchLoop isAlnum (f + 1) re st ix d) := by
  unfold branchLoop
  refine OkP.ite (fun _ => ?_) (fun _ => rfl)
  refine OkP.bind (h.piece_ st ix d) (fun r hr => ?_)
  obtain ⟨next, child, st1⟩ := r
  have hc : hiOK child = true := hr
  try simp only at hr ⊢
  refine OkP.ite (fun _ => rfl) (fun _ => ?_)
  refine OkP.bind (h.bloop_ st1 next d) (fun r hr2 => ?_)
  obtain ⟨ix3, rest, st3⟩ := r
  have hrest : hiOKAll rest = true := hr2
  simp only [OkP_ok, ShpHL_mk]
  split
  · exact hrest
  · simp [hiOKAll, hc, hrest]

theorem stepH_parsePiece {f : Nat} (h : DescH re isAlnum f) (st : PState) (ix d : Nat) :
    OkP ShpH (parsePiece isAlnum (f + 1) re st ix d) := by
  unfold parsePiece
  refine OkP.bind (h.atom_ st ix d) (fun r hr => ?_)
  obtain ⟨ix1, child, st1⟩ := r
  have hc : hiOK child = true := hr
  try simp only at hr ⊢
  refine OkP.bind OkP.trivial (fun ix2 _ => ?_)
  refine OkP.ite (fun _ => ?_) (fun _ => hc)
  refine OkP.bind OkP.trivial (fun b _ => ?_)
  refine OkP.bind OkP.trivial (fun q _ => ?_)
  cases q with
  | none => exact hc
  | some p =>
    obtain ⟨lo, hi, i⟩ := p
    simp only
    refine OkP.ite (fun _ => trivial) (fun _ => ?_)
    refine OkP.bind OkP.trivial (fun ix3 _ => ?_)
    refine OkP.ite (fun _ => ?_) (fun _ => ?_)
    · have hne := hiOf_ne hi
      simp only [bne_iff_ne, ne_eq] at hne
      simp [hiOK, hc, hne]
    · have hne := hiOf_ne hi
      simp only [bne_iff_ne, ne_eq] at hne
      simp [hiOK, hc, hne]

theorem stepH_parseAtom {f : Nat} (h : DescH re isAlnum f) (st : PState) (ix d : Nat) :
    OkP ShpH (parseAtom isAlnum (f + 1) re st ix d) := by
  unfold parseAtom
  refine OkP.bind OkP.trivial (fun ix1 _ => ?_)
  have leaf : ∀ (ix' : Nat) (e : Expr), hiOK e = true → OkP ShpH (.ok (ix', e, st)) :=
    fun ix' e he => he
  refine OkP.ite (fun _ => leaf _ _ (by simp [hiOK])) (fun _ => ?_)
  refine OkP.bind (okP_byteAt re ix1 _) (fun b hb => ?_)
  refine OkP.ite (fun _ => leaf _ _ (by simp [hiOK])) (fun _ => ?_)
  refine OkP.ite (fun _ => leaf _ _ (by simp [hiOK])) (fun _ => ?_)
  refine OkP.ite (fun _ => leaf _ _ (by simp [hiOK])) (fun _ => ?_)
  refine OkP.ite (fun _ => h.group_ st ix1 d) (fun _ => ?_)
  refine OkP.ite (fun _ => shpH_parseEscape isAlnum re st ix1 false) (fun _ => ?_)
  refine OkP.ite (fun _ => leaf _ _ (by simp [hiOK])) (fun _ => ?_)
  refine OkP.ite (fun _ => shpH_parseClass isAlnum re st ix1) (fun _ => ?_)
  refine OkP.bind (okP_slice re _ _ _) (fun s hs => ?_)
  obtain ⟨hs1, hs2⟩ := hs
  subst hs1
  refine leaf _ _ ?_
  simpa [hiOK] using decode_char_slice hb hs2

theorem stepH_parseGroup {f : Nat} (h : DescH re isAlnum f) (st : PState) (ix d : Nat) :
    OkP ShpH (parseGroup isAlnum (f + 1) re st ix d) := by
  unfold parseGroup
  refine OkP.ite (fun _ => trivial) (fun _ => ?_)
  refine OkP.bind OkP.trivial (fun ix1 _ => ?_)
  refine OkP.bind OkP.trivial (fun _ _ => ?_)
  extract_lets body st2
  have hbody : ∀ la skip st', OkP ShpH (body la skip st') := by
    intro la skip st'
    simp only [body]
    refine OkP.bind (h.re_ st' (ix1 + skip) (d + 1)) (fun r hr => ?_)
    obtain ⟨ix2, child, st3⟩ := r
    have hc : hiOK child = true := hr
    try simp only at hr ⊢
    refine OkP.bind OkP.trivial (fun ix3 _ => ?_)
    cases la with
    | some la => simpa [hiOK] using hc
    | none =>
      simp only
      refine OkP.ite (fun _ => ?_) (fun _ => ?_)
      · simpa [hiOK] using hc
      · simpa [hiOK] using hc
  clear_value body
  cases hlook : lookOf re ix1 with
  | some p =>
    obtain ⟨la, skip⟩ := p
    exact hbody _ _ _
  | none =>
    simp only
    refine OkP.ite (fun _ => ?_) (fun _ => ?_)
    · refine OkP.bind OkP.trivial (fun _ _ => ?_)
      refine OkP.bind OkP.trivial (fun r _ => ?_)
      cases r with
      | none => trivial
      | some p =>
        obtain ⟨a, b, skip⟩ := p
        exact hbody _ _ _
    refine OkP.ite (fun _ => ?_) (fun _ => ?_)
    · refine OkP.bind OkP.trivial (fun _ _ => ?_)
      refine OkP.bind OkP.trivial (fun r _ => ?_)
      cases r with
      | none => trivial
      | some p =>
        obtain ⟨a, b, skip⟩ := p
        exact hbody _ _ _
    refine OkP.ite (fun _ => shpH_parseNamedBackref ..) (fun _ => ?_)
    refine OkP.ite (fun _ => hbody _ _ _) (fun _ => ?_)
    refine OkP.ite (fun _ => h.cond_ st _ (d + 1)) (fun _ => ?_)
    refine OkP.ite (fun _ => shpH_parseNamedBackref ..) (fun _ => ?_)
    refine OkP.ite (fun _ => h.flags_ st ix1 (d + 1)) (fun _ => hbody _ _ _)

theorem stepH_parseFlags {f : Nat} (h : DescH re isAlnum f) (st : PState) (ix d : Nat) :
    OkP ShpH (parseFlags isAlnum (f + 1) re st ix d) := by
  unfold parseFlags
  refine OkP.bind OkP.trivial (fun r _ => ?_)
  obtain ⟨e, fl⟩ := r
  try simp only
  cases e with
  | close i => simp [hiOK]
  | colon i =>
    simp only
    refine OkP.bind (h.re_ _ (i + 1) d) (fun r hr2 => ?_)
    obtain ⟨ix2, child, st2⟩ := r
    have hc : hiOK child = true := hr2
    try simp only at hr2 ⊢
    refine OkP.ite (fun _ => trivial) (fun _ => ?_)
    refine OkP.bind OkP.trivial (fun b _ => ?_)
    refine OkP.ite (fun _ => trivial) (fun _ => hc)

theorem stepH_parseConditional {f : Nat} (h : DescH re isAlnum f) (st : PState) (ix d : Nat) :
    OkP ShpH (parseConditional isAlnum (f + 1) re st ix d) := by
  unfold parseConditional
  refine OkP.ite (fun _ => trivial) (fun _ => ?_)
  refine OkP.bind OkP.trivial (fun b _ => ?_)
  refine OkP.bind (P := ShpH) ?_ (fun r hr => ?_)
  · refine OkP.ite (fun _ => shpH_parseNumberedBackref ..) (fun _ => ?_)
    refine OkP.ite (fun _ => shpH_parseNamedBackref ..) (fun _ => ?_)
    refine OkP.ite (fun _ => shpH_parseNamedBackref ..) (fun _ => h.re_ st ix d)
  obtain ⟨next, condition, st1⟩ := r
  have hcond : hiOK condition = true := hr
  try simp only at hr ⊢
  refine OkP.bind OkP.trivial (fun next2 _ => ?_)
  refine OkP.bind (h.re_ st1 next2 d) (fun r hr2 => ?_)
  obtain ⟨end_, child, st2⟩ := r
  have hc : hiOK child = true := hr2
  try simp only at hr2 ⊢
  have hinner' : ∀ (gt : Bool) (c : Expr), hiOK c = true → hiOK (match gt, c with
      | true, .backref g => Expr.backrefExists g
      | _, c => c) = true := by
    intro gt c hc'
    split
    · simp [hiOK]
    · exact hc'
  have hinner := hinner' (isDigit b || b == ch '\'' || b == ch '<') condition hcond
  refine OkP.ite (fun _ => ?_) (fun _ => ?_)
  · split
    · refine OkP.bind OkP.trivial (fun after _ => ?_)
      simp [hiOK]
    · trivial
  · refine OkP.bind (P := fun br : Expr × Expr =>
        hiOK br.1 = true ∧ hiOK br.2 = true) ?_ (fun br hbr => ?_)
    · split
      · -- `Expr::Alt(alternatives) if has_else`: an alternation has at least two children
        rename_i alternatives helse
        cases alternatives with
        | nil => trivial
        | cons t rest =>
          simp only [hiOK, hiOKAll, Bool.and_eq_true] at hc
          simp only
          split
          · rename_i e
            simp only [hiOKAll, Bool.and_eq_true] at hc
            exact ⟨hc.1, hc.2.1⟩
          · exact ⟨hc.1, by simp [hiOK, hc.2]⟩
      · exact ⟨hc, by simp [hiOK]⟩
    · refine OkP.bind OkP.trivial (fun after _ => ?_)
      refine OkP.ite (fun _ => hinner) (fun _ => ?_)
      simp only [OkP_ok, ShpH_mk, hiOK, Bool.and_eq_true]
      exact ⟨⟨hinner, hbr.1⟩, hbr.2⟩

end steps

/-- **the shape invariant of the recursive descent**, for every fuel, byte string, state, index,
    depth -/
theorem descH (re : Bytes) (isAlnum : Char → Bool) : ∀ f, DescH re isAlnum f := by
  intro f
  induction f with
  | zero =>
    constructor <;> intro st ix d
    · unfold parseRe; trivial
    · unfold reAltLoop; trivial
    · unfold parseBranch; trivial
    · unfold branchLoop; trivial
    · unfold parsePiece; trivial
    · unfold parseAtom; trivial
    · unfold parseGroup; trivial
    · unfold parseFlags; trivial
    · unfold parseConditional; trivial
  | succ f ih =>
    exact {
      re_ := stepH_parseRe ih
      alt_ := stepH_reAltLoop ih
      branch_ := stepH_parseBranch ih
      bloop_ := stepH_branchLoop ih
      piece_ := stepH_parsePiece ih
      atom_ := stepH_parseAtom ih
      group_ := stepH_parseGroup ih
      flags_ := stepH_parseFlags ih
      cond_ := stepH_parseConditional ih }

/-- `parse_re` returns a tree of the parser's shape: any bytes, fuel, state, index, depth -/
theorem parseRe_hiOK (isAlnum : Char → Bool) (re : Bytes) (f : Nat) (st st' : PState)
    (ix d ix' : Nat) (e : Expr) (h : parseRe isAlnum f re st ix d = .ok (ix', e, st')) :
    hiOK e = true :=
  ((descH re isAlnum f).re_ st ix d).of_eq h

/-- the same for `parseBytes` (any byte string, valid UTF-8 or not) -/
theorem parseBytes_hiOK (isAlnum : Char → Bool) (re : Bytes) (casei : Bool) (t : Tree)
    (h : parseBytes isAlnum re casei = .ok t) : hiOK t.expr = true := by
  obtain ⟨ix, st, hre, _, _⟩ := parseBytes_ok h
  exact parseRe_hiOK isAlnum _ _ _ _ _ _ _ _ hre

/-- **every tree the parser returns satisfies `hiOK`**: no upper bound `some usize::MAX` -/
theorem parse_hiOK (isAlnum : Char → Bool) (cs : List Char) (casei : Bool) (t : Tree)
    (h : parseStr isAlnum cs casei = .ok t) : hiOK t.expr = true :=
  parseBytes_hiOK isAlnum _ casei t h

mutual
/-- the parser's shape gives the analyzer's domain: an alternation with at least two children is non-empty -/
theorem analyzable_of_parsedOK : ∀ (e : Expr), parsedOK e = true → analyzable e = true
  | .concat es, h => by
    simp only [parsedOK] at h; simp only [analyzable]; exact analyzableAll_of_parsedOKAll es h
  | .alt es, h => by
    simp only [parsedOK, Bool.and_eq_true, decide_eq_true_eq] at h
    simp only [analyzable, Bool.and_eq_true, Bool.not_eq_true', List.isEmpty_eq_false_iff]
    exact ⟨by intro he; rw [he] at h; simp at h, analyzableAll_of_parsedOKAll es h.2⟩
  | .group _ e, h => by simp only [parsedOK] at h; simp only [analyzable]; exact analyzable_of_parsedOK e h
  | .look e _, h => by simp only [parsedOK] at h; simp only [analyzable]; exact analyzable_of_parsedOK e h
  | .repeat e _ _ _, h => by simp only [parsedOK] at h; simp only [analyzable]; exact analyzable_of_parsedOK e h
  | .atomic e, h => by simp only [parsedOK] at h; simp only [analyzable]; exact analyzable_of_parsedOK e h
  | .cond c y n, h => by
    simp only [parsedOK, Bool.and_eq_true] at h
    simp only [analyzable, Bool.and_eq_true]
    exact ⟨⟨analyzable_of_parsedOK c h.1.1, analyzable_of_parsedOK y h.1.2⟩, analyzable_of_parsedOK n h.2⟩
  | .empty, _ => rfl
  | .any _, _ => rfl
  | .assertion _, _ => rfl
  | .literal _ _, _ => rfl
  | .delegate _ _ _, _ => rfl
  | .backref _, _ => rfl
  | .keepOut, _ => rfl
  | .contPrev, _ => rfl
  | .backrefExists _, _ => rfl
  | .subroutine _, _ => rfl
theorem analyzableAll_of_parsedOKAll : ∀ (es : List Expr), parsedOKAll es = true → analyzableAll es = true
  | [], _ => rfl
  | e :: es, h => by
    simp only [parsedOKAll, Bool.and_eq_true] at h
    simp only [analyzableAll, Bool.and_eq_true]
    exact ⟨analyzable_of_parsedOK e h.1, analyzableAll_of_parsedOKAll es h.2⟩
end

/-- every parsed tree is in the analyzer's domain -/
theorem parse_analyzable (isAlnum : Char → Bool) (cs : List Char) (casei : Bool) (t : Tree)
    (h : parseStr isAlnum cs casei = .ok t) : analyzable t.expr = true :=
  analyzable_of_parsedOK t.expr (parse_parsedOK isAlnum cs casei t h)

end Fancy.Parse
