import FancyModel.Model.Compile
/-!
# An upper bound of the length of the compiled code (used by Proofs/C03d: the builder's `usize::MAX`
sentinel for "no previous alternative" is never a real program counter)
-/
namespace Fancy
set_option linter.unusedSimpArgs false

mutual
def codeBound : Expr → Nat
  | .concat es => codeBoundList es + 2
  | .alt es => codeBoundList es + 8
  | .group _ c => codeBound c + 2
  | .look c _ => codeBound c + 8
  | .repeat c _ _ _ => codeBound c + 3
  | .atomic c => codeBound c + 2
  | .cond c y n => codeBound c + codeBound y + codeBound n + 4
  | _ => 1
def codeBoundList : List Expr → Nat
  | [] => 0
  | e :: es => codeBound e + 8 + codeBoundList es
end

theorem one_le_codeBound (e : Expr) : 1 ≤ codeBound e := by
  cases e <;> simp only [codeBound] <;> omega

theorem compileDelegate_length (e : Expr) (g : Nat) : (compileDelegate e g).length = 1 := by
  unfold compileDelegate; split <;> rfl

theorem compileDelegates_length_le (es : List Expr) (g : Nat) : (compileDelegates es g).length ≤ 1 := by
  unfold compileDelegates; split
  · simp
  · split <;> simp

theorem wrapPosLook_length_le (a b : Bool) (s m : Nat) (body : Code) :
    (wrapPosLook a b s m body).length ≤ body.length + 5 := by
  unfold wrapPosLook; cases a <;> cases b <;> simp <;> omega

theorem wrapNegLook_length_le (b : Bool) (pc m : Nat) (body : Code) :
    (wrapNegLook b pc m body).length ≤ body.length + 3 := by
  unfold wrapNegLook; cases b <;> simp <;> omega

/-- the statement for one expression -/
def LenP (br : Nat → Bool) (e : Expr) : Prop :=
  ∀ (hard : Bool) (pc nsv gix : Nat) (code : Code) (n : Nat),
    Fancy.visit br e hard pc nsv gix = .ok (code, n) → code.length ≤ codeBound e

theorem visitMiddle_length_le (br : Nat → Bool) : ∀ (es : List Expr), (∀ e ∈ es, LenP br e) →
    ∀ (skip take pc nsv gix : Nat) (c : Code) (n : Nat),
    visitMiddle br es skip take pc nsv gix = .ok (c, n) → c.length ≤ codeBoundList es
  | [], _, _, _, _, _, _, c, n, h => by
    simp only [visitMiddle] at h; cases h; simp
  | e :: es, ih, skip + 1, take, pc, nsv, gix, c, n, h => by
    simp only [visitMiddle] at h
    have := visitMiddle_length_le br es (fun x hx => ih x (List.mem_cons_of_mem _ hx)) _ _ _ _ _ _ _ h
    simp only [codeBoundList]; omega
  | e :: es, ih, 0, 0, pc, nsv, gix, c, n, h => by
    simp only [visitMiddle] at h; cases h; simp
  | e :: es, ih, 0, take + 1, pc, nsv, gix, c, n, h => by
    simp only [visitMiddle] at h
    split at h
    · cases h
    · rename_i heq
      split at h
      · cases h
      · rename_i heq2
        cases h
        have h1 := ih e (List.mem_cons_self ..) _ _ _ _ _ _ heq
        have h2 := visitMiddle_length_le br es (fun x hx => ih x (List.mem_cons_of_mem _ hx)) _ _ _ _ _ _ _ heq2
        simp only [codeBoundList, List.length_append]; omega

theorem visitAlt_length_le (br : Nat → Bool) : ∀ (es : List Expr), (∀ e ∈ es, LenP br e) →
    ∀ (hard : Bool) (pc nsv gix : Nat) (f : Nat → Code) (endPc n : Nat),
    visitAlt br es hard pc nsv gix = .ok (f, endPc, n) → ∀ t, (f t).length ≤ codeBoundList es
  | [], _, _, _, _, _, f, endPc, n, h, t => by
    simp only [visitAlt] at h; cases h; simp
  | [e], ih, hard, pc, nsv, gix, f, endPc, n, h, t => by
    simp only [visitAlt] at h
    split at h
    · cases h
    · rename_i heq
      cases h
      have h1 := ih e (List.mem_cons_self ..) _ _ _ _ _ _ heq
      simp only [codeBoundList]; omega
  | e :: e2 :: es, ih, hard, pc, nsv, gix, f, endPc, n, h, t => by
    simp only [visitAlt] at h
    split at h
    · cases h
    · rename_i heq
      split at h
      · cases h
      · rename_i heq2
        cases h
        have h1 := ih e (List.mem_cons_self ..) _ _ _ _ _ _ heq
        have h2 := visitAlt_length_le br (e2 :: es) (fun x hx => ih x (List.mem_cons_of_mem _ hx)) _ _ _ _ _ _ _ heq2 t
        simp only [codeBoundList, List.length_append, List.length_cons, List.length_nil] at h2 ⊢; omega

theorem visitAltBody_length_le (br : Nat → Bool) (es : List Expr) (ih : ∀ e ∈ es, LenP br e)
    (pc nsv gix : Nat) (c : Code) (n : Nat)
    (h : visitAltBody br es pc nsv gix = .ok (c, n)) : c.length ≤ codeBoundList es + 8 := by
  rw [visitAltBody] at h
  split at h
  · cases h; rw [compileDelegate_length]; omega
  · split at h
    · cases h
    · rename_i f endPc _ heq
      cases h
      have := visitAlt_length_le br es ih _ _ _ _ _ _ _ heq endPc
      omega

theorem lookBehindAlts_length_le (br : Nat → Bool) : ∀ (es : List Expr), (∀ e ∈ es, LenP br e) →
    ∀ (pc nsv gix : Nat) (f : Nat → Code) (endPc n : Nat),
    lookBehindAlts br es pc nsv gix = .ok (f, endPc, n) → ∀ t, (f t).length ≤ codeBoundList es
  | [], _, _, _, _, f, endPc, n, h, t => by
    simp only [lookBehindAlts] at h; cases h; simp
  | [e], ih, pc, nsv, gix, f, endPc, n, h, t => by
    simp only [lookBehindAlts] at h
    split at h
    · cases h
    · split at h
      · cases h
      · rename_i body _ heq
        cases h
        have h1 := ih e (List.mem_cons_self ..) _ _ _ _ _ _ heq
        have h3 := wrapPosLook_length_le (isHard br e) true nsv (minSize e) body
        simp only [codeBoundList]; omega
  | e :: e2 :: es, ih, pc, nsv, gix, f, endPc, n, h, t => by
    simp only [lookBehindAlts] at h
    split at h
    · cases h
    · split at h
      · cases h
      · rename_i body _ heq
        split at h
        · cases h
        · rename_i heq2
          cases h
          have h1 := ih e (List.mem_cons_self ..) _ _ _ _ _ _ heq
          have h2 := lookBehindAlts_length_le br (e2 :: es) (fun x hx => ih x (List.mem_cons_of_mem _ hx)) _ _ _ _ _ _ heq2 t
          have h3 := wrapPosLook_length_le (isHard br e) true nsv (minSize e) body
          simp only [codeBoundList, List.length_append, List.length_cons, List.length_nil] at h2 ⊢; omega

theorem lookBehindNegAlts_length_le (br : Nat → Bool) : ∀ (es : List Expr), (∀ e ∈ es, LenP br e) →
    ∀ (pc nsv gix : Nat) (c : Code) (n : Nat),
    lookBehindNegAlts br es pc nsv gix = .ok (c, n) → c.length ≤ codeBoundList es
  | [], _, _, _, _, c, n, h => by
    simp only [lookBehindNegAlts] at h; cases h; simp
  | e :: es, ih, pc, nsv, gix, c, n, h => by
    simp only [lookBehindNegAlts] at h
    split at h
    · cases h
    · split at h
      · cases h
      · rename_i body _ heq
        split at h
        · cases h
        · rename_i heq2
          cases h
          have h1 := ih e (List.mem_cons_self ..) _ _ _ _ _ _ heq
          have h2 := lookBehindNegAlts_length_le br es (fun x hx => ih x (List.mem_cons_of_mem _ hx)) _ _ _ _ _ heq2
          have h3 := wrapNegLook_length_le true pc (minSize e) body
          simp only [codeBoundList, List.length_append] at h2 ⊢; omega

theorem lenP_deleg (e : Expr) (g : Nat) : (compileDelegate e g).length ≤ codeBound e := by
  rw [compileDelegate_length]; exact one_le_codeBound e

/-- split `h` along every `if` / `match`, in whatever order `split` finds them -/
syntax "splits " ident : tactic
macro_rules
  | `(tactic| splits $h:ident) =>
    `(tactic| first
      | (split at $h:ident <;> splits $h)
      | (dsimp only at $h:ident; split at $h:ident <;> splits $h)
      | skip)

theorem lenP_group (br : Nat → Bool) (g : Nat) (c : Expr) (ih : LenP br c) : LenP br (.group g c) := by
  intro hard pc nsv gix code n h
  rw [visit] at h
  split at h
  · cases h; exact lenP_deleg _ _
  · split at h
    · cases h
    · rename_i heq
      cases h
      have := ih _ _ _ _ _ _ heq
      simp only [codeBound, List.length_append, List.length_cons, List.length_nil]; omega

theorem lenP_atomic (br : Nat → Bool) (c : Expr) (ih : LenP br c) : LenP br (.atomic c) := by
  intro hard pc nsv gix code n h
  rw [visit] at h
  split at h
  · cases h; exact lenP_deleg _ _
  · split at h
    · cases h
    · rename_i heq
      cases h
      have := ih _ _ _ _ _ _ heq
      simp only [codeBound, List.length_append, List.length_cons, List.length_nil]; omega

theorem lenP_cond (br : Nat → Bool) (c y n : Expr) (ihc : LenP br c) (ihy : LenP br y) (ihn : LenP br n) :
    LenP br (.cond c y n) := by
  intro hard pc nsv gix code n' h
  rw [visit] at h
  split at h
  · cases h; exact lenP_deleg _ _
  · split at h
    · cases h
    · rename_i heq1
      dsimp only at h
      split at h
      · cases h
      · rename_i heq2
        try dsimp only at h
        split at h
        · cases h
        · rename_i heq3
          cases h
          have := ihc _ _ _ _ _ _ heq1
          have := ihy _ _ _ _ _ _ heq2
          have := ihn _ _ _ _ _ _ heq3
          simp only [codeBound, List.length_append, List.length_cons, List.length_nil]; omega

theorem lenP_repeat (br : Nat → Bool) (c : Expr) (lo : Nat) (hi : Option Nat) (gr : Bool) (ih : LenP br c) :
    LenP br (.repeat c lo hi gr) := by
  intro hard pc nsv gix code n h
  rw [visit] at h
  split at h
  · cases h; exact lenP_deleg _ _
  · splits h
    all_goals first
      | (cases h; done)
      | (rename_i heq
         cases h
         have := ih _ _ _ _ _ _ heq
         simp only [codeBound, List.length_append, List.length_cons, List.length_nil]; omega)
      | (rename_i heq _
         cases h
         have := ih _ _ _ _ _ _ heq
         simp only [codeBound, List.length_append, List.length_cons, List.length_nil]; omega)

theorem lenP_alt (br : Nat → Bool) (es : List Expr) (ih : ∀ e ∈ es, LenP br e) : LenP br (.alt es) := by
  intro hard pc nsv gix code n h
  rw [visit] at h
  split at h
  · cases h; exact lenP_deleg _ _
  · split at h
    · cases h
    · rename_i f endPc _ heq
      cases h
      have := visitAlt_length_le br es ih _ _ _ _ _ _ _ heq endPc
      simp only [codeBound]; omega

theorem lenP_concat (br : Nat → Bool) (es : List Expr) (ih : ∀ e ∈ es, LenP br e) : LenP br (.concat es) := by
  intro hard pc nsv gix code n h
  rw [visit] at h
  split at h
  · cases h; exact lenP_deleg _ _
  · dsimp only at h
    split at h
    · cases h
    · rename_i heq
      cases h
      have h1 := visitMiddle_length_le br es ih _ _ _ _ _ _ _ heq
      have h2 := compileDelegates_length_le (es.take (concatSplit br es hard).1) gix
      have h3 := compileDelegates_length_le (es.drop (concatSplit br es hard).2)
        (gix + groupCountList (es.take (concatSplit br es hard).2))
      simp only [codeBound, List.length_append]; omega

/-- the leaves: after unfolding, every branch is a delegate, a one-instruction list, `[]` or an error -/
syntax "leaf " ident : tactic
macro_rules
  | `(tactic| leaf $h:ident) =>
    `(tactic| (rw [visit] at $h:ident; splits $h
               all_goals first
                 | (cases $h:ident; done)
                 | (cases $h:ident; first | exact lenP_deleg _ _ | (simp [codeBound]; done))))

theorem lenP_empty (br : Nat → Bool) : LenP br .empty := by
  intro hard pc nsv gix code n h; leaf h
theorem lenP_any (br : Nat → Bool) (b : Bool) : LenP br (.any b) := by
  intro hard pc nsv gix code n h; cases b <;> leaf h
theorem lenP_assertion (br : Nat → Bool) (a : Assertion) : LenP br (.assertion a) := by
  intro hard pc nsv gix code n h; leaf h
theorem lenP_literal (br : Nat → Bool) (v : List Char) (ci : Bool) : LenP br (.literal v ci) := by
  intro hard pc nsv gix code n h; leaf h
theorem lenP_delegate (br : Nat → Bool) (i : List Char) (sz : Nat) (ci : Bool) : LenP br (.delegate i sz ci) := by
  intro hard pc nsv gix code n h; leaf h
theorem lenP_backref (br : Nat → Bool) (g : Nat) : LenP br (.backref g) := by
  intro hard pc nsv gix code n h; leaf h
theorem lenP_keepOut (br : Nat → Bool) : LenP br .keepOut := by
  intro hard pc nsv gix code n h; leaf h
theorem lenP_contPrev (br : Nat → Bool) : LenP br .contPrev := by
  intro hard pc nsv gix code n h; leaf h
theorem lenP_backrefExists (br : Nat → Bool) (g : Nat) : LenP br (.backrefExists g) := by
  intro hard pc nsv gix code n h; leaf h
theorem lenP_subroutine (br : Nat → Bool) (g : Nat) : LenP br (.subroutine g) := by
  intro hard pc nsv gix code n h; leaf h

theorem lenP_look_ahead (br : Nat → Bool) (c : Expr) (ih : LenP br c) : LenP br (.look c .ahead) := by
  intro hard pc nsv gix code n h
  rw [visit] at h
  split at h
  · cases h; exact lenP_deleg _ _
  · split at h
    · cases h
    · rename_i body _ heq
      cases h
      have := ih _ _ _ _ _ _ heq
      have := wrapPosLook_length_le (isHard br c) false nsv 0 body
      simp only [codeBound]; omega

theorem lenP_look_aheadNeg (br : Nat → Bool) (c : Expr) (ih : LenP br c) : LenP br (.look c .aheadNeg) := by
  intro hard pc nsv gix code n h
  rw [visit] at h
  split at h
  · cases h; exact lenP_deleg _ _
  · split at h
    · cases h
    · rename_i body _ heq
      cases h
      have := ih _ _ _ _ _ _ heq
      have := wrapNegLook_length_le false pc 0 body
      simp only [codeBound]; omega

theorem lenP_look_behind_alt (br : Nat → Bool) (es : List Expr) (ih : ∀ e ∈ es, LenP br e) :
    LenP br (.look (.alt es) .behind) := by
  intro hard pc nsv gix code n h
  rw [visit] at h
  split at h
  · cases h; exact lenP_deleg _ _
  · split at h
    · split at h
      · cases h
      · rename_i f endPc _ heq
        cases h
        have := lookBehindAlts_length_le br es ih _ _ _ _ _ _ heq endPc
        simp only [codeBound, List.length_append, List.length_cons, List.length_nil]; omega
    · split at h
      · cases h
      · rename_i body _ heq
        cases h
        have := visitAltBody_length_le br es ih _ _ _ _ _ heq
        have := wrapPosLook_length_le (isHardAny br es) true nsv (minSizeMin es) body
        simp only [codeBound]; omega

theorem lenP_look_behindNeg_alt (br : Nat → Bool) (es : List Expr) (ih : ∀ e ∈ es, LenP br e) :
    LenP br (.look (.alt es) .behindNeg) := by
  intro hard pc nsv gix code n h
  rw [visit] at h
  split at h
  · cases h; exact lenP_deleg _ _
  · split at h
    · have := lookBehindNegAlts_length_le br es ih _ _ _ _ _ h
      simp only [codeBound]; omega
    · split at h
      · cases h
      · rename_i body _ heq
        cases h
        have := visitAltBody_length_le br es ih _ _ _ _ _ heq
        have := wrapNegLook_length_le true pc (minSizeMin es) body
        simp only [codeBound]; omega

theorem lenP_look_behind (br : Nat → Bool) (c : Expr) (hc : ∀ es, c ≠ .alt es) (ih : LenP br c) :
    LenP br (.look c .behind) := by
  intro hard pc nsv gix code n h
  rw [visit] at h
  · split at h
    · cases h; exact lenP_deleg _ _
    · split at h
      · cases h
      · split at h
        · cases h
        · rename_i body _ heq
          cases h
          have := ih _ _ _ _ _ _ heq
          have := wrapPosLook_length_le (isHard br c) true nsv (minSize c) body
          simp only [codeBound]; omega
  · exact fun es he => hc es he

theorem lenP_look_behindNeg (br : Nat → Bool) (c : Expr) (hc : ∀ es, c ≠ .alt es) (ih : LenP br c) :
    LenP br (.look c .behindNeg) := by
  intro hard pc nsv gix code n h
  rw [visit] at h
  · split at h
    · cases h; exact lenP_deleg _ _
    · split at h
      · cases h
      · split at h
        · cases h
        · rename_i body _ heq
          cases h
          have := ih _ _ _ _ _ _ heq
          have := wrapNegLook_length_le true pc (minSize c) body
          simp only [codeBound]; omega
  · exact fun es he => hc es he

/-- all look-arounds: `ihl` gives the statement for the alternatives when the body is an alternation -/
theorem lenP_look (br : Nat → Bool) (c : Expr) (la : Look) (ih : LenP br c)
    (ihl : ∀ es, c = .alt es → ∀ e ∈ es, LenP br e) : LenP br (.look c la) := by
  cases la
  · exact lenP_look_ahead br c ih
  · exact lenP_look_aheadNeg br c ih
  · by_cases hc : ∃ es, c = .alt es
    · obtain ⟨es, rfl⟩ := hc
      exact lenP_look_behind_alt br es (ihl es rfl)
    · exact lenP_look_behind br c (fun es he => hc ⟨es, he⟩) ih
  · by_cases hc : ∃ es, c = .alt es
    · obtain ⟨es, rfl⟩ := hc
      exact lenP_look_behindNeg_alt br es (ihl es rfl)
    · exact lenP_look_behindNeg br c (fun es he => hc ⟨es, he⟩) ih

/-- the statement, together with the statement for the alternatives of an alternation (needed one
    level up, by a look-behind over an alternation) -/
def LenP' (br : Nat → Bool) (e : Expr) : Prop :=
  LenP br e ∧ ∀ es, e = .alt es → ∀ x ∈ es, LenP br x

theorem lenP'_of (br : Nat → Bool) (e : Expr) (h : LenP br e) (hn : ∀ es, e ≠ .alt es) : LenP' br e :=
  ⟨h, fun es he => absurd he (hn es)⟩

mutual
theorem lenP_all' (br : Nat → Bool) : ∀ e : Expr, LenP' br e
  | .empty => lenP'_of br _ (lenP_empty br) (by intro es he; cases he)
  | .any b => lenP'_of br _ (lenP_any br b) (by intro es he; cases he)
  | .assertion a => lenP'_of br _ (lenP_assertion br a) (by intro es he; cases he)
  | .literal v ci => lenP'_of br _ (lenP_literal br v ci) (by intro es he; cases he)
  | .concat es => lenP'_of br _ (lenP_concat br es (fun x hx => lenP_allList br es x hx)) (by intro es he; cases he)
  | .alt es => ⟨lenP_alt br es (fun x hx => lenP_allList br es x hx),
      fun es' he => by cases he; exact fun x hx => lenP_allList br es x hx⟩
  | .group g c => lenP'_of br _ (lenP_group br g c (lenP_all' br c).1) (by intro es he; cases he)
  | .look c la => lenP'_of br _ (lenP_look br c la (lenP_all' br c).1 (lenP_all' br c).2) (by intro es he; cases he)
  | .repeat c lo hi gr => lenP'_of br _ (lenP_repeat br c lo hi gr (lenP_all' br c).1) (by intro es he; cases he)
  | .delegate i sz ci => lenP'_of br _ (lenP_delegate br i sz ci) (by intro es he; cases he)
  | .backref g => lenP'_of br _ (lenP_backref br g) (by intro es he; cases he)
  | .atomic c => lenP'_of br _ (lenP_atomic br c (lenP_all' br c).1) (by intro es he; cases he)
  | .keepOut => lenP'_of br _ (lenP_keepOut br) (by intro es he; cases he)
  | .contPrev => lenP'_of br _ (lenP_contPrev br) (by intro es he; cases he)
  | .backrefExists g => lenP'_of br _ (lenP_backrefExists br g) (by intro es he; cases he)
  | .cond c y n => lenP'_of br _ (lenP_cond br c y n (lenP_all' br c).1 (lenP_all' br y).1 (lenP_all' br n).1)
      (by intro es he; cases he)
  | .subroutine g => lenP'_of br _ (lenP_subroutine br g) (by intro es he; cases he)
theorem lenP_allList (br : Nat → Bool) : ∀ (es : List Expr) (e : Expr), e ∈ es → LenP br e
  | [], _, h => by cases h
  | x :: xs, e, h => by
    rcases List.mem_cons.mp h with he | h'
    · exact he ▸ (lenP_all' br x).1
    · exact lenP_allList br xs e h'
end

theorem lenP_all (br : Nat → Bool) (e : Expr) : LenP br e := (lenP_all' br e).1

theorem visit_length_le (br : Nat → Bool) (e : Expr) (hard : Bool) (pc nsv gix : Nat) (code : Code) (n : Nat)
    (h : Fancy.visit br e hard pc nsv gix = .ok (code, n)) : code.length ≤ codeBound e :=
  lenP_all br e hard pc nsv gix code n h

theorem visitMiddle_length_le' (br : Nat → Bool) (es : List Expr) (skip take pc nsv gix : Nat) (c : Code) (n : Nat)
    (h : visitMiddle br es skip take pc nsv gix = .ok (c, n)) : c.length ≤ codeBoundList es :=
  visitMiddle_length_le br es (lenP_allList br es) _ _ _ _ _ _ _ h

theorem visitAlt_length_le' (br : Nat → Bool) (es : List Expr) (hard : Bool) (pc nsv gix : Nat)
    (f : Nat → Code) (endPc n : Nat)
    (h : visitAlt br es hard pc nsv gix = .ok (f, endPc, n)) (t : Nat) : (f t).length ≤ codeBoundList es :=
  visitAlt_length_le br es (lenP_allList br es) _ _ _ _ _ _ _ h t

theorem visitAltBody_length_le' (br : Nat → Bool) (es : List Expr) (pc nsv gix : Nat) (c : Code) (n : Nat)
    (h : visitAltBody br es pc nsv gix = .ok (c, n)) : c.length ≤ codeBoundList es + 8 :=
  visitAltBody_length_le br es (lenP_allList br es) _ _ _ _ _ h

theorem lookBehindAlts_length_le' (br : Nat → Bool) (es : List Expr) (pc nsv gix : Nat)
    (f : Nat → Code) (endPc n : Nat)
    (h : lookBehindAlts br es pc nsv gix = .ok (f, endPc, n)) (t : Nat) : (f t).length ≤ codeBoundList es :=
  lookBehindAlts_length_le br es (lenP_allList br es) _ _ _ _ _ _ h t

theorem lookBehindNegAlts_length_le' (br : Nat → Bool) (es : List Expr) (pc nsv gix : Nat) (c : Code) (n : Nat)
    (h : lookBehindNegAlts br es pc nsv gix = .ok (c, n)) : c.length ≤ codeBoundList es :=
  lookBehindNegAlts_length_le br es (lenP_allList br es) _ _ _ _ _ h

end Fancy

