import FancyModel.GeneratedParse
/-!
# Small facts used by Proofs/C06d (the generated parser = the parser model): the `Res` monad, the `Str` adaptor
-/
namespace Fancy.GenParse
open Fancy.Parse

@[simp] theorem res_pure {α : Type} (a : α) : (pure a : Res α) = .ok a := rfl
@[simp] theorem res_bind_ok {α β : Type} (a : α) (f : α → Res β) : (Res.ok a >>= f) = f a := rfl
@[simp] theorem res_bind_err {α β : Type} (k : PErr) (p : Nat) (f : α → Res β) : ((Res.err k p : Res α) >>= f) = .err k p := rfl
@[simp] theorem res_bind_cerr {α β : Type} (f : α → Res β) : ((Res.cerr : Res α) >>= f) = .cerr := rfl
@[simp] theorem res_bind_panic {α β : Type} (s : String) (f : α → Res β) : ((Res.panic s : Res α) >>= f) = .panic s := rfl
@[simp] theorem res_bind_fuel {α β : Type} (f : α → Res β) : ((Res.outOfFuel : Res α) >>= f) = .outOfFuel := rfl
theorem res_bind_def {α β : Type} (x : Res α) (f : α → Res β) : (x >>= f) = Res.bind x f := rfl

/-- mapping the value of a result -/
def Res.mapv {α β : Type} (g : α → β) : Res α → Res β
  | .ok a => .ok (g a)
  | .err k p => .err k p
  | .cerr => .cerr
  | .panic s => .panic s
  | .outOfFuel => .outOfFuel

@[simp] theorem str_len_whole (re : Bytes) : (⟨re, 0⟩ : Str).len = re.size := by simp [Str.len]
@[simp] theorem str_byteAt_whole (re : Bytes) (i : Nat) (s : String) : (⟨re, 0⟩ : Str).byteAt i s = byteAt re i s := by
  simp [Str.byteAt]
@[simp] theorem str_slice_whole (re : Bytes) (a b : Nat) (s : String) : (⟨re, 0⟩ : Str).slice a b s = slice re a b s := by
  simp [Str.slice]

end Fancy.GenParse
