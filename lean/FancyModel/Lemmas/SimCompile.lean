import FancyModel.Lemmas.Sim
import FancyModel.Model.Compile
/-!
# The compiler emits simulating code for the interpreted core (stage S1)

`isCore e`: literals, `.`, assertions, `\K`, `\G`, back-references, concatenation, alternation,
capture groups and the quantifiers `?`, `*`, `+` (greedy or lazy; `*`/`+` over a body that cannot
match empty). For such `e`, in a hard context, if the code `visit` emits contains no `Delegate`
instruction (`noDeleg`: the easy constant-size runs that `compile_concat` splits off are pure
literals and became `Lit`), then that code simulates `sem c e` (`sim_visit`).
-/
namespace Fancy

mutual
def isCore : Expr → Bool
  | .empty => true
  | .any _ => true
  | .assertion _ => true
  | .literal v ci => !ci && v.length == 1
  | .concat es => isCoreAll es
  | .alt es => !es.isEmpty && isCoreAll es
  | .group _ e => isCore e
  | .repeat e lo hi _ =>
    isCore e && ((lo == 0 && hi == some 1) || (hi == none && (lo == 0 || lo == 1) && decide (0 < minSize e)))
  | .backref _ => true
  | .keepOut => true
  | .contPrev => true
  | _ => false
def isCoreAll : List Expr → Bool
  | [] => true
  | e :: es => isCore e && isCoreAll es
end



theorem noDeleg_append (a b : List Insn) : noDeleg (a ++ b) = (noDeleg a && noDeleg b) := by
  simp [noDeleg, List.all_append]

mutual
theorem isCore_wellShaped : ∀ (e : Expr), isCore e = true → wellShaped e = true
  | .empty, _ | .any _, _ | .assertion _, _ | .backref _, _ | .keepOut, _ | .contPrev, _ => by simp [wellShaped]
  | .literal v ci, h => by simp only [isCore, Bool.and_eq_true] at h; simpa [wellShaped] using h.2
  | .concat es, h => by simp only [isCore] at h; simpa [wellShaped] using isCoreAll_wellShaped es h
  | .alt es, h => by
    simp only [isCore, Bool.and_eq_true] at h
    simp only [wellShaped, Bool.and_eq_true]
    exact ⟨h.1, isCoreAll_wellShaped es h.2⟩
  | .group _ e, h => by simp only [isCore] at h; simpa [wellShaped] using isCore_wellShaped e h
  | .repeat e _ _ _, h => by
    simp only [isCore, Bool.and_eq_true] at h; simpa [wellShaped] using isCore_wellShaped e h.1
  | .look _ _, h | .delegate _ _ _, h | .atomic _, h | .backrefExists _, h | .cond _ _ _, h | .subroutine _, h => by
    simp [isCore] at h
theorem isCoreAll_wellShaped : ∀ (es : List Expr), isCoreAll es = true → wellShapedAll es = true
  | [], _ => rfl
  | e :: es, h => by
    simp only [isCoreAll, Bool.and_eq_true] at h
    simp only [wellShapedAll, Bool.and_eq_true]
    exact ⟨isCore_wellShaped e h.1, isCoreAll_wellShaped es h.2⟩
end

/-- a body with positive minimum size advances -/
theorem advances_of_minSize (c : Ctx) (e : Expr) (hw : wellShaped e = true) (hm : 0 < minSize e) :
    Advances (sem c e) := by
  intro st r hr
  have := C13_min_sound c e hw st r hr
  omega

theorem keepsGood_sem (c : Ctx) (n : Nat) (e : Expr) : KeepsGood c n (sem c e) :=
  fun st r hg hr => sem_good c n e st r hg hr

theorem keepsGood_semConcat (c : Ctx) (n : Nat) (es : List Expr) : KeepsGood c n (semConcat c es) :=
  fun st r hg hr => semConcat_good c n es st r hg hr

/-! ## Literal runs -/

theorem litAt_append (c : Ctx) (a b : List Char) (ix : Nat) :
    c.litAt false (a ++ b) ix = (c.litAt false a ix && c.litAt false b (ix + a.length)) := by
  induction a generalizing ix with
  | nil => simp [Ctx.litAt]
  | cons x xs ih =>
    simp only [List.cons_append, Ctx.litAt, List.length_cons]
    cases c.at? ix with
    | none => simp
    | some ch =>
      simp only
      rw [ih (ix + 1)]
      have : ix + 1 + xs.length = ix + (xs.length + 1) := by omega
      rw [this, Bool.and_assoc]

mutual
theorem sem_isLiteral (c : Ctx) : ∀ (e : Expr), isLiteral e = true → ∀ st,
    sem c e st = if c.litAt false (pushLiteral e) st.ix then [{ st with ix := st.ix + (pushLiteral e).length }] else []
  | .literal v ci, h, st => by
    have : ci = false := by simpa [isLiteral] using h
    subst this
    simp only [sem, pushLiteral]
    by_cases hq : c.litAt false v st.ix = true <;> simp [hq]
  | .concat es, h, st => by
    simp only [sem, pushLiteral]
    exact semConcat_isLiteralAll c es (by simpa [isLiteral] using h) st
  | .empty, h, _ | .any _, h, _ | .assertion _, h, _ | .alt _, h, _ | .group _ _, h, _ | .look _ _, h, _
  | .repeat _ _ _ _, h, _ | .delegate _ _ _, h, _ | .backref _, h, _ | .atomic _, h, _ | .keepOut, h, _
  | .contPrev, h, _ | .backrefExists _, h, _ | .cond _ _ _, h, _ | .subroutine _, h, _ => by simp [isLiteral] at h
theorem semConcat_isLiteralAll (c : Ctx) : ∀ (es : List Expr), isLiteralAll es = true → ∀ st,
    semConcat c es st =
      if c.litAt false (pushLiteralAll es) st.ix then [{ st with ix := st.ix + (pushLiteralAll es).length }] else []
  | [], _, st => by simp [semConcat, pushLiteralAll, Ctx.litAt]
  | e :: es, h, st => by
    simp only [isLiteralAll, Bool.and_eq_true] at h
    simp only [semConcat, pushLiteralAll]
    have hla := litAt_append c (pushLiteral e) (pushLiteralAll es) st.ix
    rw [sem_isLiteral c e h.1 st]
    by_cases h1 : c.litAt false (pushLiteral e) st.ix = true
    · simp only [h1, ↓reduceIte, List.flatMap_cons, List.flatMap_nil, List.append_nil, Bool.true_and] at hla ⊢
      rw [semConcat_isLiteralAll c es h.2]
      simp only [List.length_append]
      by_cases h2 : c.litAt false (pushLiteralAll es) (st.ix + (pushLiteral e).length) = true
      · simp [h2, hla, Nat.add_assoc]
      · simp [h2, hla]
    · simp only [h1, Bool.false_and] at hla
      simp [h1, hla]
end

/-- `compile_delegates` of an all-literal run is a single `Lit` (or nothing) and simulates the run -/
theorem sim_literal_run (c : Ctx) (n : Nat) (prog : List Insn) (es : List Expr) (gix a : Nat)
    (hl : isLiteralAll es = true) (hc : CodeAt prog a (compileDelegates es gix)) :
    Sim c n prog (semConcat c es) a (a + (compileDelegates es gix).length) := by
  unfold compileDelegates at hc ⊢
  by_cases he : es.isEmpty = true
  · simp only [he, ↓reduceIte, List.length_nil, Nat.add_zero]
    have : es = [] := by simpa using he
    subst this
    exact (Sim.nil c n prog a).congr (fun st => by simp [semConcat])
  · simp only [he, Bool.false_eq_true, ↓reduceIte, hl, List.length_cons, List.length_nil, Nat.zero_add] at hc ⊢
    have := sim_lit c n prog a (pushLiteralAll es) hc.head
    exact this.congr (fun st => (semConcat_isLiteralAll c es hl st).symm)

end Fancy

namespace Fancy

theorem compileDelegates_noDeleg (es : List Expr) (gix : Nat) (h : noDeleg (compileDelegates es gix) = true) :
    es.isEmpty = true ∨ isLiteralAll es = true := by
  unfold compileDelegates at h
  by_cases he : es.isEmpty = true
  · left; exact he
  · right
    by_cases hl : isLiteralAll es = true
    · exact hl
    · simp [he, hl, noDeleg, Insn.isDelegate] at h

theorem sim_delegates_run (c : Ctx) (n : Nat) (prog : List Insn) (es : List Expr) (gix a : Nat)
    (hn : noDeleg (compileDelegates es gix) = true) (hc : CodeAt prog a (compileDelegates es gix)) :
    Sim c n prog (semConcat c es) a (a + (compileDelegates es gix).length) := by
  rcases compileDelegates_noDeleg es gix hn with he | hl
  · have : es = [] := by simpa using he
    subst this
    simpa [compileDelegates, semConcat] using
      (Sim.nil c n prog a).congr (fun st => by simp [semConcat])
  · exact sim_literal_run c n prog es gix a hl hc

/-- `x?` in the reference semantics -/
theorem sem_opt (c : Ctx) (e : Expr) (greedy : Bool) (st : St) :
    sem c (.repeat e 0 (some 1) greedy) st = if greedy then sem c e st ++ [st] else st :: sem c e st := by
  simp only [sem]
  have hF : max 0 ((some 1 : Option Nat).getD 0) + c.len + 2 = (c.len + 1) + 1 + 1 := by simp; omega
  rw [hF]
  have h2 : ∀ (r : St), repLoop (sem c e) 0 (some 1) greedy (c.len + 1 + 1) 1 r = [r] := by
    intro r; simp [repLoop]
  conv => lhs; unfold repLoop
  simp only [Option.some.injEq, Nat.succ_ne_self, ↓reduceIte, Option.isNone_some, Bool.false_and,
    Bool.false_eq_true, Nat.lt_irrefl, h2]
  have : ∀ l : List St, (l.flatMap fun r => [r]) = l := by
    intro l; induction l with
    | nil => rfl
    | cons a as ih => simp [ih]
  simp [this]

theorem isCoreAll_drop (es : List Expr) (k : Nat) (h : isCoreAll es = true) : isCoreAll (es.drop k) = true := by
  induction es generalizing k with
  | nil => simp [isCoreAll]
  | cons e es ih =>
    cases k with
    | zero => simpa using h
    | succ k =>
      simp only [isCoreAll, Bool.and_eq_true] at h
      simpa using ih k h.2

theorem slotsBelowAll_drop (n : Nat) (es : List Expr) (k : Nat) (h : slotsBelowAll n es = true) :
    slotsBelowAll n (es.drop k) = true := by
  induction es generalizing k with
  | nil => simp [slotsBelowAll]
  | cons e es ih =>
    cases k with
    | zero => simpa using h
    | succ k =>
      simp only [slotsBelowAll, Bool.and_eq_true] at h
      simpa using ih k h.2

theorem length_takeWhile_le' {α : Type} (p : α → Bool) (l : List α) : (l.takeWhile p).length ≤ l.length := by
  induction l with
  | nil => simp
  | cons a as ih => simp only [List.takeWhile_cons]; split <;> simp <;> omega

theorem concatSplit_le (br : Nat → Bool) (es : List Expr) (hard : Bool) :
    (concatSplit br es hard).1 ≤ (concatSplit br es hard).2 ∧ (concatSplit br es hard).2 ≤ es.length := by
  unfold concatSplit
  simp only
  have h1 : (List.takeWhile (fun c => constSize c && !isHard br c) es).length ≤ es.length :=
    length_takeWhile_le' _ _
  generalize (List.takeWhile (fun c => constSize c && !isHard br c) es).length = p at h1
  have hrest : ∀ (q : Expr → Bool), (List.takeWhile q (List.drop p es).reverse).length ≤ es.length - p := by
    intro q
    have := length_takeWhile_le' q (List.drop p es).reverse
    simpa using this
  split
  · have := hrest (fun c => !isHard br c); constructor <;> omega
  · have := hrest (fun c => constSize c && !isHard br c); constructor <;> omega

end Fancy

namespace Fancy

theorem CodeAt.head_at {prog : List Insn} {a b : Nat} {i : Insn} {rest : List Insn}
    (h : CodeAt prog a (i :: rest)) (hb : b = a) : prog[b]? = some i := hb ▸ h.head

theorem CodeAt.cast {prog : List Insn} {a b : Nat} {code : List Insn}
    (h : CodeAt prog a code) (hb : b = a) : CodeAt prog b code := hb ▸ h

theorem Sim.cast {c : Ctx} {n : Nat} {prog : List Insn} {f : St → List St} {a b a' b' : Nat}
    (h : Sim c n prog f a b) (ha : a' = a) (hb : b' = b) : Sim c n prog f a' b' := by
  subst ha; subst hb; exact h

/-- address arithmetic over code lengths -/
macro "addr" : tactic =>
  `(tactic| (simp only [List.length_append, List.length_cons, List.length_nil, List.length_singleton] at * <;> omega))

/-- the loop Sim for `*` packaged as a `Sim` -/
theorem sim_star {c : Ctx} {n : Nat} {prog : List Insn} {e : Expr} {pc m : Nat} {greedy : Bool}
    (hsplit : prog[pc]? = some (if greedy then .split (pc + 1) (m + 1) else .split (m + 1) (pc + 1)))
    (hjmp : prog[m]? = some (.jmp pc))
    (hbody : Sim c n prog (sem c e) (pc + 1) m)
    (hw : wellShaped e = true) (hm : 0 < minSize e) :
    Sim c n prog (sem c (.repeat e 0 none greedy)) pc (m + 1) := by
  have hadv := advances_of_minSize c e hw hm
  have hkg := keepsGood_sem c n e
  have hflow : ∀ ix saves X a, Big c prog (.run pc ix saves X) a → Big c prog (.run m ix saves X) a := by
    intro ix saves X a hb
    exact Big.step _ _ _ _ _ _ (by simp [astep, hjmp]) hb
  intro st X succ failA hg hf hs
  simp only [sem] at hs ⊢
  cases greedy with
  | true =>
    exact loop_greedy (lo := 0) (by simpa using hsplit) hbody hflow hadv hkg (c.len - st.ix) st X succ failA _ 0
      (Nat.le_refl _) hg (Nat.le_refl _) (by simp; omega) hf hs
  | false =>
    exact loop_lazy (lo := 0) (by simpa using hsplit) hbody hflow hadv hkg (c.len - st.ix) st X succ failA _ 0
      (Nat.le_refl _) hg (Nat.le_refl _) (by simp; omega) hf hs

/-- `x+` in the reference semantics: one mandatory iteration, then the loop -/
theorem sem_plus (c : Ctx) (e : Expr) (greedy : Bool) (st : St) :
    sem c (.repeat e 1 none greedy) st =
      (sem c e st).flatMap fun r => repLoop (sem c e) 1 none greedy (c.len + 2) 1 r := by
  simp only [sem]
  have hF : max 1 ((none : Option Nat).getD 0) + c.len + 2 = (c.len + 2) + 1 := by simp; omega
  rw [hF]
  conv => lhs; unfold repLoop
  simp

theorem sim_plus {c : Ctx} {n : Nat} {prog : List Insn} {e : Expr} {pc m : Nat} {greedy : Bool}
    (hsplit : prog[m]? = some (if greedy then .split pc (m + 1) else .split (m + 1) pc))
    (hbody : Sim c n prog (sem c e) pc m)
    (hw : wellShaped e = true) (hm : 0 < minSize e) :
    Sim c n prog (sem c (.repeat e 1 none greedy)) pc (m + 1) := by
  have hadv := advances_of_minSize c e hw hm
  have hkg := keepsGood_sem c n e
  have hloop : Sim c n prog (fun r => repLoop (sem c e) 1 none greedy (c.len + 2) 1 r) m (m + 1) := by
    intro st X succ failA hg hf hs
    cases greedy with
    | true =>
      exact loop_greedy (lo := 1) (by simpa using hsplit) hbody (fun _ _ _ _ hb => hb) hadv hkg (c.len - st.ix) st X
        succ failA _ 1 (Nat.le_refl _) hg (Nat.le_refl _) (by omega) hf hs
    | false =>
      exact loop_lazy (lo := 1) (by simpa using hsplit) hbody (fun _ _ _ _ hb => hb) hadv hkg (c.len - st.ix) st X
        succ failA _ 1 (Nat.le_refl _) hg (Nat.le_refl _) (by omega) hf hs
  exact (hbody.seq hloop hkg).congr (fun st => (sem_plus c e greedy st).symm)

mutual
theorem sim_visit (c : Ctx) (n : Nat) (br : Nat → Bool) (hlen : c.len < UNSET) :
    ∀ (e : Expr) (pc nsv gix : Nat) (code : Code) (nsv' : Nat) (prog : List Insn),
      isCore e = true → slotsBelow n e = true →
      visit br e true pc nsv gix = .ok (code, nsv') → noDeleg code = true → CodeAt prog pc code →
      Sim c n prog (sem c e) pc (pc + code.length)
  | .empty, pc, nsv, gix, code, nsv', prog, _, _, hv, _, _ => by
    rw [visit] at hv
    simp at hv
    obtain ⟨rfl, rfl⟩ := hv
    simpa using (Sim.nil c n prog pc).congr (fun st => by simp [sem])
  | .any nl, pc, nsv, gix, code, nsv', prog, _, _, hv, _, hc => by
    cases nl with
    | true =>
      rw [visit] at hv
      simp at hv; obtain ⟨rfl, rfl⟩ := hv
      simpa using sim_any c n prog pc hc.head
    | false =>
      rw [visit] at hv
      simp at hv; obtain ⟨rfl, rfl⟩ := hv
      simpa using sim_anyNoNL c n prog pc hc.head
  | .assertion a, pc, nsv, gix, code, nsv', prog, _, _, hv, _, hc => by
    rw [visit] at hv
    simp at hv; obtain ⟨rfl, rfl⟩ := hv
    simpa using sim_assertion c n prog pc a hc.head
  | .literal v ci, pc, nsv, gix, code, nsv', prog, hcore, _, hv, _, hc => by
    simp only [isCore, Bool.and_eq_true, Bool.not_eq_true'] at hcore
    have hci : ci = false := hcore.1
    subst hci
    rw [visit] at hv
    simp at hv; obtain ⟨rfl, rfl⟩ := hv
    have := sim_lit c n prog pc v hc.head
    simpa using this.congr (fun st => by simp [sem])
  | .backref g, pc, nsv, gix, code, nsv', prog, _, hs, hv, _, hc => by
    rw [visit] at hv
    simp at hv; obtain ⟨rfl, rfl⟩ := hv
    simpa using sim_backref c n prog pc g hlen hc.head (by simpa [slotsBelow] using hs)
  | .keepOut, pc, nsv, gix, code, nsv', prog, _, hs, hv, _, hc => by
    rw [visit] at hv
    simp at hv; obtain ⟨rfl, rfl⟩ := hv
    have := sim_save c n prog pc 0 hc.head (by simpa [slotsBelow] using hs)
    simpa using this.congr (fun st => by simp [sem])
  | .contPrev, pc, nsv, gix, code, nsv', prog, _, _, hv, _, hc => by
    rw [visit] at hv
    simp at hv; obtain ⟨rfl, rfl⟩ := hv
    simpa using sim_contPrev c n prog pc hc.head
  | .group g e, pc, nsv, gix, code, nsv', prog, hcore, hs, hv, hn, hc => by
    rw [visit] at hv
    simp only [Bool.not_true, Bool.false_and, Bool.false_eq_true, ↓reduceIte] at hv
    cases hb : visit br e true (pc + 1) nsv (gix + 1) with
    | error err => simp [hb] at hv
    | ok p =>
      obtain ⟨code1, nsv1⟩ := p
      simp only [hb, Except.ok.injEq, Prod.mk.injEq] at hv
      obtain ⟨rfl, rfl⟩ := hv
      simp only [isCore] at hcore
      simp only [slotsBelow, Bool.and_eq_true, decide_eq_true_eq] at hs
      have hn1 : noDeleg code1 = true := by
        simp only [noDeleg_append, Bool.and_eq_true] at hn; exact hn.1.2
      have hc1 : CodeAt prog (pc + 1) code1 := hc.left.right.cast (by addr)
      have ih := sim_visit c n br hlen e (pc + 1) nsv (gix + 1) code1 _ prog hcore hs.2 hb hn1 hc1
      have hsave2 : prog[pc + 1 + code1.length]? = some (.save (g * 2 + 1)) := hc.right.head_at (by addr)
      exact (sim_group (g := g) hc.left.left.head hsave2 ih hs.1).cast rfl (by addr)
  | .concat es, pc, nsv, gix, code, nsv', prog, hcore, hs, hv, hn, hc => by
    rw [visit] at hv
    simp only [Bool.not_true, Bool.false_and, Bool.false_eq_true, ↓reduceIte] at hv
    simp only [isCore] at hcore
    simp only [slotsBelow] at hs
    generalize hsp : concatSplit br es true = sp at hv
    have hle := concatSplit_le br es true
    rw [hsp] at hle
    cases hb : visitMiddle br es sp.1 (sp.2 - sp.1)
        (pc + (compileDelegates (es.take sp.1) gix).length) nsv (gix + groupCountList (es.take sp.1)) with
    | error err => simp [hb] at hv
    | ok p =>
      obtain ⟨mid, nsv1⟩ := p
      simp only [hb, Except.ok.injEq, Prod.mk.injEq] at hv
      obtain ⟨rfl, rfl⟩ := hv
      simp only [noDeleg_append, Bool.and_eq_true] at hn
      have hcpre := hc.left.left
      have hcmid : CodeAt prog (pc + (compileDelegates (es.take sp.1) gix).length) mid := hc.left.right
      have hcsuf := hc.right
      have s1 := sim_delegates_run c n prog (es.take sp.1) gix pc hn.1.1 hcpre
      have s2 := sim_visitMiddle c n br hlen es sp.1 (sp.2 - sp.1) _ nsv _ mid nsv1 prog hcore hs hb hn.1.2 hcmid
      have s3 := (sim_delegates_run c n prog (es.drop sp.2) _ _ hn.2 hcsuf).cast
        (a' := pc + (compileDelegates (es.take sp.1) gix).length + mid.length) (by addr) rfl
      have hsplit : es = es.take sp.1 ++ ((es.drop sp.1).take (sp.2 - sp.1) ++ es.drop sp.2) := by
        have h1 : es.drop sp.1 = (es.drop sp.1).take (sp.2 - sp.1) ++ (es.drop sp.1).drop (sp.2 - sp.1) :=
          (List.take_append_drop _ _).symm
        have h2 : (es.drop sp.1).drop (sp.2 - sp.1) = es.drop sp.2 := by
          rw [List.drop_drop]; congr 1; omega
        rw [← h2, ← h1, List.take_append_drop]
      have key := (s1.seq (s2.seq s3 (keepsGood_semConcat c n _)) (keepsGood_semConcat c n _))
      have := key.congr (g := sem c (.concat es)) (fun st => by
        simp only [sem]
        conv => rhs; rw [hsplit]
        rw [semConcat_append]
        congr 1; funext r; rw [semConcat_append])
      exact this.cast rfl (by addr)
  | .alt es, pc, nsv, gix, code, nsv', prog, hcore, hs, hv, hn, hc => by
    rw [visit] at hv
    simp only [Bool.not_true, Bool.false_and, Bool.false_eq_true, ↓reduceIte] at hv
    simp only [isCore, Bool.and_eq_true] at hcore
    simp only [slotsBelow] at hs
    cases hb : visitAlt br es true pc nsv gix with
    | error err => simp [hb] at hv
    | ok p =>
      obtain ⟨f, endPc, nsv1⟩ := p
      simp only [hb, Except.ok.injEq, Prod.mk.injEq] at hv
      obtain ⟨rfl, rfl⟩ := hv
      have ⟨hlenf, hsim⟩ := sim_visitAlt c n br hlen es pc nsv gix f endPc _ prog hcore.2 hs
        (by intro h; simp [h] at hcore) hb
      have h2 : Sim c n prog (sem c (.alt es)) pc endPc := (hsim hn hc).congr (fun st => by simp only [sem])
      exact h2.cast rfl (hlenf endPc)
  | .repeat e lo hi greedy, pc, nsv, gix, code, nsv', prog, hcore, hs, hv, hn, hc => by
    simp only [isCore, Bool.and_eq_true, Bool.or_eq_true, beq_iff_eq, decide_eq_true_eq] at hcore
    simp only [slotsBelow] at hs
    obtain ⟨hce, hshape⟩ := hcore
    have hw := isCore_wellShaped e hce
    rw [visit] at hv
    simp only [Bool.not_true, Bool.false_and, Bool.false_eq_true, ↓reduceIte] at hv
    rcases hshape with ⟨rfl, rfl⟩ | ⟨⟨rfl, hlo⟩, hm⟩
    · -- `?`
      simp only [beq_self_eq_true, Bool.and_self, ↓reduceIte] at hv
      cases hb : visit br e true (pc + 1) nsv gix with
      | error err => simp [hb] at hv
      | ok p =>
        obtain ⟨code1, nsv1⟩ := p
        simp only [hb, Except.ok.injEq, Prod.mk.injEq] at hv
        obtain ⟨rfl, rfl⟩ := hv
        have hn1 : noDeleg code1 = true := by
          have : noDeleg ([if greedy = true then Insn.split (pc + 1) (pc + 1 + code1.length)
              else Insn.split (pc + 1 + code1.length) (pc + 1)] ++ code1) = true := by simpa using hn
          rw [noDeleg_append] at this
          simp only [Bool.and_eq_true] at this; exact this.2
        have ih := sim_visit c n br hlen e (pc + 1) nsv gix code1 _ prog hce hs hb hn1 hc.tail
        have hhead := hc.head
        cases greedy with
        | true =>
          have := Sim.optG (by simpa using hhead) ih
          have := this.congr (g := sem c (.repeat e 0 (some 1) true)) (fun st => by rw [sem_opt]; simp)
          exact this.cast rfl (by addr)
        | false =>
          have := Sim.optL (by simpa using hhead) ih
          have := this.congr (g := sem c (.repeat e 0 (some 1) false)) (fun st => by rw [sem_opt]; simp)
          exact this.cast rfl (by addr)
    · -- `*` or `+`
      have hm0 : ¬ (minSize e = 0) := by omega
      have hne : ¬ (lo = 0 ∧ (none : Option Nat) = some 1) := by simp
      rcases hlo with rfl | rfl
      · -- `*`
        simp only [beq_self_eq_true, reduceCtorEq, Bool.and_false, Bool.false_eq_true, ↓reduceIte,
          Bool.true_or, Bool.true_and, beq_iff_eq, hm0, Bool.and_self] at hv
        cases hb : visit br e true (pc + 1) nsv gix with
        | error err => simp [hb] at hv
        | ok p =>
          obtain ⟨code1, nsv1⟩ := p
          simp only [hb, Except.ok.injEq, Prod.mk.injEq] at hv
          obtain ⟨rfl, rfl⟩ := hv
          have hn1 : noDeleg code1 = true := by
            simp only [noDeleg_append, Bool.and_eq_true] at hn; exact hn.1.2
          have hc1 : CodeAt prog (pc + 1) code1 := hc.left.right.cast (by addr)
          have ih := sim_visit c n br hlen e (pc + 1) nsv gix code1 _ prog hce hs hb hn1 hc1
          have hjmp : prog[pc + 1 + code1.length]? = some (.jmp pc) := hc.right.head_at (by addr)
          have hsplit := hc.left.left.head
          have := sim_star (greedy := greedy) (m := pc + 1 + code1.length)
            (by cases greedy <;> simpa [Nat.add_assoc] using hsplit) hjmp ih hw hm
          exact this.cast rfl (by addr)
      · -- `+`
        simp only [Nat.succ_ne_self, reduceCtorEq, Bool.and_false, Bool.false_eq_true, ↓reduceIte,
          Bool.true_or, Bool.true_and, beq_iff_eq, hm0, Bool.and_self, beq_self_eq_true, Nat.add_one_ne_zero,
          Bool.false_and] at hv
        cases hb : visit br e true pc nsv gix with
        | error err => simp [hb] at hv
        | ok p =>
          obtain ⟨code1, nsv1⟩ := p
          simp only [hb, Except.ok.injEq, Prod.mk.injEq] at hv
          obtain ⟨rfl, rfl⟩ := hv
          have hn1 : noDeleg code1 = true := by
            simp only [noDeleg_append, Bool.and_eq_true] at hn; exact hn.1
          have ih := sim_visit c n br hlen e pc nsv gix code1 _ prog hce hs hb hn1 hc.left
          have hsplit := hc.right.head
          have := sim_plus (greedy := greedy) (m := pc + code1.length)
            (by cases greedy <;> simpa using hsplit) ih hw hm
          exact this.cast rfl (by addr)
  | .look _ _, _, _, _, _, _, _, h, _, _, _, _ | .delegate _ _ _, _, _, _, _, _, _, h, _, _, _, _
  | .atomic _, _, _, _, _, _, _, h, _, _, _, _ | .backrefExists _, _, _, _, _, _, _, h, _, _, _, _
  | .cond _ _ _, _, _, _, _, _, _, h, _, _, _, _ | .subroutine _, _, _, _, _, _, _, h, _, _, _, _ => by
    simp [isCore] at h
termination_by e => sizeOf e
decreasing_by all_goals (simp_wf; try omega)
theorem sim_visitMiddle (c : Ctx) (n : Nat) (br : Nat → Bool) (hlen : c.len < UNSET) :
    ∀ (es : List Expr) (skip take pc nsv gix : Nat) (code : Code) (nsv' : Nat) (prog : List Insn),
      isCoreAll es = true → slotsBelowAll n es = true →
      visitMiddle br es skip take pc nsv gix = .ok (code, nsv') → noDeleg code = true → CodeAt prog pc code →
      Sim c n prog (semConcat c ((es.drop skip).take take)) pc (pc + code.length)
  | [], skip, take, pc, nsv, gix, code, nsv', prog, _, _, hv, _, _ => by
    simp only [visitMiddle, Except.ok.injEq, Prod.mk.injEq] at hv
    obtain ⟨rfl, rfl⟩ := hv
    simpa [semConcat] using (Sim.nil c n prog pc).congr (fun st => by simp [semConcat])
  | e :: es, skip + 1, take, pc, nsv, gix, code, nsv', prog, hcore, hs, hv, hn, hc => by
    simp only [visitMiddle] at hv
    simp only [isCoreAll, Bool.and_eq_true] at hcore
    simp only [slotsBelowAll, Bool.and_eq_true] at hs
    simpa using sim_visitMiddle c n br hlen es skip take pc nsv gix code nsv' prog hcore.2 hs.2 hv hn hc
  | e :: es, 0, 0, pc, nsv, gix, code, nsv', prog, _, _, hv, _, _ => by
    simp only [visitMiddle, Except.ok.injEq, Prod.mk.injEq] at hv
    obtain ⟨rfl, rfl⟩ := hv
    simpa [semConcat] using (Sim.nil c n prog pc).congr (fun st => by simp [semConcat])
  | e :: es, 0, take + 1, pc, nsv, gix, code, nsv', prog, hcore, hs, hv, hn, hc => by
    simp only [visitMiddle] at hv
    simp only [isCoreAll, Bool.and_eq_true] at hcore
    simp only [slotsBelowAll, Bool.and_eq_true] at hs
    cases hb : visit br e true pc nsv gix with
    | error err => simp [hb] at hv
    | ok p =>
      obtain ⟨c1, nsv1⟩ := p
      simp only [hb] at hv
      cases hb2 : visitMiddle br es 0 take (pc + c1.length) nsv1 (gix + groupCount e) with
      | error err => simp [hb2] at hv
      | ok p2 =>
        obtain ⟨c2, nsv2⟩ := p2
        simp only [hb2, Except.ok.injEq, Prod.mk.injEq] at hv
        obtain ⟨rfl, rfl⟩ := hv
        simp only [noDeleg_append, Bool.and_eq_true] at hn
        have s1 := sim_visit c n br hlen e pc nsv gix c1 nsv1 prog hcore.1 hs.1 hb hn.1 hc.left
        have s2 := sim_visitMiddle c n br hlen es 0 take (pc + c1.length) nsv1 _ c2 _ prog hcore.2 hs.2 hb2 hn.2 hc.right
        have := (s1.seq s2 (keepsGood_sem c n e)).congr (g := semConcat c (((e :: es).drop 0).take (take + 1)))
          (fun st => by simp [semConcat])
        exact this.cast rfl (by addr)
termination_by es => sizeOf es
decreasing_by all_goals (simp_wf; try omega)
theorem sim_visitAlt (c : Ctx) (n : Nat) (br : Nat → Bool) (hlen : c.len < UNSET) :
    ∀ (es : List Expr) (pc nsv gix : Nat) (f : Nat → Code) (endPc nsv' : Nat) (prog : List Insn),
      isCoreAll es = true → slotsBelowAll n es = true → es ≠ [] →
      visitAlt br es true pc nsv gix = .ok (f, endPc, nsv') →
      (∀ t, pc + (f t).length = endPc) ∧
        (noDeleg (f endPc) = true → CodeAt prog pc (f endPc) → Sim c n prog (semAlt c es) pc endPc)
  | [], pc, nsv, gix, f, endPc, nsv', prog, _, _, hne, hv => absurd rfl hne
  | [e], pc, nsv, gix, f, endPc, nsv', prog, hcore, hs, _, hv => by
    simp only [visitAlt] at hv
    simp only [isCoreAll, Bool.and_eq_true] at hcore
    simp only [slotsBelowAll, Bool.and_eq_true] at hs
    cases hb : visit br e true pc nsv gix with
    | error err => simp [hb] at hv
    | ok p =>
      obtain ⟨c1, nsv1⟩ := p
      simp only [hb, Except.ok.injEq, Prod.mk.injEq] at hv
      obtain ⟨rfl, rfl, rfl⟩ := hv
      refine ⟨by simp, ?_⟩
      intro hn hc
      have := sim_visit c n br hlen e pc nsv gix c1 nsv1 prog hcore.1 hs.1 hb hn hc
      exact this.congr (fun st => by simp [semAlt])
  | e :: e2 :: es, pc, nsv, gix, f, endPc, nsv', prog, hcore, hs, _, hv => by
    simp only [visitAlt] at hv
    simp only [isCoreAll, Bool.and_eq_true] at hcore
    simp only [slotsBelowAll, Bool.and_eq_true] at hs
    cases hb : visit br e true (pc + 1) nsv gix with
    | error err => simp [hb] at hv
    | ok p =>
      obtain ⟨c1, nsv1⟩ := p
      simp only [hb] at hv
      cases hb2 : visitAlt br (e2 :: es) true (pc + 1 + c1.length + 1) nsv1 (gix + groupCount e) with
      | error err => simp [hb2] at hv
      | ok p2 =>
        obtain ⟨f2, endPc2, nsv2⟩ := p2
        simp only [hb2, Except.ok.injEq, Prod.mk.injEq] at hv
        obtain ⟨rfl, rfl, rfl⟩ := hv
        have ⟨hlen2, hsim2⟩ := sim_visitAlt c n br hlen (e2 :: es) (pc + 1 + c1.length + 1) nsv1 _ f2 _ _ prog
          (by simp [isCoreAll, hcore.2.1, hcore.2.2]) (by simp [slotsBelowAll, hs.2.1, hs.2.2]) (by simp) hb2
        refine ⟨by intro t; have := hlen2 t; simp only [List.length_append, List.length_cons, List.length_nil]; omega, ?_⟩
        intro hn hc
        simp only [noDeleg_append, Bool.and_eq_true] at hn
        have hc1 : CodeAt prog (pc + 1) c1 := hc.left.left.right.cast (by addr)
        have hcj : prog[pc + 1 + c1.length]? = some (.jmp _) := hc.left.right.head_at (by addr)
        have hc2 : CodeAt prog (pc + 1 + c1.length + 1) (f2 _) := hc.right.cast (by addr)
        have s1 := sim_visit c n br hlen e (pc + 1) nsv gix c1 nsv1 prog hcore.1 hs.1 hb hn.1.1.2 hc1
        have s2 := hsim2 hn.2 hc2
        have hsplit : prog[pc]? = some (.split (pc + 1) (pc + 1 + c1.length + 1)) := hc.left.left.left.head
        have := Sim.alt2 (m := pc + 1 + c1.length) hsplit hcj (by simpa using s1) s2
        exact this.congr (fun st => by simp [semAlt])
termination_by es => sizeOf es
decreasing_by all_goals (simp_wf; try omega)
end

end Fancy
