import FancyModel.Model.VMBytesCheck
import FancyModel.Lemmas.DelegFrame
import FancyModel.Lemmas.DelegSpec
import FancyModel.Lemmas.SemGood
/-!
# The byte-level interpreter refines the code-point interpreter

`Model/VMBytes.lean` (`stepB`, `runLoopB`, `runB`) is `vm::run` on bytes; `Model/VM.lean` (`step`,
`runLoop`, `run`) is the code-point machine the engine theorems are about. This file proves the
simulation: along `o := offOf c.text` (character index ↦ byte offset), the byte machine on the
encoded text does what the code-point machine does.

## Typing discipline

The slot vector holds positions (capture slots, look-around `Save`/`Restore` slots, the `check`
slot of `RepeatEpsilon*`) AND raw numbers (repetition counters, the auxiliary stack of
`BeginAtomic`/`EndAtomic` with its pointer cell). Only positions are mapped. A typing
`τ : Nat → Bool` (`τ i = true`: slot `i` holds a position) is fixed per program; `mapAt τ o i v` maps
the value `v` of slot `i` (`UNSET` stays `UNSET`), `mapState τ o` maps the slots, the undo log
(each entry typed by its slot) and the positions of the branch stack. `Insn.typed τ` / `wellTyped τ`
is the decidable static discipline: `Save`/`Restore` slots, `Backref` slots, the `check` slot, slots 0
and 1 (`End`), the slots of the groups below a `Delegate`'s last group are positions; repetition
counters are numbers; (`Save0` writes `0 = o 0`, so it may write either kind).

## What is proved

* the operations of `State` (`get`, `save`, `push`, `pop`/`restore`, `stack_push`, `stack_pop`,
  `backtrack_cut`, the pop-until-marker of `FailNegativeLookAround`) commute with `mapState` — pure
  structure, no hypothesis except, for the auxiliary stack, that its cells are number slots;
* byte-level facts at the offsets of character positions (`any_at`, `lit_at`, `backref_at`,
  `goBack_at`, `charIx_at`): `codepoint_len` steps one character, `\n` is tested correctly on the lead
  byte, `matches_literal` at a character offset is the code-point `litAt` / `sameAt` (UTF-8 is
  prefix-free: it cannot succeed in the middle of a character), `&s[lo..hi]` between character offsets
  never panics;
* `stepB_sim` (`stepB_sim_core` + `stepB_sim_delegate`): from a configuration satisfying the local
  precondition `stepOK` of its instruction, `stepB (mapped configuration) = mapRes (step configuration)`
  — `cont ↦ cont`, `fail ↦ fail`, `done ↦ done` with the matched slots mapped, panics at the same
  sites (so a panic on one side iff on the other). EVERY instruction is covered.
* `runLoopB_refines` / `runB_refines`: if every configuration the code-point run visits satisfies
  `stepOK` (`okLoop`, a computable monitor), the byte run returns the mapped outcome with the same
  statistics (steps, backtracks, max depth).

## The local precondition, and what is NOT proved

`stepOK` asks (a) `ix ≤ len`; (b) that the slot values the instruction reads AS POSITIONS are `UNSET`
or `≤ len` (`Backref`, `RepeatEpsilon*`'s check slot, `End`, `Delegate`'s group slots); (c) that a
`Restore` reads a value `≤ len` (not `UNSET`); (d) that at `BeginAtomic`/`EndAtomic` the pointer cell
of the auxiliary stack points above the ordinary slots. These are exactly the configurations where
the code-point machine is an abstraction of vm.rs: outside them the two genuinely differ (see the
report: `GoBack` from `ix = usize::MAX` after a `Restore` of an unset slot panics in vm.rs —
`prev_codepoint_ix` indexes out of range — while `step` continues at `UNSET - n`; a number written into
a position slot by a corrupted auxiliary-stack pointer is a byte offset in vm.rs and a character index
in `step`).

* (a), (b) are an invariant of `step` on well-typed programs given (c), (d): PROVED in
  `Lemmas/VMBytesInv.lean` (`TypedState`, `step_typed`, `stepOK_of_typed`, `okLoop_of_tame`,
  `runB_refines_tame`: the monitor shrinks to `tameLoop` = (c), (d) and "a `Delegate`'s group slots
  exist").
* compiled programs are well typed for the computable typing `tauOf`: PROVED in
  `Lemmas/VMBytesTyped.lean` (`visit_codeOK` by induction over the compiler, `build_wellTyped`).
* (c), (d) hold on every run that the structured machine `Big2` follows to an answer
  (`Lemmas/VMBytesTame.lean`: `tameOK_of_sstep`, `big2_tame` — `sstep` is only defined where a
  `Restore` reads a position inside the text, `EndAtomic` finds its entry, delegates stay in the ordinary
  slots); with `big2_s3` this is every run of a stage-S3 pattern: the stage-S3 byte-level theorems of
  `Proofs/C05e.lean` carry NO run-time side condition.
* NOT proved: (c), (d) for compiled programs outside stage S3 (there is no `Big2` derivation for them:
  F1 territory and non-linear delegated pieces). There `tameLoop` / `okLoop` stay computable side
  conditions (the driver's `capsB` prints `ok=`).
-/
namespace Fancy
open Utf8 State

/-! ## the value / state maps -/

/-- a position value: `UNSET` stays, anything else goes through `o` -/
def mapV (o : Nat → Nat) (v : Nat) : Nat := if v = UNSET then UNSET else o v

/-- the value `v` of slot `i` -/
def mapAt (τ : Nat → Bool) (o : Nat → Nat) (i v : Nat) : Nat := if τ i then mapV o v else v

def mapSavesFrom (τ : Nat → Bool) (o : Nat → Nat) : Nat → List Nat → List Nat
  | _, [] => []
  | i, v :: vs => mapAt τ o i v :: mapSavesFrom τ o (i + 1) vs

def mapSaves (τ : Nat → Bool) (o : Nat → Nat) (l : List Nat) : List Nat := mapSavesFrom τ o 0 l

def mapLog (τ : Nat → Bool) (o : Nat → Nat) (l : List (Nat × Nat)) : List (Nat × Nat) :=
  l.map fun e => (e.1, mapAt τ o e.1 e.2)

def mapStack (o : Nat → Nat) (l : List Branch) : List Branch := l.map fun b => { b with ix := o b.ix }

def mapState (τ : Nat → Bool) (o : Nat → Nat) (s : State) : State :=
  { s with saves := mapSaves τ o s.saves, stack := mapStack o s.stack, oldsave := mapLog τ o s.oldsave }

def mapOut (τ : Nat → Bool) (o : Nat → Nat) : Outcome → Outcome
  | .matched saves => .matched (mapSaves τ o saves)
  | out => out

def mapRes (τ : Nat → Bool) (o : Nat → Nat) : StepResult → StepResult
  | .cont pc ix s => .cont pc (o ix) (mapState τ o s)
  | .fail s => .fail (mapState τ o s)
  | .done out => .done (mapOut τ o out)

variable {τ : Nat → Bool} {o : Nat → Nat}

theorem mapSavesFrom_length (i : Nat) (l : List Nat) : (mapSavesFrom τ o i l).length = l.length := by
  induction l generalizing i with
  | nil => rfl
  | cons v vs ih => simp [mapSavesFrom, ih]

theorem mapSavesFrom_getElem? (i j : Nat) (l : List Nat) :
    (mapSavesFrom τ o i l)[j]? = (l[j]?).map (mapAt τ o (i + j)) := by
  induction l generalizing i j with
  | nil => simp [mapSavesFrom]
  | cons v vs ih =>
    cases j with
    | zero => simp [mapSavesFrom]
    | succ j => simp only [mapSavesFrom, List.getElem?_cons_succ, ih]; congr 2; omega

theorem mapSavesFrom_set (i j v : Nat) (l : List Nat) :
    mapSavesFrom τ o i (l.set j v) = (mapSavesFrom τ o i l).set j (mapAt τ o (i + j) v) := by
  induction l generalizing i j with
  | nil => simp [mapSavesFrom]
  | cons w ws ih =>
    cases j with
    | zero => simp [mapSavesFrom]
    | succ j => simp only [mapSavesFrom, List.set_cons_succ, ih]; congr 3; omega

theorem mapSavesFrom_append (i : Nat) (a b : List Nat) :
    mapSavesFrom τ o i (a ++ b) = mapSavesFrom τ o i a ++ mapSavesFrom τ o (i + a.length) b := by
  induction a generalizing i with
  | nil => simp [mapSavesFrom]
  | cons w ws ih => simp only [List.cons_append, mapSavesFrom, ih, List.length_cons]; congr 3; omega

theorem mapSaves_length (l : List Nat) : (mapSaves τ o l).length = l.length := mapSavesFrom_length 0 l

theorem mapSaves_getElem? (j : Nat) (l : List Nat) :
    (mapSaves τ o l)[j]? = (l[j]?).map (mapAt τ o j) := by
  have := mapSavesFrom_getElem? (τ := τ) (o := o) 0 j l
  simpa [mapSaves] using this

theorem mapSaves_set (j v : Nat) (l : List Nat) :
    mapSaves τ o (l.set j v) = (mapSaves τ o l).set j (mapAt τ o j v) := by
  have := mapSavesFrom_set (τ := τ) (o := o) 0 j v l
  simpa [mapSaves] using this

theorem mapSaves_append_one (l : List Nat) (v : Nat) :
    mapSaves τ o (l ++ [v]) = mapSaves τ o l ++ [mapAt τ o l.length v] := by
  simp [mapSaves, mapSavesFrom_append, mapSavesFrom]

theorem mapV_unset : mapV o UNSET = UNSET := by simp [mapV]

theorem mapAt_unset (i : Nat) : mapAt τ o i UNSET = UNSET := by
  unfold mapAt; split <;> simp [mapV]

theorem mapSavesFrom_replicate (i n : Nat) : mapSavesFrom τ o i (List.replicate n UNSET) = List.replicate n UNSET := by
  induction n generalizing i with
  | zero => rfl
  | succ n ih => simp [List.replicate_succ, mapSavesFrom, ih, mapAt_unset]

theorem mapState_new (n m : Nat) : mapState τ o (State.new n m) = State.new n m := by
  simp [mapState, State.new, mapSaves, mapSavesFrom_replicate, mapStack, mapLog]

/-! ## the operations of `State` commute with the map (no hypothesis: pure structure) -/

theorem mapStack_length (l : List Branch) : (mapStack o l).length = l.length := by simp [mapStack]

theorem mapState_get (s : State) (slot : Nat) :
    (mapState τ o s).get slot = (s.get slot).map (mapAt τ o slot) := by
  simp [State.get, mapState, mapSaves_getElem?]

theorem mapState_push (s : State) (pc ix : Nat) :
    (mapState τ o s).push pc (o ix) =
      match s.push pc ix with
      | .ok s' => .ok (mapState τ o s')
      | .overflow => .overflow := by
  unfold State.push
  simp only [mapState, mapStack_length]
  split <;> simp [mapStack]

theorem mapLog_any (l : List (Nat × Nat)) (n slot : Nat) :
    ((mapLog τ o l).take n).any (fun e => e.1 == slot) = (l.take n).any (fun e => e.1 == slot) := by
  simp [mapLog, ← List.map_take, List.any_map, Function.comp_def]

theorem mapSaves_getD (l : List Nat) (slot : Nat) (h : slot < l.length) :
    (mapSaves τ o l)[slot]?.getD 0 = mapAt τ o slot (l[slot]?.getD 0) := by
  simp [mapSaves_getElem?, List.getElem?_eq_getElem h]

theorem mapState_save (s : State) (slot v : Nat) :
    (mapState τ o s).save slot (mapAt τ o slot v) = (s.save slot v).map (mapState τ o) := by
  unfold State.save
  simp only [mapState, mapLog_any, mapSaves_length]
  have hl : (mapLog τ o s.oldsave).length = s.oldsave.length := by simp [mapLog]
  rw [hl]
  split
  · rfl
  · split
    · rfl
    · rename_i h1 h2
      split
      · simp [mapState, mapSaves_set]
      · simp [mapState, mapSaves_set, mapLog, mapSaves_getD _ _ (by omega : slot < s.saves.length)]

theorem restore_map (n : Nat) (log : List (Nat × Nat)) (saves : List Nat) :
    State.restore n (mapLog τ o log) (mapSaves τ o saves) =
      (State.restore n log saves).map fun p => (mapLog τ o p.1, mapSaves τ o p.2) := by
  induction n generalizing log saves with
  | zero => simp [State.restore]
  | succ n ih =>
    cases log with
    | nil => simp [State.restore, mapLog]
    | cons e log =>
      obtain ⟨slot, value⟩ := e
      simp only [mapLog, List.map_cons, State.restore, mapSaves_length]
      split
      · have := ih log (saves.set slot value)
        simp only [mapLog, mapSaves_set] at this
        exact this
      · rfl

theorem mapState_pop (s : State) :
    (mapState τ o s).pop = (s.pop).map fun p => (mapState τ o p.1, p.2.1, o p.2.2) := by
  unfold State.pop
  simp only [mapState, restore_map]
  cases State.restore s.nsave s.oldsave s.saves with
  | none => rfl
  | some p =>
    obtain ⟨log, saves⟩ := p
    simp only [Option.map_some]
    cases s.stack with
    | nil => rfl
    | cons b rest => simp [mapStack, mapState]

theorem mapState_stack_length (s : State) : (mapState τ o s).stack.length = s.stack.length := by
  simp [mapState, mapStack]

theorem mapState_stack_isEmpty (s : State) : (mapState τ o s).stack.isEmpty = s.stack.isEmpty := by
  simp [mapState, mapStack]

theorem mapState_explicitSp (s : State) : (mapState τ o s).explicitSp = s.explicitSp := rfl

theorem popUntil_map (target fuel : Nat) (s : State) :
    popUntil target fuel (mapState τ o s) = (popUntil target fuel s).map (mapState τ o) := by
  induction fuel generalizing s with
  | zero => rfl
  | succ fuel ih =>
    simp only [popUntil, mapState_pop]
    cases s.pop with
    | none => rfl
    | some p =>
      obtain ⟨s', pc, ix⟩ := p
      simp only [Option.map_some]
      split
      · rfl
      · exact ih s'

theorem cutKeep_map (seen : List Nat) (l : List (Nat × Nat)) :
    cutKeep seen (mapLog τ o l) = mapLog τ o (cutKeep seen l) := by
  induction l generalizing seen with
  | nil => rfl
  | cons e es ih =>
    simp only [mapLog, List.map_cons, cutKeep]
    split
    · exact ih seen
    · simp only [List.map_cons]; congr 1; exact ih _

theorem sumNsave_map (l : List Branch) : sumNsave (mapStack o l) = sumNsave l := by
  simp [sumNsave, mapStack, Function.comp_def]

theorem mapState_backtrackCut (s : State) (count : Nat) :
    (mapState τ o s).backtrackCut count = (s.backtrackCut count).map (mapState τ o) := by
  unfold State.backtrackCut
  simp only [mapState_stack_length]
  split
  · rfl
  · split
    · rfl
    · have hst : (mapState τ o s).stack = mapStack o s.stack := rfl
      have hlog : (mapState τ o s).oldsave = mapLog τ o s.oldsave := rfl
      have hn : (mapState τ o s).nsave = s.nsave := rfl
      simp only [hst, hlog, hn]
      have hget : (mapStack o s.stack)[s.stack.length - count - 1]? =
          (s.stack[s.stack.length - count - 1]?).map fun b => { b with ix := o b.ix } := by
        simp [mapStack]
      rw [hget]
      cases s.stack[s.stack.length - count - 1]? with
      | none => rfl
      | some b =>
        simp only [Option.map_some]
        have ht : (mapStack o s.stack).take (s.stack.length - count - 1) =
            mapStack o (s.stack.take (s.stack.length - count - 1)) := by simp [mapStack, List.map_take]
        rw [ht, sumNsave_map]
        have hl : (mapLog τ o s.oldsave).length = s.oldsave.length := by simp [mapLog]
        rw [hl]
        split
        · rfl
        · simp only [Option.map_some, Option.some.injEq]
          have h1 : ∀ n, (mapLog τ o s.oldsave).take n = mapLog τ o (s.oldsave.take n) := by
            intro n; simp [mapLog, List.map_take]
          have h2 : ∀ n, (mapLog τ o s.oldsave).drop n = mapLog τ o (s.oldsave.drop n) := by
            intro n; simp [mapLog, List.map_drop]
          have h3 : ∀ l : List (Nat × Nat), (mapLog τ o l).reverse = mapLog τ o l.reverse := by
            intro l; simp [mapLog]
          have h4 : ∀ (l : List (Nat × Nat)) n, (mapLog τ o l).take n = mapLog τ o (l.take n) := by
            intro l n; simp [mapLog, List.map_take]
          have h5 : ∀ l : List (Nat × Nat), (mapLog τ o l).map (·.1) = l.map (·.1) := by
            intro l; simp [mapLog, Function.comp_def]
          have h6 : ∀ l : List (Nat × Nat), (mapLog τ o l).length = l.length := by
            intro l; simp [mapLog]
          have h7 : ∀ a b : List (Nat × Nat), mapLog τ o (a ++ b) = mapLog τ o a ++ mapLog τ o b := by
            intro a b; simp [mapLog]
          simp only [h1, h2, h3, h4, h5, cutKeep_map, h6, mapState, h7, mapStack, List.map_drop]

/-- `stack_push` after the pointer cell exists -/
def pushCoreB (s1 : State) (val : Nat) : Option State :=
  match s1.get s1.explicitSp with
  | none => none
  | some sp =>
    match (if s1.saves.length == sp then some { s1 with saves := s1.saves ++ [val] } else s1.save sp val) with
    | none => none
    | some s' => s'.save s1.explicitSp (sp + 1)

theorem stackPush_pos (s : State) (val : Nat) (h : s.saves.length = s.explicitSp) :
    s.stackPush val = pushCoreB { s with saves := s.saves ++ [s.explicitSp + 1] } val := by
  simp only [State.stackPush, pushCoreB, h, beq_self_eq_true, if_true]
  rfl

theorem stackPush_neg (s : State) (val : Nat) (h : ¬ s.saves.length = s.explicitSp) :
    s.stackPush val = pushCoreB s val := by
  have h' : (s.saves.length == s.explicitSp) = false := by simpa using h
  simp only [State.stackPush, pushCoreB, h']
  rfl

theorem mapState_pushCoreB (s1 : State) (val : Nat) (hτ : τ s1.explicitSp = false)
    (hsp : ∀ sp, s1.get s1.explicitSp = some sp → τ sp = false) :
    pushCoreB (mapState τ o s1) val = (pushCoreB s1 val).map (mapState τ o) := by
  have hE : ∀ v, mapAt τ o s1.explicitSp v = v := by intro v; simp [mapAt, hτ]
  have hEf : mapAt τ o s1.explicitSp = id := funext hE
  unfold pushCoreB
  have hesp : (mapState τ o s1).explicitSp = s1.explicitSp := rfl
  have hlen1 : (mapState τ o s1).saves.length = s1.saves.length := by simp [mapState, mapSaves_length]
  rw [hesp, mapState_get, hEf, Option.map_id_fun, id]
  cases hg : s1.get s1.explicitSp with
  | none => rfl
  | some sp =>
    simp only [hlen1]
    have hτsp : τ sp = false := hsp sp hg
    have hS : ∀ v, mapAt τ o sp v = v := by intro v; simp [mapAt, hτsp]
    by_cases h : s1.saves.length = sp
    · simp only [h, beq_self_eq_true, if_true, Option.map_some]
      have h2 := mapState_save (τ := τ) (o := o) { s1 with saves := s1.saves ++ [val] } s1.explicitSp (sp + 1)
      rw [hE] at h2
      refine Eq.trans ?_ h2
      congr 1
      simp only [mapState, mapSaves_append_one, h, hS]
    · have h' : (s1.saves.length == sp) = false := by simpa using h
      simp only [h']
      have h1 := mapState_save (τ := τ) (o := o) s1 sp val
      rw [hS] at h1
      rw [h1]
      cases s1.save sp val with
      | none => rfl
      | some s2 =>
        simp only [Option.map_some]
        have h2 := mapState_save (τ := τ) (o := o) s2 s1.explicitSp (sp + 1)
        rw [hE] at h2; exact h2

theorem mapState_stackPush (s : State) (val : Nat) (hτ : ∀ i, s.explicitSp ≤ i → τ i = false)
    (hsp : ∀ sp, (if s.saves.length = s.explicitSp then some (s.explicitSp + 1) else s.get s.explicitSp) = some sp →
      τ sp = false) :
    (mapState τ o s).stackPush val = (s.stackPush val).map (mapState τ o) := by
  have hE : ∀ v, mapAt τ o s.explicitSp v = v := by
    intro v; simp [mapAt, hτ s.explicitSp (Nat.le_refl _)]
  have hlen : (mapState τ o s).saves.length = s.saves.length := by simp [mapState, mapSaves_length]
  have hesp : (mapState τ o s).explicitSp = s.explicitSp := rfl
  by_cases h : s.saves.length = s.explicitSp
  · rw [stackPush_pos s val h, stackPush_pos (mapState τ o s) val (by rw [hlen, hesp]; exact h)]
    have hs1 : ({ mapState τ o s with saves := (mapState τ o s).saves ++ [(mapState τ o s).explicitSp + 1] } : State) =
        mapState τ o { s with saves := s.saves ++ [s.explicitSp + 1] } := by
      simp only [mapState, mapSaves_append_one, h, hE]
    rw [hs1]
    apply mapState_pushCoreB
    · exact hτ _ (Nat.le_refl _)
    · intro sp hg
      apply hsp
      simp only [h, if_true]
      simp only [State.get, ← h, List.getElem?_append_right (Nat.le_refl _), Nat.sub_self,
        List.getElem?_cons_zero] at hg
      rw [← h]; exact hg
  · rw [stackPush_neg s val h, stackPush_neg (mapState τ o s) val (by rw [hlen, hesp]; exact h)]
    apply mapState_pushCoreB
    · exact hτ _ (Nat.le_refl _)
    · intro sp hg
      apply hsp
      simp only [h, if_false]
      exact hg

theorem mapState_stackPop (s : State) (hτ : ∀ i, s.explicitSp ≤ i → τ i = false)
    (hsp : ∀ sp, s.get s.explicitSp = some (sp + 1) → τ sp = false) :
    (mapState τ o s).stackPop = (s.stackPop).map fun p => (mapState τ o p.1, p.2) := by
  have hE : mapAt τ o s.explicitSp = id := by
    funext v; simp [mapAt, hτ s.explicitSp (Nat.le_refl _)]
  unfold State.stackPop
  dsimp only [mapState_explicitSp]
  rw [mapState_get, hE, Option.map_id_fun, id]
  cases hg : s.get s.explicitSp with
  | none => rfl
  | some p =>
    cases p with
    | zero => rfl
    | succ sp =>
      simp only
      have hτsp : τ sp = false := hsp sp hg
      have hS : mapAt τ o sp = id := by funext v; simp [mapAt, hτsp]
      rw [mapState_get, hS, Option.map_id_fun, id]
      cases s.get sp with
      | none => rfl
      | some result =>
        simp only
        have := mapState_save (τ := τ) (o := o) s s.explicitSp sp
        rw [hE] at this
        simp only [id] at this
        rw [this]
        cases s.save s.explicitSp sp <;> rfl

/-! ## byte-level facts at the offsets of character positions -/

section Facts
variable (c : Ctx)

theorem offOf_zero (cs : List Char) : offOf cs 0 = 0 := off_zero _

theorem offOf_le (cs : List Char) (k : Nat) : offOf cs k ≤ (bytesOfChars cs).length := off_le_length _ k

theorem offOf_len (cs : List Char) : offOf cs cs.length = (bytesOfChars cs).length := by
  have := off_length (cs.map Char.toNat)
  simpa [offOf, bytesOfChars] using this

theorem offOf_lt (cs : List Char) (j k : Nat) (h : j < k) (hk : k ≤ cs.length) : offOf cs j < offOf cs k :=
  off_lt_of_lt _ j k h (by simpa using hk)

theorem offOf_inj (cs : List Char) (j k : Nat) (hj : j ≤ cs.length) (hk : k ≤ cs.length)
    (h : offOf cs j = offOf cs k) : j = k := by
  rcases Nat.lt_trichotomy j k with h1 | h1 | h1
  · have := offOf_lt cs j k h1 hk; omega
  · exact h1
  · have := offOf_lt cs k j h1 hj; omega

theorem offOf_le_of_le (cs : List Char) (j k : Nat) (h : j ≤ k) (hk : k ≤ cs.length) : offOf cs j ≤ offOf cs k :=
  off_le_of_le _ j k h (by simpa using hk)

theorem offOf_lt_iff (cs : List Char) (j k : Nat) (hj : j ≤ cs.length) (hk : k ≤ cs.length) :
    offOf cs j < offOf cs k ↔ j < k := by
  constructor
  · intro h
    rcases Nat.lt_or_ge j k with h1 | h1
    · exact h1
    · have := offOf_le_of_le cs k j h1 hj; omega
  · intro h; exact offOf_lt cs j k h hk

/-- the lead byte of an encoded character is `\n` iff the character is -/
theorem lead_nl (n b : Nat) (rest : Bytes) (h : encodeChar n = b :: rest) : b = 10 ↔ n = 10 := by
  unfold encodeChar at h
  split at h
  · simp at h; omega
  · split at h
    · simp at h; omega
    · split at h
      · simp at h; omega
      · simp at h; omega

/-- `Any` / `AnyNoNL` at a character offset -/
theorem any_at (cs : List Char) (k : Nat) (hk : k ≤ cs.length) :
    match cs[k]? with
    | none => (bytesOfChars cs)[offOf cs k]? = none
    | some ch => ∃ b, (bytesOfChars cs)[offOf cs k]? = some b ∧
        offOf cs k + codepointLen b = offOf cs (k + 1) ∧ ((b != 10) = (ch != '\n')) := by
  by_cases hlt : k < cs.length
  · rw [List.getElem?_eq_getElem hlt]
    simp only
    have hlt' : k < (cs.map Char.toNat).length := by simpa using hlt
    obtain ⟨b, hb, _, hc⟩ := lead_at (cs.map Char.toNat) k hlt'
    refine ⟨b, hb, ?_, ?_⟩
    · unfold offOf; rw [off_succ _ k hlt', hc]
    · obtain ⟨b', rest, he, _⟩ := encodeChar_shape (cs.map Char.toNat)[k]
      have hg := get_at (cs.map Char.toNat) k 0 hlt' (encodeChar_length_pos _)
      rw [Nat.add_zero, he] at hg
      have hbb : b = b' := by
        have : (encode (cs.map Char.toNat))[off (cs.map Char.toNat) k]? = some b' := by simpa using hg
        rw [hb] at this; exact Option.some.inj this
      subst hbb
      have h1 := lead_nl _ _ _ he
      have h2 : (cs.map Char.toNat)[k] = cs[k].toNat := by simp
      rw [h2] at h1
      have h3 : cs[k].toNat = 10 ↔ cs[k] = '\n' := by
        rw [← Char.toNat_inj]; rfl
      rw [Bool.eq_iff_iff]
      simp only [bne_iff_ne, ne_eq]
      exact not_congr (h1.trans h3)
  · have hge : cs.length ≤ k := by omega
    rw [List.getElem?_eq_none hge]
    simp only
    have : k = cs.length := by omega
    subst this
    rw [offOf_len]
    exact List.getElem?_eq_none (Nat.le_refl _)

theorem map_toNat_prefix (a b : List Char) : a.map Char.toNat <+: b.map Char.toNat ↔ a <+: b := by
  constructor
  · intro h
    induction a generalizing b with
    | nil => exact List.nil_prefix
    | cons x xs ih =>
      cases b with
      | nil => simp at h
      | cons y ys =>
        simp only [List.map_cons, List.cons_prefix_cons] at h ⊢
        exact ⟨Char.toNat_inj.mp h.1, ih ys h.2⟩
  · intro h; exact h.map _

theorem litAt_iff_prefix (hceq : ∀ a b, c.ceq false a b = (a == b)) (val : List Char) (k : Nat) :
    c.litAt false val k = true ↔ val <+: c.text.drop k := by
  induction val generalizing k with
  | nil => simp [Ctx.litAt]
  | cons a as ih =>
    simp only [Ctx.litAt, Ctx.at?]
    by_cases hlt : k < c.text.length
    · rw [List.getElem?_eq_getElem hlt, List.drop_eq_getElem_cons hlt]
      simp only [hceq, Bool.and_eq_true, beq_iff_eq, List.cons_prefix_cons, ih]
    · rw [List.getElem?_eq_none (by omega), List.drop_of_length_le (by omega)]
      simp

/-- `matches_literal` at a character offset: the encoded `lit` is there iff `lit` is a prefix of the
    characters from that position -/
theorem matchesLiteral_iff (ns lit : List Nat) (k : Nat) (hk : k ≤ ns.length) :
    matchesLiteral (encode ns) (off ns k) (off ns k + (encode lit).length) (encode lit) = true ↔
      lit <+: ns.drop k := by
  unfold matchesLiteral
  simp only [Nat.add_sub_cancel_left, Bool.and_eq_true, decide_eq_true_eq, beq_iff_eq]
  constructor
  · intro h; exact (C05_lit_prefix_take ns lit k).mp h.2
  · intro h
    refine ⟨?_, (C05_lit_prefix_take ns lit k).mpr h⟩
    rw [(C05_lit_end ns lit k hk h).1]
    exact off_le_length ns _

theorem lit_at (hceq : ∀ a b, c.ceq false a b = (a == b)) (val : List Char) (k : Nat) (hk : k ≤ c.text.length) :
    matchesLiteral (bytesOfChars c.text) (offOf c.text k) (offOf c.text k + (litBytes val).length) (litBytes val) =
      c.litAt false val k ∧
    (c.litAt false val k = true → offOf c.text k + (litBytes val).length = offOf c.text (k + val.length)) := by
  have hk' : k ≤ (c.text.map Char.toNat).length := by simpa using hk
  have hiff := matchesLiteral_iff (c.text.map Char.toNat) (val.map Char.toNat) k hk'
  rw [← List.map_drop, map_toNat_prefix, ← litAt_iff_prefix c hceq] at hiff
  refine ⟨Bool.eq_iff_iff.mpr hiff, ?_⟩
  intro h
  have hp : val.map Char.toNat <+: (c.text.map Char.toNat).drop k := by
    rw [← List.map_drop, map_toNat_prefix]; exact (litAt_iff_prefix c hceq val k).mp h
  have := (C05_lit_end (c.text.map Char.toNat) (val.map Char.toNat) k hk' hp).1
  simpa [offOf, litBytes] using this

theorem sameAt_iff_prefix (lo hi k : Nat) (hlh : lo ≤ hi) (hhi : hi ≤ c.text.length) (hk : k ≤ c.text.length) :
    c.sameAt lo hi k = true ↔ (c.text.drop lo).take (hi - lo) <+: c.text.drop k := by
  have hlen : ((c.text.drop lo).take (hi - lo)).length = hi - lo := by
    simp only [List.length_take, List.length_drop]; omega
  rw [List.prefix_iff_eq_take, hlen]
  simp only [Ctx.sameAt, Ctx.len, Ctx.at?, Bool.and_eq_true, decide_eq_true_eq, List.all_eq_true,
    List.mem_range, beq_iff_eq]
  constructor
  · rintro ⟨h1, h2⟩
    apply List.ext_getElem?
    intro j
    simp only [List.getElem?_take, List.getElem?_drop]
    split
    · rename_i hj; exact h2 j hj
    · rfl
  · intro h
    have hl := congrArg List.length h
    simp only [List.length_take, List.length_drop] at hl
    have hm1 : min (hi - lo) (c.text.length - lo) = hi - lo := Nat.min_eq_left (by omega)
    have hm2 := Nat.min_le_right (hi - lo) (c.text.length - k)
    rw [hm1] at hl
    rw [← hl] at hm2
    refine ⟨decide_eq_true (by omega), ?_⟩
    intro j hj
    have := congrArg (fun l => l[j]?) h
    simp only [List.getElem?_take, List.getElem?_drop, hj, if_true] at this
    exact this

/-- `Backref` at character offsets: the slice is defined, and comparing it at `o k` is `sameAt` -/
theorem backref_at (lo hi k : Nat) (hlh : lo ≤ hi) (hhi : hi ≤ c.text.length) (hk : k ≤ c.text.length) :
    ∃ refText, slice (bytesOfChars c.text) (offOf c.text lo) (offOf c.text hi) = some refText ∧
      matchesLiteral (bytesOfChars c.text) (offOf c.text k) (offOf c.text k + refText.length) refText =
        c.sameAt lo hi k ∧
      (c.sameAt lo hi k = true → offOf c.text k + refText.length = offOf c.text (k + (hi - lo))) := by
  have hhi' : hi ≤ (c.text.map Char.toNat).length := by simpa using hhi
  have hk' : k ≤ (c.text.map Char.toNat).length := by simpa using hk
  refine ⟨_, C05_slice_ok (c.text.map Char.toNat) lo hi hlh hhi', ?_, ?_⟩
  · have hmap : ((c.text.map Char.toNat).drop lo).take (hi - lo) =
        ((c.text.drop lo).take (hi - lo)).map Char.toNat := by rw [List.map_take, List.map_drop]
    have hiff := matchesLiteral_iff (c.text.map Char.toNat) (((c.text.drop lo).take (hi - lo)).map Char.toNat) k hk'
    rw [← List.map_drop, map_toNat_prefix, ← sameAt_iff_prefix c lo hi k hlh hhi hk] at hiff
    rw [hmap]
    exact Bool.eq_iff_iff.mpr hiff
  · intro h
    have hp : ((c.text.map Char.toNat).drop lo).take (hi - lo) <+: (c.text.map Char.toNat).drop k := by
      rw [← List.map_drop, ← List.map_take, ← List.map_drop, map_toNat_prefix]
      exact (sameAt_iff_prefix c lo hi k hlh hhi hk).mp h
    have := (C05_lit_end (c.text.map Char.toNat) _ k hk' hp).1
    have hl : (((c.text.map Char.toNat).drop lo).take (hi - lo)).length = hi - lo := by
      simp only [List.length_take, List.length_drop, List.length_map]; omega
    rw [hl] at this
    exact this

theorem charIx_at (cs : List Char) (k : Nat) (hk : k ≤ cs.length) :
    charIx (bytesOfChars cs) (offOf cs k) = some k := by
  have hk' : k ≤ (cs.map Char.toNat).length := by simpa using hk
  unfold charIx
  have hb : isBoundary (bytesOfChars cs) (offOf cs k) = true :=
    (C05_boundary_iff _ _).mpr ⟨k, hk', rfl⟩
  have hle : offOf cs k ≤ (bytesOfChars cs).length := offOf_le cs k
  simp only [hle, hb, decide_true, Bool.and_self, if_true, Option.some.injEq]
  have htake : (bytesOfChars cs).take (offOf cs k) = encode ((cs.map Char.toNat).take k) := by
    unfold bytesOfChars offOf off
    rw [encode_split (cs.map Char.toNat) k]
    simp
  rw [htake, C05_count_lead]
  simp only [List.length_take, List.length_map]; omega

theorem goBack_at (cs : List Char) (n k : Nat) (hk : k ≤ cs.length) :
    goBackBytes (bytesOfChars cs) n (offOf cs k) = some ((Fancy.goBack k n).map (offOf cs)) :=
  C05_goback_model _ n k (by simpa using hk)

end Facts

/-! ## typing discipline and the local precondition -/

theorem wellTyped_at {τ : Nat → Bool} {prog : List Insn} (h : wellTyped τ prog = true) {pc : Nat} {insn : Insn}
    (hpc : prog[pc]? = some insn) : insn.typed τ = true :=
  List.all_eq_true.mp h insn (List.mem_of_getElem? hpc)

theorem optAll_spec {x : Option Nat} {p : Nat → Bool} (h : optAll x p = true) {v : Nat} (hx : x = some v) : p v = true := by
  subst hx; exact h

/-! ## `mapV` along `offOf` -/

section MapV
variable (cs : List Char)

theorem le_offOf (k : Nat) (hk : k ≤ cs.length) : k ≤ offOf cs k := by
  induction k with
  | zero => exact Nat.zero_le _
  | succ k ih =>
    have := offOf_lt cs k (k + 1) (Nat.lt_succ_self k) hk
    have := ih (by omega)
    omega

theorem len_le_blen : cs.length ≤ (bytesOfChars cs).length := by
  rw [← offOf_len]; exact le_offOf cs _ (Nat.le_refl _)

variable (hU : (bytesOfChars cs).length < UNSET)
include hU

theorem offOf_ne_unset (v : Nat) : offOf cs v ≠ UNSET := by
  have := offOf_le cs v; omega

theorem mapV_eq_unset (v : Nat) : mapV (offOf cs) v = UNSET ↔ v = UNSET := by
  unfold mapV
  split
  · simp [*]
  · rename_i h; simp [h, offOf_ne_unset cs hU]

theorem mapAt_eq_unset (τ : Nat → Bool) (i v : Nat) : mapAt τ (offOf cs) i v = UNSET ↔ v = UNSET := by
  unfold mapAt
  split
  · exact mapV_eq_unset cs hU v
  · rfl

theorem mapV_of_le (v : Nat) (h : v ≤ cs.length) : mapV (offOf cs) v = offOf cs v := by
  have := len_le_blen cs
  unfold mapV; rw [if_neg (by omega)]

theorem mapV_lt_iff (a b : Nat) (ha : Valid cs.length a) (hb : Valid cs.length b) :
    mapV (offOf cs) a < mapV (offOf cs) b ↔ a < b := by
  have hl := len_le_blen cs
  rcases ha with ha | ha <;> rcases hb with hb | hb
  · rw [mapV_of_le cs hU a ha, mapV_of_le cs hU b hb]; exact offOf_lt_iff cs a b ha hb
  · subst hb
    rw [mapV_of_le cs hU a ha, mapV_unset]
    have := offOf_le cs a
    constructor <;> intro _ <;> omega
  · subst ha
    rw [mapV_of_le cs hU b hb, mapV_unset]
    have := offOf_le cs b
    constructor <;> intro _ <;> omega
  · subst ha; subst hb; simp

theorem mapV_eq_iff (a b : Nat) (ha : Valid cs.length a) (hb : Valid cs.length b) :
    mapV (offOf cs) a = mapV (offOf cs) b ↔ a = b := by
  have h1 := mapV_lt_iff cs hU a b ha hb
  have h2 := mapV_lt_iff cs hU b a hb ha
  constructor
  · intro h; omega
  · intro h; rw [h]

end MapV

/-! ## one step -/

@[simp] theorem BCtx.ofCtx_text (c : Ctx) : (BCtx.ofCtx c).text = bytesOfChars c.text := rfl
@[simp] theorem BCtx.ofCtx_pos (c : Ctx) : (BCtx.ofCtx c).pos = offOf c.text c.pos := rfl
@[simp] theorem BCtx.ofCtx_chars (c : Ctx) : (BCtx.ofCtx c).chars = c := rfl

theorem pushOr_map {τ : Nat → Bool} {o : Nat → Nat} (s : State) (pc ix : Nat) (k kB : State → StepResult)
    (hk : ∀ s', kB (mapState τ o s') = mapRes τ o (k s')) :
    pushOr (mapState τ o s) pc (o ix) kB = mapRes τ o (pushOr s pc ix k) := by
  unfold pushOr
  rw [mapState_push]
  cases s.push pc ix with
  | ok s' => exact hk s'
  | overflow => rfl

theorem get_of_save (s s' : State) (slot v : Nat) (h : s.save slot v = some s') : s'.get slot = some v := by
  unfold State.save at h
  split at h
  · cases h
  · split at h
    · cases h
    · rename_i h2
      split at h
      all_goals
        simp only [Option.some.injEq] at h
        subst h
        simp only [State.get]
        rw [List.getElem?_set_self (by omega)]

section Step
variable (c : Ctx) (τ : Nat → Bool) (nS : Nat)
variable (hceq : ∀ a b, c.ceq false a b = (a == b))
variable (hU : (bytesOfChars c.text).length < UNSET)
variable (hτ : ∀ i, nS ≤ i → τ i = false)

local notation "ofs" => offOf c.text
local notation "MS" => mapState τ (offOf c.text)

include hU in
theorem capStart_map (s : State) (h0 : τ 0 = true) (h1 : τ 1 = true) (hpos : c.pos ≤ c.len)
    (hv0 : ∀ v, s.get 0 = some v → Valid c.len v) (hv1 : ∀ v, s.get 1 = some v → Valid c.len v) :
    capStart (MS s) (ofs c.pos) = (capStart s c.pos).map MS := by
  have hA0 : ∀ v, mapAt τ ofs 0 v = mapV ofs v := by intro v; simp [mapAt, h0]
  have hA1 : ∀ v, mapAt τ ofs 1 v = mapV ofs v := by intro v; simp [mapAt, h1]
  have hpv : Valid c.len c.pos := Or.inl hpos
  have hmp : mapV ofs c.pos = ofs c.pos := mapV_of_le c.text hU c.pos hpos
  unfold capStart
  have hs1 : (MS s).saves[1]? = (s.saves[1]?).map (mapAt τ ofs 1) := by
    simp [mapState, mapSaves_getElem?]
  rw [hs1]
  cases hg1 : s.saves[1]? with
  | none => rfl
  | some slot1 =>
    have hvs1 : Valid c.len slot1 := hv1 slot1 (by simpa [State.get] using hg1)
    simp only [Option.map_some, mapState_get]
    cases hg0 : s.get 0 with
    | none => rfl
    | some s0 =>
      have hvs0 : Valid c.len s0 := hv0 s0 hg0
      simp only [Option.map_some, Option.bind_some, hA0, hA1]
      have hcmp : (mapV ofs s0 > mapV ofs slot1) ↔ (s0 > slot1) := mapV_lt_iff c.text hU slot1 s0 hvs1 hvs0
      -- the state after the first cap, with the value of slot 0 in it
      have key : ∀ (t : State) (t0 : Nat), t.get 0 = some t0 → Valid c.len t0 →
          ((MS t).get 0).bind (fun s0' => if s0' < ofs c.pos then (MS t).save 0 (ofs c.pos) else some (MS t)) =
            ((t.get 0).bind fun s0' => if s0' < c.pos then t.save 0 c.pos else some t).map MS := by
        intro t t0 ht hvt
        rw [mapState_get, ht]
        simp only [Option.map_some, Option.bind_some, hA0]
        have : mapV ofs t0 < ofs c.pos ↔ t0 < c.pos := by
          rw [← hmp]; exact mapV_lt_iff c.text hU t0 c.pos hvt hpv
        by_cases hlt : t0 < c.pos
        · rw [if_pos (this.mpr hlt), if_pos hlt]
          have := mapState_save (τ := τ) (o := offOf c.text) t 0 c.pos
          rw [hA0, hmp] at this; exact this
        · rw [if_neg (fun h => hlt (this.mp h)), if_neg hlt]; rfl
      by_cases hgt : s0 > slot1
      · rw [if_pos (hcmp.mpr hgt), if_pos hgt]
        have hsv := mapState_save (τ := τ) (o := offOf c.text) s 0 slot1
        rw [hA0] at hsv
        rw [hsv]
        cases hsave : s.save 0 slot1 with
        | none => rfl
        | some t =>
          simp only [Option.map_some, Option.bind_some]
          exact key t slot1 (get_of_save s t 0 slot1 hsave) hvs1
      · rw [if_neg (fun h => hgt (hcmp.mp h)), if_neg hgt]
        simp only [Option.bind_some]
        exact key s s0 hg0 hvs0

include hU in
theorem mapAt_pos_ix (slot ix : Nat) (h : τ slot = true) (hix : ix ≤ c.len) : mapAt τ ofs slot ix = ofs ix := by
  simp only [mapAt, h, if_true]; exact mapV_of_le c.text hU ix hix

theorem mapAt_num (slot v : Nat) (h : τ slot = false) : mapAt τ ofs slot v = v := by simp [mapAt, h]

include hU in
theorem mapAt_zero (slot : Nat) : mapAt τ ofs slot 0 = 0 := by
  unfold mapAt
  split
  · rw [mapV_of_le c.text hU 0 (Nat.zero_le _)]; exact offOf_zero _
  · rfl

include hceq hU hτ in
/-- **one-step simulation** (every instruction except `Delegate`, which is `stepB_sim_delegate`) -/
theorem stepB_sim_core (prog : List Insn) (pc ix : Nat) (s : State) (insn : Insn)
    (hpc : prog[pc]? = some insn) (hty : insn.typed τ = true) (hok : stepOK τ nS c insn ix s = true)
    (hnd : ∀ es sg eg, insn ≠ .delegate es sg eg) :
    stepB (BCtx.ofCtx c) prog pc (ofs ix) (MS s) = mapRes τ ofs (step c prog pc ix s) := by
  have hix : ix ≤ c.text.length := by
    simp only [stepOK, Bool.and_eq_true, decide_eq_true_eq] at hok; exact hok.1
  unfold step stepB
  simp only [hpc]
  cases insn with
  | end_ =>
    dsimp only
    simp only [stepOK, Bool.and_eq_true, decide_eq_true_eq] at hok
    simp only [Insn.typed, Bool.and_eq_true] at hty
    obtain ⟨_, ⟨hpos, hv0⟩, hv1⟩ := hok
    have := capStart_map c τ hU s hty.1 hty.2 hpos
      (fun v hv => of_decide_eq_true (optAll_spec hv0 hv)) (fun v hv => of_decide_eq_true (optAll_spec hv1 hv))
    simp only [capStartB, BCtx.ofCtx_pos, this]
    cases capStart s c.pos <;> rfl
  | any =>
    dsimp only
    have h := any_at c.text ix hix
    simp only [BCtx.ofCtx_text, Ctx.at?]
    cases hch : c.text[ix]? with
    | none => rw [hch] at h; simp only at h; rw [h]; rfl
    | some ch =>
      rw [hch] at h
      obtain ⟨b, hb, hnext, _⟩ := h
      rw [hb]; simp only [mapRes, hnext]
  | anyNoNL =>
    dsimp only
    have h := any_at c.text ix hix
    simp only [BCtx.ofCtx_text, Ctx.at?]
    cases hch : c.text[ix]? with
    | none => rw [hch] at h; simp only at h; rw [h]; rfl
    | some ch =>
      rw [hch] at h
      obtain ⟨b, hb, hnext, hnl⟩ := h
      rw [hb]; simp only [hnl]
      split <;> simp only [mapRes, hnext]
  | lit val =>
    dsimp only
    obtain ⟨h1, h2⟩ := lit_at c hceq val ix hix
    simp only [BCtx.ofCtx_text, h1]
    by_cases hl : c.litAt false val ix = true
    · simp only [hl, if_true, mapRes, h2 hl]
    · simp only [hl, mapRes]; rfl
  | assertion a =>
    dsimp only
    simp only [BCtx.ofCtx_text, charIx_at c.text ix hix, BCtx.ofCtx_chars]
    by_cases ha : c.assertion a ix = true <;> simp [ha, mapRes]
  | split x y =>
    dsimp only
    exact pushOr_map s y ix _ _ (fun _ => rfl)
  | jmp t =>
    dsimp only
    rfl
  | save slot =>
    dsimp only
    simp only [Insn.typed] at hty
    have := mapState_save (τ := τ) (o := offOf c.text) s slot ix
    rw [mapAt_pos_ix c τ hU slot ix hty hix] at this
    rw [this]
    cases s.save slot ix <;> rfl
  | save0 slot =>
    dsimp only
    have := mapState_save (τ := τ) (o := offOf c.text) s slot 0
    rw [mapAt_zero c τ hU slot] at this
    rw [this]
    cases s.save slot 0 <;> rfl
  | restore slot =>
    dsimp only
    simp only [Insn.typed] at hty
    simp only [stepOK, Bool.and_eq_true, decide_eq_true_eq] at hok
    rw [mapState_get]
    cases hg : s.get slot with
    | none => rfl
    | some v =>
      have hv : v ≤ c.text.length := of_decide_eq_true (optAll_spec hok.2 hg)
      simp only [Option.map_some, mapRes, mapAt_pos_ix c τ hU slot v hty hv]
  | repeatGr lo hi next rep =>
    dsimp only
    simp only [Insn.typed, Bool.not_eq_true'] at hty
    rw [mapState_get]
    cases hg : s.get rep with
    | none => rfl
    | some cnt =>
      simp only [Option.map_some, mapAt_num c τ rep cnt hty]
      split
      · rfl
      · have := mapState_save (τ := τ) (o := offOf c.text) s rep (cnt + 1)
        rw [mapAt_num c τ rep _ hty] at this
        rw [this]
        cases s.save rep (cnt + 1) with
        | none => rfl
        | some s' =>
          simp only [Option.map_some]
          split
          · exact pushOr_map s' next ix _ _ (fun _ => rfl)
          · rfl
  | repeatNg lo hi next rep =>
    dsimp only
    simp only [Insn.typed, Bool.not_eq_true'] at hty
    rw [mapState_get]
    cases hg : s.get rep with
    | none => rfl
    | some cnt =>
      simp only [Option.map_some, mapAt_num c τ rep cnt hty]
      split
      · rfl
      · have := mapState_save (τ := τ) (o := offOf c.text) s rep (cnt + 1)
        rw [mapAt_num c τ rep _ hty] at this
        rw [this]
        cases s.save rep (cnt + 1) with
        | none => rfl
        | some s' =>
          simp only [Option.map_some]
          split
          · exact pushOr_map s' (pc + 1) ix _ _ (fun _ => rfl)
          · rfl
  | repeatEpsGr lo next rep check =>
    dsimp only
    simp only [Insn.typed, Bool.and_eq_true, Bool.not_eq_true'] at hty
    simp only [stepOK, Bool.and_eq_true, decide_eq_true_eq] at hok
    rw [mapState_get, mapState_get]
    cases hg : s.get rep with
    | none => rfl
    | some cnt =>
      cases hg2 : s.get check with
      | none => rfl
      | some chk =>
        have hvc : Valid c.text.length chk := of_decide_eq_true (optAll_spec hok.2 hg2)
        simp only [Option.map_some, mapAt_num c τ rep cnt hty.1]
        have hchk : (mapAt τ ofs check chk == ofs ix) = (chk == ix) := by
          simp only [mapAt, hty.2, if_true]
          rw [← mapV_of_le c.text hU ix hix, Bool.eq_iff_iff, beq_iff_eq, beq_iff_eq]
          exact mapV_eq_iff c.text hU chk ix hvc (Or.inl hix)
        rw [hchk]
        split
        · rfl
        · have := mapState_save (τ := τ) (o := offOf c.text) s rep (cnt + 1)
          rw [mapAt_num c τ rep _ hty.1] at this
          rw [this]
          cases s.save rep (cnt + 1) with
          | none => rfl
          | some s' =>
            simp only [Option.map_some]
            split
            · have := mapState_save (τ := τ) (o := offOf c.text) s' check ix
              rw [mapAt_pos_ix c τ hU check ix hty.2 hix] at this
              rw [this]
              cases s'.save check ix with
              | none => rfl
              | some s'' => exact pushOr_map s'' next ix _ _ (fun _ => rfl)
            · rfl
  | repeatEpsNg lo next rep check =>
    dsimp only
    simp only [Insn.typed, Bool.and_eq_true, Bool.not_eq_true'] at hty
    simp only [stepOK, Bool.and_eq_true, decide_eq_true_eq] at hok
    rw [mapState_get, mapState_get]
    cases hg : s.get rep with
    | none => rfl
    | some cnt =>
      cases hg2 : s.get check with
      | none => rfl
      | some chk =>
        have hvc : Valid c.text.length chk := of_decide_eq_true (optAll_spec hok.2 hg2)
        simp only [Option.map_some, mapAt_num c τ rep cnt hty.1]
        have hchk : (mapAt τ ofs check chk == ofs ix) = (chk == ix) := by
          simp only [mapAt, hty.2, if_true]
          rw [← mapV_of_le c.text hU ix hix, Bool.eq_iff_iff, beq_iff_eq, beq_iff_eq]
          exact mapV_eq_iff c.text hU chk ix hvc (Or.inl hix)
        rw [hchk]
        split
        · rfl
        · have := mapState_save (τ := τ) (o := offOf c.text) s rep (cnt + 1)
          rw [mapAt_num c τ rep _ hty.1] at this
          rw [this]
          cases s.save rep (cnt + 1) with
          | none => rfl
          | some s' =>
            simp only [Option.map_some]
            split
            · have := mapState_save (τ := τ) (o := offOf c.text) s' check ix
              rw [mapAt_pos_ix c τ hU check ix hty.2 hix] at this
              rw [this]
              cases s'.save check ix with
              | none => rfl
              | some s'' => exact pushOr_map s'' (pc + 1) ix _ _ (fun _ => rfl)
            · rfl
  | failNegLook =>
    dsimp only
    rw [mapState_stack_length, popUntil_map]
    cases popUntil (pc + 1) (s.stack.length + 1) s <;> rfl
  | goBack n =>
    dsimp only
    simp only [BCtx.ofCtx_text, goBack_at c.text n ix hix]
    cases Fancy.goBack ix n <;> rfl
  | backref slot =>
    dsimp only
    simp only [Insn.typed, Bool.and_eq_true] at hty
    simp only [stepOK, Bool.and_eq_true, decide_eq_true_eq] at hok
    rw [mapState_get, mapState_get]
    cases hg : s.get slot with
    | none => rfl
    | some lo =>
      cases hg2 : s.get (slot + 1) with
      | none => rfl
      | some hi =>
        have hvl : Valid c.text.length lo := of_decide_eq_true (optAll_spec hok.2.1 hg)
        have hvh : Valid c.text.length hi := of_decide_eq_true (optAll_spec hok.2.2 hg2)
        simp only [Option.map_some]
        have e1 : (mapAt τ ofs slot lo == UNSET) = (lo == UNSET) := by
          rw [Bool.eq_iff_iff, beq_iff_eq, beq_iff_eq]; exact mapAt_eq_unset c.text hU τ slot lo
        have e2 : (mapAt τ ofs (slot + 1) hi == UNSET) = (hi == UNSET) := by
          rw [Bool.eq_iff_iff, beq_iff_eq, beq_iff_eq]; exact mapAt_eq_unset c.text hU τ (slot + 1) hi
        rw [e1, e2]
        by_cases hu : (lo == UNSET || hi == UNSET) = true
        · simp only [hu, if_true]; rfl
        · simp only [hu]
          simp only [Bool.or_eq_true, beq_iff_eq, not_or] at hu
          have hlo : lo ≤ c.text.length := hvl.resolve_right hu.1
          have hhi : hi ≤ c.text.length := hvh.resolve_right hu.2
          have m1 : mapAt τ ofs slot lo = ofs lo := mapAt_pos_ix c τ hU slot lo hty.1 hlo
          have m2 : mapAt τ ofs (slot + 1) hi = ofs hi := mapAt_pos_ix c τ hU (slot + 1) hi hty.2 hhi
          rw [m1, m2]
          have hgt : (ofs lo > ofs hi) ↔ (lo > hi) := offOf_lt_iff c.text hi lo hhi hlo
          by_cases hlh : lo > hi
          · rw [if_pos (hgt.mpr hlh), if_pos hlh]; rfl
          · rw [if_neg (fun h => hlh (hgt.mp h)), if_neg hlh]
            obtain ⟨refText, hsl, hm, hend⟩ := backref_at c lo hi ix (by omega) hhi hix
            simp only [if_false, BCtx.ofCtx_text, hsl, hm]
            by_cases hsa : c.sameAt lo hi ix = true
            · simp only [hsa, if_true, mapRes, hend hsa]
              rfl
            · simp only [hsa, mapRes]; rfl
  | backrefExists g =>
    dsimp only
    rw [mapState_get]
    cases hg : s.get (g * 2) with
    | none => rfl
    | some lo =>
      simp only [Option.map_some]
      have e1 : (mapAt τ ofs (g * 2) lo == UNSET) = (lo == UNSET) := by
        rw [Bool.eq_iff_iff, beq_iff_eq, beq_iff_eq]; exact mapAt_eq_unset c.text hU τ (g * 2) lo
      rw [e1]
      split <;> rfl
  | beginAtomic =>
    dsimp only
    simp only [stepOK, Bool.and_eq_true, decide_eq_true_eq] at hok
    obtain ⟨_, hsp, hptr⟩ := hok
    have hbc : (MS s).backtrackCount = s.backtrackCount := mapState_stack_length s
    rw [hbc, mapState_stackPush s _ (fun i hi => hτ i (by omega))
      (fun sp h => hτ sp (of_decide_eq_true (optAll_spec hptr h)))]
    cases s.stackPush s.backtrackCount <;> rfl
  | endAtomic =>
    dsimp only
    simp only [stepOK, Bool.and_eq_true, decide_eq_true_eq] at hok
    obtain ⟨_, hsp, hptr⟩ := hok
    rw [mapState_stackPop s (fun i hi => hτ i (by omega))
      (fun sp h => hτ sp (by have := of_decide_eq_true (optAll_spec hptr h); omega))]
    cases s.stackPop with
    | none => rfl
    | some p =>
      obtain ⟨s', count⟩ := p
      simp only [Option.map_some, mapState_backtrackCut]
      cases s'.backtrackCut count <;> rfl
  | delegate es sg eg => exact absurd rfl (hnd es sg eg)
  | contPrev =>
    dsimp only
    simp only [stepOK, Bool.and_eq_true, decide_eq_true_eq] at hok
    have hne : (ofs ix != ofs c.pos) = (ix != c.pos) := by
      rw [Bool.eq_iff_iff]
      simp only [bne_iff_ne, ne_eq]
      exact not_congr ⟨offOf_inj c.text ix c.pos hix hok.2, fun h => by rw [h]⟩
    simp only [BCtx.ofCtx_pos, BCtx.ofCtx_chars, hne]
    split <;> rfl

/-! ### `Delegate` (the A-RA boundary) -/

theorem toBytes_slot (cs : List Char) (r : St) (i : Nat) :
    (r.toBytes cs).slot i = (r.slot i).map (offOf cs) := by
  simp only [St.slot, St.toBytes, List.getElem?_map]
  cases r.slots[i]? with
  | none => rfl
  | some x => cases x <;> rfl

theorem slot_mem (r : St) (i a : Nat) (h : r.slot i = some a) : some a ∈ r.slots := by
  simp only [St.slot] at h
  cases hs : r.slots[i]? with
  | none => rw [hs] at h; cases h
  | some x =>
    rw [hs] at h
    simp only [Option.join_some] at h
    subst h
    exact List.mem_of_getElem? hs

theorem mapSaves_take (n : Nat) (l : List Nat) : (mapSaves τ ofs l).take n = mapSaves τ ofs (l.take n) := by
  apply List.ext_getElem?
  intro j
  simp only [List.getElem?_take, mapSaves_getElem?]
  split <;> rfl

include hU in
theorem unmapV_mapV (v : Nat) (hv : Valid c.text.length v) :
    unmapV (bytesOfChars c.text) (mapV ofs v) = v := by
  rcases hv with hv | hv
  · rw [mapV_of_le c.text hU v hv]
    simp [unmapV, charIx_at c.text v hv]
  · subst hv
    rw [mapV_unset]
    have : ¬ UNSET ≤ (bytesOfChars c.text).length := by omega
    simp [unmapV, charIx, this]

include hU in
theorem copyGroups_map (r' : St) (x : List (Option Nat)) (sg eg : Nat) (hg : r'.Good c (2 * eg))
    (hτp : ∀ i, i < 2 * eg → τ i = true) :
    ∀ (n : Nat) (s : State), sg + n ≤ eg →
      copyGroups (r'.toBytes c.text) sg n (MS s) = (copyGroups (extSt x r') sg n s).map MS
  | 0, s, _ => rfl
  | n + 1, s, hn => by
    simp only [copyGroups]
    rw [copyGroups_map r' x sg eg hg hτp n s (by omega)]
    cases copyGroups (extSt x r') sg n s with
    | none => rfl
    | some s1 =>
      simp only [Option.map_some]
      have hl := hg.len
      rw [toBytes_slot, toBytes_slot, extSt_slot x r' _ (by omega), extSt_slot x r' _ (by omega)]
      cases ha : r'.slot ((sg + n) * 2) with
      | none => rfl
      | some a =>
        cases hb : r'.slot ((sg + n) * 2 + 1) with
        | none => rfl
        | some b =>
          simp only [Option.map_some]
          have hal : a ≤ c.text.length := hg.vals a (slot_mem r' _ a ha)
          have hbl : b ≤ c.text.length := hg.vals b (slot_mem r' _ b hb)
          have h1 := mapState_save (τ := τ) (o := offOf c.text) s1 ((sg + n) * 2) a
          rw [mapAt_pos_ix c τ hU _ a (hτp _ (by omega)) hal] at h1
          rw [h1]
          cases s1.save ((sg + n) * 2) a with
          | none => rfl
          | some s2 =>
            simp only [Option.map_some, Option.bind_some]
            have h2 := mapState_save (τ := τ) (o := offOf c.text) s2 ((sg + n) * 2 + 1) b
            rw [mapAt_pos_ix c τ hU _ b (hτp _ (by omega)) hbl] at h2
            exact h2

include hU in
/-- **one-step simulation, `Delegate`** -/
theorem stepB_sim_delegate (prog : List Insn) (pc ix : Nat) (s : State) (es : List Expr) (sg eg : Nat)
    (hpc : prog[pc]? = some (.delegate es sg eg)) (hty : (Insn.delegate es sg eg).typed τ = true)
    (hok : stepOK τ nS c (.delegate es sg eg) ix s = true) :
    stepB (BCtx.ofCtx c) prog pc (ofs ix) (MS s) = mapRes τ ofs (step c prog pc ix s) := by
  simp only [Insn.typed, Bool.and_eq_true, List.all_eq_true, List.mem_range] at hty
  simp only [stepOK, Bool.and_eq_true, decide_eq_true_eq, List.all_eq_true] at hok
  obtain ⟨hix, hlen, hval⟩ := hok
  have hix : ix ≤ c.text.length := hix
  have hvalid : ∀ v ∈ s.saves.take (2 * eg), Valid c.text.length v := hval
  unfold step stepB
  simp only [hpc, BCtx.ofCtx_text, charIx_at c.text ix hix, BCtx.ofCtx_chars]
  -- the oracle's input: the slots of the groups below `eg`, as character indices
  have hin : ((MS s).saves.take (2 * eg)).map (unmapV (bytesOfChars c.text)) = s.saves.take (2 * eg) := by
    have : (MS s).saves = mapSaves τ ofs s.saves := rfl
    rw [this, mapSaves_take]
    apply List.ext_getElem?
    intro j
    simp only [List.getElem?_map, mapSaves_getElem?]
    cases hj : (s.saves.take (2 * eg))[j]? with
    | none => rfl
    | some v =>
      have hjl : j < 2 * eg := by
        have := (List.getElem?_eq_some_iff.mp hj).1
        simp only [List.length_take] at this; omega
      simp only [Option.map_some, mapAt, hty.2 j hjl, if_true]
      rw [unmapV_mapV c hU v (hvalid v (List.mem_of_getElem? hj))]
  rw [hin]
  obtain ⟨hext, hlen'⟩ := delegateOracle_ext c es sg eg ix (2 * eg) (2 * eg) s.saves hty.1 (by omega)
    (Nat.le_refl _) hlen
  rw [hext]
  cases hr : delegateOracle c es sg eg ix (s.saves.take (2 * eg)) with
  | none => rfl
  | some r' =>
    simp only [Option.map_some]
    -- the result is inside the text
    have hgood : r'.Good c (2 * eg) := by
      rw [C01_delegateOracle_eq, delegateOracleSpec] at hr
      refine semConcat_good c (2 * eg) es _ r' ?_ (List.mem_of_mem_head? hr)
      refine ⟨hix, ?_, ?_⟩
      · simp only [clearGroups_length, viewSlots_length, List.length_take]; omega
      · intro v hv
        obtain ⟨i, hi⟩ := List.getElem?_of_mem hv
        rw [clearGroups_getElem?] at hi
        split at hi
        · cases hi
        · simp only [viewSlots, List.getElem?_map] at hi
          cases hw : (s.saves.take (2 * eg))[i]? with
          | none => rw [hw] at hi; cases hi
          | some w =>
            rw [hw] at hi
            simp only [Option.map_some, Option.some.injEq] at hi
            split at hi
            · cases hi
            · rename_i hne
              simp only [Option.some.injEq] at hi
              subst hi
              have := hvalid w (List.mem_of_getElem? hw)
              rcases this with h | h
              · exact h
              · simp [h] at hne
    by_cases hse : (sg == eg) = true
    · simp only [hse, if_true, mapRes, extSt_ix, St.toBytes]
    · simp only [hse]
      have hcg : copyGroups (r'.toBytes c.text) sg (eg - sg) (MS s) =
          (copyGroups (extSt (viewSlots (List.drop (2 * eg) s.saves)) r') sg (eg - sg) s).map MS := by
        rcases Nat.le_total sg eg with h | h
        · exact copyGroups_map c τ hU r' _ sg eg hgood hty.2 (eg - sg) s (by omega)
        · have : eg - sg = 0 := by omega
          rw [this]; rfl
      rw [hcg]
      cases copyGroups (extSt (viewSlots (List.drop (2 * eg) s.saves)) r') sg (eg - sg) s with
      | none => rfl
      | some s' => simp only [Option.map_some, mapRes, extSt_ix, St.toBytes]; rfl

/-! ## one step, every instruction; whole runs -/

include hceq hU hτ in
/-- **one-step simulation**: under the typing discipline and the local precondition, the byte machine's
    step from the mapped configuration is the mapped step of the code-point machine -/
theorem stepB_sim (prog : List Insn) (hwt : wellTyped τ prog = true) (pc ix : Nat) (s : State)
    (hok : cfgOK c τ nS prog pc ix s = true) :
    stepB (BCtx.ofCtx c) prog pc (ofs ix) (MS s) = mapRes τ ofs (step c prog pc ix s) := by
  unfold cfgOK at hok
  cases hpc : prog[pc]? with
  | none => unfold step stepB; simp only [hpc]; rfl
  | some insn =>
    rw [hpc] at hok
    have hty := wellTyped_at hwt hpc
    by_cases hd : ∃ es sg eg, insn = .delegate es sg eg
    · obtain ⟨es, sg, eg, rfl⟩ := hd
      exact stepB_sim_delegate c τ nS hU prog pc ix s es sg eg hpc hty hok
    · exact stepB_sim_core c τ nS hceq hU hτ prog pc ix s insn hpc hty hok
        (fun es sg eg h => hd ⟨es, sg, eg, h⟩)

include hceq hU hτ in
/-- **the byte-level loop refines the code-point loop**: same outcome (matched slots mapped), same
    statistics -/
theorem runLoopB_refines (prog : List Insn) (op : VMOpts) (hwt : wellTyped τ prog = true) :
    ∀ (fuel pc ix : Nat) (s : State) (st : Stats), okLoop c τ nS prog op fuel pc ix s st.backtracks = true →
      runLoopB (BCtx.ofCtx c) prog op fuel pc (ofs ix) (MS s) st =
        (mapOut τ ofs (runLoop c prog op fuel pc ix s st).1, (runLoop c prog op fuel pc ix s st).2)
  | 0, _, _, _, _, _ => rfl
  | fuel + 1, pc, ix, s, st, hok => by
    simp only [okLoop, Bool.and_eq_true] at hok
    obtain ⟨hcfg, hrest⟩ := hok
    have hsim := stepB_sim c τ nS hceq hU hτ prog hwt pc ix s hcfg
    simp only [runLoopB, runLoop, hsim]
    cases hstep : step c prog pc ix s with
    | done out => rfl
    | cont pc' ix' s' =>
      rw [hstep] at hrest
      simp only [mapRes, mapState_stack_length]
      exact runLoopB_refines prog op hwt fuel pc' ix' s' _ hrest
    | fail s' =>
      rw [hstep] at hrest
      simp only [mapRes, mapState_stack_isEmpty]
      by_cases hemp : s'.stack.isEmpty = true
      · simp only [hemp, if_true]; rfl
      · simp only [hemp] at hrest ⊢
        by_cases hlim : st.backtracks + 1 > op.backtrackLimit
        · simp only [hlim, if_true]; rfl
        · simp only [hlim] at hrest ⊢
          rw [mapState_pop]
          cases hpop : s'.pop with
          | none => rfl
          | some q =>
            obtain ⟨s'', pc', ix'⟩ := q
            rw [hpop] at hrest
            simp only [Option.map_some, if_false]
            exact runLoopB_refines prog op hwt fuel pc' ix' s'' _ hrest

include hceq hU hτ in
/-- **`runB` refines `run`**: on the encoded text from the byte offset of `c.pos`, the byte machine
    returns the code-point machine's outcome with the matched slots mapped to byte offsets (position
    slots through `offOf`, `UNSET` and number slots unchanged) and the same statistics -/
theorem runB_refines (p : Prog) (op : VMOpts) (fuel : Nat) (hwt : wellTyped τ p.body = true)
    (hok : okLoop c τ nS p.body op fuel 0 c.pos (State.new p.nSaves op.maxStack) 0 = true) :
    runB (BCtx.ofCtx c) p op fuel = (mapOut τ ofs (run c p op fuel).1, (run c p op fuel).2) := by
  have := runLoopB_refines c τ nS hceq hU hτ p.body op hwt fuel 0 c.pos (State.new p.nSaves op.maxStack) {} hok
  rw [mapState_new] at this
  exact this

end Step

end Fancy
