import FancyModel.Lemmas.StateRefine
import FancyModel.Model.VM
/-!
# The whole-copy abstract machine and its link to the interpreter

`ACfg` is a configuration of the VM in which every pending alternative is a *whole copy* of the
slot vector (the reference of C20). `astep` is the VM instruction step on such configurations for
the instruction set of the interpreted core (no `Delegate`, no atomic / look-around bookkeeping);
`Big` is the big-step relation "from this configuration the machine ends with this answer".

`link_run` / `link_fail`: whenever the abstract machine ends with answer `a`, the concrete
interpreter (`runLoop`, on the undo-log `State`) started from a state that abstracts to the same
configuration returns `a` — unless it stops for one of the three resource reasons the abstract
machine does not have (fuel, backtrack limit, branch-stack cap).
-/
namespace Fancy
open State

inductive ACfg where
  | run (pc ix : Nat) (saves : List Nat) (stack : List ABranch)
  | fail (stack : List ABranch)

inductive Ans where
  | matched (saves : List Nat)
  | noMatch
deriving DecidableEq, Repr

def Ans.toOutcome : Ans → Outcome
  | .matched s => .matched s
  | .noMatch => .noMatch

/-- `capStart` on a plain slot vector -/
def capSaves (saves : List Nat) (pos : Nat) : List Nat :=
  match saves[1]?, saves[0]? with
  | some e, some s0 =>
    let s1 := if s0 > e then e else s0
    let s2 := if s1 < pos then pos else s1
    saves.set 0 s2
  | _, _ => saves

/-- one instruction on a whole-copy configuration (`none`: outside the modelled instruction set,
    a panic site, or `End`) -/
def astep (c : Ctx) (prog : List Insn) (pc ix : Nat) (saves : List Nat) (stack : List ABranch) : Option ACfg :=
  match prog[pc]? with
  | some .any =>
    match c.at? ix with
    | some _ => some (.run (pc + 1) (ix + 1) saves stack)
    | none => some (.fail stack)
  | some .anyNoNL =>
    match c.at? ix with
    | some ch => if ch != '\n' then some (.run (pc + 1) (ix + 1) saves stack) else some (.fail stack)
    | none => some (.fail stack)
  | some (.lit val) =>
    if c.litAt false val ix then some (.run (pc + 1) (ix + val.length) saves stack) else some (.fail stack)
  | some (.assertion a) => if c.assertion a ix then some (.run (pc + 1) ix saves stack) else some (.fail stack)
  | some (.split x y) => some (.run x ix saves (⟨y, ix, saves⟩ :: stack))
  | some (.jmp t) => some (.run t ix saves stack)
  | some (.save slot) => if slot < saves.length then some (.run (pc + 1) ix (saves.set slot ix) stack) else none
  | some (.backref slot) =>
    match saves[slot]?, saves[slot + 1]? with
    | some lo, some hi =>
      if lo == UNSET || hi == UNSET then some (.fail stack)
      else if lo > hi then some (.fail stack)
      else if c.sameAt lo hi ix then some (.run (pc + 1) (ix + (hi - lo)) saves stack) else some (.fail stack)
    | _, _ => none
  | some .contPrev => if ix != c.pos || c.skipped then some (.fail stack) else some (.run (pc + 1) ix saves stack)
  | _ => none

inductive Big (c : Ctx) (prog : List Insn) : ACfg → Ans → Prop where
  | done (pc ix : Nat) (saves : List Nat) (stack : List ABranch) :
      prog[pc]? = some .end_ → 1 < saves.length → Big c prog (.run pc ix saves stack) (.matched (capSaves saves c.pos))
  | step (pc ix : Nat) (saves : List Nat) (stack : List ABranch) (cfg' : ACfg) (a : Ans) :
      astep c prog pc ix saves stack = some cfg' → Big c prog cfg' a → Big c prog (.run pc ix saves stack) a
  | failEmpty : Big c prog (.fail []) .noMatch
  | failPop (b : ABranch) (rest : List ABranch) (a : Ans) :
      Big c prog (.run b.pc b.ix b.saves rest) a → Big c prog (.fail (b :: rest)) a

/-- what the interpreter does after a failing instruction (the tail of `runLoop`'s body) -/
def afterFail (c : Ctx) (prog : List Insn) (o : VMOpts) (fuel : Nat) (s' : State) (st : Stats) : Outcome × Stats :=
  if s'.stack.isEmpty then (.noMatch, st) else
  let st := { st with backtracks := st.backtracks + 1 }
  if st.backtracks > o.backtrackLimit then (.errLimit, st) else
  match s'.pop with
  | none => (.panic "pop", st)
  | some (s'', pc', ix') => runLoop c prog o fuel pc' ix' s'' st

theorem runLoop_succ (c : Ctx) (prog : List Insn) (o : VMOpts) (fuel pc ix : Nat) (s : State) (st : Stats) :
    runLoop c prog o (fuel + 1) pc ix s st =
      match step c prog pc ix s with
      | .done out => (out, { st with steps := st.steps + 1 })
      | .cont pc' ix' s' =>
        runLoop c prog o fuel pc' ix' s'
          { steps := st.steps + 1, backtracks := st.backtracks, maxDepth := max st.maxDepth s'.stack.length }
      | .fail s' => afterFail c prog o fuel s' { st with steps := st.steps + 1 } := by
  simp only [runLoop, afterFail]
  cases step c prog pc ix s <;> rfl

/-- the outcomes the link theorem allows: the abstract answer, or a resource stop -/
def Good (out : Outcome) (a : Ans) : Prop :=
  out = .outOfFuel ∨ out = .errStack ∨ out = .errLimit ∨ out = a.toOutcome

/-- relation between one concrete and one abstract step -/
inductive StepRel : StepResult → ACfg → Prop where
  | cont (pc ix : Nat) (s : State) : Inv s → StepRel (.cont pc ix s) (.run pc ix (abs s).saves (abs s).stack)
  | fail (s : State) : Inv s → StepRel (.fail s) (.fail (abs s).stack)
  | overflow (cfg : ACfg) : StepRel (.done .errStack) cfg

theorem abs_saves (s : State) : (abs s).saves = s.saves := rfl

theorem get_eq (s : State) (slot : Nat) : s.get slot = s.saves[slot]? := rfl

/-- one instruction: the concrete step follows the abstract one -/
theorem step_sim (c : Ctx) (prog : List Insn) (pc ix : Nat) (s : State) (hi : Inv s) (cfg' : ACfg)
    (h : astep c prog pc ix (abs s).saves (abs s).stack = some cfg') :
    StepRel (step c prog pc ix s) cfg' := by
  unfold astep at h
  unfold step
  cases hp : prog[pc]? with
  | none => simp [hp] at h
  | some insn =>
    simp only [hp] at h ⊢
    cases insn with
    | any =>
      simp only at h ⊢
      cases hc : c.at? ix with
      | none => simp only [hc] at h ⊢; cases h; exact .fail s hi
      | some ch => simp only [hc] at h ⊢; cases h; exact .cont _ _ s hi
    | anyNoNL =>
      simp only at h ⊢
      cases hc : c.at? ix with
      | none => simp only [hc] at h ⊢; cases h; exact .fail s hi
      | some ch =>
        simp only [hc] at h ⊢
        by_cases hq : (ch != '\n') = true
        · simp only [hq, ↓reduceIte] at h ⊢; cases h; exact .cont _ _ s hi
        · simp only [hq, Bool.false_eq_true, ↓reduceIte] at h ⊢; cases h; exact .fail s hi
    | lit val =>
      simp only at h ⊢
      by_cases hq : (c.litAt false val ix) = true
      · simp only [hq, ↓reduceIte] at h ⊢; cases h; exact .cont _ _ s hi
      · simp only [hq, Bool.false_eq_true, ↓reduceIte] at h ⊢; cases h; exact .fail s hi
    | assertion a =>
      simp only at h ⊢
      by_cases hq : (c.assertion a ix) = true
      · simp only [hq, ↓reduceIte] at h ⊢; cases h; exact .cont _ _ s hi
      · simp only [hq, Bool.false_eq_true, ↓reduceIte] at h ⊢; cases h; exact .fail s hi
    | split x y =>
      simp only [Option.some.injEq] at h ⊢
      subst h
      simp only [pushOr]
      cases hpush : s.push y ix with
      | overflow => exact .overflow _
      | ok s' =>
        have h1 := abs_push s s' y ix hpush
        have h2 := inv_push s s' y ix hi hpush
        have : (ACfg.run x ix (abs s).saves (⟨y, ix, (abs s).saves⟩ :: (abs s).stack)) =
            ACfg.run x ix (abs s').saves (abs s').stack := by
          rw [h1]; rfl
        rw [this]
        exact .cont _ _ s' h2
    | jmp t => simp only [Option.some.injEq] at h ⊢; subst h; exact .cont _ _ s hi
    | save slot =>
      simp only at h ⊢
      split at h
      · rename_i hlt
        cases h
        obtain ⟨s', h1, h2, h3, _⟩ := save_spec s hi slot ix (by simpa [abs] using hlt)
        simp only [h1]
        have : (ACfg.run (pc + 1) ix ((abs s).saves.set slot ix) (abs s).stack) =
            ACfg.run (pc + 1) ix (abs s').saves (abs s').stack := by
          rw [h2]; rfl
        rw [this]
        exact .cont _ _ s' h3
      · cases h
    | backref slot =>
      simp only [get_eq, abs_saves] at h ⊢
      cases h1 : s.saves[slot]? with
      | none => simp [h1] at h
      | some lo =>
        cases h2 : s.saves[slot + 1]? with
        | none => simp [h1, h2] at h
        | some hi' =>
          simp only [h1, h2] at h ⊢
          split at h
          · cases h; rename_i hu; simp only [hu, ↓reduceIte]; exact .fail s hi
          · rename_i hu
            simp only [hu, Bool.false_eq_true, ↓reduceIte]
            split at h
            · cases h; rename_i hg; simp only [hg, ↓reduceIte]; exact .fail s hi
            · rename_i hg
              simp only [hg, ↓reduceIte]
              by_cases hq : (c.sameAt lo hi' ix) = true
              · simp only [hq, ↓reduceIte] at h ⊢; cases h; exact .cont _ _ s hi
              · simp only [hq, Bool.false_eq_true, ↓reduceIte] at h ⊢; cases h; exact .fail s hi
    | contPrev =>
      simp only at h ⊢
      by_cases hq : (ix != c.pos || c.skipped) = true
      · simp only [hq, ↓reduceIte] at h ⊢; cases h; exact .fail s hi
      · simp only [hq, Bool.false_eq_true, ↓reduceIte] at h ⊢; cases h; exact .cont _ _ s hi
    | end_ | save0 _ | restore _ | repeatGr _ _ _ _ | repeatNg _ _ _ _ | repeatEpsGr _ _ _ _
    | repeatEpsNg _ _ _ _ | failNegLook | goBack _ | beginAtomic | endAtomic | delegate _ _ _
    | backrefExists _ => simp at h

theorem capStart_saves (s : State) (hi : Inv s) (pos : Nat) (hl : 1 < s.saves.length) :
    ∃ s', capStart s pos = some s' ∧ s'.saves = capSaves s.saves pos := by
  have h1 : s.saves[1]? = some s.saves[1] := List.getElem?_eq_getElem hl
  have h0 : s.saves[0]? = some s.saves[0] := List.getElem?_eq_getElem (by omega)
  have hsave : ∀ (t : State) (ht : Inv t) (v : Nat), 1 < t.saves.length →
      ∃ t', t.save 0 v = some t' ∧ Inv t' ∧ t'.saves = t.saves.set 0 v := by
    intro t ht v hlt
    obtain ⟨t', a1, a2, a3, _⟩ := save_spec t ht 0 v (by omega)
    refine ⟨t', a1, a3, ?_⟩
    have := congrArg AState.saves a2
    simpa [abs, AState.save] using this
  generalize s.saves[1] = e1 at h1
  generalize s.saves[0] = e0 at h0
  have hg0 : s.get 0 = some e0 := by simpa [State.get] using h0
  have hself : s.saves.set 0 e0 = s.saves := by
    apply List.ext_getElem?
    intro i
    by_cases hi0 : i = 0
    · subst hi0; rw [List.getElem?_set_self (by omega)]; exact h0.symm
    · rw [List.getElem?_set_ne (by omega)]
  unfold capStart capSaves
  simp only [h1, h0, hg0, Option.bind_some]
  by_cases hgt : e0 > e1
  · obtain ⟨s1, hs1, hi1, hsv1⟩ := hsave s hi e1 hl
    have hl1 : 1 < s1.saves.length := by rw [hsv1]; simpa using hl
    have hg1 : s1.get 0 = some e1 := by
      simp only [State.get, hsv1]; rw [List.getElem?_set_self (by omega)]
    simp only [hgt, ↓reduceIte, hs1, Option.bind_some, hg1]
    by_cases hlt : e1 < pos
    · obtain ⟨s2, hs2, _, hsv2⟩ := hsave s1 hi1 pos hl1
      refine ⟨s2, by simp [hlt, hs2], ?_⟩
      rw [hsv2, hsv1]; simp [hlt, List.set_set]
    · refine ⟨s1, by simp [hlt], ?_⟩
      rw [hsv1]; simp [hlt]
  · simp only [hgt, ↓reduceIte, Option.bind_some, hg0]
    by_cases hlt : e0 < pos
    · obtain ⟨s2, hs2, _, hsv2⟩ := hsave s hi pos hl
      exact ⟨s2, by simp [hlt, hs2], by rw [hsv2]; simp [hlt]⟩
    · exact ⟨s, by simp [hlt], by simp [hlt, hself]⟩

/-- what "the interpreter follows" means for each kind of configuration -/
def Follows (c : Ctx) (prog : List Insn) (o : VMOpts) (a : Ans) : ACfg → Prop
  | .run pc ix saves stack =>
    ∀ (s : State), Inv s → abs s = ⟨saves, stack⟩ → ∀ (fuel : Nat) (st : Stats),
      Good (runLoop c prog o fuel pc ix s st).1 a
  | .fail stack =>
    ∀ (s' : State), Inv s' → (abs s').stack = stack → ∀ (fuel : Nat) (st : Stats),
      Good (afterFail c prog o fuel s' st).1 a

/-- **the interpreter follows the abstract machine** -/
theorem link (c : Ctx) (prog : List Insn) (o : VMOpts) (cfg : ACfg) (a : Ans) (h : Big c prog cfg a) :
    Follows c prog o a cfg := by
  induction h with
  | done pc ix saves stack hend hlen =>
    intro s hi habs fuel st
    cases fuel with
    | zero => left; rfl
    | succ fuel =>
      rw [runLoop_succ]
      have hs : s.saves = saves := by have := congrArg AState.saves habs; simpa [abs] using this
      obtain ⟨s', h1, h2⟩ := capStart_saves s hi c.pos (by rw [hs]; exact hlen)
      simp only [step, hend, h1]
      right; right; right
      simp [Ans.toOutcome, h2, hs]
  | step pc ix saves stack cfg' a hstep hbig ih =>
    intro s hi habs fuel st
    cases fuel with
    | zero => left; rfl
    | succ fuel =>
      rw [runLoop_succ]
      have hstep' : astep c prog pc ix (abs s).saves (abs s).stack = some cfg' := by
        rw [habs]; exact hstep
      have hrel := step_sim c prog pc ix s hi cfg' hstep'
      generalize hst : step c prog pc ix s = sr at hrel
      cases hrel with
      | cont pc' ix' s' hi' => exact ih s' hi' rfl fuel _
      | fail s' hi' => exact ih s' hi' rfl fuel _
      | overflow _ => right; left; rfl
  | failEmpty =>
    intro s' hi habs fuel st
    unfold afterFail
    have : s'.stack = [] := by
      have h1 := abs_stack_length_eq s'
      rw [habs] at h1
      exact List.eq_nil_of_length_eq_zero (by simpa using h1.symm)
    simp [this, Good, Ans.toOutcome]
  | failPop b rest a hbig ih =>
    intro s' hi habs fuel st
    unfold afterFail
    have hne : s'.stack ≠ [] := by
      intro hnil
      have h1 := abs_stack_length_eq s'
      rw [habs, hnil] at h1
      simp at h1
    obtain ⟨b0, rest0, hst⟩ : ∃ b0 rest0, s'.stack = b0 :: rest0 := by
      cases hs : s'.stack with
      | nil => exact absurd hs hne
      | cons b0 r0 => exact ⟨b0, r0, rfl⟩
    obtain ⟨s'', h1, h2, h3, _⟩ := pop_spec s' hi b0 rest0 hst
    simp only [hst, List.isEmpty_cons, Bool.false_eq_true, ↓reduceIte]
    split
    · right; right; left; rfl
    · simp only [h1]
      have hpop : (abs s').pop = some (abs s'', b0.pc, b0.ix) := h2
      have hab : abs s' = ⟨(abs s').saves, b :: rest⟩ := by
        cases ha : abs s' with
        | mk sv stk => simp only [ha] at habs; subst habs; rfl
      rw [hab] at hpop
      simp only [AState.pop, Option.some.injEq, Prod.mk.injEq] at hpop
      obtain ⟨e1, e2, e3⟩ := hpop
      rw [← e2, ← e3]
      exact ih s'' h3 e1.symm fuel _

/-- the form used by the property theorems: from the initial state of a run -/
theorem link_initial (c : Ctx) (p : Prog) (o : VMOpts) (a : Ans)
    (h : Big c p.body (.run 0 c.pos (List.replicate p.nSaves UNSET) []) a) (fuel : Nat) :
    Good (run c p o fuel).1 a := by
  have hinv : Inv (State.new p.nSaves o.maxStack) :=
    ⟨by simp [State.new, sumNsave], by simp [State.new]⟩
  have habs : abs (State.new p.nSaves o.maxStack) = ⟨List.replicate p.nSaves UNSET, []⟩ := by
    simp [abs, State.new, absStack]
  exact link c p.body o _ a h _ hinv habs fuel {}

end Fancy
