import FancyModel.Lemmas.SimCompile4
import FancyModel.Spec.Stage4
import FancyModel.Proofs.C13b
import FancyModel.Proofs.C02
import FancyModel.Proofs.C03
/-!
# Stage S4, semantic half: atomizing a delegated run of the top-level concatenation does not change the
first result, when the run's own groups are referenced nowhere else

No machines here, only the reference semantics `sem` (Spec/Sem.lean).

* `Agr U a b`: the states `a`, `b` are at the same position and agree on every slot outside `U`.
* `untouched U e`: `e` neither reads (`\g`, `(?(g)…)`) nor writes (a group, `\K`) a slot of `U`.
* `sem_agr` (with its companions): **obliviousness for arbitrary expressions** — from `Agr U`-related
  states an untouched expression has `Agr U`-related result lists (same length, pointwise related), for
  every construct of the semantics: look-arounds, atomic groups, back-references, conditionals, loops.
* `head_flatMap_first`: if all results of `P` are pairwise `Agr U`-related and the continuation `k` is
  oblivious, `((P st).flatMap k).head? = ((firstOnly (P st)).flatMap k).head?`.
* `concatA_head`: the top-level concatenation and its atomized form (`concatA`, Lemmas/SimCompile4.lean)
  have the same first result; `refSearch_concatA`: hence the same reference search.
-/
namespace Fancy

/-! ## related states, related lists -/

def Agr (U : List Nat) (a b : St) : Prop :=
  a.ix = b.ix ∧ a.slots.length = b.slots.length ∧ ∀ i, i ∉ U → a.slots[i]? = b.slots[i]?

theorem Agr.refl (U : List Nat) (a : St) : Agr U a a := ⟨rfl, rfl, fun _ _ => rfl⟩

theorem Agr.symm {U : List Nat} {a b : St} (h : Agr U a b) : Agr U b a :=
  ⟨h.1.symm, h.2.1.symm, fun i hi => (h.2.2 i hi).symm⟩

theorem Agr.trans {U : List Nat} {a b d : St} (h1 : Agr U a b) (h2 : Agr U b d) : Agr U a d :=
  ⟨h1.1.trans h2.1, h1.2.1.trans h2.2.1, fun i hi => (h1.2.2 i hi).trans (h2.2.2 i hi)⟩

theorem Agr.withIx {U : List Nat} {a b : St} (h : Agr U a b) (k : Nat) :
    Agr U { a with ix := k } { b with ix := k } := ⟨rfl, h.2.1, h.2.2⟩

theorem Agr.setSlot {U : List Nat} {a b : St} (h : Agr U a b) (i : Nat) (v : Option Nat) :
    Agr U (a.setSlot i v) (b.setSlot i v) := by
  refine ⟨h.1, by simp [St.setSlot, h.2.1], ?_⟩
  intro j hj
  simp only [St.setSlot, List.getElem?_set, h.2.1]
  split
  · rfl
  · exact h.2.2 j hj

theorem Agr.slot {U : List Nat} {a b : St} (h : Agr U a b) (i : Nat) (hi : i ∉ U) : a.slot i = b.slot i := by
  simp only [St.slot, h.2.2 i hi]

/-- pointwise related lists of the same length -/
inductive LR (R : St → St → Prop) : List St → List St → Prop where
  | nil : LR R [] []
  | cons {a b : St} {l1 l2 : List St} : R a b → LR R l1 l2 → LR R (a :: l1) (b :: l2)

theorem LR.single {R : St → St → Prop} {a b : St} (h : R a b) : LR R [a] [b] := .cons h .nil

theorem LR.append {R : St → St → Prop} {l1 l2 m1 m2 : List St} (h1 : LR R l1 l2) (h2 : LR R m1 m2) :
    LR R (l1 ++ m1) (l2 ++ m2) := by
  induction h1 with
  | nil => exact h2
  | cons h _ ih => exact .cons h ih

theorem LR.flatMap {R : St → St → Prop} {l1 l2 : List St} {f g : St → List St} (h : LR R l1 l2)
    (hfg : ∀ a b, R a b → LR R (f a) (g b)) : LR R (l1.flatMap f) (l2.flatMap g) := by
  induction h with
  | nil => exact .nil
  | cons h _ ih => simp only [List.flatMap_cons]; exact (hfg _ _ h).append ih

theorem LR.flatMap_same {α : Type} {R : St → St → Prop} (l : List α) {f g : α → List St}
    (hfg : ∀ x, x ∈ l → LR R (f x) (g x)) : LR R (l.flatMap f) (l.flatMap g) := by
  induction l with
  | nil => exact .nil
  | cons x xs ih =>
    simp only [List.flatMap_cons]
    exact (hfg x (by simp)).append (ih fun y hy => hfg y (by simp [hy]))

theorem LR.map {R : St → St → Prop} {l1 l2 : List St} {f g : St → St} (h : LR R l1 l2)
    (hfg : ∀ a b, R a b → R (f a) (g b)) : LR R (l1.map f) (l2.map g) := by
  induction h with
  | nil => exact .nil
  | cons h _ ih => exact .cons (hfg _ _ h) ih

theorem LR.filter {R : St → St → Prop} {l1 l2 : List St} {p q : St → Bool} (h : LR R l1 l2)
    (hpq : ∀ a b, R a b → p a = q b) : LR R (l1.filter p) (l2.filter q) := by
  induction h with
  | nil => exact .nil
  | @cons a b m1 m2 h _ ih =>
    simp only [List.filter_cons, hpq a b h]
    split
    · exact .cons h ih
    · exact ih

theorem LR.firstOnly {R : St → St → Prop} {l1 l2 : List St} (h : LR R l1 l2) :
    LR R (Fancy.firstOnly l1) (Fancy.firstOnly l2) := by
  cases h with
  | nil => exact .nil
  | cons h _ => exact .single h

theorem LR.isEmpty {R : St → St → Prop} {l1 l2 : List St} (h : LR R l1 l2) : l1.isEmpty = l2.isEmpty := by
  cases h <;> rfl

theorem LR.head {R : St → St → Prop} {l1 l2 : List St} (h : LR R l1 l2) :
    (l1.head? = none ∧ l2.head? = none) ∨ ∃ a b, l1.head? = some a ∧ l2.head? = some b ∧ R a b := by
  cases h with
  | nil => exact Or.inl ⟨rfl, rfl⟩
  | cons h _ => exact Or.inr ⟨_, _, rfl, rfl, h⟩

/-! ## expressions that do not touch a set of slots -/

mutual
theorem ownSlotsS_eq : ∀ (e : Expr), ownSlotsS e = ownSlots e
  | .group g e => by simp only [ownSlotsS, ownSlots, ownSlotsS_eq e]
  | .concat es => by simp only [ownSlotsS, ownSlots, ownSlotsListS_eq es]
  | .alt es => by simp only [ownSlotsS, ownSlots, ownSlotsListS_eq es]
  | .look e _ => by simp only [ownSlotsS, ownSlots, ownSlotsS_eq e]
  | .repeat e _ _ _ => by simp only [ownSlotsS, ownSlots, ownSlotsS_eq e]
  | .atomic e => by simp only [ownSlotsS, ownSlots, ownSlotsS_eq e]
  | .cond c y n => by simp only [ownSlotsS, ownSlots, ownSlotsS_eq c, ownSlotsS_eq y, ownSlotsS_eq n]
  | .keepOut => rfl
  | .empty => rfl
  | .any _ => rfl
  | .assertion _ => rfl
  | .literal _ _ => rfl
  | .delegate _ _ _ => rfl
  | .backref _ => rfl
  | .contPrev => rfl
  | .backrefExists _ => rfl
  | .subroutine _ => rfl
theorem ownSlotsListS_eq : ∀ (es : List Expr), ownSlotsListS es = ownSlotsList es
  | [] => rfl
  | e :: es => by simp only [ownSlotsListS, ownSlotsList, ownSlotsS_eq e, ownSlotsListS_eq es]
end

theorem not_contains {U : List Nat} {i : Nat} (h : (!U.contains i) = true) : i ∉ U := by
  simpa using h

theorem repLoop_agr {U : List Nat} (body : St → List St)
    (hb : ∀ a b, Agr U a b → LR (Agr U) (body a) (body b))
    (lo : Nat) (hi : Option Nat) (greedy : Bool) :
    ∀ (fuel count : Nat) (a b : St), Agr U a b →
      LR (Agr U) (repLoop body lo hi greedy fuel count a) (repLoop body lo hi greedy fuel count b)
  | 0, _, _, _, _ => by simp only [repLoop]; exact .nil
  | fuel + 1, count, a, b, hab => by
    unfold repLoop
    split
    · exact .single hab
    · have hiters : LR (Agr U)
          ((body a).flatMap fun r =>
            if hi.isNone && decide (lo ≤ count) && r.ix == a.ix then [r]
            else repLoop body lo hi greedy fuel (count + 1) r)
          ((body b).flatMap fun r =>
            if hi.isNone && decide (lo ≤ count) && r.ix == b.ix then [r]
            else repLoop body lo hi greedy fuel (count + 1) r) := by
        refine (hb a b hab).flatMap (fun r q hrq => ?_)
        rw [hrq.1, hab.1]
        split
        · exact .single hrq
        · exact repLoop_agr body hb lo hi greedy fuel (count + 1) r q hrq
      simp only
      split
      · exact hiters
      · split
        · exact hiters.append (.single hab)
        · exact .cons hab hiters

theorem behindOne_agr {U : List Nat} (body : St → List St)
    (hb : ∀ a b, Agr U a b → LR (Agr U) (body a) (body b)) (a b : St) (hab : Agr U a b) :
    LR (Agr U) (behindOne body a) (behindOne body b) := by
  unfold behindOne
  rw [hab.1]
  refine LR.flatMap_same _ (fun k _ => ?_)
  refine (hb _ _ (hab.withIx _)).filter (fun r q hrq => ?_)
  rw [hrq.1]

theorem semBehindAlts_agr_of (c : Ctx) (U : List Nat) (es : List Expr)
    (hsem : ∀ e', e' ∈ es → ∀ a b, Agr U a b → LR (Agr U) (sem c e' a) (sem c e' b)) :
    ∀ a b, Agr U a b → LR (Agr U) (semBehindAlts c es a) (semBehindAlts c es b) := by
  induction es with
  | nil => intro a b _; simp only [semBehindAlts]; exact .nil
  | cons e es ih =>
    intro a b hab
    simp only [semBehindAlts]
    exact (behindOne_agr _ (hsem e (by simp)) a b hab).append
      (ih (fun e' he' => hsem e' (by simp [he'])) a b hab)

theorem untouchedAll_mem {U : List Nat} : ∀ (es : List Expr), untouchedAll U es = true → ∀ e ∈ es, untouched U e = true
  | [], _, e, he => by cases he
  | x :: xs, h, e, he => by
    simp only [untouchedAll, Bool.and_eq_true] at h
    rcases List.mem_cons.mp he with rfl | he
    · exact h.1
    · exact untouchedAll_mem xs h.2 e he

theorem semBehind_agr_of (c : Ctx) (U : List Nat) (e : Expr) (hu : untouched U e = true)
    (hsem : ∀ e', sizeOf e' ≤ sizeOf e → untouched U e' = true →
      ∀ a b, Agr U a b → LR (Agr U) (sem c e' a) (sem c e' b)) :
    ∀ a b, Agr U a b → LR (Agr U) (semBehind c e a) (semBehind c e b) := by
  intro a b hab
  cases e with
  | alt es =>
    simp only [untouched] at hu
    simp only [semBehind]
    exact semBehindAlts_agr_of c U es (fun e' he' => hsem e' (by
      have := List.sizeOf_lt_of_mem he'
      simp only [Expr.alt.sizeOf_spec]; omega) (untouchedAll_mem es hu e' he')) a b hab
  | _ =>
    simp only [semBehind]
    exact behindOne_agr _ (hsem _ (Nat.le_refl _) hu) a b hab

mutual
/-- **obliviousness**: an expression that does not touch `U` maps `Agr U`-related states to
    `Agr U`-related result lists -/
theorem sem_agr (c : Ctx) (U : List Nat) :
    ∀ (e : Expr) (a b : St), untouched U e = true → Agr U a b → LR (Agr U) (sem c e a) (sem c e b)
  | .empty, a, b, _, hab => by simp only [sem]; exact .single hab
  | .any nl, a, b, _, hab => by
    simp only [sem, hab.1]
    split
    · split
      · exact .single (hab.withIx _)
      · exact .nil
    · exact .nil
  | .assertion as, a, b, _, hab => by
    simp only [sem, hab.1]
    split
    · exact .single hab
    · exact .nil
  | .literal val casei, a, b, _, hab => by
    simp only [sem, hab.1]
    split
    · exact .single (hab.withIx _)
    · exact .nil
  | .concat es, a, b, hu, hab => by
    simp only [untouched] at hu; simp only [sem]; exact semConcat_agr c U es a b hu hab
  | .alt es, a, b, hu, hab => by
    simp only [untouched] at hu; simp only [sem]; exact semAlt_agr c U es a b hu hab
  | .group g e, a, b, hu, hab => by
    simp only [untouched, Bool.and_eq_true] at hu
    simp only [sem, hab.1]
    exact (sem_agr c U e _ _ hu.2 (hab.setSlot _ _)).map (fun r q hrq => by
      rw [hrq.1]; exact hrq.setSlot _ _)
  | .look e .ahead, a, b, hu, hab => by
    simp only [untouched] at hu
    simp only [sem, hab.1]
    exact (sem_agr c U e a b hu hab).firstOnly.map (fun r q hrq => hrq.withIx _)
  | .look e .aheadNeg, a, b, hu, hab => by
    simp only [untouched] at hu
    simp only [sem, (sem_agr c U e a b hu hab).isEmpty]
    split
    · exact .single hab
    · exact .nil
  | .look e .behind, a, b, hu, hab => by
    simp only [untouched] at hu
    simp only [sem, hab.1]
    exact (semBehind_agr_of c U e hu (fun e' _ hu' x y hxy => sem_agr c U e' x y hu' hxy) a b hab).firstOnly.map
      (fun r q hrq => hrq.withIx _)
  | .look e .behindNeg, a, b, hu, hab => by
    simp only [untouched] at hu
    simp only [sem, (semBehind_agr_of c U e hu (fun e' _ hu' x y hxy => sem_agr c U e' x y hu' hxy) a b hab).isEmpty]
    split
    · exact .single hab
    · exact .nil
  | .repeat e lo hi greedy, a, b, hu, hab => by
    simp only [untouched] at hu
    simp only [sem]
    exact repLoop_agr (sem c e) (fun x y hxy => sem_agr c U e x y hu hxy) lo hi greedy _ 0 a b hab
  | .delegate inner size casei, a, b, _, hab => by
    simp only [sem, delegateSem, hab.1]
    split
    · split
      · split
        · exact .single (hab.withIx _)
        · exact .nil
      · exact .nil
    · split
      · split
        · exact .single (hab.withIx _)
        · exact .nil
      · exact .nil
  | .backref g, a, b, hu, hab => by
    simp only [untouched, Bool.and_eq_true] at hu
    simp only [sem, hab.slot _ (not_contains hu.1), hab.slot _ (not_contains hu.2), hab.1]
    split
    · split
      · exact .single (hab.withIx _)
      · exact .nil
    · exact .nil
  | .atomic e, a, b, hu, hab => by
    simp only [untouched] at hu
    simp only [sem]
    exact (sem_agr c U e a b hu hab).firstOnly
  | .keepOut, a, b, _, hab => by
    simp only [sem, hab.1]; exact .single (hab.setSlot _ _)
  | .contPrev, a, b, _, hab => by
    simp only [sem, hab.1]
    split
    · exact .single hab
    · exact .nil
  | .backrefExists g, a, b, hu, hab => by
    simp only [untouched] at hu
    simp only [sem, hab.slot _ (not_contains hu)]
    split
    · exact .single hab
    · exact .nil
  | .cond cnd y n, a, b, hu, hab => by
    simp only [untouched, Bool.and_eq_true] at hu
    simp only [sem]
    rcases (sem_agr c U cnd a b hu.1.1 hab).head with ⟨h1, h2⟩ | ⟨r, q, h1, h2, hrq⟩
    · rw [h1, h2]; exact sem_agr c U n a b hu.2 hab
    · rw [h1, h2]; exact sem_agr c U y r q hu.1.2 hrq
  | .subroutine _, _, _, _, _ => by simp only [sem]; exact .nil
termination_by e => sizeOf e
decreasing_by all_goals (simp_wf; try omega)
theorem semConcat_agr (c : Ctx) (U : List Nat) :
    ∀ (es : List Expr) (a b : St), untouchedAll U es = true → Agr U a b →
      LR (Agr U) (semConcat c es a) (semConcat c es b)
  | [], a, b, _, hab => by simp only [semConcat]; exact .single hab
  | e :: es, a, b, hu, hab => by
    simp only [untouchedAll, Bool.and_eq_true] at hu
    simp only [semConcat]
    exact (sem_agr c U e a b hu.1 hab).flatMap (fun r q hrq => semConcat_agr c U es r q hu.2 hrq)
termination_by es => sizeOf es
decreasing_by all_goals (simp_wf; try omega)
theorem semAlt_agr (c : Ctx) (U : List Nat) :
    ∀ (es : List Expr) (a b : St), untouchedAll U es = true → Agr U a b →
      LR (Agr U) (semAlt c es a) (semAlt c es b)
  | [], _, _, _, _ => by simp only [semAlt]; exact .nil
  | e :: es, a, b, hu, hab => by
    simp only [untouchedAll, Bool.and_eq_true] at hu
    simp only [semAlt]
    exact (sem_agr c U e a b hu.1 hab).append (semAlt_agr c U es a b hu.2 hab)
termination_by es => sizeOf es
decreasing_by all_goals (simp_wf; try omega)
end

/-! ## first results -/

theorem head_flatMap_firstOnly (L : List St) (f : St → List St) :
    (L.flatMap fun r => firstOnly (f r)).head? = (L.flatMap f).head? := by
  induction L with
  | nil => rfl
  | cons x xs ih =>
    simp only [List.flatMap_cons]
    cases hf : f x with
    | nil => simpa [firstOnly] using ih
    | cons y ys => simp [firstOnly]

theorem head_flatMap_first (L : List St) (k : St → List St)
    (h : ∀ r ∈ L, ∀ q ∈ L, (k r).isEmpty = (k q).isEmpty) :
    ((firstOnly L).flatMap k).head? = (L.flatMap k).head? := by
  cases L with
  | nil => rfl
  | cons x xs =>
    simp only [firstOnly, List.head?_cons, Option.toList_some, List.flatMap_cons, List.flatMap_nil, List.append_nil]
    cases hk : k x with
    | nil =>
      have hall : ∀ r ∈ xs, k r = [] := by
        intro r hr
        have := h r (by simp [hr]) x (by simp)
        rw [hk] at this
        simpa using this
      have : xs.flatMap k = [] := by
        rw [List.flatMap_eq_nil_iff]; exact hall
      simp [this]
    | cons y ys => simp

theorem isEmpty_of_head_eq {l1 l2 : List St} (h : l1.head? = l2.head?) : l1.isEmpty = l2.isEmpty := by
  cases l1 <;> cases l2 <;> simp_all

theorem untouchedAll_nil : ∀ (es : List Expr), untouchedAll [] es = true := by
  intro es
  have key : ∀ (e : Expr), untouched [] e = true := by
    intro e
    induction e using Expr.rec (motive_2 := fun es => untouchedAll [] es = true) with
    | concat es ih => simpa [untouched] using ih
    | alt es ih => simpa [untouched] using ih
    | group g e ih => simp [untouched, ih]
    | look e la ih => simpa [untouched] using ih
    | «repeat» e lo hi g ih => simpa [untouched] using ih
    | atomic e ih => simpa [untouched] using ih
    | cond c y n i1 i2 i3 => simp [untouched, i1, i2, i3]
    | nil => rfl
    | cons e es i1 i2 => simp [untouchedAll, i1, i2]
    | _ => simp [untouched]
  induction es with
  | nil => rfl
  | cons e es ih => simp [untouchedAll, key e, ih]

theorem semConcat_runA (c : Ctx) (es : List Expr) (st : St) :
    semConcat c (runA es) st = semConcat c es st ∨ semConcat c (runA es) st = firstOnly (semConcat c es st) := by
  unfold runA
  split
  · exact Or.inl rfl
  · exact Or.inr (semConcat_atomic_run c es st)

/-- **the atomized top-level concatenation has the same first result** -/
theorem concatA_head (c : Ctx) (n : Nat) (br : Nat → Bool) (es : List Expr) (hlen : c.len < UNSET)
    (hw : wellShapedAll es = true) (hz : noBareEndZAll es = true) (hu : unrefOK br es = true)
    (st : St) (hg : st.Good c n) :
    (sem c (concatA br es) st).head? = (sem c (.concat es) st).head? := by
  generalize hsp : concatSplit br es true = sp at hu
  have hle := concatSplit_le br es true
  rw [hsp] at hle
  have hsplit : es = es.take sp.1 ++ ((es.drop sp.1).take (sp.2 - sp.1) ++ es.drop sp.2) := by
    have h1 : es.drop sp.1 = (es.drop sp.1).take (sp.2 - sp.1) ++ (es.drop sp.1).drop (sp.2 - sp.1) :=
      (List.take_append_drop _ _).symm
    have h2 : (es.drop sp.1).drop (sp.2 - sp.1) = es.drop sp.2 := by
      rw [List.drop_drop]; congr 1; omega
    rw [← h2, ← h1, List.take_append_drop]
  have hrest : es.drop sp.1 = (es.drop sp.1).take (sp.2 - sp.1) ++ es.drop sp.2 := by
    have h1 : es.drop sp.1 = (es.drop sp.1).take (sp.2 - sp.1) ++ (es.drop sp.1).drop (sp.2 - sp.1) :=
      (List.take_append_drop _ _).symm
    have h2 : (es.drop sp.1).drop (sp.2 - sp.1) = es.drop sp.2 := by
      rw [List.drop_drop]; congr 1; omega
    rw [← h2, ← h1]
  -- the continuation of the prefix run, with and without the atomized suffix
  have hk : ∀ (L : List St),
      (L.flatMap fun r => (semConcat c ((es.drop sp.1).take (sp.2 - sp.1)) r).flatMap
        (semConcat c (runA (es.drop sp.2)))).head? =
      (L.flatMap (semConcat c (es.drop sp.1))).head? := by
    intro L
    have hr : ∀ r, semConcat c (es.drop sp.1) r =
        (semConcat c ((es.drop sp.1).take (sp.2 - sp.1)) r).flatMap (semConcat c (es.drop sp.2)) := by
      intro r; conv => lhs; rw [hrest]
      exact semConcat_append c _ _ r
    have hr' : semConcat c (es.drop sp.1) = fun r =>
        (semConcat c ((es.drop sp.1).take (sp.2 - sp.1)) r).flatMap (semConcat c (es.drop sp.2)) := funext hr
    rw [hr', ← List.flatMap_assoc, ← List.flatMap_assoc]
    have hsuf : semConcat c (runA (es.drop sp.2)) = semConcat c (es.drop sp.2) ∨
        semConcat c (runA (es.drop sp.2)) = fun r => firstOnly (semConcat c (es.drop sp.2) r) := by
      unfold runA
      split
      · exact Or.inl rfl
      · exact Or.inr (funext fun r => semConcat_atomic_run c _ r)
    rcases hsuf with h | h
    · rw [h]
    · rw [h]; exact head_flatMap_firstOnly _ _
  have hlhs : sem c (concatA br es) st =
      (semConcat c (runA (es.take sp.1)) st).flatMap fun r =>
        (semConcat c ((es.drop sp.1).take (sp.2 - sp.1)) r).flatMap (semConcat c (runA (es.drop sp.2))) := by
    simp only [concatA, sem, hsp]
    rw [semConcat_append]
    congr 1; funext r; rw [semConcat_append]
  have hrhs : sem c (.concat es) st = (semConcat c (es.take sp.1) st).flatMap (semConcat c (es.drop sp.1)) := by
    simp only [sem]
    conv => lhs; rw [← List.take_append_drop sp.1 es]
    exact semConcat_append c _ _ st
  rw [hlhs, hrhs]
  by_cases hc : (groupCountList (es.take sp.1) == 0 || linearAll (es.take sp.1)) = true
  · have : runA (es.take sp.1) = es.take sp.1 := by simp only [runA, hc, if_true]
    rw [this]; exact hk _
  · have hrun : runA (es.take sp.1) = [.atomic (.concat (es.take sp.1))] := by simp only [runA, hc]; rfl
    rw [hrun, semConcat_atomic_run, hk]
    -- the run is atomized: its own groups are touched nowhere in the rest
    have hun : untouchedAll (ownSlotsList (es.take sp.1)) (es.drop sp.1) = true := by
      simp only [unrefOK, hsp, Bool.or_eq_true, ownSlotsListS_eq] at hu
      rcases hu with hu | hu
      · exact absurd (by simpa using hu) hc
      · exact hu
    apply head_flatMap_first
    intro r hr q hq
    have hgr := semConcat_good c n _ st r hg hr
    have hgq := semConcat_good c n _ st q hg hq
    have hwp : wellShapedAll (es.take sp.1) = true := wellShapedAll_take es sp.1 hw
    have hcp : constSizeAll (es.take sp.1) = true := by rw [← hsp]; exact concatSplit_prefix_constSizeAll br es true
    have hzp : noBareEndZAll (es.take sp.1) = true := noBareEndZAll_take es sp.1 hz
    have hixr := const_exact_concat c (es.take sp.1) hwp hcp hzp st r hr (by have := hgr.ix; omega)
    have hixq := const_exact_concat c (es.take sp.1) hwp hcp hzp st q hq (by have := hgq.ix; omega)
    have hfr := semConcat_frame c (es.take sp.1) st r hr
    have hfq := semConcat_frame c (es.take sp.1) st q hq
    have hag : Agr (ownSlotsList (es.take sp.1)) r q :=
      ⟨by omega, hfr.1.trans hfq.1.symm, fun i hi => (hfr.2 i hi).trans (hfq.2 i hi).symm⟩
    exact (semConcat_agr c _ (es.drop sp.1) r q hun hag).isEmpty

end Fancy
