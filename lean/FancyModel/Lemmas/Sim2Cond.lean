import FancyModel.Lemmas.Sim2
/-!
# Conditionals against the full machine (engine refinement, stage S2)

Code layout of `.cond cnd y n` (Model/Compile.lean):
```
pc         : BeginAtomic
pc + 1     : Split(pc + 2, falsePc)
pc + 2     : <cond>            [pc+2, e1)
e1         : EndAtomic
e1 + 1     : <yes>             [e1+1, e2)
e2         : Jmp(endPc)
falsePc = e2 + 1 : <no>        [falsePc, endPc)
```
`BeginAtomic` pushes `|X|` on the auxiliary stack; `Split` pushes the marker
`⟨falsePc, ix, slots, |X| :: astk⟩`; the condition runs above it. On its FIRST result `r` (the
condition is balanced, so the top of the auxiliary stack is the `|X|` pushed here) `EndAtomic` pops it
and cuts the branch stack back to `X` — dropping the condition's branches and the marker —, `<yes>`
runs from `r` above `X` and jumps to `endPc`. If the condition has no result the machine fails back
into the marker and resumes at `falsePc` in the original state with auxiliary stack `|X| :: astk`:
the entry is never popped (finding F8), so the `no` path hands back `junk_n ++ [|X|] ++ astk` and the
conditional is not balanced whatever `<yes>` and `<no>` are.

The condition's `Sim2` is used with the continuation "`EndAtomic`, then `<yes>`, then the outer
continuation, with `failA`": constant in what failing back yields, hence `Commit`; with a committing
continuation `Sim2` demands the continuation derivation for the head result only (`Sim2Cond.pass_commit_nil`),
which is exactly what the outer continuation provides (`sm st = sy r₀`).
-/
namespace Fancy

/-- a constant is not the identity on answers -/
theorem Sim2Cond.not_pass_const (A : Ans) : ¬ ∀ acc : Ans, A = acc := by
  intro h
  have h1 := h .noMatch
  have h2 := h (.matched [])
  rw [h1] at h2
  exact Ans.noConfusion h2

/-- a committing continuation passes nothing through: only the empty list of results does -/
theorem Sim2Cond.pass_commit_nil {succ : St → Ans → Ans} (hc : Commit succ) {l : List St}
    (h : ∀ acc, l.foldr succ acc = acc) : l = [] := by
  cases l with
  | nil => rfl
  | cons q qs =>
    exfalso
    apply Sim2Cond.not_pass_const (succ q .noMatch)
    intro acc
    have := h acc
    simp only [List.foldr_cons] at this
    rw [← this]
    exact hc q _ _

/-- `EndAtomic` with the count pushed by the matching `BeginAtomic` on top: cut back to `X` -/
theorem Sim2Cond.sstep_endAtomic_cut {c : Ctx} {prog : List Insn} {nS e1 : Nat} (hend : prog[e1]? = some .endAtomic)
    (ix : Nat) (slots astk : List Nat) (S : List SBranch) (M : SBranch) (X : List SBranch) :
    sstep c prog nS e1 ix slots (X.length :: astk) (S ++ M :: X) = some (.run (e1 + 1) ix slots astk X) := by
  have hlen : X.length ≤ (S ++ M :: X).length := by simp; omega
  have hdrop : (S ++ M :: X).drop ((S ++ M :: X).length - X.length) = X := by
    have : (S ++ M :: X).length - X.length = (S ++ [M]).length := by simp; omega
    rw [this]
    have : S ++ M :: X = (S ++ [M]) ++ X := by simp
    rw [this, List.drop_left]
  simp only [sstep, hend, hlen, ↓reduceIte, hdrop]

/-- The conditional. The condition must be balanced and is only needed for committing continuations;
    `<yes>` owns `[l1, l2)`, `<no>` owns `[l2, l3)`. The result is not balanced (F8). -/
theorem sim2_cond {c : Ctx} {n nS : Nat} {prog : List Insn} {sc sy sn : St → List St}
    {pc e1 e2 endPc l0 l1 l2 l3 : Nat} {balY balN cm : Bool}
    (hbegin : prog[pc]? = some .beginAtomic) (hsplit : prog[pc + 1]? = some (.split (pc + 2) (e2 + 1)))
    (hend : prog[e1]? = some .endAtomic) (hjmp : prog[e2]? = some (.jmp endPc))
    (hc : Sim2 c n nS prog l0 l1 true true sc (pc + 2) e1)
    (hy : Sim2 c n nS prog l1 l2 balY cm sy (e1 + 1) e2)
    (hn : Sim2 c n nS prog l2 l3 balN cm sn (e2 + 1) endPc)
    (hkc : KeepsGood c n sc)
    (ha1 : pc + 2 ≤ e1) (ha2 : e1 + 1 ≤ e2) (ha3 : e2 + 1 ≤ endPc)
    (hl01 : l0 ≤ l1) (hl12 : l1 ≤ l2) (hl23 : l2 ≤ l3) :
    Sim2 c n nS prog l0 l3 false cm
      (fun st => match (sc st).head? with | some r => sy r | none => sn st) pc endPc := by
  intro st aux astk X succ failA hg hl hsucc hf hs
  -- BeginAtomic, Split
  have hstep1 : sstep c prog nS pc st.ix (unview st.slots ++ aux) astk X =
      some (.run (pc + 1) st.ix (unview st.slots ++ aux) (X.length :: astk) X) := by
    simp [sstep, hbegin]
  have hstep2 : sstep c prog nS (pc + 1) st.ix (unview st.slots ++ aux) (X.length :: astk) X =
      some (.run (pc + 2) st.ix (unview st.slots ++ aux) (X.length :: astk)
        (⟨e2 + 1, st.ix, unview st.slots ++ aux, X.length :: astk⟩ :: X)) := by
    simp [sstep, hsplit]
  apply Big2.step _ _ _ _ _ _ _ hstep1
  apply Big2.step _ _ _ _ _ _ _ hstep2
  cases hsc : sc st with
  | nil =>
    -- no result: fail back into the marker, run `<no>` with the entry left on the auxiliary stack
    simp only [hsc, List.head?_nil] at hf hs ⊢
    have hcond := hc st aux (X.length :: astk) (⟨e2 + 1, st.ix, unview st.slots ++ aux, X.length :: astk⟩ :: X)
      (fun _ _ => Ans.noMatch) ((sn st).foldr succ failA) hg hl (by simpa [SuccOK] using Commit.const _)
      (fun _ => by
        apply Big2.failPop
        apply hn st aux (X.length :: astk) X succ failA hg hl hsucc hf
        intro m1 r m2 hsp hpass aux' junk S acc hag hb hS hacc
        have := hs m1 r m2 hsp hpass aux' (junk ++ [X.length]) S acc (hag.mono (by omega) (Nat.le_refl _))
          (fun h => by simp at h) (fun br hbr => by have := hS br hbr; omega) hacc
        simpa [List.append_assoc] using this)
      (fun m1 r m2 hsp => by rw [hsc] at hsp; simp at hsp)
    rw [hsc] at hcond
    simpa using hcond
  | cons r0 rest =>
    -- first result `r0`: EndAtomic cuts back to `X`, then `<yes>`, then the jump
    simp only [hsc, List.head?_cons] at hf hs ⊢
    have hr0 : r0 ∈ sc st := by rw [hsc]; simp
    have hcommit : Commit (fun (r : St) (_ : Ans) => (sy r).foldr succ failA) := Commit.const _
    have hcond := hc st aux (X.length :: astk) (⟨e2 + 1, st.ix, unview st.slots ++ aux, X.length :: astk⟩ :: X)
      (fun r _ => (sy r).foldr succ failA) Ans.noMatch hg hl (by simpa [SuccOK] using hcommit)
      (fun hp => by
        have := Sim2Cond.pass_commit_nil hcommit hp
        rw [hsc] at this
        simp at this)
      (fun m1 r m2 hsp hpass aux1 junk1 S1 acc1 hag1 hb1 hS1 _ => by
        have hm1 : m1 = [] := Sim2Cond.pass_commit_nil hcommit hpass
        subst hm1
        rw [hsc] at hsp
        simp only [List.nil_append, List.cons.injEq] at hsp
        obtain ⟨hr, _⟩ := hsp
        subst hr
        have hj : junk1 = [] := hb1 rfl
        subst hj
        have hl1' : n + aux1.length = nS := by rw [hag1.1]; exact hl
        simp only [List.nil_append]
        apply Big2.step _ _ _ _ _ _ _ (Sim2Cond.sstep_endAtomic_cut hend _ _ _ _ _ _)
        apply hy r0 aux1 astk X succ failA (hkc st r0 hg hr0) hl1' hsucc hf
        intro k1 r2 k2 hsp2 hpass2 aux2 junk2 S2 acc2 hag2 hb2 hS2 hacc2
        have hj : sstep c prog nS e2 r2.ix (unview r2.slots ++ aux2) (junk2 ++ astk) (S2 ++ X) =
            some (.run endPc r2.ix (unview r2.slots ++ aux2) (junk2 ++ astk) (S2 ++ X)) := by
          simp [sstep, hjmp]
        apply Big2.step _ _ _ _ _ _ _ hj
        exact hs k1 r2 k2 hsp2 hpass2 aux2 junk2 S2 acc2
          ((hag1.trans hag2 hl01 hl12).mono (Nat.le_refl _) hl23)
          (fun h => by simp at h) (fun br hbr => by have := hS2 br hbr; omega) hacc2)
    rw [hsc] at hcond
    simpa using hcond

/-- the hypotheses are satisfiable: `(?(?=^)|)`-like code — condition `\A`, empty branches -/
example (c : Ctx) :
    Sim2 c 2 2 [.beginAtomic, .split 2 5, .assertion .startText, .endAtomic, .jmp 5, .end_] 2 2 false false
      (fun st => match (if c.assertion .startText st.ix then [st] else []).head? with
        | some r => [r] | none => [st]) 0 5 :=
  sim2_cond (pc := 0) (e1 := 3) (e2 := 4) (endPc := 5) (l0 := 2) (l1 := 2) (l2 := 2) (l3 := 2) (balY := true) (balN := true)
    (sc := fun st => if c.assertion .startText st.ix then [st] else []) (sy := fun st => [st]) (sn := fun st => [st])
    rfl rfl rfl rfl
    (Sim2.test1 (fun st => c.assertion .startText st.ix) id (fun st aux astk X _ _ => by
      have h2 : ([.beginAtomic, .split 2 5, .assertion .startText, .endAtomic, .jmp 5, .end_] : List Insn)[2]? =
          some (.assertion .startText) := rfl
      simp only [sstep, h2, id]
      split <;> rfl))
    (Sim2.nil _ _ _ _ _ _ _ _ _) (Sim2.nil _ _ _ _ _ _ _ _ _)
    (fun st r hg hr => by
      dsimp only at hr
      split at hr
      · simp only [List.mem_singleton] at hr; subst hr; exact hg
      · simp at hr)
    (by omega) (by omega) (by omega) (by omega) (by omega) (by omega)

/-- the conditional of the reference semantics -/
theorem sim2_cond_sem {c : Ctx} {n nS : Nat} {prog : List Insn} {cnd y no : Expr}
    {pc e1 e2 endPc l0 l1 l2 l3 : Nat} {balY balN cm : Bool}
    (hbegin : prog[pc]? = some .beginAtomic) (hsplit : prog[pc + 1]? = some (.split (pc + 2) (e2 + 1)))
    (hend : prog[e1]? = some .endAtomic) (hjmp : prog[e2]? = some (.jmp endPc))
    (hc : Sim2 c n nS prog l0 l1 true true (sem c cnd) (pc + 2) e1)
    (hy : Sim2 c n nS prog l1 l2 balY cm (sem c y) (e1 + 1) e2)
    (hn : Sim2 c n nS prog l2 l3 balN cm (sem c no) (e2 + 1) endPc)
    (ha1 : pc + 2 ≤ e1) (ha2 : e1 + 1 ≤ e2) (ha3 : e2 + 1 ≤ endPc)
    (hl01 : l0 ≤ l1) (hl12 : l1 ≤ l2) (hl23 : l2 ≤ l3) :
    Sim2 c n nS prog l0 l3 false cm (sem c (.cond cnd y no)) pc endPc :=
  (sim2_cond hbegin hsplit hend hjmp hc hy hn (fun st r hg hr => sem_good c n cnd st r hg hr)
    ha1 ha2 ha3 hl01 hl12 hl23).congr (fun st => by
      simp only [sem]
      cases (sem c cnd st).head? <;> rfl)

/-- the hypotheses are satisfiable: `(?()|)` — everything empty -/
example (c : Ctx) :
    Sim2 c 2 2 [.beginAtomic, .split 2 4, .endAtomic, .jmp 4, .end_] 2 2 false false
      (sem c (.cond .empty .empty .empty)) 0 4 :=
  sim2_cond_sem (pc := 0) (e1 := 2) (e2 := 3) (endPc := 4) (l0 := 2) (l1 := 2) (l2 := 2) (l3 := 2)
    (balY := true) (balN := true) rfl rfl rfl rfl
    ((Sim2.nil _ _ _ _ _ _ _ _ _).congr (fun st => by simp [sem]))
    ((Sim2.nil _ _ _ _ _ _ _ _ _).congr (fun st => by simp [sem]))
    ((Sim2.nil _ _ _ _ _ _ _ _ _).congr (fun st => by simp [sem]))
    (by omega) (by omega) (by omega) (by omega) (by omega) (by omega)

end Fancy
