import FancyModel.Lemmas.SimCompile2
import FancyModel.Lemmas.Sim2Deleg
import FancyModel.Lemmas.S3Glue
import FancyModel.Spec.Stage
import FancyModel.Lemmas.Linear
import FancyModel.Lemmas.Sim2BehindAlt
/-!
# The compiler emits simulating code, delegation included (engine refinement, stage S3)

`sim3_visit`: for an expression within `s3ok br · hard` (Spec/Stage.lean), numbered from `gix`, the code
`visit` emits simulates `sem c e` on the full machine — in a hard context for every parametric
continuation, in a non-hard context for committing continuations (the only ones the compiler's
non-hard contexts have: the bodies of atomic groups and look-arounds). `Delegate` instructions are
executed by `delegateOracle` (assumption A-RA) and related to the reference semantics from the
current state by `delegate_step_spec`.

Look-behinds over an alternation body (`(?<=a|bb)`, `(?<!a|b)`) are covered in all four layouts of the
compiler: companions `sim3_lookBehindAlts` (atomic group around an alternation of look-behinds) and
`sim3_lookBehindNegAlts` (sequence of negative look-behinds) for alternatives of different sizes; for
alternatives of one size `visitAltBody` is `visit (Alt es)` in a non-hard context
(`visitAltBody_eq_visit`) and the ordinary layout lemmas `sim3_posBehind_wrap` / `sim3_negBehind_wrap`
apply with `e = .alt es`. The list-level equations are in Lemmas/Sim2BehindAlt.lean.
-/
namespace Fancy

/-- what is known of an expression placed at group index `gix` -/
structure H3 (n : Nat) (e : Expr) (gix : Nat) : Prop where
  ws : wellShaped e = true
  sb : slotsBelow n e = true
  num : numbered gix e
  gn : (gix + groupCount e) * 2 ≤ n

structure H3L (n : Nat) (es : List Expr) (gix : Nat) : Prop where
  ws : wellShapedAll es = true
  sb : slotsBelowAll n es = true
  num : numberedList gix es
  gn : (gix + groupCountList es) * 2 ≤ n

theorem H3.group {n g gix : Nat} {e : Expr} (h : H3 n (.group g e) gix) : g = gix ∧ H3 n e (gix + 1) := by
  obtain ⟨ws, sb, num, gn⟩ := h
  have hn := (numbered_group gix g e).mp num
  simp only [slotsBelow, Bool.and_eq_true] at sb
  simp only [groupCount] at gn
  exact ⟨hn.1, wellShaped_group ws, sb.2, hn.2, by omega⟩

theorem H3.concat {n gix : Nat} {es : List Expr} (h : H3 n (.concat es) gix) : H3L n es gix := by
  obtain ⟨ws, sb, num, gn⟩ := h
  exact ⟨wellShaped_concat ws, by simpa [slotsBelow] using sb, (numbered_concat gix es).mp num, by simpa [groupCount] using gn⟩

theorem H3.alt {n gix : Nat} {es : List Expr} (h : H3 n (.alt es) gix) : H3L n es gix := by
  obtain ⟨ws, sb, num, gn⟩ := h
  exact ⟨(wellShaped_alt ws).2, by simpa [slotsBelow] using sb, (numbered_alt gix es).mp num, by simpa [groupCount] using gn⟩

theorem H3.look {n gix : Nat} {e : Expr} {la : Look} (h : H3 n (.look e la) gix) : H3 n e gix := by
  obtain ⟨ws, sb, num, gn⟩ := h
  exact ⟨wellShaped_look ws, by simpa [slotsBelow] using sb, (numbered_look gix e la).mp num, by simpa [groupCount] using gn⟩

theorem H3.repeat {n gix lo : Nat} {hi : Option Nat} {gr : Bool} {e : Expr} (h : H3 n (.repeat e lo hi gr) gix) : H3 n e gix := by
  obtain ⟨ws, sb, num, gn⟩ := h
  exact ⟨wellShaped_repeat ws, by simpa [slotsBelow] using sb, (numbered_repeat gix e lo hi gr).mp num, by simpa [groupCount] using gn⟩

theorem H3.atomic {n gix : Nat} {e : Expr} (h : H3 n (.atomic e) gix) : H3 n e gix := by
  obtain ⟨ws, sb, num, gn⟩ := h
  exact ⟨wellShaped_atomic ws, by simpa [slotsBelow] using sb, (numbered_atomic gix e).mp num, by simpa [groupCount] using gn⟩

theorem H3.cond {n gix : Nat} {c y f : Expr} (h : H3 n (.cond c y f) gix) :
    H3 n c gix ∧ H3 n y (gix + groupCount c) ∧ H3 n f (gix + groupCount c + groupCount y) := by
  obtain ⟨ws, sb, num, gn⟩ := h
  have hw := wellShaped_cond ws
  have hn := (numbered_cond gix c y f).mp num
  simp only [slotsBelow, Bool.and_eq_true] at sb
  simp only [groupCount] at gn
  exact ⟨⟨hw.1, sb.1.1, hn.1, by omega⟩, ⟨hw.2.1, sb.1.2, hn.2.1, by omega⟩, ⟨hw.2.2, sb.2, hn.2.2, by omega⟩⟩

theorem H3L.cons {n gix : Nat} {e : Expr} {es : List Expr} (h : H3L n (e :: es) gix) :
    H3 n e gix ∧ H3L n es (gix + groupCount e) := by
  obtain ⟨ws, sb, num, gn⟩ := h
  have hw := wellShapedAll_cons ws
  have hn := (numberedList_cons gix e es).mp num
  simp only [slotsBelowAll, Bool.and_eq_true] at sb
  simp only [groupCountList] at gn
  exact ⟨⟨hw.1, sb.1, hn.1, by omega⟩, ⟨hw.2, sb.2, hn.2, by omega⟩⟩

theorem H3L.take {n gix : Nat} {es : List Expr} (h : H3L n es gix) (k : Nat) : H3L n (es.take k) gix := by
  obtain ⟨ws, sb, num, gn⟩ := h
  have := groupCountList_take_le es k
  exact ⟨wellShapedAll_take es k ws, slotsBelowAll_take n es k sb, numberedList_take gix es k num, by omega⟩

theorem H3L.drop {n gix : Nat} {es : List Expr} (h : H3L n es gix) (k : Nat) :
    H3L n (es.drop k) (gix + groupCountList (es.take k)) := by
  obtain ⟨ws, sb, num, gn⟩ := h
  have := groupCountList_take_add_drop es k
  exact ⟨wellShapedAll_drop es k ws, slotsBelowAll_drop n es k sb, numberedList_drop gix es k num, by omega⟩

theorem H3.single {n gix : Nat} {e : Expr} (h : H3 n e gix) : H3L n [e] gix := by
  obtain ⟨ws, sb, num, gn⟩ := h
  exact ⟨by simp [wellShapedAll, ws], by simp [slotsBelowAll, sb],
    (numberedList_cons gix e []).mpr ⟨num, numberedList_nil _⟩, by simpa [groupCountList] using gn⟩

/-! ## Runs handed to the automata engine -/

/-- a run emitted by `compile_delegates` in a position whose continuation may come back: constant
    size, no capture groups -/
theorem sim3_run (c : Ctx) (n nS : Nat) (prog : List Insn) (lo hi : Nat) (bal cm : Bool) (br : Nat → Bool)
    (es : List Expr) (gix a : Nat) (hlen : c.len < UNSET) (h : H3L n es gix) (heasy : isHardAny br es = false)
    (hcs : constSizeAll es = true) (hz : noBareEndZAll es = true)
    (hg0 : groupCountList es = 0 ∨ linearAll es = true)
    (hc : CodeAt prog a (compileDelegates es gix)) :
    Sim2 c n nS prog lo hi bal cm (semConcat c es) a (a + (compileDelegates es gix).length) := by
  by_cases hnd : noDeleg (compileDelegates es gix) = true
  · exact sim2_delegates_run c n nS prog lo hi bal cm es gix a hnd hc
  · unfold compileDelegates at hnd hc ⊢
    by_cases he : es.isEmpty = true
    · simp [he, noDeleg] at hnd
    · by_cases hl : isLiteralAll es = true
      · simp [he, hl, noDeleg, Insn.isDelegate] at hnd
      · simp only [he, hl, Bool.false_eq_true, ↓reduceIte, List.length_cons, List.length_nil, Nat.zero_add] at hc ⊢
        have hp := pureAll_of_not_hard br es heasy
        exact sim2_delegate_same hc.head hlen hp (numberedList_groupsIn es gix h.num) h.gn
          (fun st hg r q hr hq => by
            rcases hg0 with hg0 | hlin
            · exact same_of_const_groupfree c n es h.ws hcs hz hp hg0 hlen st hg r q hr hq
            · exact linearAll_same c n hlen es hlin h.ws hz st hg r q hr hq)

/-- a run emitted by `compile_delegates` in a committing position (the trailing easy children of a
    concatenation in a non-hard context): any easy expressions, capture groups included -/
theorem sim3_run_commit (c : Ctx) (n nS : Nat) (prog : List Insn) (lo hi : Nat) (bal : Bool) (br : Nat → Bool)
    (es : List Expr) (gix a : Nat) (hlen : c.len < UNSET) (h : H3L n es gix) (heasy : isHardAny br es = false)
    (hc : CodeAt prog a (compileDelegates es gix)) :
    Sim2 c n nS prog lo hi bal true (semConcat c es) a (a + (compileDelegates es gix).length) := by
  by_cases hnd : noDeleg (compileDelegates es gix) = true
  · exact sim2_delegates_run c n nS prog lo hi bal true es gix a hnd hc
  · unfold compileDelegates at hnd hc ⊢
    by_cases he : es.isEmpty = true
    · simp [he, noDeleg] at hnd
    · by_cases hl : isLiteralAll es = true
      · simp [he, hl, noDeleg, Insn.isDelegate] at hnd
      · simp only [he, hl, Bool.false_eq_true, ↓reduceIte, List.length_cons, List.length_nil, Nat.zero_add] at hc ⊢
        exact sim2_delegate_commit hc.head hlen (pureAll_of_not_hard br es heasy) (numberedList_groupsIn es gix h.num) h.gn

/-- `compile_delegate e` in a position whose continuation may come back: a single constant-size
    group-free expression (a class, a case-insensitive literal) -/
theorem sim3_one (c : Ctx) (n nS : Nat) (prog : List Insn) (lo hi : Nat) (bal cm : Bool)
    (e : Expr) (gix a : Nat) (hlen : c.len < UNSET) (h : H3 n e gix) (hp : pureExpr e = true)
    (hcs : constSize e = true) (hz : noBareEndZ e = true) (hg0 : groupCount e = 0)
    (hc : CodeAt prog a (compileDelegate e gix)) :
    Sim2 c n nS prog lo hi bal cm (sem c e) a (a + (compileDelegate e gix).length) := by
  unfold compileDelegate at hc ⊢
  by_cases hl : isLiteral e = true
  · simp only [hl, ↓reduceIte, List.length_cons, List.length_nil, Nat.zero_add] at hc ⊢
    exact sim2_isLiteral c n nS prog lo hi bal cm e a hl hc.head
  · simp only [hl, Bool.false_eq_true, ↓reduceIte, List.length_cons, List.length_nil, Nat.zero_add] at hc ⊢
    have hL := h.single
    have := sim2_delegate_same (lo := lo) (hi := hi) (bal := bal) (cm := cm) (nS := nS) hc.head hlen
      (by simp [pureAll, hp]) (numberedList_groupsIn [e] gix hL.num) (by simpa [groupCountList] using hL.gn)
      (fun st hg r q hr hq => same_of_const_groupfree c n [e] hL.ws (by simp [constSizeAll, hcs])
        (by simp [noBareEndZAll, hz]) (by simp [pureAll, hp]) (by simp [groupCountList, hg0]) hlen st hg r q hr hq)
    exact this.congr (fun st => semConcat_singleton c e st)

/-- `compile_delegate e` in a committing position: any easy expression -/
theorem sim3_one_commit (c : Ctx) (n nS : Nat) (prog : List Insn) (lo hi : Nat) (bal : Bool) (br : Nat → Bool)
    (e : Expr) (gix a : Nat) (hlen : c.len < UNSET) (h : H3 n e gix) (heasy : isHard br e = false)
    (hc : CodeAt prog a (compileDelegate e gix)) :
    Sim2 c n nS prog lo hi bal true (sem c e) a (a + (compileDelegate e gix).length) := by
  unfold compileDelegate at hc ⊢
  by_cases hl : isLiteral e = true
  · simp only [hl, ↓reduceIte, List.length_cons, List.length_nil, Nat.zero_add] at hc ⊢
    exact sim2_isLiteral c n nS prog lo hi bal true e a hl hc.head
  · simp only [hl, Bool.false_eq_true, ↓reduceIte, List.length_cons, List.length_nil, Nat.zero_add] at hc ⊢
    have hL := h.single
    have := sim2_delegate_commit (lo := lo) (hi := hi) (bal := bal) (nS := nS) hc.head hlen
      (by simp [pureAll, pure_of_not_hard br e heasy]) (numberedList_groupsIn [e] gix hL.num)
      (by simpa [groupCountList] using hL.gn)
    exact this.congr (fun st => semConcat_singleton c e st)

/-- `compile_delegate e` as the body of a look-around in its plain layout: only the first result -/
theorem sim3_one_first (c : Ctx) (n nS : Nat) (prog : List Insn) (lo hi : Nat) (bal cm : Bool) (br : Nat → Bool)
    (e : Expr) (gix a : Nat) (hlen : c.len < UNSET) (h : H3 n e gix) (heasy : isHard br e = false)
    (hc : CodeAt prog a (compileDelegate e gix)) :
    Sim2 c n nS prog lo hi bal cm (fun st => firstOnly (sem c e st)) a (a + (compileDelegate e gix).length) := by
  unfold compileDelegate at hc ⊢
  by_cases hl : isLiteral e = true
  · simp only [hl, ↓reduceIte, List.length_cons, List.length_nil, Nat.zero_add] at hc ⊢
    have := sim2_isLiteral c n nS prog lo hi bal cm e a hl hc.head
    exact this.congr (fun st => by
      have := length_le_one_of_isLiteral c e hl st
      cases hs : sem c e st with
      | nil => rfl
      | cons x xs =>
        cases xs with
        | nil => rfl
        | cons y ys => rw [hs] at this; simp at this)
  · simp only [hl, Bool.false_eq_true, ↓reduceIte, List.length_cons, List.length_nil, Nat.zero_add] at hc ⊢
    have hL := h.single
    have := sim2_delegate_first (lo := lo) (hi := hi) (bal := bal) (cm := cm) (nS := nS) hc.head hlen
      (by simp [pureAll, pure_of_not_hard br e heasy]) (numberedList_groupsIn [e] gix hL.num)
      (by simpa [groupCountList] using hL.gn)
    exact this.congr (fun st => by rw [semConcat_singleton])

end Fancy

namespace Fancy

theorem visit_easy_eq (br : Nat → Bool) (e : Expr) (hard : Bool) (pc nsv gix : Nat)
    (h : (!hard && !isHard br e) = true) : visit br e hard pc nsv gix = .ok (compileDelegate e gix, nsv) := by
  rw [visit.eq_def]
  simp only [h, ↓reduceIte]

/-- the conclusion of the stage-S3 simulation theorem: in a hard context for every continuation
    class, in a non-hard context for committing continuations -/
def SimOf3 (c : Ctx) (n nS : Nat) (prog : List Insn) (nsv nsv' : Nat) (bal hard : Bool) (sm : St → List St) (a b : Nat) : Prop :=
  nsv ≤ nsv' ∧ (nsv' ≤ nS → ∀ cm, (hard = true ∨ cm = true) → Sim2 c n nS prog nsv nsv' bal cm sm a b)

theorem SimOf3.leaf {c : Ctx} {n nS : Nat} {prog : List Insn} {nsv : Nat} {bal hard : Bool} {sm : St → List St} {a b : Nat}
    (h : ∀ cm, Sim2 c n nS prog nsv nsv bal cm sm a b) : SimOf3 c n nS prog nsv nsv bal hard sm a b :=
  ⟨Nat.le_refl _, fun _ cm _ => h cm⟩

theorem simOf3_easy (c : Ctx) (n nS : Nat) (prog : List Insn) (bal : Bool) (br : Nat → Bool) (e : Expr)
    (hard : Bool) (pc nsv gix : Nat) (code : Code) (nsv' : Nat) (hlen : c.len < UNSET) (h3 : H3 n e gix)
    (hdel : (!hard && !isHard br e) = true) (hv : visit br e hard pc nsv gix = .ok (code, nsv'))
    (hc : CodeAt prog pc code) :
    SimOf3 c n nS prog nsv nsv' bal hard (sem c e) pc (pc + code.length) := by
  rw [visit_easy_eq br e hard pc nsv gix hdel] at hv
  simp only [Except.ok.injEq, Prod.mk.injEq] at hv
  obtain ⟨rfl, rfl⟩ := hv
  simp only [Bool.and_eq_true, Bool.not_eq_true'] at hdel
  refine ⟨Nat.le_refl _, fun _ cm hcm => ?_⟩
  have hcmt : cm = true := by
    rcases hcm with h | h
    · rw [hdel.1] at h; cases h
    · exact h
  subst hcmt
  exact sim3_one_commit c n nS prog nsv nsv bal br e gix pc hlen h3 hdel.2 hc

theorem keepsGood_firstOnly {c : Ctx} {n : Nat} {f : St → List St} (h : KeepsGood c n f) :
    KeepsGood c n (fun st => firstOnly (f st)) := by
  intro st r hg hr
  apply h st r hg
  cases hf : f st with
  | nil => simp [hf, firstOnly] at hr
  | cons x xs => simp only [hf, firstOnly, List.head?_cons, Option.toList_some, List.mem_singleton] at hr; subst hr; simp

theorem firstOnly_length_le_one (l : List St) : (firstOnly l).length ≤ 1 := by
  cases l <;> simp [firstOnly]

theorem firstOnly_idem (l : List St) : firstOnly (firstOnly l) = firstOnly l := by
  cases l <;> rfl

theorem visitMiddle_skip (br : Nat → Bool) : ∀ (es : List Expr) (skip take pc nsv gix : Nat),
    visitMiddle br es skip take pc nsv gix = visitMiddle br (es.drop skip) 0 take pc nsv gix
  | [], skip, take, pc, nsv, gix => by simp [visitMiddle]
  | e :: es, 0, take, pc, nsv, gix => by simp
  | e :: es, skip + 1, take, pc, nsv, gix => by
    simp only [visitMiddle, List.drop_succ_cons]
    exact visitMiddle_skip br es skip take pc nsv gix

end Fancy

namespace Fancy

theorem s3okAll_drop (br : Nat → Bool) (es : List Expr) (k : Nat) (h : s3okAll br es = true) : s3okAll br (es.drop k) = true := by
  induction es generalizing k with
  | nil => simp [s3okAll]
  | cons e es ih =>
    cases k with
    | zero => simpa using h
    | succ k =>
      simp only [s3okAll, Bool.and_eq_true] at h
      simpa using ih k h.2

theorem sizeOf_drop_le (es : List Expr) (k : Nat) : sizeOf (es.drop k) ≤ sizeOf es := by
  induction es generalizing k with
  | nil => simp
  | cons e es ih =>
    cases k with
    | zero => simp
    | succ k =>
      have := ih k
      simp only [List.drop_succ_cons, List.cons.sizeOf_spec]
      omega

/-! ## Look-behind layouts around an already simulated body -/

theorem s3ok_easy (br : Nat → Bool) (e : Expr) (h : isHard br e = false) : s3ok br e false = true := by
  rw [s3ok.eq_def]; simp [h]

theorem s3okAlts_easy (br : Nat → Bool) : ∀ (es : List Expr), isHardAny br es = false → s3okAlts br es false = true
  | [], _ => by simp [s3okAlts]
  | e :: es, h => by
    simp only [isHardAny, Bool.or_eq_false_iff] at h
    simp only [s3okAlts, Bool.and_eq_true]
    exact ⟨s3ok_easy br e h.1, s3okAlts_easy br es h.2⟩

/-- an alternation that is fine in a non-hard context has alternatives that are (whether it is handed
    over whole or compiled alternative by alternative) -/
theorem s3ok_alt_alts (br : Nat → Bool) (es : List Expr) (h : s3ok br (.alt es) false = true) :
    s3okAlts br es false = true := by
  by_cases hh : isHardAny br es = true
  · rw [s3ok] at h
    simp only [isHard, hh, Bool.not_true, Bool.and_false, Bool.false_eq_true, ↓reduceIte, Bool.and_eq_true] at h
    exact h.2
  · exact s3okAlts_easy br es (by simpa using hh)

theorem wrapPosLook_body_codeAt {prog : List Insn} {pc : Nat} {atomic : Bool} {slot k : Nat} {body : Code}
    (h : CodeAt prog pc (wrapPosLook atomic true slot k body)) : CodeAt prog (posLookBodyPc atomic true pc) body := by
  cases atomic with
  | true =>
    simp only [wrapPosLook, posLookBodyPc, ↓reduceIte] at h ⊢
    exact h.left.right.left.right.cast (by addr)
  | false =>
    simp only [wrapPosLook, posLookBodyPc, ↓reduceIte, Bool.false_eq_true] at h ⊢
    exact h.left.right.cast (by addr)

theorem wrapNegLook_body_codeAt {prog : List Insn} {pc k : Nat} {body : Code}
    (h : CodeAt prog pc (wrapNegLook true pc k body)) : CodeAt prog (negLookBodyPc true pc) body := by
  simp only [wrapNegLook, negLookBodyPc, ↓reduceIte] at h ⊢
  exact h.left.right.right.cast (by addr)

/-- the positive look-behind layout (`wrapPosLook … true`) around the code `visit` emits for `e` in a
    non-hard context: atomic layout when `e` is hard, plain layout around the `Delegate` otherwise.
    Used for a non-alternation body, for every alternative of `lookBehindAlts`, and with `e = .alt es`
    for an alternation body of one size. -/
theorem sim3_posBehind_wrap (c : Ctx) (n nS : Nat) (br : Nat → Bool) (hlen : c.len < UNSET)
    (e : Expr) (pc nsv gix : Nat) (code1 : Code) (nsv1 : Nat) (prog : List Insn)
    (h3e : H3 n e gix) (hcf : condFree e = true)
    (hb : visit br e false (posLookBodyPc (isHard br e) true pc) (nsv + 1) gix = .ok (code1, nsv1))
    (hc : CodeAt prog pc (wrapPosLook (isHard br e) true nsv (minSize e) code1)) (hnn : n ≤ nsv)
    (ih : SimOf3 c n nS prog (nsv + 1) nsv1 (condFree e) false (sem c e)
      (posLookBodyPc (isHard br e) true pc) (posLookBodyPc (isHard br e) true pc + code1.length)) :
    nsv + 1 ≤ nsv1 ∧ (nsv1 ≤ nS → ∀ cm, Sim2 c n nS prog nsv nsv1 true cm (posBehindOne c e) pc
      (pc + (wrapPosLook (isHard br e) true nsv (minSize e) code1).length)) := by
  obtain ⟨hle, ihs⟩ := ih
  by_cases hh : isHard br e = true
  · simp only [hh, wrapPosLook, posLookBodyPc, ↓reduceIte, Nat.add_zero] at hc hb ihs ⊢
    refine ⟨hle, fun hnS cm => ?_⟩
    have hbody := ihs hnS true (Or.inr rfl)
    rw [hcf] at hbody
    have hsave : prog[pc + 1]? = some (.save nsv) := hc.left.right.left.left.left.head_at (by addr)
    have hback : prog[pc + 2]? = some (.goBack (minSize e)) := hc.left.right.left.left.right.head_at (by addr)
    have hrestore : prog[pc + 3 + code1.length]? = some (.restore nsv) := hc.left.right.right.head_at (by addr)
    have hend : prog[pc + 3 + code1.length + 1]? = some .endAtomic := hc.right.head_at (by addr)
    have := sim2_posbehind_atomic (cm := cm) (body := sem c e) (slot := nsv) (hi := nsv1) (a := pc)
      (m := pc + 3 + code1.length) (k := minSize e)
      hc.left.left.head hsave hback hrestore hend hnn (by omega) (by omega) (by omega)
      (hbody.cast (by omega) (by omega)) (keepsGood_sem c n e)
    exact this.cast rfl (by addr)
  · have hh' : isHard br e = false := by simpa using hh
    simp only [hh', wrapPosLook, posLookBodyPc, ↓reduceIte, Bool.false_eq_true, Nat.add_zero] at hc hb ⊢
    rw [visit_easy_eq br e false (pc + 1 + 1) (nsv + 1) gix (by simp [hh'])] at hb
    simp only [Except.ok.injEq, Prod.mk.injEq] at hb
    obtain ⟨rfl, rfl⟩ := hb
    have hc1 : CodeAt prog (pc + 2) (compileDelegate e gix) := hc.left.right.cast (by addr)
    refine ⟨Nat.le_refl _, fun hnS cm => ?_⟩
    have hbody := sim3_one_first c n nS prog (nsv + 1) (nsv + 1) true cm br e gix (pc + 2) hlen h3e hh' hc1
    have hback : prog[pc + 1]? = some (.goBack (minSize e)) := hc.left.left.right.head_at (by addr)
    have hrestore : prog[pc + 2 + (compileDelegate e gix).length]? = some (.restore nsv) := hc.right.head_at (by addr)
    have := sim2_posbehind_plain (cm := cm) (bal := true) (body := fun st => firstOnly (sem c e st)) (slot := nsv)
      (hi := nsv + 1) (a := pc) (m := pc + 2 + (compileDelegate e gix).length) (k := minSize e)
      hc.left.left.left.head hback hrestore hnn (by omega) (by omega) (by omega) hbody
      (keepsGood_firstOnly (keepsGood_sem c n e)) (fun st => firstOnly_length_le_one _)
    have := this.congr (g := posBehindOne c e) (fun st => by
      unfold posBehindOne
      rw [back_flatMap, back_flatMap]
      split <;> simp [firstOnly_idem])
    exact this.cast rfl (by addr)

/-- the negative look-behind layout (`wrapNegLook true`) around the code of `e` -/
theorem sim3_negBehind_wrap (c : Ctx) (n nS : Nat)
    (e : Expr) (pc nsv : Nat) (code1 : Code) (nsv1 : Nat) (prog : List Insn)
    (hc : CodeAt prog pc (wrapNegLook true pc (minSize e) code1))
    (ih : SimOf3 c n nS prog nsv nsv1 (condFree e) false (sem c e)
      (negLookBodyPc true pc) (negLookBodyPc true pc + code1.length)) :
    nsv ≤ nsv1 ∧ (nsv1 ≤ nS → ∀ cm, Sim2 c n nS prog nsv nsv1 true cm (negBehindOne c e) pc
      (pc + (wrapNegLook true pc (minSize e) code1).length)) := by
  obtain ⟨hle, ihs⟩ := ih
  simp only [wrapNegLook, negLookBodyPc, ↓reduceIte] at hc ihs ⊢
  refine ⟨hle, fun hnS cm => ?_⟩
  have hsplit : prog[pc]? = some (.split (pc + 1) (pc + 2 + code1.length + 1)) := by
    have := hc.left.left.head
    simpa [Nat.add_assoc, Nat.add_comm, Nat.add_left_comm] using this
  have hback : prog[pc + 1]? = some (.goBack (minSize e)) := hc.left.right.left.head_at (by addr)
  have hfail : prog[pc + 2 + code1.length]? = some .failNegLook := hc.right.head_at (by addr)
  have := sim2_negbehind (cm := cm) (body := sem c e) (a := pc) (m := pc + 2 + code1.length) (k := minSize e)
    hsplit hback hfail (by omega) hle ((ihs hnS true (Or.inr rfl)).cast (by omega) (by omega))
  exact this.cast rfl (by addr)


mutual
theorem sim3_visit (c : Ctx) (n nS : Nat) (br : Nat → Bool) (hlen : c.len < UNSET) :
    ∀ (e : Expr) (hard : Bool) (pc nsv gix : Nat) (code : Code) (nsv' : Nat) (prog : List Insn),
      s3ok br e hard = true → H3 n e gix →
      visit br e hard pc nsv gix = .ok (code, nsv') → CodeAt prog pc code → n ≤ nsv →
      SimOf3 c n nS prog nsv nsv' (condFree e) hard (sem c e) pc (pc + code.length)
  | .empty, hard, pc, nsv, gix, code, nsv', prog, _, h3, hv, hc, _ => by
    by_cases hdel : (!hard && !isHard br .empty) = true
    · exact simOf3_easy c n nS prog _ br _ hard pc nsv gix code nsv' hlen h3 hdel hv hc
    · rw [visit] at hv
      simp only [hdel, Bool.false_eq_true, ↓reduceIte, Except.ok.injEq, Prod.mk.injEq] at hv
      obtain ⟨rfl, rfl⟩ := hv
      exact SimOf3.leaf fun cm => by
        simpa using (Sim2.nil c n nS prog nsv nsv _ cm pc).congr (fun st => by simp [sem])
  | .any nl, hard, pc, nsv, gix, code, nsv', prog, _, h3, hv, hc, _ => by
    by_cases hdel : (!hard && !isHard br (.any nl)) = true
    · exact simOf3_easy c n nS prog _ br _ hard pc nsv gix code nsv' hlen h3 hdel hv hc
    · cases nl with
      | true =>
        rw [visit] at hv
        simp only [hdel, Bool.false_eq_true, ↓reduceIte, Except.ok.injEq, Prod.mk.injEq] at hv
        obtain ⟨rfl, rfl⟩ := hv
        exact SimOf3.leaf fun cm => by simpa using sim2_any c n nS prog nsv nsv _ cm pc hc.head
      | false =>
        rw [visit] at hv
        simp only [hdel, Bool.false_eq_true, ↓reduceIte, Except.ok.injEq, Prod.mk.injEq] at hv
        obtain ⟨rfl, rfl⟩ := hv
        exact SimOf3.leaf fun cm => by simpa using sim2_anyNoNL c n nS prog nsv nsv _ cm pc hc.head
  | .assertion a, hard, pc, nsv, gix, code, nsv', prog, _, h3, hv, hc, _ => by
    by_cases hdel : (!hard && !isHard br (.assertion a)) = true
    · exact simOf3_easy c n nS prog _ br _ hard pc nsv gix code nsv' hlen h3 hdel hv hc
    · rw [visit] at hv
      simp only [hdel, Bool.false_eq_true, ↓reduceIte, Except.ok.injEq, Prod.mk.injEq] at hv
      obtain ⟨rfl, rfl⟩ := hv
      exact SimOf3.leaf fun cm => by simpa using sim2_assertion c n nS prog nsv nsv _ cm pc a hc.head
  | .literal v ci, hard, pc, nsv, gix, code, nsv', prog, hok, h3, hv, hc, _ => by
    by_cases hdel : (!hard && !isHard br (.literal v ci)) = true
    · exact simOf3_easy c n nS prog _ br _ hard pc nsv gix code nsv' hlen h3 hdel hv hc
    · rw [visit] at hv
      simp only [hdel, Bool.false_eq_true, ↓reduceIte] at hv
      cases ci with
      | false =>
        simp only [Bool.not_false, ↓reduceIte, Except.ok.injEq, Prod.mk.injEq] at hv
        obtain ⟨rfl, rfl⟩ := hv
        exact SimOf3.leaf fun cm => by
          have := sim2_lit c n nS prog nsv nsv (condFree (.literal v false)) cm pc v hc.head
          simpa using this.congr (fun st => by simp [sem])
      | true =>
        simp only [Bool.not_true, Bool.false_eq_true, ↓reduceIte, Except.ok.injEq, Prod.mk.injEq] at hv
        obtain ⟨rfl, rfl⟩ := hv
        exact SimOf3.leaf fun cm =>
          sim3_one c n nS prog nsv nsv _ cm (.literal v true) gix pc hlen h3 (by simp [pureExpr]) (by simp [constSize])
            (by simp [noBareEndZ]) (by simp [groupCount]) hc
  | .delegate inner size ci, hard, pc, nsv, gix, code, nsv', prog, hok, h3, hv, hc, _ => by
    by_cases hdel : (!hard && !isHard br (.delegate inner size ci)) = true
    · exact simOf3_easy c n nS prog _ br _ hard pc nsv gix code nsv' hlen h3 hdel hv hc
    · rw [visit] at hv
      simp only [hdel, Bool.false_eq_true, ↓reduceIte, Except.ok.injEq, Prod.mk.injEq] at hv
      obtain ⟨rfl, rfl⟩ := hv
      rw [s3ok] at hok
      simp only [hdel, Bool.false_eq_true, ↓reduceIte, beq_iff_eq] at hok
      subst hok
      exact SimOf3.leaf fun cm =>
        sim3_one c n nS prog nsv nsv _ cm (.delegate inner 1 ci) gix pc hlen h3 (by simp [pureExpr]) (by simp [constSize])
          (by simp [noBareEndZ]) (by simp [groupCount]) hc
  | .backref g, hard, pc, nsv, gix, code, nsv', prog, _, h3, hv, hc, _ => by
    rw [visit] at hv
    simp only [isHard, Bool.not_true, Bool.and_false, Bool.false_eq_true, ↓reduceIte, Except.ok.injEq, Prod.mk.injEq] at hv
    obtain ⟨rfl, rfl⟩ := hv
    exact SimOf3.leaf fun cm => by
      simpa using sim2_backref c n nS prog nsv nsv _ cm pc g hlen hc.head (by simpa [slotsBelow] using h3.sb)
  | .backrefExists g, hard, pc, nsv, gix, code, nsv', prog, _, h3, hv, hc, _ => by
    rw [visit] at hv
    simp only [isHard, Bool.not_true, Bool.and_false, Bool.false_eq_true, ↓reduceIte, Except.ok.injEq, Prod.mk.injEq] at hv
    obtain ⟨rfl, rfl⟩ := hv
    exact SimOf3.leaf fun cm => by
      simpa using sim2_backrefExists c n nS prog nsv nsv _ cm pc g hlen hc.head (by simpa [slotsBelow] using h3.sb)
  | .keepOut, hard, pc, nsv, gix, code, nsv', prog, _, h3, hv, hc, _ => by
    rw [visit] at hv
    simp only [isHard, Bool.not_true, Bool.and_false, Bool.false_eq_true, ↓reduceIte, Except.ok.injEq, Prod.mk.injEq] at hv
    obtain ⟨rfl, rfl⟩ := hv
    exact SimOf3.leaf fun cm => by
      have := sim2_save c n nS prog nsv nsv (condFree .keepOut) cm pc 0 hc.head (by simpa [slotsBelow] using h3.sb)
      simpa using this.congr (fun st => by simp [sem])
  | .contPrev, hard, pc, nsv, gix, code, nsv', prog, _, _, hv, hc, _ => by
    rw [visit] at hv
    simp only [isHard, Bool.not_true, Bool.and_false, Bool.false_eq_true, ↓reduceIte, Except.ok.injEq, Prod.mk.injEq] at hv
    obtain ⟨rfl, rfl⟩ := hv
    exact SimOf3.leaf fun cm => by simpa using sim2_contPrev c n nS prog nsv nsv _ cm pc hc.head
  | .subroutine g, hard, pc, nsv, gix, code, nsv', prog, hok, h3, hv, hc, _ => by
    have := h3.ws
    simp [wellShaped] at this
  | .group g e, hard, pc, nsv, gix, code, nsv', prog, hok, h3, hv, hc, hnn => by
    by_cases hdel : (!hard && !isHard br (.group g e)) = true
    · exact simOf3_easy c n nS prog _ br _ hard pc nsv gix code nsv' hlen h3 hdel hv hc
    · rw [visit] at hv
      simp only [hdel, Bool.false_eq_true, ↓reduceIte] at hv
      rw [s3ok] at hok
      simp only [hdel, Bool.false_eq_true, ↓reduceIte] at hok
      cases hb : visit br e hard (pc + 1) nsv (gix + 1) with
      | error err => simp [hb] at hv
      | ok p =>
        obtain ⟨code1, nsv1⟩ := p
        simp only [hb, Except.ok.injEq, Prod.mk.injEq] at hv
        obtain ⟨rfl, rfl⟩ := hv
        obtain ⟨hg, h3e⟩ := h3.group
        have hsb := h3.sb
        simp only [slotsBelow, Bool.and_eq_true, decide_eq_true_eq] at hsb
        have hc1 : CodeAt prog (pc + 1) code1 := hc.left.right.cast (by addr)
        obtain ⟨hle, ih⟩ := sim3_visit c n nS br hlen e hard (pc + 1) nsv (gix + 1) code1 _ prog hok h3e hb hc1 hnn
        have hsave2 : prog[pc + 1 + code1.length]? = some (.save (g * 2 + 1)) := hc.right.head_at (by addr)
        refine ⟨hle, fun hnS cm hcm => ?_⟩
        have := sim2_group_cm (cm := cm) (g := g) hc.left.left.head hsave2 (ih hnS cm hcm) hsb.1 (by omega) hle
        simp only [condFree]
        exact this.cast rfl (by addr)
  | .concat es, hard, pc, nsv, gix, code, nsv', prog, hok, h3, hv, hc, hnn => by
    by_cases hdel : (!hard && !isHard br (.concat es)) = true
    · exact simOf3_easy c n nS prog _ br _ hard pc nsv gix code nsv' hlen h3 hdel hv hc
    · rw [visit] at hv
      simp only [hdel, Bool.false_eq_true, ↓reduceIte] at hv
      rw [s3ok] at hok
      simp only [hdel, Bool.false_eq_true, ↓reduceIte, Bool.and_eq_true, Bool.or_eq_true, Bool.not_eq_true', beq_iff_eq] at hok
      obtain ⟨⟨⟨hokAll, hzAll⟩, hpre0⟩, hsuf0⟩ := hok
      have hL := h3.concat
      generalize hsp : concatSplit br es hard = sp at hv hpre0 hsuf0
      have hle := concatSplit_le br es hard
      rw [hsp] at hle
      rw [visitMiddle_skip] at hv
      cases hb : visitMiddle br (es.drop sp.1) 0 (sp.2 - sp.1)
          (pc + (compileDelegates (es.take sp.1) gix).length) nsv (gix + groupCountList (es.take sp.1)) with
      | error err => simp [hb] at hv
      | ok p =>
        obtain ⟨mid, nsv1⟩ := p
        simp only [hb, Except.ok.injEq, Prod.mk.injEq] at hv
        obtain ⟨rfl, rfl⟩ := hv
        have hcpre := hc.left.left
        have hcmid : CodeAt prog (pc + (compileDelegates (es.take sp.1) gix).length) mid := hc.left.right
        have hcsuf := hc.right
        have hsz := sizeOf_drop_le es sp.1
        obtain ⟨hle2, s2⟩ := sim3_visitMiddle c n nS br hlen (es.drop sp.1) (sp.2 - sp.1) _ nsv _ mid nsv1 prog
          (s3okAll_drop br es sp.1 hokAll) (hL.drop sp.1) hb hcmid hnn
        refine ⟨hle2, fun hnS cm hcm => ?_⟩
        have hpfx : ∀ cmx, Sim2 c n nS prog nsv nsv (condFree (.concat es)) cmx (semConcat c (es.take sp.1)) pc
            (pc + (compileDelegates (es.take sp.1) gix).length) := fun cmx =>
          sim3_run c n nS prog nsv nsv _ cmx br (es.take sp.1) gix pc hlen (hL.take sp.1)
            (by rw [← hsp]; exact concatSplit_prefix_isHardAny br es hard)
            (by rw [← hsp]; exact concatSplit_prefix_constSizeAll br es hard)
            (noBareEndZAll_take es sp.1 hzAll) hpre0 hcpre
        have hgsuf : gix + groupCountList (es.take sp.2) = gix + groupCountList (es.take sp.2) := rfl
        have s3 : Sim2 c n nS prog nsv1 nsv1 (condFree (.concat es)) cm (semConcat c (es.drop sp.2))
            (pc + (compileDelegates (es.take sp.1) gix).length + mid.length)
            (pc + (compileDelegates (es.take sp.1) gix).length + mid.length +
              (compileDelegates (es.drop sp.2) (gix + groupCountList (es.take sp.2))).length) := by
          cases hard with
          | true =>
            have hs0 : groupCountList (es.drop sp.2) = 0 ∨ linearAll (es.drop sp.2) = true := by
              rcases hsuf0 with h | h
              · rcases h with h | h
                · cases h
                · exact Or.inl h
              · exact Or.inr h
            exact sim3_run c n nS prog nsv1 nsv1 _ cm br (es.drop sp.2) _ _ hlen (hL.drop sp.2)
              (by rw [← hsp]; exact concatSplit_suffix_isHardAny br es true)
              (by rw [← hsp]; exact concatSplit_suffix_constSizeAll br es)
              (noBareEndZAll_drop es sp.2 hzAll) hs0 (hcsuf.cast (by addr))
          | false =>
            have hcmt : cm = true := by rcases hcm with h | h; cases h; exact h
            subst hcmt
            exact sim3_run_commit c n nS prog nsv1 nsv1 _ br (es.drop sp.2) _ _ hlen (hL.drop sp.2)
              (by rw [← hsp]; exact concatSplit_suffix_isHardAny br es false) (hcsuf.cast (by addr))
        have hsplit : es = es.take sp.1 ++ ((es.drop sp.1).take (sp.2 - sp.1) ++ es.drop sp.2) := by
          have h1 : es.drop sp.1 = (es.drop sp.1).take (sp.2 - sp.1) ++ (es.drop sp.1).drop (sp.2 - sp.1) :=
            (List.take_append_drop _ _).symm
          have h2 : (es.drop sp.1).drop (sp.2 - sp.1) = es.drop sp.2 := by
            rw [List.drop_drop]; congr 1; omega
          rw [← h2, ← h1, List.take_append_drop]
        have s2' := ((s2 hnS false (Or.inl rfl)).balTo (b2 := condFree (.concat es)) (by
          intro hb2
          simp only [condFree] at hb2
          have := condFreeAll_drop es sp.1 hb2
          simpa using condFreeAll_take _ _ this))
        have key := ((hpfx false).seq (s2'.seq s3 (keepsGood_semConcat c n _) hle2 (Nat.le_refl _) (by addr) (by addr))
          (keepsGood_semConcat c n _) (Nat.le_refl _) hle2 (by addr) (by addr))
        have := key.congr (g := sem c (.concat es)) (fun st => by
          simp only [sem]
          conv => rhs; rw [hsplit]
          rw [semConcat_append]
          congr 1; funext r; rw [semConcat_append])
        exact this.cast rfl (by addr)
  | .alt es, hard, pc, nsv, gix, code, nsv', prog, hok, h3, hv, hc, hnn => by
    by_cases hdel : (!hard && !isHard br (.alt es)) = true
    · exact simOf3_easy c n nS prog _ br _ hard pc nsv gix code nsv' hlen h3 hdel hv hc
    · rw [visit] at hv
      simp only [hdel, Bool.false_eq_true, ↓reduceIte] at hv
      rw [s3ok] at hok
      simp only [hdel, Bool.false_eq_true, ↓reduceIte, Bool.and_eq_true] at hok
      cases hb : visitAlt br es hard pc nsv gix with
      | error err => simp [hb] at hv
      | ok p =>
        obtain ⟨f, endPc, nsv1⟩ := p
        simp only [hb, Except.ok.injEq, Prod.mk.injEq] at hv
        obtain ⟨rfl, rfl⟩ := hv
        have hlenf := visitAlt_len br es hard pc nsv gix f endPc _ hb
        obtain ⟨hle, hsim⟩ := sim3_visitAlt c n nS br hlen es hard pc nsv gix f endPc _ prog hok.2 h3.alt
          (by intro h; simp [h] at hok) hb hnn hc
        refine ⟨hle, fun hnS cm hcm => ?_⟩
        have h2 := (hsim hnS cm hcm).congr (g := sem c (.alt es)) (fun st => by simp only [sem])
        simp only [condFree]
        exact h2.cast rfl (hlenf endPc)
  | .repeat e lo hi greedy, hard, pc, nsv, gix, code, nsv', prog, hok, h3, hv, hc, hnn => by
    by_cases hdel : (!hard && !isHard br (.repeat e lo hi greedy)) = true
    · exact simOf3_easy c n nS prog _ br _ hard pc nsv gix code nsv' hlen h3 hdel hv hc
    · rw [s3ok] at hok
      simp only [hdel, Bool.false_eq_true, ↓reduceIte, Bool.and_eq_true, Bool.or_eq_true, bne_iff_ne, ne_eq,
        decide_eq_true_eq] at hok
      obtain ⟨hoke, hshape⟩ := hok
      have h3e := h3.repeat
      have hw := h3e.ws
      have hhard' : (hard || isHard br (.repeat e lo hi greedy)) = true := by
        cases hard with
        | true => rfl
        | false => simpa using hdel
      rw [visit] at hv
      simp only [hdel, Bool.false_eq_true, ↓reduceIte] at hv
      simp only [condFree]
      by_cases hopt : (lo == 0 && hi == some 1) = true
      · -- `?`
        simp only [hopt, ↓reduceIte] at hv hoke
        simp only [Bool.and_eq_true, beq_iff_eq] at hopt
        obtain ⟨rfl, rfl⟩ := hopt
        cases hb : visit br e hard (pc + 1) nsv gix with
        | error err => simp [hb] at hv
        | ok p =>
          obtain ⟨code1, nsv1⟩ := p
          simp only [hb, Except.ok.injEq, Prod.mk.injEq] at hv
          obtain ⟨rfl, rfl⟩ := hv
          obtain ⟨hle, ih⟩ := sim3_visit c n nS br hlen e hard (pc + 1) nsv gix code1 _ prog hoke h3e hb hc.tail hnn
          refine ⟨hle, fun hnS cm hcm => ?_⟩
          have hhead := hc.head
          cases greedy with
          | true =>
            have := Sim2.optG (by simpa using hhead) (ih hnS cm hcm) (by omega)
            have := this.congr (g := sem c (.repeat e 0 (some 1) true)) (fun st => by rw [sem_opt]; simp)
            exact this.cast rfl (by addr)
          | false =>
            have := Sim2.optL (by simpa using hhead) (ih hnS cm hcm) (by omega)
            have := this.congr (g := sem c (.repeat e 0 (some 1) false)) (fun st => by rw [sem_opt]; simp)
            exact this.cast rfl (by addr)
      · simp only [hopt, Bool.false_eq_true, ↓reduceIte] at hv
        have hoke : s3ok br e true = true := by
          have hnot : ¬ ((lo == 0) = true ∧ (hi == some 1) = true) := by
            intro h; apply hopt; simp [h.1, h.2]
          rw [if_neg hnot] at hoke
          exact hoke
        rw [hhard'] at hv
        have heps : (hi == none && minSize e == 0) = false := by
          rcases hshape with h | h
          · cases hi with
            | none => exact absurd rfl h
            | some v => simp
          · have : (minSize e == 0) = false := by simp; omega
            simp [this]
        simp only [heps, Bool.false_eq_true, ↓reduceIte] at hv
        by_cases hstar : (lo == 0 && hi == none) = true
        · simp only [hstar, ↓reduceIte] at hv
          simp only [Bool.and_eq_true, beq_iff_eq] at hstar
          obtain ⟨rfl, rfl⟩ := hstar
          have hm : 0 < minSize e := by rcases hshape with h | h; exact absurd rfl h; exact h
          cases hb : visit br e true (pc + 1) nsv gix with
          | error err => simp [hb] at hv
          | ok p =>
            obtain ⟨code1, nsv1⟩ := p
            simp only [hb, Except.ok.injEq, Prod.mk.injEq] at hv
            obtain ⟨rfl, rfl⟩ := hv
            have hc1 : CodeAt prog (pc + 1) code1 := hc.left.right.cast (by addr)
            obtain ⟨hle, ih⟩ := sim3_visit c n nS br hlen e true (pc + 1) nsv gix code1 _ prog hoke h3e hb hc1 hnn
            refine ⟨hle, fun hnS cm _ => ?_⟩
            have hjmp : prog[pc + 1 + code1.length]? = some (.jmp pc) := hc.right.head_at (by addr)
            have hsplit := hc.left.left.head
            have := sim2_star (cm := cm) (greedy := greedy) (m := pc + 1 + code1.length)
              (by cases greedy <;> simpa [Nat.add_assoc] using hsplit) hjmp (ih hnS false (Or.inl rfl)) hw hm (by omega)
            exact this.cast rfl (by addr)
        · simp only [hstar, Bool.false_eq_true, ↓reduceIte] at hv
          by_cases hplus : (lo == 1 && hi == none) = true
          · simp only [hplus, ↓reduceIte] at hv
            simp only [Bool.and_eq_true, beq_iff_eq] at hplus
            obtain ⟨rfl, rfl⟩ := hplus
            have hm : 0 < minSize e := by rcases hshape with h | h; exact absurd rfl h; exact h
            cases hb : visit br e true pc nsv gix with
            | error err => simp [hb] at hv
            | ok p =>
              obtain ⟨code1, nsv1⟩ := p
              simp only [hb, Except.ok.injEq, Prod.mk.injEq] at hv
              obtain ⟨rfl, rfl⟩ := hv
              obtain ⟨hle, ih⟩ := sim3_visit c n nS br hlen e true pc nsv gix code1 _ prog hoke h3e hb hc.left hnn
              refine ⟨hle, fun hnS cm _ => ?_⟩
              have hsplit := hc.right.head
              have := sim2_plus (cm := cm) (greedy := greedy) (m := pc + code1.length)
                (by cases greedy <;> simpa using hsplit) (ih hnS false (Or.inl rfl)) hw hm (by omega)
              exact this.cast rfl (by addr)
          · simp only [hplus, Bool.false_eq_true, ↓reduceIte] at hv
            cases hb : visit br e true (pc + 2) (nsv + 1) gix with
            | error err => simp [hb] at hv
            | ok p =>
              obtain ⟨code1, nsv1⟩ := p
              simp only [hb, Except.ok.injEq, Prod.mk.injEq] at hv
              obtain ⟨rfl, rfl⟩ := hv
              have hc1 : CodeAt prog (pc + 2) code1 := hc.left.right.cast (by addr)
              obtain ⟨hle, ih⟩ := sim3_visit c n nS br hlen e true (pc + 2) (nsv + 1) gix code1 _ prog hoke h3e hb hc1 (by omega)
              refine ⟨by omega, fun hnS cm _ => ?_⟩
              have hsave0 : prog[pc]? = some (.save0 nsv) := hc.left.left.head
              have hhead : prog[pc + 1]? = some (if greedy then Insn.repeatGr lo hi (pc + 2 + code1.length + 1) nsv
                  else Insn.repeatNg lo hi (pc + 2 + code1.length + 1) nsv) := by
                have := hc.left.left.tail.head
                cases greedy <;> simpa using this
              have hjmp : prog[pc + 2 + code1.length]? = some (.jmp (pc + 1)) := hc.right.head_at (by addr)
              have := sim2_counted (cm := cm) (e := e) (greedy := greedy) (lo := lo) (hi := hi) (m := pc + 2 + code1.length)
                hsave0 hhead hjmp (ih hnS false (Or.inl rfl)) hnn (by omega) hle (by omega) hw
                (by rcases hshape with h | h; exact Or.inl h; exact Or.inr h)
              exact this.cast rfl (by addr)
  | .look e .ahead, hard, pc, nsv, gix, code, nsv', prog, hok, h3, hv, hc, hnn => by
    rw [s3ok] at hok
    simp only [isHard, Bool.not_true, Bool.and_false, Bool.false_eq_true, ↓reduceIte, Bool.and_eq_true] at hok
    have h3e := h3.look
    rw [visit] at hv
    simp only [isHard, Bool.not_true, Bool.and_false, Bool.false_eq_true, ↓reduceIte] at hv
    cases hb : visit br e false (posLookBodyPc (isHard br e) false pc) (nsv + 1) gix with
    | error err => simp [hb] at hv
    | ok p =>
      obtain ⟨code1, nsv1⟩ := p
      simp only [hb, Except.ok.injEq, Prod.mk.injEq] at hv
      obtain ⟨rfl, rfl⟩ := hv
      simp only [condFree, hok.2]
      by_cases hh : isHard br e = true
      · simp only [hh, wrapPosLook, posLookBodyPc, ↓reduceIte, Bool.false_eq_true, List.append_nil, Nat.add_zero] at hc hb ⊢
        have hc1 : CodeAt prog (pc + 2) code1 := hc.left.right.left.right.cast (by addr)
        obtain ⟨hle, ih⟩ := sim3_visit c n nS br hlen e false (pc + 1 + 1) (nsv + 1) gix code1 _ prog hok.1 h3e hb hc1 (by omega)
        refine ⟨by omega, fun hnS cm _ => ?_⟩
        have hbody := ih hnS true (Or.inr rfl)
        rw [hok.2] at hbody
        have hsave : prog[pc + 1]? = some (.save nsv) := hc.left.right.left.left.head_at (by addr)
        have hrestore : prog[pc + 2 + code1.length]? = some (.restore nsv) := hc.left.right.right.head_at (by addr)
        have hend : prog[pc + 2 + code1.length + 1]? = some .endAtomic := hc.right.head_at (by addr)
        have := sim2_sem_ahead_atomic (cm := cm) (e := e) (slot := nsv) (hi := nsv1) (a := pc) (m := pc + 2 + code1.length)
          hc.left.left.head hsave hrestore hend hnn (by omega) (by omega) hbody
        exact this.cast rfl (by addr)
      · -- plain layout: the body is handed to the automata engine; only its first result is used
        have hh' : isHard br e = false := by simpa using hh
        simp only [hh', wrapPosLook, posLookBodyPc, ↓reduceIte, Bool.false_eq_true, List.append_nil, Nat.add_zero] at hc hb ⊢
        rw [visit_easy_eq br e false (pc + 1) (nsv + 1) gix (by simp [hh'])] at hb
        simp only [Except.ok.injEq, Prod.mk.injEq] at hb
        obtain ⟨rfl, rfl⟩ := hb
        have hc1 : CodeAt prog (pc + 1) (compileDelegate e gix) := hc.left.right.cast (by addr)
        refine ⟨by omega, fun hnS cm _ => ?_⟩
        have hbody := sim3_one_first c n nS prog (nsv + 1) (nsv + 1) true cm br e gix (pc + 1) hlen h3e hh' hc1
        have hrestore : prog[pc + 1 + (compileDelegate e gix).length]? = some (.restore nsv) := hc.right.head_at (by addr)
        have := sim2_poslook_plain (cm := cm) (bal := true) (sm := fun st => firstOnly (sem c e st)) (slot := nsv) (hi := nsv + 1)
          (a := pc) (m := pc + 1 + (compileDelegate e gix).length)
          hc.left.left.head hrestore hnn (by omega) (by omega) hbody (keepsGood_firstOnly (keepsGood_sem c n e))
          (fun st => firstOnly_length_le_one _)
        have := this.congr (g := sem c (.look e .ahead)) (fun st => by simp only [sem, firstOnly_idem])
        exact this.cast rfl (by addr)
  | .look e .aheadNeg, hard, pc, nsv, gix, code, nsv', prog, hok, h3, hv, hc, hnn => by
    rw [s3ok] at hok
    simp only [isHard, Bool.not_true, Bool.and_false, Bool.false_eq_true, ↓reduceIte] at hok
    have h3e := h3.look
    rw [visit] at hv
    simp only [isHard, Bool.not_true, Bool.and_false, Bool.false_eq_true, ↓reduceIte] at hv
    cases hb : visit br e false (negLookBodyPc false pc) nsv gix with
    | error err => simp [hb] at hv
    | ok p =>
      obtain ⟨code1, nsv1⟩ := p
      simp only [hb, Except.ok.injEq, Prod.mk.injEq] at hv
      obtain ⟨rfl, rfl⟩ := hv
      simp only [wrapNegLook, negLookBodyPc, Bool.false_eq_true, ↓reduceIte, List.nil_append, Nat.add_zero] at hc hb ⊢
      have hc1 : CodeAt prog (pc + 1) code1 := hc.left.right.cast (by addr)
      obtain ⟨hle, ih⟩ := sim3_visit c n nS br hlen e false (pc + 1) nsv gix code1 _ prog hok h3e hb hc1 hnn
      refine ⟨hle, fun hnS cm _ => ?_⟩
      have hfail : prog[pc + 1 + code1.length]? = some .failNegLook := hc.right.head_at (by addr)
      have hsplit : prog[pc]? = some (.split (pc + 1) (pc + 1 + code1.length + 1)) := hc.left.left.head
      have := sim2_sem_aheadNeg (cm := cm) (e := e) (m := pc + 1 + code1.length) hsplit hfail (ih hnS true (Or.inr rfl))
      have := this.balTo (b2 := condFree (.look e .aheadNeg)) (fun _ => rfl)
      exact this.cast rfl (by addr)
  | .look e .behind, hard, pc, nsv, gix, code, nsv', prog, hok, h3, hv, hc, hnn => by
    rw [s3ok] at hok
    simp only [isHard, Bool.not_true, Bool.and_false, Bool.false_eq_true, ↓reduceIte, Bool.and_eq_true] at hok
    obtain ⟨⟨hoke, hcf⟩, hz⟩ := hok
    have h3e := h3.look
    have hw := h3e.ws
    cases hia : isAlt e with
    | false =>
      have hna' := isAlt_false_ne e hia
      by_cases hcs : constSize e = true
      · rw [C13_accept_behind_const br e hna' hcs] at hv
        cases hb : visit br e false (posLookBodyPc (isHard br e) true pc) (nsv + 1) gix with
        | error err => simp [hb] at hv
        | ok p =>
          obtain ⟨code1, nsv1⟩ := p
          simp only [hb, Except.ok.injEq, Prod.mk.injEq] at hv
          obtain ⟨rfl, rfl⟩ := hv
          have ih := sim3_visit c n nS br hlen e false _ (nsv + 1) gix code1 _ prog hoke h3e hb
            (wrapPosLook_body_codeAt hc) (by omega)
          obtain ⟨hle, hs⟩ := sim3_posBehind_wrap c n nS br hlen e pc nsv gix code1 _ prog h3e hcf hb hc hnn ih
          refine ⟨by omega, fun hnS cm _ => ?_⟩
          simp only [condFree, hcf]
          exact (hs hnS cm).congrGood (fun st hg => sem_behind_one c n e hna' hw hcs hz st hg (by omega))
      · have hcs' : constSize e = false := by simpa using hcs
        rw [C13_accept_behind_not_const br e hna' hcs'] at hv
        cases hv
    | true =>
      -- alternation body
      obtain ⟨es, rfl⟩ := isAlt_true e hia
      have hL := h3e.alt
      have hwA := wellShaped_alt hw
      have hcfA : condFreeAll es = true := by simpa only [condFree] using hcf
      have hzA : noBareEndZAll es = true := by simpa only [noBareEndZ] using hz
      rw [visit] at hv
      simp only [isHard, Bool.not_true, Bool.and_false, Bool.false_eq_true, ↓reduceIte] at hv
      by_cases hcs : constSize (.alt es) = true
      · -- all alternatives of one size: the ordinary layout around the code of the alternation
        simp only [hcs, Bool.not_true, Bool.false_eq_true, ↓reduceIte] at hv
        rw [visitAltBody_eq_visit, show isHardAny br es = isHard br (.alt es) by simp only [isHard],
          ← minSize_alt es] at hv
        cases hb : visit br (.alt es) false (posLookBodyPc (isHard br (.alt es)) true pc) (nsv + 1) gix with
        | error err => simp [hb] at hv
        | ok p =>
          obtain ⟨code1, nsv1⟩ := p
          simp only [hb, Except.ok.injEq, Prod.mk.injEq] at hv
          obtain ⟨rfl, rfl⟩ := hv
          have ih := sim3_visit c n nS br hlen (.alt es) false _ (nsv + 1) gix code1 _ prog hoke h3e hb
            (wrapPosLook_body_codeAt hc) (by omega)
          obtain ⟨hle, hs⟩ := sim3_posBehind_wrap c n nS br hlen (.alt es) pc nsv gix code1 _ prog h3e hcf hb hc hnn ih
          refine ⟨by omega, fun hnS cm _ => ?_⟩
          simp only [condFree, hcfA]
          exact (hs hnS cm).congrGood (fun st hg => sem_behind_alt_const c n es hwA.2 hcs hzA st hg (by omega))
      · -- alternatives of different sizes: an atomic group around an alternation of look-behinds
        have hcs' : constSize (.alt es) = false := by simpa using hcs
        simp only [hcs', Bool.not_false, ↓reduceIte] at hv
        cases hb : lookBehindAlts br es (pc + 1) nsv gix with
        | error err => simp [hb] at hv
        | ok p =>
          obtain ⟨f, endPc, nsv1⟩ := p
          simp only [hb, Except.ok.injEq, Prod.mk.injEq] at hv
          obtain ⟨rfl, rfl⟩ := hv
          have hlenf := lookBehindAlts_len br es (pc + 1) nsv gix f endPc _ hb endPc
          have hcA := lookBehindAlts_ok_const br es _ _ _ _ hb
          have hcb : CodeAt prog (pc + 1) (f endPc) := hc.left.right.cast (by addr)
          obtain ⟨hle, hsim⟩ := sim3_lookBehindAlts c n nS br hlen es (pc + 1) nsv gix f endPc _ prog
            (s3ok_alt_alts br es hoke) hcfA hL (by intro h; simp [h] at hwA) hb hnn hcb
          refine ⟨hle, fun hnS cm _ => ?_⟩
          have hend : prog[endPc]? = some .endAtomic := hc.right.head_at (by addr)
          have := sim2_atomic (cm := cm) (a := pc) (m := endPc) hc.left.left.head hend (hsim hnS true)
          have := this.congrGood (g := sem c (.look (.alt es) .behind))
            (fun st hg => sem_behind_alt_diff c n es hwA.2 hcA hzA st hg (by omega))
          simp only [condFree, hcfA]
          exact this.cast rfl (by addr)
  | .look e .behindNeg, hard, pc, nsv, gix, code, nsv', prog, hok, h3, hv, hc, hnn => by
    rw [s3ok] at hok
    simp only [isHard, Bool.not_true, Bool.and_false, Bool.false_eq_true, ↓reduceIte, Bool.and_eq_true] at hok
    obtain ⟨hoke, hz⟩ := hok
    have h3e := h3.look
    have hw := h3e.ws
    cases hia : isAlt e with
    | false =>
      have hna' := isAlt_false_ne e hia
      by_cases hcs : constSize e = true
      · rw [C13_accept_behindNeg_const br e hna' hcs] at hv
        cases hb : visit br e false (negLookBodyPc true pc) nsv gix with
        | error err => simp [hb] at hv
        | ok p =>
          obtain ⟨code1, nsv1⟩ := p
          simp only [hb, Except.ok.injEq, Prod.mk.injEq] at hv
          obtain ⟨rfl, rfl⟩ := hv
          have ih := sim3_visit c n nS br hlen e false _ nsv gix code1 _ prog hoke h3e hb (wrapNegLook_body_codeAt hc) hnn
          obtain ⟨hle, hs⟩ := sim3_negBehind_wrap c n nS e pc nsv code1 _ prog hc ih
          refine ⟨hle, fun hnS cm _ => ?_⟩
          exact ((hs hnS cm).congrGood (fun st hg => sem_behindNeg_one c n e hna' hw hcs hz st hg (by omega))).balTo
            (fun _ => rfl)
      · have hcs' : constSize e = false := by simpa using hcs
        rw [C13_accept_behindNeg_not_const br e hna' hcs'] at hv
        cases hv
    | true =>
      obtain ⟨es, rfl⟩ := isAlt_true e hia
      have hL := h3e.alt
      have hwA := wellShaped_alt hw
      have hzA : noBareEndZAll es = true := by simpa only [noBareEndZ] using hz
      rw [visit] at hv
      simp only [isHard, Bool.not_true, Bool.and_false, Bool.false_eq_true, ↓reduceIte] at hv
      by_cases hcs : constSize (.alt es) = true
      · simp only [hcs, Bool.not_true, Bool.false_eq_true, ↓reduceIte] at hv
        rw [visitAltBody_eq_visit, ← minSize_alt es] at hv
        cases hb : visit br (.alt es) false (negLookBodyPc true pc) nsv gix with
        | error err => simp [hb] at hv
        | ok p =>
          obtain ⟨code1, nsv1⟩ := p
          simp only [hb, Except.ok.injEq, Prod.mk.injEq] at hv
          obtain ⟨rfl, rfl⟩ := hv
          have ih := sim3_visit c n nS br hlen (.alt es) false _ nsv gix code1 _ prog hoke h3e hb
            (wrapNegLook_body_codeAt hc) hnn
          obtain ⟨hle, hs⟩ := sim3_negBehind_wrap c n nS (.alt es) pc nsv code1 _ prog hc ih
          refine ⟨hle, fun hnS cm _ => ?_⟩
          exact ((hs hnS cm).congrGood (fun st hg => sem_behindNeg_alt_const c n es hwA.2 hcs hzA st hg (by omega))).balTo
            (fun _ => rfl)
      · -- alternatives of different sizes: a sequence of negative look-behinds
        have hcs' : constSize (.alt es) = false := by simpa using hcs
        simp only [hcs', Bool.not_false, ↓reduceIte] at hv
        have hcA := lookBehindNegAlts_ok_const br es _ _ _ _ hv
        obtain ⟨hle, hsim⟩ := sim3_lookBehindNegAlts c n nS br hlen es pc nsv gix code nsv' prog
          (s3ok_alt_alts br es hoke) hL hv hnn hc
        refine ⟨hle, fun hnS cm _ => ?_⟩
        exact ((hsim hnS cm).congrGood (fun st hg => sem_behindNeg_alt_diff c n es hwA.2 hcA hzA st hg (by omega))).balTo
          (fun _ => rfl)
  | .atomic e, hard, pc, nsv, gix, code, nsv', prog, hok, h3, hv, hc, hnn => by
    rw [s3ok] at hok
    simp only [isHard, Bool.not_true, Bool.and_false, Bool.false_eq_true, ↓reduceIte, Bool.and_eq_true] at hok
    rw [visit] at hv
    simp only [isHard, Bool.not_true, Bool.and_false, Bool.false_eq_true, ↓reduceIte] at hv
    cases hb : visit br e false (pc + 1) nsv gix with
    | error err => simp [hb] at hv
    | ok p =>
      obtain ⟨code1, nsv1⟩ := p
      simp only [hb, Except.ok.injEq, Prod.mk.injEq] at hv
      obtain ⟨rfl, rfl⟩ := hv
      have hc1 : CodeAt prog (pc + 1) code1 := hc.left.right.cast (by addr)
      obtain ⟨hle, ih⟩ := sim3_visit c n nS br hlen e false (pc + 1) nsv gix code1 _ prog hok.1 h3.atomic hb hc1 hnn
      refine ⟨hle, fun hnS cm _ => ?_⟩
      have hend : prog[pc + 1 + code1.length]? = some .endAtomic := hc.right.head_at (by addr)
      have hbody := ih hnS true (Or.inr rfl)
      rw [hok.2] at hbody
      have := sim2_sem_atomic (cm := cm) (e := e) (m := pc + 1 + code1.length) hc.left.left.head hend hbody
      simp only [condFree, hok.2]
      exact this.cast rfl (by addr)
  | .cond cnd y no, hard, pc, nsv, gix, code, nsv', prog, hok, h3, hv, hc, hnn => by
    rw [s3ok] at hok
    simp only [isHard, Bool.not_true, Bool.and_false, Bool.false_eq_true, ↓reduceIte, Bool.and_eq_true] at hok
    obtain ⟨h3c, h3y, h3n⟩ := h3.cond
    rw [visit] at hv
    simp only [isHard, Bool.not_true, Bool.and_false, Bool.false_eq_true, ↓reduceIte] at hv
    cases hb1 : visit br cnd hard (pc + 2) nsv gix with
    | error err => simp [hb1] at hv
    | ok p1 =>
      obtain ⟨cc, nsv1⟩ := p1
      simp only [hb1] at hv
      cases hb2 : visit br y hard (pc + 2 + cc.length + 1) nsv1 (gix + groupCount cnd) with
      | error err => simp [hb2] at hv
      | ok p2 =>
        obtain ⟨yc, nsv2⟩ := p2
        simp only [hb2] at hv
        cases hb3 : visit br no hard (pc + 2 + cc.length + 1 + yc.length + 1) nsv2 (gix + groupCount cnd + groupCount y) with
        | error err => simp [hb3] at hv
        | ok p3 =>
          obtain ⟨nc, nsv3⟩ := p3
          simp only [hb3, Except.ok.injEq, Prod.mk.injEq] at hv
          obtain ⟨rfl, rfl⟩ := hv
          have hcc : CodeAt prog (pc + 2) cc := hc.left.left.left.left.right.cast (by addr)
          have hcy : CodeAt prog (pc + 2 + cc.length + 1) yc := hc.left.left.right.cast (by addr)
          have hcn : CodeAt prog (pc + 2 + cc.length + 1 + yc.length + 1) nc := hc.right.cast (by addr)
          obtain ⟨hle1, ih1⟩ := sim3_visit c n nS br hlen cnd hard (pc + 2) nsv gix cc _ prog hok.1.1.1 h3c hb1 hcc hnn
          obtain ⟨hle2, ih2⟩ := sim3_visit c n nS br hlen y hard _ nsv1 _ yc _ prog hok.1.2 h3y hb2 hcy (by omega)
          obtain ⟨hle3, ih3⟩ := sim3_visit c n nS br hlen no hard _ nsv2 _ nc _ prog hok.2 h3n hb3 hcn (by omega)
          refine ⟨by omega, fun hnS cm hcm => ?_⟩
          have hbegin : prog[pc]? = some .beginAtomic := hc.left.left.left.left.left.head
          have hsplit : prog[pc + 1]? = some (.split (pc + 2) (pc + 2 + cc.length + 1 + yc.length + 1)) :=
            hc.left.left.left.left.left.tail.head
          have hend : prog[pc + 2 + cc.length]? = some .endAtomic := hc.left.left.left.right.head_at (by addr)
          have hjmp : prog[pc + 2 + cc.length + 1 + yc.length]? =
              some (.jmp (pc + 2 + cc.length + 1 + yc.length + 1 + nc.length)) := hc.left.right.head_at (by addr)
          have hcond := ih1 (by omega) true (Or.inr rfl)
          rw [hok.1.1.2] at hcond
          have := sim2_cond_sem (cm := cm) (cnd := cnd) (y := y) (no := no)
            (e1 := pc + 2 + cc.length) (e2 := pc + 2 + cc.length + 1 + yc.length)
            (endPc := pc + 2 + cc.length + 1 + yc.length + 1 + nc.length)
            hbegin (by simpa [Nat.add_assoc] using hsplit) hend hjmp hcond (ih2 (by omega) cm hcm) (ih3 hnS cm hcm)
            (by omega) (by omega) (by omega) hle1 hle2 hle3
          simp only [condFree]
          exact this.cast rfl (by addr)
termination_by e => sizeOf e
decreasing_by all_goals (simp_wf; try (first | omega | (subst_vars; simp; try omega)))
theorem sim3_visitMiddle (c : Ctx) (n nS : Nat) (br : Nat → Bool) (hlen : c.len < UNSET) :
    ∀ (es : List Expr) (take pc nsv gix : Nat) (code : Code) (nsv' : Nat) (prog : List Insn),
      s3okAll br es = true → H3L n es gix →
      visitMiddle br es 0 take pc nsv gix = .ok (code, nsv') → CodeAt prog pc code → n ≤ nsv →
      SimOf3 c n nS prog nsv nsv' (condFreeAll (es.take take)) true (semConcat c (es.take take)) pc (pc + code.length)
  | [], take, pc, nsv, gix, code, nsv', prog, _, _, hv, _, _ => by
    simp only [visitMiddle, Except.ok.injEq, Prod.mk.injEq] at hv
    obtain ⟨rfl, rfl⟩ := hv
    exact SimOf3.leaf fun cm => by
      simpa [semConcat] using (Sim2.nil c n nS prog nsv nsv _ cm pc).congr (fun st => by simp [semConcat])
  | e :: es, 0, pc, nsv, gix, code, nsv', prog, _, _, hv, _, _ => by
    simp only [visitMiddle, Except.ok.injEq, Prod.mk.injEq] at hv
    obtain ⟨rfl, rfl⟩ := hv
    exact SimOf3.leaf fun cm => by
      simpa [semConcat] using (Sim2.nil c n nS prog nsv nsv _ cm pc).congr (fun st => by simp [semConcat])
  | e :: es, take + 1, pc, nsv, gix, code, nsv', prog, hok, hL, hv, hc, hnn => by
    simp only [visitMiddle] at hv
    simp only [s3okAll, Bool.and_eq_true] at hok
    obtain ⟨h3e, hLs⟩ := hL.cons
    cases hb : visit br e true pc nsv gix with
    | error err => simp [hb] at hv
    | ok p =>
      obtain ⟨c1, nsv1⟩ := p
      simp only [hb] at hv
      cases hb2 : visitMiddle br es 0 take (pc + c1.length) nsv1 (gix + groupCount e) with
      | error err => simp [hb2] at hv
      | ok p2 =>
        obtain ⟨c2, nsv2⟩ := p2
        simp only [hb2, Except.ok.injEq, Prod.mk.injEq] at hv
        obtain ⟨rfl, rfl⟩ := hv
        obtain ⟨hle1, s1⟩ := sim3_visit c n nS br hlen e true pc nsv gix c1 nsv1 prog hok.1 h3e hb hc.left hnn
        obtain ⟨hle2, s2⟩ := sim3_visitMiddle c n nS br hlen es take (pc + c1.length) nsv1 _ c2 _ prog hok.2 hLs hb2
          hc.right (by omega)
        refine ⟨by omega, fun hnS cm _ => ?_⟩
        have hbal : condFreeAll ((e :: es).take (take + 1)) = (condFree e && condFreeAll (es.take take)) := by
          simp [condFreeAll]
        rw [hbal]
        have s1' := (s1 (by omega) false (Or.inl rfl)).balTo (b2 := condFree e && condFreeAll (es.take take))
          (by intro h; simp only [Bool.and_eq_true] at h; exact h.1)
        have s2' := (s2 hnS cm (Or.inl rfl)).balTo (b2 := condFree e && condFreeAll (es.take take))
          (by intro h; simp only [Bool.and_eq_true] at h; exact h.2)
        have := (s1'.seq s2' (keepsGood_sem c n e) hle1 hle2 (by omega) (by omega)).congr
          (g := semConcat c ((e :: es).take (take + 1))) (fun st => by simp [semConcat])
        exact this.cast rfl (by addr)
termination_by es => sizeOf es
decreasing_by all_goals (simp_wf; try omega)
theorem sim3_visitAlt (c : Ctx) (n nS : Nat) (br : Nat → Bool) (hlen : c.len < UNSET) :
    ∀ (es : List Expr) (hard : Bool) (pc nsv gix : Nat) (f : Nat → Code) (endPc nsv' : Nat) (prog : List Insn),
      s3okAlts br es hard = true → H3L n es gix → es ≠ [] →
      visitAlt br es hard pc nsv gix = .ok (f, endPc, nsv') → n ≤ nsv →
      (CodeAt prog pc (f endPc) →
          SimOf3 c n nS prog nsv nsv' (condFreeAll es) hard (semAlt c es) pc endPc)
  | [], hard, pc, nsv, gix, f, endPc, nsv', prog, _, _, hne, hv, _ => absurd rfl hne
  | [e], hard, pc, nsv, gix, f, endPc, nsv', prog, hok, hL, _, hv, hnn => by
    simp only [visitAlt] at hv
    simp only [s3okAlts, Bool.and_eq_true] at hok
    obtain ⟨h3e, _⟩ := hL.cons
    cases hb : visit br e hard pc nsv gix with
    | error err => simp [hb] at hv
    | ok p =>
      obtain ⟨c1, nsv1⟩ := p
      simp only [hb, Except.ok.injEq, Prod.mk.injEq] at hv
      obtain ⟨rfl, rfl, rfl⟩ := hv
      intro hc
      obtain ⟨hle, ih⟩ := sim3_visit c n nS br hlen e hard pc nsv gix c1 nsv1 prog hok.1 h3e hb hc hnn
      refine ⟨hle, fun hnS cm hcm => ?_⟩
      simp only [condFreeAll, Bool.and_true]
      exact (ih hnS cm hcm).congr (fun st => by simp [semAlt])
  | e :: e2 :: es, hard, pc, nsv, gix, f, endPc, nsv', prog, hok, hL, _, hv, hnn => by
    simp only [visitAlt] at hv
    simp only [s3okAlts, Bool.and_eq_true] at hok
    obtain ⟨h3e, hLs⟩ := hL.cons
    cases hb : visit br e hard (pc + 1) nsv gix with
    | error err => simp [hb] at hv
    | ok p =>
      obtain ⟨c1, nsv1⟩ := p
      simp only [hb] at hv
      cases hb2 : visitAlt br (e2 :: es) hard (pc + 1 + c1.length + 1) nsv1 (gix + groupCount e) with
      | error err => simp [hb2] at hv
      | ok p2 =>
        obtain ⟨f2, endPc2, nsv2⟩ := p2
        simp only [hb2, Except.ok.injEq, Prod.mk.injEq] at hv
        obtain ⟨rfl, rfl, rfl⟩ := hv
        have hlen2 : ∀ t, pc + 1 + c1.length + 1 + (f2 t).length = endPc2 :=
          visitAlt_len br (e2 :: es) hard _ nsv1 _ f2 endPc2 nsv2 hb2
        intro hc
        have hc1 : CodeAt prog (pc + 1) c1 := hc.left.left.right.cast (by addr)
        have hcj : prog[pc + 1 + c1.length]? = some (.jmp _) := hc.left.right.head_at (by addr)
        have hc2 : CodeAt prog (pc + 1 + c1.length + 1) (f2 _) := hc.right.cast (by addr)
        obtain ⟨hle1, s1⟩ := sim3_visit c n nS br hlen e hard (pc + 1) nsv gix c1 nsv1 prog hok.1 h3e hb hc1 hnn
        obtain ⟨hle2, s2⟩ := sim3_visitAlt c n nS br hlen (e2 :: es) hard (pc + 1 + c1.length + 1) nsv1 _ f2 _ _ prog
          (by simp [s3okAlts, hok.2.1, hok.2.2]) hLs (by simp) hb2 (by omega) hc2
        refine ⟨by omega, fun hnS cm hcm => ?_⟩
        have hsplit : prog[pc]? = some (.split (pc + 1) (pc + 1 + c1.length + 1)) := hc.left.left.left.head
        have hbal : condFreeAll (e :: e2 :: es) = (condFree e && condFreeAll (e2 :: es)) := by simp [condFreeAll]
        rw [hbal]
        have s1' := ((s1 (by omega) cm hcm).widen (Nat.le_refl nsv) hle2).balTo (b2 := condFree e && condFreeAll (e2 :: es))
          (by intro h; simp only [Bool.and_eq_true] at h; exact h.1)
        have s2' := ((s2 hnS cm hcm).widen hle1 (Nat.le_refl _)).balTo (b2 := condFree e && condFreeAll (e2 :: es))
          (by intro h; simp only [Bool.and_eq_true] at h; exact h.2)
        have := Sim2.alt2 (m := pc + 1 + c1.length) hsplit hcj (by simpa using s1') s2' (by omega) (by have := hlen2 endPc2; omega)
        exact this.congr (fun st => by simp [semAlt])
termination_by es => sizeOf es
decreasing_by all_goals (simp_wf; try omega)
theorem sim3_lookBehindAlts (c : Ctx) (n nS : Nat) (br : Nat → Bool) (hlen : c.len < UNSET) :
    ∀ (es : List Expr) (pc nsv gix : Nat) (f : Nat → Code) (endPc nsv' : Nat) (prog : List Insn),
      s3okAlts br es false = true → condFreeAll es = true → H3L n es gix → es ≠ [] →
      lookBehindAlts br es pc nsv gix = .ok (f, endPc, nsv') → n ≤ nsv → CodeAt prog pc (f endPc) →
      nsv ≤ nsv' ∧ (nsv' ≤ nS → ∀ cm, Sim2 c n nS prog nsv nsv' true cm (posBehindAlts c es) pc endPc)
  | [], pc, nsv, gix, f, endPc, nsv', prog, _, _, _, hne, _, _, _ => absurd rfl hne
  | [e], pc, nsv, gix, f, endPc, nsv', prog, hok, hcf, hL, _, hv, hnn, hc => by
    simp only [lookBehindAlts] at hv
    simp only [s3okAlts, Bool.and_eq_true] at hok
    simp only [condFreeAll, Bool.and_eq_true] at hcf
    obtain ⟨h3e, _⟩ := hL.cons
    by_cases hcs : constSize e = true
    · simp only [hcs, Bool.not_true, Bool.false_eq_true, ↓reduceIte] at hv
      cases hb : visit br e false (posLookBodyPc (isHard br e) true pc) (nsv + 1) gix with
      | error err => simp [hb] at hv
      | ok p =>
        obtain ⟨c1, nsv1⟩ := p
        simp only [hb, Except.ok.injEq, Prod.mk.injEq] at hv
        obtain ⟨rfl, rfl, rfl⟩ := hv
        have ih := sim3_visit c n nS br hlen e false _ (nsv + 1) gix c1 nsv1 prog hok.1 h3e hb
          (wrapPosLook_body_codeAt hc) (by omega)
        obtain ⟨hle, hs⟩ := sim3_posBehind_wrap c n nS br hlen e pc nsv gix c1 nsv1 prog h3e hcf.1 hb hc hnn ih
        refine ⟨by omega, fun hnS cm => ?_⟩
        exact (hs hnS cm).congr (fun st => by simp [posBehindAlts])
    · simp [hcs] at hv
  | e :: e2 :: es, pc, nsv, gix, f, endPc, nsv', prog, hok, hcf, hL, _, hv, hnn, hc => by
    simp only [lookBehindAlts] at hv
    simp only [s3okAlts, Bool.and_eq_true] at hok
    simp only [condFreeAll, Bool.and_eq_true] at hcf
    obtain ⟨h3e, hLs⟩ := hL.cons
    by_cases hcs : constSize e = true
    · simp only [hcs, Bool.not_true, Bool.false_eq_true, ↓reduceIte] at hv
      cases hb : visit br e false (posLookBodyPc (isHard br e) true (pc + 1)) (nsv + 1) gix with
      | error err => simp [hb] at hv
      | ok p =>
        obtain ⟨c1, nsv1⟩ := p
        simp only [hb] at hv
        cases hb2 : lookBehindAlts br (e2 :: es)
            (pc + 1 + (wrapPosLook (isHard br e) true nsv (minSize e) c1).length + 1) nsv1 (gix + groupCount e) with
        | error err => simp [hb2] at hv
        | ok p2 =>
          obtain ⟨f2, endPc2, nsv2⟩ := p2
          simp only [hb2, Except.ok.injEq, Prod.mk.injEq] at hv
          obtain ⟨rfl, rfl, rfl⟩ := hv
          have hlen2 := lookBehindAlts_len br (e2 :: es) _ nsv1 _ f2 endPc2 nsv2 hb2 endPc2
          have hcW : CodeAt prog (pc + 1) (wrapPosLook (isHard br e) true nsv (minSize e) c1) :=
            hc.left.left.right.cast (by addr)
          have hcj : prog[pc + 1 + (wrapPosLook (isHard br e) true nsv (minSize e) c1).length]? = some (.jmp endPc2) :=
            hc.left.right.head_at (by addr)
          have hc2 : CodeAt prog (pc + 1 + (wrapPosLook (isHard br e) true nsv (minSize e) c1).length + 1) (f2 endPc2) :=
            hc.right.cast (by addr)
          have ih := sim3_visit c n nS br hlen e false _ (nsv + 1) gix c1 nsv1 prog hok.1 h3e hb
            (wrapPosLook_body_codeAt hcW) (by omega)
          obtain ⟨hle1, s1⟩ := sim3_posBehind_wrap c n nS br hlen e (pc + 1) nsv gix c1 nsv1 prog h3e hcf.1 hb hcW hnn ih
          obtain ⟨hle2, s2⟩ := sim3_lookBehindAlts c n nS br hlen (e2 :: es) _ nsv1 _ f2 endPc2 nsv2 prog
            (by simp [s3okAlts, hok.2.1, hok.2.2]) (by simp [condFreeAll, hcf.2.1, hcf.2.2]) hLs (by simp) hb2 (by omega) hc2
          refine ⟨by omega, fun hnS cm => ?_⟩
          have hsplit : prog[pc]? = some (.split (pc + 1)
              (pc + 1 + (wrapPosLook (isHard br e) true nsv (minSize e) c1).length + 1)) := hc.left.left.left.head
          have s1' := (s1 (by omega) cm).widen (Nat.le_refl nsv) hle2
          have s2' := (s2 hnS cm).widen (show nsv ≤ nsv1 by omega) (Nat.le_refl _)
          have := Sim2.alt2 (m := pc + 1 + (wrapPosLook (isHard br e) true nsv (minSize e) c1).length) hsplit hcj s1' s2'
            (by omega) (by omega)
          exact this.congr (fun st => by simp [posBehindAlts])
    · simp [hcs] at hv
termination_by es => sizeOf es
decreasing_by all_goals (simp_wf; try omega)
theorem sim3_lookBehindNegAlts (c : Ctx) (n nS : Nat) (br : Nat → Bool) (hlen : c.len < UNSET) :
    ∀ (es : List Expr) (pc nsv gix : Nat) (code : Code) (nsv' : Nat) (prog : List Insn),
      s3okAlts br es false = true → H3L n es gix →
      lookBehindNegAlts br es pc nsv gix = .ok (code, nsv') → n ≤ nsv → CodeAt prog pc code →
      nsv ≤ nsv' ∧ (nsv' ≤ nS → ∀ cm, Sim2 c n nS prog nsv nsv' true cm (negBehindSeq c es) pc (pc + code.length))
  | [], pc, nsv, gix, code, nsv', prog, _, _, hv, _, _ => by
    simp only [lookBehindNegAlts, Except.ok.injEq, Prod.mk.injEq] at hv
    obtain ⟨rfl, rfl⟩ := hv
    exact ⟨Nat.le_refl _, fun _ cm => by
      simpa [negBehindSeq] using (Sim2.nil c n nS prog nsv nsv true cm pc).congr (g := negBehindSeq c [])
        (fun st => by simp [negBehindSeq])⟩
  | e :: es, pc, nsv, gix, code, nsv', prog, hok, hL, hv, hnn, hc => by
    simp only [lookBehindNegAlts] at hv
    simp only [s3okAlts, Bool.and_eq_true] at hok
    obtain ⟨h3e, hLs⟩ := hL.cons
    by_cases hcs : constSize e = true
    · simp only [hcs, Bool.not_true, Bool.false_eq_true, ↓reduceIte] at hv
      cases hb : visit br e false (negLookBodyPc true pc) nsv gix with
      | error err => simp [hb] at hv
      | ok p =>
        obtain ⟨c1, nsv1⟩ := p
        simp only [hb] at hv
        cases hb2 : lookBehindNegAlts br es (pc + (wrapNegLook true pc (minSize e) c1).length) nsv1 (gix + groupCount e) with
        | error err => simp [hb2] at hv
        | ok p2 =>
          obtain ⟨c2, nsv2⟩ := p2
          simp only [hb2, Except.ok.injEq, Prod.mk.injEq] at hv
          obtain ⟨rfl, rfl⟩ := hv
          have ih := sim3_visit c n nS br hlen e false _ nsv gix c1 nsv1 prog hok.1 h3e hb
            (wrapNegLook_body_codeAt hc.left) hnn
          obtain ⟨hle1, s1⟩ := sim3_negBehind_wrap c n nS e pc nsv c1 nsv1 prog hc.left ih
          obtain ⟨hle2, s2⟩ := sim3_lookBehindNegAlts c n nS br hlen es _ nsv1 _ c2 nsv2 prog hok.2 hLs hb2 (by omega) hc.right
          refine ⟨by omega, fun hnS cm => ?_⟩
          have := (s1 (by omega) false).seq (s2 hnS cm) (keepsGood_negBehindOne c n e) hle1 hle2 (by omega) (by omega)
          exact (this.congr (g := negBehindSeq c (e :: es)) (fun st => by simp [negBehindSeq])).cast rfl (by addr)
    · simp [hcs] at hv
termination_by es => sizeOf es
decreasing_by all_goals (simp_wf; try omega)
end

/-- the hypotheses of the look-behind companions `sim3_lookBehindAlts` / `sim3_lookBehindNegAlts` are
    satisfiable: the alternatives of `(?<=a|bb)` / `(?<!a|bb)` -/
example :
    let es : List Expr := [.literal ['a'] false, .concat [.literal ['b'] false, .literal ['b'] false]]
    s3okAlts (fun _ => false) es false = true ∧ condFreeAll es = true ∧ H3L 2 es 0 ∧ es ≠ [] ∧
      (∃ x, lookBehindAlts (fun _ => false) es 1 2 0 = .ok x) ∧
      (∃ x, lookBehindNegAlts (fun _ => false) es 0 2 0 = .ok x) := by
  refine ⟨by simp [s3okAlts, s3ok, isHard, isHardAny], by simp [condFreeAll, condFree],
    ⟨by simp [wellShapedAll, wellShaped], by simp [slotsBelowAll, slotsBelow],
      by simp [numberedList, renumberList, renumber], by simp [groupCountList, groupCount]⟩, by simp, ?_, ?_⟩
  · simp [lookBehindAlts, visit, isHard, isHardAny, constSize, constSizeAll]
  · simp [lookBehindNegAlts, visit, isHard, isHardAny, constSize, constSizeAll]

end Fancy
