import FancyModel.Lemmas.SimCompile3
import FancyModel.Proofs.C01b
/-!
# Every `Delegate` instruction the compiler emits stays inside the ordinary slots

The stage-S3 engine theorems (`C01_vm_correct_s3`, …) take the decidable hypothesis
`progDelegOK prog.nSaves prog.body` (Spec/Stage.lean). Here it is *proved* for every program the compiler
model emits from a numbered tree, hence for every program `build` returns:

* `visit_delegIn` (with its companions for `visitMiddle`, `visitAlt`, `lookBehindAlts`,
  `lookBehindNegAlts`): in the code of an expression numbered from `gix`, every `Delegate es sg eg` has
  `gix ≤ sg ≤ eg ≤ gix + groupCount e` and `slotsBelowAll (2 * eg) es`; besides, the compiler only ever
  allocates auxiliary slots (`nsv ≤ nsv'`). The pieces handed to the automata engine are never hard, so
  they contain no back-reference, `\K`, look-around, … (`pure_of_not_hard`): the only slots they touch
  are those of their own groups, which the numbering bounds (`numbered_groupsIn`);
* `visit_delegates` : the same in `∀ … ∈ code` form;
* `compile_progDelegOK`, `build_progDelegOK`: no hypothesis besides the numbering, which `build`
  establishes itself (`numbered_renumber`).
-/
namespace Fancy

/-! ## `slotsBelow` is monotone; a pure piece touches only the slots of its own groups -/

mutual
theorem slotsBelow_mono {n m : Nat} (h : n ≤ m) : ∀ (e : Expr), slotsBelow n e = true → slotsBelow m e = true
  | .group g e, hs => by
    simp only [slotsBelow, Bool.and_eq_true, decide_eq_true_eq] at hs ⊢
    exact ⟨by omega, slotsBelow_mono h e hs.2⟩
  | .backref g, hs => by simp only [slotsBelow, decide_eq_true_eq] at hs ⊢; omega
  | .backrefExists g, hs => by simp only [slotsBelow, decide_eq_true_eq] at hs ⊢; omega
  | .keepOut, hs => by simp only [slotsBelow, decide_eq_true_eq] at hs ⊢; omega
  | .concat es, hs => by simp only [slotsBelow] at hs ⊢; exact slotsBelowAll_mono h es hs
  | .alt es, hs => by simp only [slotsBelow] at hs ⊢; exact slotsBelowAll_mono h es hs
  | .repeat e _ _ _, hs => by simp only [slotsBelow] at hs ⊢; exact slotsBelow_mono h e hs
  | .look e _, hs => by simp only [slotsBelow] at hs ⊢; exact slotsBelow_mono h e hs
  | .atomic e, hs => by simp only [slotsBelow] at hs ⊢; exact slotsBelow_mono h e hs
  | .cond c y f, hs => by
    simp only [slotsBelow, Bool.and_eq_true] at hs ⊢
    exact ⟨⟨slotsBelow_mono h c hs.1.1, slotsBelow_mono h y hs.1.2⟩, slotsBelow_mono h f hs.2⟩
  | .empty, _ => by simp [slotsBelow]
  | .any _, _ => by simp [slotsBelow]
  | .assertion _, _ => by simp [slotsBelow]
  | .literal _ _, _ => by simp [slotsBelow]
  | .delegate _ _ _, _ => by simp [slotsBelow]
  | .contPrev, _ => by simp [slotsBelow]
  | .subroutine _, _ => by simp [slotsBelow]
theorem slotsBelowAll_mono {n m : Nat} (h : n ≤ m) : ∀ (es : List Expr), slotsBelowAll n es = true →
    slotsBelowAll m es = true
  | [], _ => by simp [slotsBelowAll]
  | e :: es, hs => by
    simp only [slotsBelowAll, Bool.and_eq_true] at hs ⊢
    exact ⟨slotsBelow_mono h e hs.1, slotsBelowAll_mono h es hs.2⟩
end

mutual
/-- a pure expression (no back-reference, `\K`, look-around, atomic group, conditional) whose groups are
    numbered below `eg` touches only slots below `2 * eg` -/
theorem slotsBelow_of_pure_groupsIn {sg eg : Nat} : ∀ (e : Expr), pureExpr e = true → groupsInE sg eg e = true →
    slotsBelow (2 * eg) e = true
  | .group g e, hp, hg => by
    simp only [pureExpr] at hp
    simp only [groupsInE, Bool.and_eq_true, decide_eq_true_eq] at hg
    simp only [slotsBelow, Bool.and_eq_true, decide_eq_true_eq]
    exact ⟨by omega, slotsBelow_of_pure_groupsIn e hp hg.2⟩
  | .concat es, hp, hg => by
    simp only [pureExpr] at hp; simp only [groupsInE] at hg; simp only [slotsBelow]
    exact slotsBelowAll_of_pure_groupsIn es hp hg
  | .alt es, hp, hg => by
    simp only [pureExpr] at hp; simp only [groupsInE] at hg; simp only [slotsBelow]
    exact slotsBelowAll_of_pure_groupsIn es hp hg
  | .repeat e _ _ _, hp, hg => by
    simp only [pureExpr] at hp; simp only [groupsInE] at hg; simp only [slotsBelow]
    exact slotsBelow_of_pure_groupsIn e hp hg
  | .look _ _, hp, _ => by simp [pureExpr] at hp
  | .atomic _, hp, _ => by simp [pureExpr] at hp
  | .cond _ _ _, hp, _ => by simp [pureExpr] at hp
  | .keepOut, hp, _ => by simp [pureExpr] at hp
  | .backref _, hp, _ => by simp [pureExpr] at hp
  | .contPrev, hp, _ => by simp [pureExpr] at hp
  | .backrefExists _, hp, _ => by simp [pureExpr] at hp
  | .empty, _, _ => by simp [slotsBelow]
  | .any _, _, _ => by simp [slotsBelow]
  | .assertion _, _, _ => by simp [slotsBelow]
  | .literal _ _, _, _ => by simp [slotsBelow]
  | .delegate _ _ _, _, _ => by simp [slotsBelow]
  | .subroutine _, _, _ => by simp [slotsBelow]
theorem slotsBelowAll_of_pure_groupsIn {sg eg : Nat} : ∀ (es : List Expr), pureAll es = true →
    groupsIn sg eg es = true → slotsBelowAll (2 * eg) es = true
  | [], _, _ => by simp [slotsBelowAll]
  | e :: es, hp, hg => by
    simp only [pureAll, Bool.and_eq_true] at hp
    simp only [groupsIn, Bool.and_eq_true] at hg
    simp only [slotsBelowAll, Bool.and_eq_true]
    exact ⟨slotsBelow_of_pure_groupsIn e hp.1 hg.1, slotsBelowAll_of_pure_groupsIn es hp.2 hg.2⟩
end

/-- an easy (not hard) expression numbered from `g` touches only the slots of its own groups -/
theorem slotsBelow_of_easy (br : Nat → Bool) (e : Expr) (g : Nat) (hn : numbered g e) (hh : isHard br e = false) :
    slotsBelow (2 * (g + groupCount e)) e = true :=
  slotsBelow_of_pure_groupsIn e (pure_of_not_hard br e hh) (numbered_groupsIn e g hn)

theorem slotsBelowAll_of_easy (br : Nat → Bool) (es : List Expr) (g : Nat) (hn : numberedList g es)
    (hh : isHardAny br es = false) : slotsBelowAll (2 * (g + groupCountList es)) es = true :=
  slotsBelowAll_of_pure_groupsIn es (pureAll_of_not_hard br es hh) (numberedList_groupsIn es g hn)

/-! ## The invariant of the compiler -/

/-- a `Delegate` instruction owns groups within `lo .. hi` and its expressions touch only slots below
    its own end group -/
def delegInsnIn (lo hi : Nat) : Insn → Bool
  | .delegate es sg eg =>
    decide (lo ≤ sg) && decide (sg ≤ eg) && decide (eg ≤ hi) && slotsBelowAll (2 * eg) es
  | _ => true

def delegIn (lo hi : Nat) (code : List Insn) : Bool := code.all (delegInsnIn lo hi)

theorem delegIn_nil (lo hi : Nat) : delegIn lo hi [] = true := rfl

theorem delegIn_cons (lo hi : Nat) (i : Insn) (code : List Insn) :
    delegIn lo hi (i :: code) = (delegInsnIn lo hi i && delegIn lo hi code) := by
  simp only [delegIn, List.all_cons]

theorem delegIn_append (lo hi : Nat) (a b : List Insn) :
    delegIn lo hi (a ++ b) = (delegIn lo hi a && delegIn lo hi b) := by
  simp only [delegIn, List.all_append]

theorem delegInsnIn_mono {lo lo' hi hi' : Nat} (h1 : lo' ≤ lo) (h2 : hi ≤ hi') (i : Insn) :
    delegInsnIn lo hi i = true → delegInsnIn lo' hi' i = true := by
  cases i with
  | delegate es sg eg =>
    simp only [delegInsnIn, Bool.and_eq_true, decide_eq_true_eq]
    rintro ⟨⟨⟨a, b⟩, c⟩, d⟩
    exact ⟨⟨⟨by omega, b⟩, by omega⟩, d⟩
  | _ => intro _; rfl

theorem delegIn_mono {lo lo' hi hi' : Nat} {code : List Insn} (h1 : lo' ≤ lo) (h2 : hi ≤ hi')
    (h : delegIn lo hi code = true) : delegIn lo' hi' code = true := by
  simp only [delegIn, List.all_eq_true] at h ⊢
  exact fun i hi => delegInsnIn_mono h1 h2 i (h i hi)

theorem delegIn_iff (lo hi : Nat) (code : List Insn) :
    delegIn lo hi code = true ↔
      ∀ es sg eg, Insn.delegate es sg eg ∈ code →
        lo ≤ sg ∧ sg ≤ eg ∧ eg ≤ hi ∧ slotsBelowAll (2 * eg) es = true := by
  simp only [delegIn, List.all_eq_true]
  constructor
  · intro h es sg eg hm
    have := h _ hm
    simp only [delegInsnIn, Bool.and_eq_true, decide_eq_true_eq] at this
    exact ⟨this.1.1.1, this.1.1.2, this.1.2, this.2⟩
  · intro h i hm
    cases i with
    | delegate es sg eg =>
      have := h es sg eg hm
      simp only [delegInsnIn, Bool.and_eq_true, decide_eq_true_eq]
      exact ⟨⟨⟨this.1, this.2.1⟩, this.2.2.1⟩, this.2.2.2⟩
    | _ => rfl

theorem delegIn_wrapPosLook (lo hi : Nat) (atomic behind : Bool) (slot k : Nat) (body : Code) :
    delegIn lo hi (wrapPosLook atomic behind slot k body) = delegIn lo hi body := by
  cases atomic <;> cases behind <;>
    simp [wrapPosLook, delegIn_append, delegIn_cons, delegIn_nil, delegInsnIn]

theorem delegIn_wrapNegLook (lo hi : Nat) (behind : Bool) (pc k : Nat) (body : Code) :
    delegIn lo hi (wrapNegLook behind pc k body) = delegIn lo hi body := by
  cases behind <;> simp [wrapNegLook, delegIn_append, delegIn_cons, delegIn_nil, delegInsnIn]

/-- `compile_delegate` of an easy expression -/
theorem delegIn_compileDelegate (br : Nat → Bool) (e : Expr) (gix : Nat) (hn : numbered gix e)
    (hh : isHard br e = false) : delegIn gix (gix + groupCount e) (compileDelegate e gix) = true := by
  unfold compileDelegate
  split
  · simp [delegIn_cons, delegIn_nil, delegInsnIn]
  · simp only [delegIn_cons, delegIn_nil, Bool.and_true, delegInsnIn, Bool.and_eq_true, decide_eq_true_eq,
      slotsBelowAll]
    exact ⟨⟨⟨Nat.le_refl _, by omega⟩, Nat.le_refl _⟩, slotsBelow_of_easy br e gix hn hh⟩

/-- `compile_delegates` of a run of easy expressions -/
theorem delegIn_compileDelegates (br : Nat → Bool) (es : List Expr) (gix : Nat) (hn : numberedList gix es)
    (hh : isHardAny br es = false) :
    delegIn gix (gix + groupCountList es) (compileDelegates es gix) = true := by
  unfold compileDelegates
  split
  · rfl
  · split
    · simp [delegIn_cons, delegIn_nil, delegInsnIn]
    · simp only [delegIn_cons, delegIn_nil, Bool.and_true, delegInsnIn, Bool.and_eq_true, decide_eq_true_eq]
      exact ⟨⟨⟨Nat.le_refl _, by omega⟩, Nat.le_refl _⟩, slotsBelowAll_of_easy br es gix hn hh⟩

/-- the whole expression handed over (non-hard context, easy expression) -/
theorem visit_easy_delegIn (br : Nat → Bool) (e : Expr) (hard : Bool) (pc nsv gix : Nat) (code : Code) (nsv' : Nat)
    (hn : numbered gix e) (hdel : (!hard && !isHard br e) = true)
    (hv : visit br e hard pc nsv gix = .ok (code, nsv')) :
    delegIn gix (gix + groupCount e) code = true ∧ nsv ≤ nsv' := by
  rw [visit_easy_eq br e hard pc nsv gix hdel] at hv
  simp only [Except.ok.injEq, Prod.mk.injEq] at hv
  obtain ⟨rfl, rfl⟩ := hv
  simp only [Bool.and_eq_true, Bool.not_eq_true'] at hdel
  exact ⟨delegIn_compileDelegate br e gix hn hdel.2, Nat.le_refl _⟩

/-! ## Induction over the compiler -/

mutual
theorem visit_delegIn (br : Nat → Bool) :
    ∀ (e : Expr) (hard : Bool) (pc nsv gix : Nat) (code : Code) (nsv' : Nat),
      numbered gix e → visit br e hard pc nsv gix = .ok (code, nsv') →
      delegIn gix (gix + groupCount e) code = true ∧ nsv ≤ nsv'
  | .empty, hard, pc, nsv, gix, code, nsv', hn, hv => by
    by_cases hdel : (!hard && !isHard br .empty) = true
    · exact visit_easy_delegIn br _ hard pc nsv gix code nsv' hn hdel hv
    · rw [visit] at hv
      simp only [hdel, Bool.false_eq_true, ↓reduceIte, Except.ok.injEq, Prod.mk.injEq] at hv
      obtain ⟨rfl, rfl⟩ := hv
      exact ⟨rfl, Nat.le_refl _⟩
  | .any nl, hard, pc, nsv, gix, code, nsv', hn, hv => by
    by_cases hdel : (!hard && !isHard br (.any nl)) = true
    · exact visit_easy_delegIn br _ hard pc nsv gix code nsv' hn hdel hv
    · cases nl <;>
      · rw [visit] at hv
        simp only [hdel, Bool.false_eq_true, ↓reduceIte, Except.ok.injEq, Prod.mk.injEq] at hv
        obtain ⟨rfl, rfl⟩ := hv
        exact ⟨rfl, Nat.le_refl _⟩
  | .assertion a, hard, pc, nsv, gix, code, nsv', hn, hv => by
    by_cases hdel : (!hard && !isHard br (.assertion a)) = true
    · exact visit_easy_delegIn br _ hard pc nsv gix code nsv' hn hdel hv
    · rw [visit] at hv
      simp only [hdel, Bool.false_eq_true, ↓reduceIte, Except.ok.injEq, Prod.mk.injEq] at hv
      obtain ⟨rfl, rfl⟩ := hv
      exact ⟨rfl, Nat.le_refl _⟩
  | .literal v ci, hard, pc, nsv, gix, code, nsv', hn, hv => by
    by_cases hdel : (!hard && !isHard br (.literal v ci)) = true
    · exact visit_easy_delegIn br _ hard pc nsv gix code nsv' hn hdel hv
    · rw [visit] at hv
      simp only [hdel, Bool.false_eq_true, ↓reduceIte] at hv
      cases ci with
      | false =>
        simp only [Bool.not_false, ↓reduceIte, Except.ok.injEq, Prod.mk.injEq] at hv
        obtain ⟨rfl, rfl⟩ := hv
        exact ⟨rfl, Nat.le_refl _⟩
      | true =>
        simp only [Bool.not_true, Bool.false_eq_true, ↓reduceIte, Except.ok.injEq, Prod.mk.injEq] at hv
        obtain ⟨rfl, rfl⟩ := hv
        exact ⟨delegIn_compileDelegate br _ gix hn (by simp [isHard]), Nat.le_refl _⟩
  | .delegate inner size ci, hard, pc, nsv, gix, code, nsv', hn, hv => by
    by_cases hdel : (!hard && !isHard br (.delegate inner size ci)) = true
    · exact visit_easy_delegIn br _ hard pc nsv gix code nsv' hn hdel hv
    · rw [visit] at hv
      simp only [hdel, Bool.false_eq_true, ↓reduceIte, Except.ok.injEq, Prod.mk.injEq] at hv
      obtain ⟨rfl, rfl⟩ := hv
      exact ⟨delegIn_compileDelegate br _ gix hn (by simp [isHard]), Nat.le_refl _⟩
  | .backref g, hard, pc, nsv, gix, code, nsv', _, hv => by
    rw [visit] at hv
    simp only [isHard, Bool.not_true, Bool.and_false, Bool.false_eq_true, ↓reduceIte, Except.ok.injEq, Prod.mk.injEq] at hv
    obtain ⟨rfl, rfl⟩ := hv
    exact ⟨rfl, Nat.le_refl _⟩
  | .backrefExists g, hard, pc, nsv, gix, code, nsv', _, hv => by
    rw [visit] at hv
    simp only [isHard, Bool.not_true, Bool.and_false, Bool.false_eq_true, ↓reduceIte, Except.ok.injEq, Prod.mk.injEq] at hv
    obtain ⟨rfl, rfl⟩ := hv
    exact ⟨rfl, Nat.le_refl _⟩
  | .keepOut, hard, pc, nsv, gix, code, nsv', _, hv => by
    rw [visit] at hv
    simp only [isHard, Bool.not_true, Bool.and_false, Bool.false_eq_true, ↓reduceIte, Except.ok.injEq, Prod.mk.injEq] at hv
    obtain ⟨rfl, rfl⟩ := hv
    exact ⟨rfl, Nat.le_refl _⟩
  | .contPrev, hard, pc, nsv, gix, code, nsv', _, hv => by
    rw [visit] at hv
    simp only [isHard, Bool.not_true, Bool.and_false, Bool.false_eq_true, ↓reduceIte, Except.ok.injEq, Prod.mk.injEq] at hv
    obtain ⟨rfl, rfl⟩ := hv
    exact ⟨rfl, Nat.le_refl _⟩
  | .subroutine g, hard, pc, nsv, gix, code, nsv', hn, hv => by
    by_cases hdel : (!hard && !isHard br (.subroutine g)) = true
    · exact visit_easy_delegIn br _ hard pc nsv gix code nsv' hn hdel hv
    · rw [visit] at hv
      simp only [hdel, Bool.false_eq_true, ↓reduceIte] at hv
      cases hv
  | .group g e, hard, pc, nsv, gix, code, nsv', hn, hv => by
    by_cases hdel : (!hard && !isHard br (.group g e)) = true
    · exact visit_easy_delegIn br _ hard pc nsv gix code nsv' hn hdel hv
    · rw [visit] at hv
      simp only [hdel, Bool.false_eq_true, ↓reduceIte] at hv
      cases hb : visit br e hard (pc + 1) nsv (gix + 1) with
      | error err => simp [hb] at hv
      | ok p =>
        obtain ⟨code1, nsv1⟩ := p
        simp only [hb, Except.ok.injEq, Prod.mk.injEq] at hv
        obtain ⟨rfl, rfl⟩ := hv
        obtain ⟨-, hne⟩ := (numbered_group gix g e).mp hn
        obtain ⟨ih, hle⟩ := visit_delegIn br e hard (pc + 1) nsv (gix + 1) code1 _ hne hb
        refine ⟨?_, hle⟩
        have ih' : delegIn gix (gix + groupCount (.group g e)) code1 = true :=
          delegIn_mono (by omega) (by simp only [groupCount]; omega) ih
        simp only [delegIn_append, delegIn_cons, delegIn_nil, delegInsnIn, ih', Bool.and_true]
  | .concat es, hard, pc, nsv, gix, code, nsv', hn, hv => by
    by_cases hdel : (!hard && !isHard br (.concat es)) = true
    · exact visit_easy_delegIn br _ hard pc nsv gix code nsv' hn hdel hv
    · rw [visit] at hv
      simp only [hdel, Bool.false_eq_true, ↓reduceIte] at hv
      have hL := (numbered_concat gix es).mp hn
      generalize hsp : concatSplit br es hard = sp at hv
      have hle := concatSplit_le br es hard
      rw [hsp] at hle
      rw [visitMiddle_skip] at hv
      cases hb : visitMiddle br (es.drop sp.1) 0 (sp.2 - sp.1)
          (pc + (compileDelegates (es.take sp.1) gix).length) nsv (gix + groupCountList (es.take sp.1)) with
      | error err => simp [hb] at hv
      | ok p =>
        obtain ⟨mid, nsv1⟩ := p
        simp only [hb, Except.ok.injEq, Prod.mk.injEq] at hv
        obtain ⟨rfl, rfl⟩ := hv
        have hsz := sizeOf_drop_le es sp.1
        obtain ⟨ihm, hle2⟩ := visitMiddle_delegIn br (es.drop sp.1) (sp.2 - sp.1) _ nsv _ mid nsv1
          (numberedList_drop gix es sp.1 hL) hb
        have hpre := delegIn_compileDelegates br (es.take sp.1) gix (numberedList_take gix es sp.1 hL)
          (by rw [← hsp]; exact concatSplit_prefix_isHardAny br es hard)
        have hsuf := delegIn_compileDelegates br (es.drop sp.2) (gix + groupCountList (es.take sp.2))
          (numberedList_drop gix es sp.2 hL) (by rw [← hsp]; exact concatSplit_suffix_isHardAny br es hard)
        have e1 := groupCountList_take_add_drop es sp.1
        have e2 := groupCountList_take_add_drop es sp.2
        refine ⟨?_, hle2⟩
        simp only [groupCount, delegIn_append, Bool.and_eq_true]
        exact ⟨⟨delegIn_mono (Nat.le_refl _) (by omega) hpre, delegIn_mono (by omega) (by omega) ihm⟩,
          delegIn_mono (by omega) (by omega) hsuf⟩
  | .alt es, hard, pc, nsv, gix, code, nsv', hn, hv => by
    by_cases hdel : (!hard && !isHard br (.alt es)) = true
    · exact visit_easy_delegIn br _ hard pc nsv gix code nsv' hn hdel hv
    · rw [visit] at hv
      simp only [hdel, Bool.false_eq_true, ↓reduceIte] at hv
      cases hb : visitAlt br es hard pc nsv gix with
      | error err => simp [hb] at hv
      | ok p =>
        obtain ⟨f, endPc, nsv1⟩ := p
        simp only [hb, Except.ok.injEq, Prod.mk.injEq] at hv
        obtain ⟨rfl, rfl⟩ := hv
        obtain ⟨ih, hle⟩ := visitAlt_delegIn br es hard pc nsv gix f endPc _ ((numbered_alt gix es).mp hn) hb
        exact ⟨by simpa only [groupCount] using ih endPc, hle⟩
  | .repeat e lo hi greedy, hard, pc, nsv, gix, code, nsv', hn, hv => by
    by_cases hdel : (!hard && !isHard br (.repeat e lo hi greedy)) = true
    · exact visit_easy_delegIn br _ hard pc nsv gix code nsv' hn hdel hv
    · have hne := (numbered_repeat gix e lo hi greedy).mp hn
      rw [visit] at hv
      simp only [hdel, Bool.false_eq_true, ↓reduceIte] at hv
      simp only [groupCount]
      by_cases hopt : (lo == 0 && hi == some 1) = true
      · simp only [hopt, ↓reduceIte] at hv
        cases hb : visit br e hard (pc + 1) nsv gix with
        | error err => simp [hb] at hv
        | ok p =>
          obtain ⟨code1, nsv1⟩ := p
          simp only [hb, Except.ok.injEq, Prod.mk.injEq] at hv
          obtain ⟨rfl, rfl⟩ := hv
          obtain ⟨ih, hle⟩ := visit_delegIn br e hard (pc + 1) nsv gix code1 _ hne hb
          refine ⟨?_, hle⟩
          cases greedy <;> simp [delegIn_cons, delegInsnIn, ih]
      · simp only [hopt, Bool.false_eq_true, ↓reduceIte] at hv
        generalize (hard || isHard br (.repeat e lo hi greedy)) = hard' at hv
        by_cases heps : (hi == none && minSize e == 0) = true
        · simp only [heps, ↓reduceIte] at hv
          cases hb : visit br e hard' (pc + 2) (nsv + 2) gix with
          | error err => simp [hb] at hv
          | ok p =>
            obtain ⟨code1, nsv1⟩ := p
            simp only [hb, Except.ok.injEq, Prod.mk.injEq] at hv
            obtain ⟨rfl, rfl⟩ := hv
            obtain ⟨ih, hle⟩ := visit_delegIn br e hard' (pc + 2) (nsv + 2) gix code1 _ hne hb
            refine ⟨?_, by omega⟩
            cases greedy <;> simp [delegIn_append, delegIn_cons, delegIn_nil, delegInsnIn, ih]
        · simp only [heps, Bool.false_eq_true, ↓reduceIte] at hv
          by_cases hstar : (lo == 0 && hi == none) = true
          · simp only [hstar, ↓reduceIte] at hv
            cases hb : visit br e hard' (pc + 1) nsv gix with
            | error err => simp [hb] at hv
            | ok p =>
              obtain ⟨code1, nsv1⟩ := p
              simp only [hb, Except.ok.injEq, Prod.mk.injEq] at hv
              obtain ⟨rfl, rfl⟩ := hv
              obtain ⟨ih, hle⟩ := visit_delegIn br e hard' (pc + 1) nsv gix code1 _ hne hb
              refine ⟨?_, hle⟩
              cases greedy <;> simp [delegIn_append, delegIn_cons, delegIn_nil, delegInsnIn, ih]
          · simp only [hstar, Bool.false_eq_true, ↓reduceIte] at hv
            by_cases hplus : (lo == 1 && hi == none) = true
            · simp only [hplus, ↓reduceIte] at hv
              cases hb : visit br e hard' pc nsv gix with
              | error err => simp [hb] at hv
              | ok p =>
                obtain ⟨code1, nsv1⟩ := p
                simp only [hb, Except.ok.injEq, Prod.mk.injEq] at hv
                obtain ⟨rfl, rfl⟩ := hv
                obtain ⟨ih, hle⟩ := visit_delegIn br e hard' pc nsv gix code1 _ hne hb
                refine ⟨?_, hle⟩
                cases greedy <;> simp [delegIn_append, delegIn_cons, delegIn_nil, delegInsnIn, ih]
            · simp only [hplus, Bool.false_eq_true, ↓reduceIte] at hv
              cases hb : visit br e hard' (pc + 2) (nsv + 1) gix with
              | error err => simp [hb] at hv
              | ok p =>
                obtain ⟨code1, nsv1⟩ := p
                simp only [hb, Except.ok.injEq, Prod.mk.injEq] at hv
                obtain ⟨rfl, rfl⟩ := hv
                obtain ⟨ih, hle⟩ := visit_delegIn br e hard' (pc + 2) (nsv + 1) gix code1 _ hne hb
                refine ⟨?_, by omega⟩
                cases greedy <;> simp [delegIn_append, delegIn_cons, delegIn_nil, delegInsnIn, ih]
  | .look e .ahead, hard, pc, nsv, gix, code, nsv', hn, hv => by
    have hne := (numbered_look gix e _).mp hn
    rw [visit] at hv
    simp only [isHard, Bool.not_true, Bool.and_false, Bool.false_eq_true, ↓reduceIte] at hv
    cases hb : visit br e false (posLookBodyPc (isHard br e) false pc) (nsv + 1) gix with
    | error err => simp [hb] at hv
    | ok p =>
      obtain ⟨code1, nsv1⟩ := p
      simp only [hb, Except.ok.injEq, Prod.mk.injEq] at hv
      obtain ⟨rfl, rfl⟩ := hv
      obtain ⟨ih, hle⟩ := visit_delegIn br e false _ (nsv + 1) gix code1 _ hne hb
      refine ⟨?_, by omega⟩
      simp only [groupCount, delegIn_wrapPosLook]
      exact ih
  | .look e .aheadNeg, hard, pc, nsv, gix, code, nsv', hn, hv => by
    have hne := (numbered_look gix e _).mp hn
    rw [visit] at hv
    simp only [isHard, Bool.not_true, Bool.and_false, Bool.false_eq_true, ↓reduceIte] at hv
    cases hb : visit br e false (negLookBodyPc false pc) nsv gix with
    | error err => simp [hb] at hv
    | ok p =>
      obtain ⟨code1, nsv1⟩ := p
      simp only [hb, Except.ok.injEq, Prod.mk.injEq] at hv
      obtain ⟨rfl, rfl⟩ := hv
      obtain ⟨ih, hle⟩ := visit_delegIn br e false _ nsv gix code1 _ hne hb
      refine ⟨?_, hle⟩
      simp only [groupCount, delegIn_wrapNegLook]
      exact ih
  | .look e .behind, hard, pc, nsv, gix, code, nsv', hn, hv => by
    have hne := (numbered_look gix e _).mp hn
    cases hia : isAlt e with
    | false =>
      have hna' := isAlt_false_ne e hia
      by_cases hcs : constSize e = true
      · rw [C13_accept_behind_const br e hna' hcs] at hv
        cases hb : visit br e false (posLookBodyPc (isHard br e) true pc) (nsv + 1) gix with
        | error err => simp [hb] at hv
        | ok p =>
          obtain ⟨code1, nsv1⟩ := p
          simp only [hb, Except.ok.injEq, Prod.mk.injEq] at hv
          obtain ⟨rfl, rfl⟩ := hv
          obtain ⟨ih, hle⟩ := visit_delegIn br e false _ (nsv + 1) gix code1 _ hne hb
          refine ⟨?_, by omega⟩
          simp only [groupCount, delegIn_wrapPosLook]
          exact ih
      · have hcs' : constSize e = false := by simpa using hcs
        rw [C13_accept_behind_not_const br e hna' hcs'] at hv
        cases hv
    | true =>
      obtain ⟨es, rfl⟩ := isAlt_true e hia
      rw [visit] at hv
      simp only [isHard, Bool.not_true, Bool.and_false, Bool.false_eq_true, ↓reduceIte] at hv
      by_cases hcs : constSize (.alt es) = true
      · simp only [hcs, Bool.not_true, Bool.false_eq_true, ↓reduceIte] at hv
        rw [visitAltBody_eq_visit] at hv
        cases hb : visit br (.alt es) false (posLookBodyPc (isHardAny br es) true pc) (nsv + 1) gix with
        | error err => simp [hb] at hv
        | ok p =>
          obtain ⟨code1, nsv1⟩ := p
          simp only [hb, Except.ok.injEq, Prod.mk.injEq] at hv
          obtain ⟨rfl, rfl⟩ := hv
          obtain ⟨ih, hle⟩ := visit_delegIn br (.alt es) false _ (nsv + 1) gix code1 _ hne hb
          refine ⟨?_, by omega⟩
          simp only [groupCount, delegIn_wrapPosLook] at ih ⊢
          exact ih
      · have hcs' : constSize (.alt es) = false := by simpa using hcs
        simp only [hcs', Bool.not_false, ↓reduceIte] at hv
        cases hb : lookBehindAlts br es (pc + 1) nsv gix with
        | error err => simp [hb] at hv
        | ok p =>
          obtain ⟨f, endPc, nsv1⟩ := p
          simp only [hb, Except.ok.injEq, Prod.mk.injEq] at hv
          obtain ⟨rfl, rfl⟩ := hv
          obtain ⟨ih, hle⟩ := lookBehindAlts_delegIn br es (pc + 1) nsv gix f endPc _ ((numbered_alt gix es).mp hne) hb
          refine ⟨?_, hle⟩
          simp only [groupCount, delegIn_append, delegIn_cons, delegIn_nil, delegInsnIn, ih endPc, Bool.and_true]
  | .look e .behindNeg, hard, pc, nsv, gix, code, nsv', hn, hv => by
    have hne := (numbered_look gix e _).mp hn
    cases hia : isAlt e with
    | false =>
      have hna' := isAlt_false_ne e hia
      by_cases hcs : constSize e = true
      · rw [C13_accept_behindNeg_const br e hna' hcs] at hv
        cases hb : visit br e false (negLookBodyPc true pc) nsv gix with
        | error err => simp [hb] at hv
        | ok p =>
          obtain ⟨code1, nsv1⟩ := p
          simp only [hb, Except.ok.injEq, Prod.mk.injEq] at hv
          obtain ⟨rfl, rfl⟩ := hv
          obtain ⟨ih, hle⟩ := visit_delegIn br e false _ nsv gix code1 _ hne hb
          refine ⟨?_, hle⟩
          simp only [groupCount, delegIn_wrapNegLook]
          exact ih
      · have hcs' : constSize e = false := by simpa using hcs
        rw [C13_accept_behindNeg_not_const br e hna' hcs'] at hv
        cases hv
    | true =>
      obtain ⟨es, rfl⟩ := isAlt_true e hia
      rw [visit] at hv
      simp only [isHard, Bool.not_true, Bool.and_false, Bool.false_eq_true, ↓reduceIte] at hv
      by_cases hcs : constSize (.alt es) = true
      · simp only [hcs, Bool.not_true, Bool.false_eq_true, ↓reduceIte] at hv
        rw [visitAltBody_eq_visit] at hv
        cases hb : visit br (.alt es) false (negLookBodyPc true pc) nsv gix with
        | error err => simp [hb] at hv
        | ok p =>
          obtain ⟨code1, nsv1⟩ := p
          simp only [hb, Except.ok.injEq, Prod.mk.injEq] at hv
          obtain ⟨rfl, rfl⟩ := hv
          obtain ⟨ih, hle⟩ := visit_delegIn br (.alt es) false _ nsv gix code1 _ hne hb
          refine ⟨?_, hle⟩
          simp only [groupCount, delegIn_wrapNegLook] at ih ⊢
          exact ih
      · have hcs' : constSize (.alt es) = false := by simpa using hcs
        simp only [hcs', Bool.not_false, ↓reduceIte] at hv
        obtain ⟨ih, hle⟩ := lookBehindNegAlts_delegIn br es pc nsv gix code nsv' ((numbered_alt gix es).mp hne) hv
        exact ⟨by simpa only [groupCount] using ih, hle⟩
  | .atomic e, hard, pc, nsv, gix, code, nsv', hn, hv => by
    have hne := (numbered_atomic gix e).mp hn
    rw [visit] at hv
    simp only [isHard, Bool.not_true, Bool.and_false, Bool.false_eq_true, ↓reduceIte] at hv
    cases hb : visit br e false (pc + 1) nsv gix with
    | error err => simp [hb] at hv
    | ok p =>
      obtain ⟨code1, nsv1⟩ := p
      simp only [hb, Except.ok.injEq, Prod.mk.injEq] at hv
      obtain ⟨rfl, rfl⟩ := hv
      obtain ⟨ih, hle⟩ := visit_delegIn br e false (pc + 1) nsv gix code1 _ hne hb
      refine ⟨?_, hle⟩
      simp only [groupCount, delegIn_append, delegIn_cons, delegIn_nil, delegInsnIn, ih, Bool.and_true]
  | .cond cnd y no, hard, pc, nsv, gix, code, nsv', hn, hv => by
    obtain ⟨hnc, hny, hnn⟩ := (numbered_cond gix cnd y no).mp hn
    rw [visit] at hv
    simp only [isHard, Bool.not_true, Bool.and_false, Bool.false_eq_true, ↓reduceIte] at hv
    cases hb1 : visit br cnd hard (pc + 2) nsv gix with
    | error err => simp [hb1] at hv
    | ok p1 =>
      obtain ⟨cc, nsv1⟩ := p1
      simp only [hb1] at hv
      cases hb2 : visit br y hard (pc + 2 + cc.length + 1) nsv1 (gix + groupCount cnd) with
      | error err => simp [hb2] at hv
      | ok p2 =>
        obtain ⟨yc, nsv2⟩ := p2
        simp only [hb2] at hv
        cases hb3 : visit br no hard (pc + 2 + cc.length + 1 + yc.length + 1) nsv2 (gix + groupCount cnd + groupCount y) with
        | error err => simp [hb3] at hv
        | ok p3 =>
          obtain ⟨nc, nsv3⟩ := p3
          simp only [hb3, Except.ok.injEq, Prod.mk.injEq] at hv
          obtain ⟨rfl, rfl⟩ := hv
          obtain ⟨ih1, hle1⟩ := visit_delegIn br cnd hard (pc + 2) nsv gix cc _ hnc hb1
          obtain ⟨ih2, hle2⟩ := visit_delegIn br y hard _ nsv1 _ yc _ hny hb2
          obtain ⟨ih3, hle3⟩ := visit_delegIn br no hard _ nsv2 _ nc _ hnn hb3
          refine ⟨?_, by omega⟩
          have k1 : delegIn gix (gix + groupCount (.cond cnd y no)) cc = true :=
            delegIn_mono (Nat.le_refl _) (by simp only [groupCount]; omega) ih1
          have k2 : delegIn gix (gix + groupCount (.cond cnd y no)) yc = true :=
            delegIn_mono (by omega) (by simp only [groupCount]; omega) ih2
          have k3 : delegIn gix (gix + groupCount (.cond cnd y no)) nc = true :=
            delegIn_mono (by omega) (by simp only [groupCount]; omega) ih3
          simp only [delegIn_append, delegIn_cons, delegIn_nil, delegInsnIn, k1, k2, k3, Bool.and_true]
termination_by e => sizeOf e
decreasing_by all_goals (simp_wf; try (first | omega | (subst_vars; simp; try omega)))
theorem visitMiddle_delegIn (br : Nat → Bool) :
    ∀ (es : List Expr) (take pc nsv gix : Nat) (code : Code) (nsv' : Nat),
      numberedList gix es → visitMiddle br es 0 take pc nsv gix = .ok (code, nsv') →
      delegIn gix (gix + groupCountList es) code = true ∧ nsv ≤ nsv'
  | [], take, pc, nsv, gix, code, nsv', _, hv => by
    simp only [visitMiddle, Except.ok.injEq, Prod.mk.injEq] at hv
    obtain ⟨rfl, rfl⟩ := hv
    exact ⟨rfl, Nat.le_refl _⟩
  | e :: es, 0, pc, nsv, gix, code, nsv', _, hv => by
    simp only [visitMiddle, Except.ok.injEq, Prod.mk.injEq] at hv
    obtain ⟨rfl, rfl⟩ := hv
    exact ⟨rfl, Nat.le_refl _⟩
  | e :: es, take + 1, pc, nsv, gix, code, nsv', hn, hv => by
    simp only [visitMiddle] at hv
    obtain ⟨hne, hns⟩ := (numberedList_cons gix e es).mp hn
    cases hb : visit br e true pc nsv gix with
    | error err => simp [hb] at hv
    | ok p =>
      obtain ⟨c1, nsv1⟩ := p
      simp only [hb] at hv
      cases hb2 : visitMiddle br es 0 take (pc + c1.length) nsv1 (gix + groupCount e) with
      | error err => simp [hb2] at hv
      | ok p2 =>
        obtain ⟨c2, nsv2⟩ := p2
        simp only [hb2, Except.ok.injEq, Prod.mk.injEq] at hv
        obtain ⟨rfl, rfl⟩ := hv
        obtain ⟨ih1, hle1⟩ := visit_delegIn br e true pc nsv gix c1 nsv1 hne hb
        obtain ⟨ih2, hle2⟩ := visitMiddle_delegIn br es take (pc + c1.length) nsv1 _ c2 _ hns hb2
        refine ⟨?_, by omega⟩
        simp only [groupCountList, delegIn_append, Bool.and_eq_true]
        exact ⟨delegIn_mono (Nat.le_refl _) (by omega) ih1, delegIn_mono (by omega) (by omega) ih2⟩
termination_by es => sizeOf es
decreasing_by all_goals (simp_wf; try omega)
theorem visitAlt_delegIn (br : Nat → Bool) :
    ∀ (es : List Expr) (hard : Bool) (pc nsv gix : Nat) (f : Nat → Code) (endPc nsv' : Nat),
      numberedList gix es → visitAlt br es hard pc nsv gix = .ok (f, endPc, nsv') →
      (∀ t, delegIn gix (gix + groupCountList es) (f t) = true) ∧ nsv ≤ nsv'
  | [], hard, pc, nsv, gix, f, endPc, nsv', _, hv => by
    simp only [visitAlt, Except.ok.injEq, Prod.mk.injEq] at hv
    obtain ⟨rfl, rfl, rfl⟩ := hv
    exact ⟨fun _ => rfl, Nat.le_refl _⟩
  | [e], hard, pc, nsv, gix, f, endPc, nsv', hn, hv => by
    simp only [visitAlt] at hv
    obtain ⟨hne, _⟩ := (numberedList_cons gix e []).mp hn
    cases hb : visit br e hard pc nsv gix with
    | error err => simp [hb] at hv
    | ok p =>
      obtain ⟨c1, nsv1⟩ := p
      simp only [hb, Except.ok.injEq, Prod.mk.injEq] at hv
      obtain ⟨rfl, rfl, rfl⟩ := hv
      obtain ⟨ih, hle⟩ := visit_delegIn br e hard pc nsv gix c1 nsv1 hne hb
      exact ⟨fun _ => by simpa only [groupCountList, Nat.add_zero] using ih, hle⟩
  | e :: e2 :: es, hard, pc, nsv, gix, f, endPc, nsv', hn, hv => by
    simp only [visitAlt] at hv
    obtain ⟨hne, hns⟩ := (numberedList_cons gix e (e2 :: es)).mp hn
    cases hb : visit br e hard (pc + 1) nsv gix with
    | error err => simp [hb] at hv
    | ok p =>
      obtain ⟨c1, nsv1⟩ := p
      simp only [hb] at hv
      cases hb2 : visitAlt br (e2 :: es) hard (pc + 1 + c1.length + 1) nsv1 (gix + groupCount e) with
      | error err => simp [hb2] at hv
      | ok p2 =>
        obtain ⟨f2, endPc2, nsv2⟩ := p2
        simp only [hb2, Except.ok.injEq, Prod.mk.injEq] at hv
        obtain ⟨rfl, rfl, rfl⟩ := hv
        obtain ⟨ih1, hle1⟩ := visit_delegIn br e hard (pc + 1) nsv gix c1 nsv1 hne hb
        obtain ⟨ih2, hle2⟩ := visitAlt_delegIn br (e2 :: es) hard _ nsv1 _ f2 _ _ hns hb2
        refine ⟨fun t => ?_, by omega⟩
        have k1 : delegIn gix (gix + groupCountList (e :: e2 :: es)) c1 = true :=
          delegIn_mono (Nat.le_refl _) (by simp only [groupCountList]; omega) ih1
        have k2 : delegIn gix (gix + groupCountList (e :: e2 :: es)) (f2 t) = true :=
          delegIn_mono (by omega) (by simp only [groupCountList]; omega) (ih2 t)
        simp only [delegIn_append, delegIn_cons, delegIn_nil, delegInsnIn, k1, k2, Bool.and_true]
termination_by es => sizeOf es
decreasing_by all_goals (simp_wf; try omega)
theorem lookBehindAlts_delegIn (br : Nat → Bool) :
    ∀ (es : List Expr) (pc nsv gix : Nat) (f : Nat → Code) (endPc nsv' : Nat),
      numberedList gix es → lookBehindAlts br es pc nsv gix = .ok (f, endPc, nsv') →
      (∀ t, delegIn gix (gix + groupCountList es) (f t) = true) ∧ nsv ≤ nsv'
  | [], pc, nsv, gix, f, endPc, nsv', _, hv => by
    simp only [lookBehindAlts, Except.ok.injEq, Prod.mk.injEq] at hv
    obtain ⟨rfl, rfl, rfl⟩ := hv
    exact ⟨fun _ => rfl, Nat.le_refl _⟩
  | [e], pc, nsv, gix, f, endPc, nsv', hn, hv => by
    simp only [lookBehindAlts] at hv
    obtain ⟨hne, _⟩ := (numberedList_cons gix e []).mp hn
    by_cases hcs : constSize e = true
    · simp only [hcs, Bool.not_true, Bool.false_eq_true, ↓reduceIte] at hv
      cases hb : visit br e false (posLookBodyPc (isHard br e) true pc) (nsv + 1) gix with
      | error err => simp [hb] at hv
      | ok p =>
        obtain ⟨c1, nsv1⟩ := p
        simp only [hb, Except.ok.injEq, Prod.mk.injEq] at hv
        obtain ⟨rfl, rfl, rfl⟩ := hv
        obtain ⟨ih, hle⟩ := visit_delegIn br e false _ (nsv + 1) gix c1 nsv1 hne hb
        refine ⟨fun _ => ?_, by omega⟩
        simp only [groupCountList, Nat.add_zero, delegIn_wrapPosLook]
        exact ih
    · simp [hcs] at hv
  | e :: e2 :: es, pc, nsv, gix, f, endPc, nsv', hn, hv => by
    simp only [lookBehindAlts] at hv
    obtain ⟨hne, hns⟩ := (numberedList_cons gix e (e2 :: es)).mp hn
    by_cases hcs : constSize e = true
    · simp only [hcs, Bool.not_true, Bool.false_eq_true, ↓reduceIte] at hv
      cases hb : visit br e false (posLookBodyPc (isHard br e) true (pc + 1)) (nsv + 1) gix with
      | error err => simp [hb] at hv
      | ok p =>
        obtain ⟨c1, nsv1⟩ := p
        simp only [hb] at hv
        cases hb2 : lookBehindAlts br (e2 :: es)
            (pc + 1 + (wrapPosLook (isHard br e) true nsv (minSize e) c1).length + 1) nsv1 (gix + groupCount e) with
        | error err => simp [hb2] at hv
        | ok p2 =>
          obtain ⟨f2, endPc2, nsv2⟩ := p2
          simp only [hb2, Except.ok.injEq, Prod.mk.injEq] at hv
          obtain ⟨rfl, rfl, rfl⟩ := hv
          obtain ⟨ih1, hle1⟩ := visit_delegIn br e false _ (nsv + 1) gix c1 nsv1 hne hb
          obtain ⟨ih2, hle2⟩ := lookBehindAlts_delegIn br (e2 :: es) _ nsv1 _ f2 _ _ hns hb2
          refine ⟨fun t => ?_, by omega⟩
          have k1 : delegIn gix (gix + groupCountList (e :: e2 :: es)) c1 = true :=
            delegIn_mono (Nat.le_refl _) (by simp only [groupCountList]; omega) ih1
          have k2 : delegIn gix (gix + groupCountList (e :: e2 :: es)) (f2 t) = true :=
            delegIn_mono (by omega) (by simp only [groupCountList]; omega) (ih2 t)
          simp only [delegIn_append, delegIn_cons, delegIn_nil, delegInsnIn, delegIn_wrapPosLook, k1, k2,
            Bool.and_true]
    · simp [hcs] at hv
termination_by es => sizeOf es
decreasing_by all_goals (simp_wf; try omega)
theorem lookBehindNegAlts_delegIn (br : Nat → Bool) :
    ∀ (es : List Expr) (pc nsv gix : Nat) (code : Code) (nsv' : Nat),
      numberedList gix es → lookBehindNegAlts br es pc nsv gix = .ok (code, nsv') →
      delegIn gix (gix + groupCountList es) code = true ∧ nsv ≤ nsv'
  | [], pc, nsv, gix, code, nsv', _, hv => by
    simp only [lookBehindNegAlts, Except.ok.injEq, Prod.mk.injEq] at hv
    obtain ⟨rfl, rfl⟩ := hv
    exact ⟨rfl, Nat.le_refl _⟩
  | e :: es, pc, nsv, gix, code, nsv', hn, hv => by
    simp only [lookBehindNegAlts] at hv
    obtain ⟨hne, hns⟩ := (numberedList_cons gix e es).mp hn
    by_cases hcs : constSize e = true
    · simp only [hcs, Bool.not_true, Bool.false_eq_true, ↓reduceIte] at hv
      cases hb : visit br e false (negLookBodyPc true pc) nsv gix with
      | error err => simp [hb] at hv
      | ok p =>
        obtain ⟨c1, nsv1⟩ := p
        simp only [hb] at hv
        cases hb2 : lookBehindNegAlts br es (pc + (wrapNegLook true pc (minSize e) c1).length) nsv1 (gix + groupCount e) with
        | error err => simp [hb2] at hv
        | ok p2 =>
          obtain ⟨c2, nsv2⟩ := p2
          simp only [hb2, Except.ok.injEq, Prod.mk.injEq] at hv
          obtain ⟨rfl, rfl⟩ := hv
          obtain ⟨ih1, hle1⟩ := visit_delegIn br e false _ nsv gix c1 nsv1 hne hb
          obtain ⟨ih2, hle2⟩ := lookBehindNegAlts_delegIn br es _ nsv1 _ c2 nsv2 hns hb2
          refine ⟨?_, by omega⟩
          simp only [groupCountList, delegIn_append, delegIn_wrapNegLook, Bool.and_eq_true]
          exact ⟨delegIn_mono (Nat.le_refl _) (by omega) ih1, delegIn_mono (by omega) (by omega) ih2⟩
    · simp [hcs] at hv
termination_by es => sizeOf es
decreasing_by all_goals (simp_wf; try omega)
end

/-- **1. the general lemma over the compiler**: in the code of an expression numbered from `gix` every
    `Delegate es sg eg` owns groups of the expression and `es` touches only their slots; the compiler
    only allocates auxiliary slots -/
theorem visit_delegates (br : Nat → Bool) (e : Expr) (hard : Bool) (pc nsv gix : Nat) (code : Code) (nsv' : Nat)
    (hn : numbered gix e) (hv : visit br e hard pc nsv gix = .ok (code, nsv')) :
    (∀ es sg eg, Insn.delegate es sg eg ∈ code →
      gix ≤ sg ∧ sg ≤ eg ∧ eg ≤ gix + groupCount e ∧ slotsBelowAll (2 * eg) es = true ∧
        slotsBelowAll (2 * (gix + groupCount e)) es = true) ∧ nsv ≤ nsv' := by
  obtain ⟨h, hle⟩ := visit_delegIn br e hard pc nsv gix code nsv' hn hv
  refine ⟨fun es sg eg hm => ?_, hle⟩
  obtain ⟨h1, h2, h3, h4⟩ := (delegIn_iff _ _ _).mp h es sg eg hm
  exact ⟨h1, h2, h3, h4, slotsBelowAll_mono (by omega) es h4⟩

/-- the invariant gives the decidable condition of the stage-S3 theorems -/
theorem progDelegOK_of_delegIn {lo hi nS : Nat} {code : List Insn} (h : delegIn lo hi code = true)
    (hn : hi * 2 ≤ nS) : progDelegOK nS code = true := by
  simp only [delegIn, progDelegOK, List.all_eq_true] at h ⊢
  intro i hi'
  have := h i hi'
  cases i with
  | delegate es sg eg =>
    simp only [delegInsnIn, Bool.and_eq_true, decide_eq_true_eq] at this ⊢
    exact ⟨⟨by omega, this.1.1.2⟩, slotsBelowAll_mono (by omega) es this.2⟩
  | _ => rfl

/-- **2.** every program compiled from a numbered tree satisfies `progDelegOK` -/
theorem compile_progDelegOK (br : Nat → Bool) (e : Expr) (prog : Prog) (hn : numbered 0 e)
    (hc : compile br e = .ok prog) : progDelegOK prog.nSaves prog.body = true := by
  unfold compile at hc
  simp only at hc
  cases hv : visit br e false 0 (groupCount e * 2) 0 with
  | error err => simp [hv] at hc
  | ok p =>
    obtain ⟨code, nsv⟩ := p
    simp only [hv, Except.ok.injEq] at hc
    subst hc
    obtain ⟨h, hle⟩ := visit_delegIn br e false 0 (groupCount e * 2) 0 code nsv hn hv
    have h' : delegIn 0 (0 + groupCount e) (code ++ [Insn.end_]) = true := by
      simp only [delegIn_append, delegIn_cons, delegIn_nil, delegInsnIn, h, Bool.and_true]
    exact progDelegOK_of_delegIn h' (show (0 + groupCount e) * 2 ≤ nsv by omega)

/-- **3.** every program `build` returns satisfies `progDelegOK`: the hypothesis `hdok` of
    `C01_vm_correct_s3` / `C07_terminates_s3` / `C05_no_panic_s3` always holds -/
theorem build_progDelegOK (tree : Expr) (backrefs : List Nat) (b : Built) (prog : Prog)
    (hb : build tree backrefs = .ok b) (hk : b.kind = .fancy prog) :
    progDelegOK prog.nSaves prog.body = true := by
  obtain ⟨_, hwr, _, _, hcomp⟩ := build_fancy tree backrefs b prog hb hk
  exact compile_progDelegOK _ b.wrapped prog (by rw [hwr]; exact numbered_renumber _ _) hcomp

/-! ## Non-vacuity: `(?=(a|b)c)x` — the body of the look-ahead, capture group 1 included, is handed to the
automata engine as `Delegate [(a|b)c] 1 2` -/
def exDelegGroupTree : Expr :=
  .concat [.look (.concat [.group 0 (.alt [.literal ['a'] false, .literal ['b'] false]), .literal ['c'] false]) .ahead,
    .literal ['x'] false]

set_option linter.unusedSimpArgs false in
example : ∃ b prog, build exDelegGroupTree [] = .ok b ∧ b.kind = .fancy prog ∧
    Insn.delegate [.concat [.group 1 (.alt [.literal ['a'] false, .literal ['b'] false]), .literal ['c'] false]] 1 2
      ∈ prog.body ∧ prog.nSaves = 5 ∧
    progDelegOK prog.nSaves prog.body = true := by
  have hb : build exDelegGroupTree [] = .ok
      ⟨.concat [.look (.concat [.group 1 (.alt [.literal ['a'] false, .literal ['b'] false]), .literal ['c'] false]) .ahead,
          .literal ['x'] false],
        .concat [.repeat (.any true) 0 none false, .group 0 (.concat [.look (.concat [.group 1 (.alt [.literal ['a'] false,
          .literal ['b'] false]), .literal ['c'] false]) .ahead, .literal ['x'] false])],
        2, [], .fancy ⟨[.split 3 1, .any, .jmp 0, .save 0, .save 4,
          .delegate [.concat [.group 1 (.alt [.literal ['a'] false, .literal ['b'] false]), .literal ['c'] false]] 1 2,
          .restore 4, .lit ['x'], .save 1, .end_], 5⟩⟩ := by
    simp [build, exDelegGroupTree, wrapTree, renumber, renumberList, checkRefs, checkRefsList, isHard, isHardAny,
      compile, visit, visitMiddle, visitAlt, concatSplit, groupCount, groupCountList, constSize, constSizeAll, minSize,
      minSizeMin, minSizeSum, allMinSize, compileDelegates, compileDelegate, isLiteral, isLiteralAll, boundsEq, satMul,
      satAdd, sureReps, UNSET, wrapPosLook, posLookBodyPc, pushLiteral, pushLiteralAll]
  exact ⟨_, _, hb, rfl, by simp, rfl, build_progDelegOK _ _ _ _ hb rfl⟩

end Fancy
