import FancyModel.Lemmas.Sim2
import FancyModel.Lemmas.SimCompile
/-!
# Counted repeats against the full machine (engine refinement, stage S2)

Code layout (`Model/Compile.lean`, last branch of the `.repeat` case; `rep` is the counter's
auxiliary slot, the body owns the auxiliary slots `[rep+1, hiS)`):

    pc     : Save0(rep)
    pc + 1 : RepeatGr lo hi (m+1) rep      (or RepeatNg)
    pc + 2 : <body>                         [pc+2, m)
    m      : Jmp (pc + 1)

`loop_counted` is the loop invariant: at the head `pc+1` with `aux[rep - n] = count` the machine
computes `(repLoop body lo hi greedy fuel count st).foldr succ failA` for every sufficiently large
`fuel`. `sim2_counted` packages it as a `Sim2` for `sem c (.repeat e lo hi greedy)`.
-/
namespace Fancy

/-! ## Small facts about lists and the slot vector -/

theorem flatMap_congr_mem {α β : Type} (l : List α) (f g : α → List β) (h : ∀ r, r ∈ l → f r = g r) :
    l.flatMap f = l.flatMap g := by
  induction l with
  | nil => rfl
  | cons a as ih =>
    simp only [List.flatMap_cons]
    rw [h a (by simp), ih (fun r hr => h r (by simp [hr]))]

/-- writing an auxiliary slot of the machine's slot vector -/
theorem set_aux_slot (sl : List (Option Nat)) (aux : List Nat) (n j v : Nat) (hn : sl.length = n) (hj : n ≤ j) :
    (unview sl ++ aux).set j v = unview sl ++ aux.set (j - n) v := by
  rw [List.set_append_right _ _ (by rw [unview_length]; omega), unview_length, hn]

/-- reading an auxiliary slot of the machine's slot vector -/
theorem get_aux_slot (sl : List (Option Nat)) (aux : List Nat) (n j : Nat) (hn : sl.length = n) (hj : n ≤ j) :
    (unview sl ++ aux)[j]? = aux[j - n]? := by
  rw [List.getElem?_append_right (by rw [unview_length]; omega), unview_length, hn]

/-! ## The reference loop without the empty-iteration clause -/

/-- when the bound is finite or the body always advances, the empty-iteration clause of `repLoop`
    never fires: one unrolling is plain counted unrolling -/
theorem repLoop_succ_of {body : St → List St} {lo : Nat} {hi : Option Nat} {greedy : Bool}
    (hne : hi ≠ none ∨ Advances body) (fuel count : Nat) (st : St) :
    repLoop body lo hi greedy (fuel + 1) count st =
      if hi = some count then [st] else
        if count < lo then (body st).flatMap (repLoop body lo hi greedy fuel (count + 1))
        else if greedy then (body st).flatMap (repLoop body lo hi greedy fuel (count + 1)) ++ [st]
        else st :: (body st).flatMap (repLoop body lo hi greedy fuel (count + 1)) := by
  have hit : ((body st).flatMap fun r =>
        if hi.isNone && decide (lo ≤ count) && r.ix == st.ix then [r]
        else repLoop body lo hi greedy fuel (count + 1) r) =
      (body st).flatMap (repLoop body lo hi greedy fuel (count + 1)) := by
    apply flatMap_congr_mem
    intro r hr
    rcases hne with h | h
    · cases hi with
      | none => exact absurd rfl h
      | some x => simp
    · have h1 := h st r hr
      have h2 : (r.ix == st.ix) = false := by simp; omega
      simp [h2]
  conv => lhs; unfold repLoop
  simp only [hit]

/-- the loop measure: iterations left below a finite bound, or the text left for an unbounded loop -/
def repMeasure (c : Ctx) (hi : Option Nat) (count : Nat) (st : St) : Nat :=
  match hi with
  | some h => h - count
  | none => c.len - st.ix

/-- the loop measure decreases over one iteration, and the counter stays below a finite bound -/
theorem counted_measure_dec {c : Ctx} {n : Nat} {hi : Option Nat} {body : St → List St} {count k : Nat} {st r : St}
    (hne : hi ≠ none ∨ Advances body) (hr : r ∈ body st) (hgr : r.Good c n)
    (hk : repMeasure c hi count st < k + 1)
    (hc : ∀ h, hi = some h → count ≤ h) (hh : ¬ hi = some count) :
    repMeasure c hi (count + 1) r < k ∧
      (∀ h, hi = some h → count + 1 ≤ h) := by
  cases hi with
  | some h =>
    have h1 := hc h rfl
    have h2 : count ≠ h := fun e => hh (by rw [e])
    simp only [repMeasure] at hk ⊢
    refine ⟨by omega, ?_⟩
    intro h' e
    cases e
    omega
  | none =>
    have hadv : Advances body := by
      rcases hne with h | h
      · exact absurd rfl h
      · exact h
    have h1 := hadv st r hr
    have h2 := hgr.ix
    simp only [repMeasure] at hk ⊢
    refine ⟨by omega, ?_⟩
    intro h' e
    cases e

/-! ## The head instruction -/

theorem sstep_repeatGr {c : Ctx} {prog : List Insn} {nS p lo next rep cnt ix : Nat} {hi : Option Nat}
    {slots astk : List Nat} {X : List SBranch}
    (h : prog[p]? = some (.repeatGr lo hi next rep)) (hrepS : rep < nS) (hcnt : slots[rep]? = some cnt)
    (hU : hi = none → cnt ≤ c.len) :
    sstep c prog nS p ix slots astk X = some (
      if hi = some cnt then .run next ix slots astk X
      else if cnt < lo then .run (p + 1) ix (slots.set rep (cnt + 1)) astk X
      else .run (p + 1) ix (slots.set rep (cnt + 1)) astk (⟨next, ix, slots.set rep (cnt + 1), astk⟩ :: X)) := by
  have hb : (hi == none && decide (c.len < cnt)) = false := by
    cases hi with
    | none => have := hU rfl; simp; omega
    | some x => simp
  simp only [sstep, h, hrepS, ↓reduceIte, hcnt, beq_iff_eq, hb, Bool.false_eq_true]
  by_cases h1 : hi = some cnt
  · simp [h1]
  · by_cases h2 : cnt < lo
    · have : ¬ cnt ≥ lo := by omega
      simp [h1, h2, this]
    · have : cnt ≥ lo := by omega
      simp [h1, h2, this]

theorem sstep_repeatNg {c : Ctx} {prog : List Insn} {nS p lo next rep cnt ix : Nat} {hi : Option Nat}
    {slots astk : List Nat} {X : List SBranch}
    (h : prog[p]? = some (.repeatNg lo hi next rep)) (hrepS : rep < nS) (hcnt : slots[rep]? = some cnt)
    (hU : hi = none → cnt ≤ c.len) :
    sstep c prog nS p ix slots astk X = some (
      if hi = some cnt then .run next ix slots astk X
      else if cnt < lo then .run (p + 1) ix (slots.set rep (cnt + 1)) astk X
      else .run next ix (slots.set rep (cnt + 1)) astk (⟨p + 1, ix, slots.set rep (cnt + 1), astk⟩ :: X)) := by
  have hb : (hi == none && decide (c.len < cnt)) = false := by
    cases hi with
    | none => have := hU rfl; simp; omega
    | some x => simp
  simp only [sstep, h, hrepS, ↓reduceIte, hcnt, beq_iff_eq, hb, Bool.false_eq_true]
  by_cases h1 : hi = some cnt
  · simp [h1]
  · by_cases h2 : cnt < lo
    · have : ¬ cnt ≥ lo := by omega
      simp [h1, h2, this]
    · have : cnt ≥ lo := by omega
      simp [h1, h2, this]

/-! ## The loop invariant -/

/-- At the head of a counted loop with the counter cell holding `count`, the machine computes the
    reference loop from `count`, for every `fuel` above the loop measure (`h - count` for a finite
    bound `h`, the remaining text for an unbounded loop over an advancing body). The premises are in
    the form of `Sim2`: failure evidence only if every result passes the failure through, the
    continuation only for reached results. -/
theorem loop_counted {c : Ctx} {n nS : Nat} {prog : List Insn} {body : St → List St}
    {pc m lo rep hiS : Nat} {hi : Option Nat} {greedy bal : Bool}
    (hhead : prog[pc + 1]? = some (if greedy then .repeatGr lo hi (m + 1) rep else .repeatNg lo hi (m + 1) rep))
    (hjmp : prog[m]? = some (.jmp (pc + 1)))
    (hbody : Sim2 c n nS prog (rep + 1) hiS bal false body (pc + 2) m)
    (hrep : n ≤ rep) (hrepS : rep < nS) (hle : rep + 1 ≤ hiS) (hpm : pc + 2 ≤ m)
    (hkg : KeepsGood c n body) (hne : hi ≠ none ∨ Advances body) :
    ∀ (k fuel count : Nat) (st : St) (aux astk : List Nat) (X : List SBranch) (succ : St → Ans → Ans) (failA : Ans),
      repMeasure c hi count st < k → k ≤ fuel →
      (∀ h, hi = some h → count ≤ h) → (hi = none → count ≤ st.ix) →
      st.Good c n → n + aux.length = nS → aux[rep - n]? = some count → Par succ →
      ((∀ acc, (repLoop body lo hi greedy fuel count st).foldr succ acc = acc) → Big2 c prog nS (.fail X) failA) →
      (∀ l1 r l2, repLoop body lo hi greedy fuel count st = l1 ++ r :: l2 → (∀ acc, l1.foldr succ acc = acc) →
        ∀ (aux' junk : List Nat) (S : List SBranch) (acc : Ans),
          AuxAgree n rep hiS aux aux' → (bal = true → junk = []) → (∀ br ∈ S, pc ≤ br.pc ∧ br.pc ≤ m + 1) →
          ((∀ acc', succ r acc' = acc') → Big2 c prog nS (.fail (S ++ X)) acc) →
          Big2 c prog nS (.run (m + 1) r.ix (unview r.slots ++ aux') (junk ++ astk) (S ++ X)) (succ r acc)) →
      Big2 c prog nS (.run (pc + 1) st.ix (unview st.slots ++ aux) astk X)
        ((repLoop body lo hi greedy fuel count st).foldr succ failA) := by
  intro k
  induction k with
  | zero => intro fuel count st aux astk X succ failA hk; exact absurd hk (Nat.not_lt_zero _)
  | succ k ih =>
    intro fuel count st aux astk X succ failA hk hfuel hc hci hg hl hcnt hsucc hf hs
    cases fuel with
    | zero => omega
    | succ fuel =>
    rw [repLoop_succ_of hne] at hf hs ⊢
    have hslot : (unview st.slots ++ aux)[rep]? = some count := by
      rw [get_aux_slot _ _ n rep hg.len hrep]; exact hcnt
    by_cases hh : hi = some count
    · -- the upper bound is reached: leave the loop
      rw [if_pos hh] at hf hs ⊢
      simp only [List.foldr_cons, List.foldr_nil] at hf ⊢
      have hstep : sstep c prog nS (pc + 1) st.ix (unview st.slots ++ aux) astk X =
          some (.run (m + 1) st.ix (unview st.slots ++ aux) astk X) := by
        cases greedy with
        | true => rw [sstep_repeatGr (by simpa using hhead) hrepS hslot (fun h => Nat.le_trans (hci h) hg.ix), if_pos hh]
        | false => rw [sstep_repeatNg (by simpa using hhead) hrepS hslot (fun h => Nat.le_trans (hci h) hg.ix), if_pos hh]
      apply Big2.step _ _ _ _ _ _ _ hstep
      have := hs [] st [] rfl (fun _ => rfl) aux [] [] failA (AuxAgree.refl _ _ _ _) (fun _ => rfl) (by simp)
        (fun hp => by simpa using hf hp)
      simpa using this
    · rw [if_neg hh] at hf hs ⊢
      -- the counter is incremented
      have hset : (unview st.slots ++ aux).set rep (count + 1) = unview st.slots ++ aux.set (rep - n) (count + 1) :=
        set_aux_slot _ _ n rep _ hg.len hrep
      have hag0 : AuxAgree n rep hiS aux (aux.set (rep - n) (count + 1)) :=
        AuxAgree.set aux rep (count + 1) hrep ⟨Nat.le_refl _, by omega⟩
      have hl1 : n + (aux.set (rep - n) (count + 1)).length = nS := by simpa using hl
      have hcnt1 : (aux.set (rep - n) (count + 1))[rep - n]? = some (count + 1) := by
        rw [List.getElem?_set_self (by omega)]
      -- one pass through the body and back to the head, for all the iterations' results
      have hiter : ∀ (X0 : List SBranch) (failA0 : Ans),
          ((∀ acc, ((body st).flatMap (repLoop body lo hi greedy fuel (count + 1))).foldr succ acc = acc) →
            Big2 c prog nS (.fail X0) failA0) →
          (∀ l1 q l2, (body st).flatMap (repLoop body lo hi greedy fuel (count + 1)) = l1 ++ q :: l2 →
            (∀ acc, l1.foldr succ acc = acc) →
            ∀ (aux' junk : List Nat) (S : List SBranch) (acc : Ans),
            AuxAgree n rep hiS (aux.set (rep - n) (count + 1)) aux' → (bal = true → junk = []) →
            (∀ br ∈ S, pc ≤ br.pc ∧ br.pc ≤ m + 1) →
            ((∀ acc', succ q acc' = acc') → Big2 c prog nS (.fail (S ++ X0)) acc) →
            Big2 c prog nS (.run (m + 1) q.ix (unview q.slots ++ aux') (junk ++ astk) (S ++ X0)) (succ q acc)) →
          Big2 c prog nS (.run (pc + 2) st.ix (unview st.slots ++ aux.set (rep - n) (count + 1)) astk X0)
            (((body st).flatMap (repLoop body lo hi greedy fuel (count + 1))).foldr succ failA0) := by
        intro X0 failA0 hf0 hs1
        rw [foldr_flatMap]
        apply hbody st (aux.set (rep - n) (count + 1)) astk X0
          (fun r acc => (repLoop body lo hi greedy fuel (count + 1) r).foldr succ acc) failA0 hg hl1
          (by simpa [SuccOK] using hsucc.foldr (repLoop body lo hi greedy fuel (count + 1)))
          (fun hp => hf0 (fun acc => by rw [foldr_flatMap]; exact hp acc))
        intro l1 r l2 hsp1 hpass1 aux2 junk1 S1 acc1 hag1 hb1 hS1 hacc1
        have hr : r ∈ body st := by rw [hsp1]; simp
        have hgr := hkg st r hg hr
        have hj : sstep c prog nS m r.ix (unview r.slots ++ aux2) (junk1 ++ astk) (S1 ++ X0) =
            some (.run (pc + 1) r.ix (unview r.slots ++ aux2) (junk1 ++ astk) (S1 ++ X0)) := by
          simp [sstep, hjmp]
        apply Big2.step _ _ _ _ _ _ _ hj
        have hm := counted_measure_dec hne hr hgr hk hc hh
        have hl2 : n + aux2.length = nS := by rw [hag1.1]; exact hl1
        have hcnt2 : aux2[rep - n]? = some (count + 1) := by
          rw [hag1.get rep hrep (Or.inl (Nat.lt_succ_self _))]; exact hcnt1
        have hci2 : hi = none → count + 1 ≤ r.ix := fun h => by
          have h1 := (hne.resolve_left (by simp [h])) st r hr
          have h2 := hci h
          omega
        apply ih fuel (count + 1) r aux2 (junk1 ++ astk) (S1 ++ X0) succ acc1 hm.1 (by omega) hm.2 hci2 hgr hl2 hcnt2
          hsucc hacc1
        intro m1 q m2 hsp2 hpass2 aux3 junk2 S2 acc2 hag2 hb2 hS2 hacc2
        have hsplit : (body st).flatMap (repLoop body lo hi greedy fuel (count + 1)) =
            (l1.flatMap (repLoop body lo hi greedy fuel (count + 1)) ++ m1) ++
              q :: (m2 ++ l2.flatMap (repLoop body lo hi greedy fuel (count + 1))) := by
          rw [hsp1, List.flatMap_append, List.flatMap_cons, hsp2]
          simp [List.append_assoc]
        have hpass : ∀ acc, (l1.flatMap (repLoop body lo hi greedy fuel (count + 1)) ++ m1).foldr succ acc = acc := by
          intro acc
          rw [List.foldr_append, hpass2, foldr_flatMap]
          exact hpass1 acc
        have := hs1 _ q _ hsplit hpass aux3 (junk2 ++ junk1) (S2 ++ S1) acc2
          ((hag1.mono (Nat.le_succ _) (Nat.le_refl _)).trans' hag2)
          (fun hb => by rw [hb1 hb, hb2 hb]; rfl)
          (fun br hbr => by
            rcases List.mem_append.mp hbr with h | h
            · exact hS2 br h
            · have := hS1 br h; omega)
          (fun hp => by simpa [List.append_assoc] using hacc2 hp)
        simpa [List.append_assoc] using this
      by_cases hlo : count < lo
      · -- below the lower bound: a mandatory iteration, nothing pushed
        rw [if_pos hlo] at hf hs ⊢
        have hstep : sstep c prog nS (pc + 1) st.ix (unview st.slots ++ aux) astk X =
            some (.run (pc + 2) st.ix (unview st.slots ++ aux.set (rep - n) (count + 1)) astk X) := by
          cases greedy with
          | true => rw [sstep_repeatGr (by simpa using hhead) hrepS hslot (fun h => Nat.le_trans (hci h) hg.ix), if_neg hh, if_pos hlo, hset]
          | false => rw [sstep_repeatNg (by simpa using hhead) hrepS hslot (fun h => Nat.le_trans (hci h) hg.ix), if_neg hh, if_pos hlo, hset]
        apply Big2.step _ _ _ _ _ _ _ hstep
        apply hiter X failA hf
        intro l1 q l2 hsp hpass aux' junk S acc hag hb hS hacc
        exact hs l1 q l2 hsp hpass aux' junk S acc (hag0.trans' hag) hb hS hacc
      · rw [if_neg hlo] at hf hs ⊢
        cases greedy with
        | true =>
          -- greedy: push the exit, try another iteration first
          simp only [↓reduceIte] at hf hs ⊢
          rw [List.foldr_append]
          simp only [List.foldr_cons, List.foldr_nil]
          have hstep : sstep c prog nS (pc + 1) st.ix (unview st.slots ++ aux) astk X =
              some (.run (pc + 2) st.ix (unview st.slots ++ aux.set (rep - n) (count + 1)) astk
                (⟨m + 1, st.ix, unview st.slots ++ aux.set (rep - n) (count + 1), astk⟩ :: X)) := by
            rw [sstep_repeatGr (by simpa using hhead) hrepS hslot (fun h => Nat.le_trans (hci h) hg.ix), if_neg hh, if_neg hlo, hset]
          apply Big2.step _ _ _ _ _ _ _ hstep
          apply hiter _ (succ st failA)
          · -- failing into the pushed exit: reached only if the iterations pass the failure through
            intro hpi
            apply Big2.failPop
            have := hs _ st [] rfl hpi (aux.set (rep - n) (count + 1)) [] [] failA hag0 (fun _ => rfl) (by simp)
              (fun hp => by
                have := hf (fun acc => by
                  rw [List.foldr_append]
                  simp only [List.foldr_cons, List.foldr_nil]
                  rw [hp, hpi])
                simpa using this)
            simpa using this
          · intro l1 q l2 hsp hpass aux' junk S acc hag hb hS hacc
            have := hs l1 q (l2 ++ [st]) (by rw [hsp]; simp [List.append_assoc]) hpass aux' junk
              (S ++ [⟨m + 1, st.ix, unview st.slots ++ aux.set (rep - n) (count + 1), astk⟩]) acc
              (hag0.trans' hag) hb
              (fun br hbr => by
                rcases List.mem_append.mp hbr with h | h
                · exact hS br h
                · simp only [List.mem_singleton] at h; subst h; simp only; omega)
              (fun hp => by simpa [List.append_assoc] using hacc hp)
            simpa [List.append_assoc] using this
        | false =>
          -- lazy: push another iteration, try the exit first
          simp only [Bool.false_eq_true, ↓reduceIte] at hf hs ⊢
          simp only [List.foldr_cons] at hf ⊢
          have hstep : sstep c prog nS (pc + 1) st.ix (unview st.slots ++ aux) astk X =
              some (.run (m + 1) st.ix (unview st.slots ++ aux.set (rep - n) (count + 1)) astk
                (⟨pc + 2, st.ix, unview st.slots ++ aux.set (rep - n) (count + 1), astk⟩ :: X)) := by
            rw [sstep_repeatNg (by simpa using hhead) hrepS hslot (fun h => Nat.le_trans (hci h) hg.ix), if_neg hh, if_neg hlo, hset]
          apply Big2.step _ _ _ _ _ _ _ hstep
          have := hs [] st _ rfl (fun _ => rfl) (aux.set (rep - n) (count + 1)) []
            [⟨pc + 2, st.ix, unview st.slots ++ aux.set (rep - n) (count + 1), astk⟩]
            (((body st).flatMap (repLoop body lo hi false fuel (count + 1))).foldr succ failA)
            hag0 (fun _ => rfl)
            (fun br hbr => by simp only [List.mem_singleton] at hbr; subst hbr; simp only; omega)
            (fun hpst => by
              -- failing into the pushed iteration: reached only if the exit passes the failure through
              apply Big2.failPop
              apply hiter X failA (fun hpi => hf (fun acc => by rw [hpi, hpst]))
              intro l1 q l2 hsp hpass aux' junk S acc hag hb hS hacc
              exact hs (st :: l1) q l2 (by rw [hsp]; rfl)
                (fun acc => by rw [List.foldr_cons, hpass, hpst]) aux' junk S acc (hag0.trans' hag) hb hS hacc)
          simpa using this

/-! ## The counted repeat -/

/-- `Save0(rep); RepeatGr/RepeatNg lo hi (m+1) rep; <body>; Jmp (pc+1)` simulates
    `e{lo,hi}` (greedy or lazy), for every pair of bounds the compiler can emit here, including
    `hi = some 0`, reversed bounds `hi < lo`, and `lo = 0`. -/
theorem sim2_counted {c : Ctx} {n nS : Nat} {prog : List Insn} {e : Expr} {pc m lo rep hiS : Nat}
    {hi : Option Nat} {greedy bal cm : Bool}
    (hsave0 : prog[pc]? = some (.save0 rep))
    (hhead : prog[pc + 1]? = some (if greedy then .repeatGr lo hi (m + 1) rep else .repeatNg lo hi (m + 1) rep))
    (hjmp : prog[m]? = some (.jmp (pc + 1)))
    (hbody : Sim2 c n nS prog (rep + 1) hiS bal false (sem c e) (pc + 2) m)
    (hrep : n ≤ rep) (hrepS : rep < nS) (hle : rep + 1 ≤ hiS) (hpm : pc + 2 ≤ m)
    (hw : wellShaped e = true)
    (hshape : hi ≠ none ∨ 0 < minSize e) :
    Sim2 c n nS prog rep hiS bal cm (sem c (.repeat e lo hi greedy)) pc (m + 1) := by
  have hne : hi ≠ none ∨ Advances (sem c e) := by
    rcases hshape with h | h
    · exact Or.inl h
    · exact Or.inr (advances_of_minSize c e hw h)
  intro st aux astk X succ failA hg hl hsucc hf hs
  simp only [sem] at hf hs ⊢
  have hstep : sstep c prog nS pc st.ix (unview st.slots ++ aux) astk X =
      some (.run (pc + 1) st.ix (unview st.slots ++ aux.set (rep - n) 0) astk X) := by
    simp only [sstep, hsave0, hrepS, ↓reduceIte]
    rw [set_aux_slot _ _ n rep _ hg.len hrep]
  apply Big2.step _ _ _ _ _ _ _ hstep
  have hag0 : AuxAgree n rep hiS aux (aux.set (rep - n) 0) :=
    AuxAgree.set aux rep 0 hrep ⟨Nat.le_refl _, by omega⟩
  apply loop_counted hhead hjmp hbody hrep hrepS hle hpm (keepsGood_sem c n e) hne
    (repMeasure c hi 0 st + 1) _ 0 st (aux.set (rep - n) 0) astk X succ failA
    (Nat.lt_succ_self _)
    (by cases hi <;> simp [repMeasure] <;> omega)
    (fun _ _ => Nat.zero_le _) (fun _ => Nat.zero_le _) hg (by simpa using hl)
    (by rw [List.getElem?_set_self (by omega)]) hsucc.par hf
  intro l1 r l2 hsp hpass aux' junk S acc hag hb hS hacc
  exact hs l1 r l2 hsp hpass aux' junk S acc (hag0.trans' hag) hb hS hacc

/-! ## The hypotheses are satisfiable: concrete instances -/

/-- local leaf for the examples: `Any` simulates `.` -/
private theorem sim2_any_ex (c : Ctx) (n nS : Nat) (prog : List Insn) (lo hi : Nat) (bal cm : Bool) (a : Nat)
    (h : prog[a]? = some .any) : Sim2 c n nS prog lo hi bal cm (sem c (.any true)) a (a + 1) := by
  have := Sim2.test1 (c := c) (n := n) (nS := nS) (prog := prog) (lo := lo) (hi := hi) (bal := bal) (cm := cm) (a := a)
    (fun st => (c.at? st.ix).isSome) (fun st => { st with ix := st.ix + 1 }) (by
      intro st aux astk X _ _
      simp only [sstep, h]
      cases c.at? st.ix <;> simp)
  apply this.congr
  intro st
  simp only [sem]
  cases c.at? st.ix <;> simp

/-- `.{2,3}` greedy: two capture slots, the counter in auxiliary slot 2 -/
example (c : Ctx) :
    Sim2 c 2 3 [.save0 2, .repeatGr 2 (some 3) 4 2, .any, .jmp 1] 2 3 true false
      (sem c (.repeat (.any true) 2 (some 3) true)) 0 4 :=
  sim2_counted (e := .any true) (pc := 0) (m := 3) (greedy := true) (by simp) (by simp) (by simp)
    (sim2_any_ex c 2 3 _ 3 3 true false 2 (by simp)) (by omega) (by omega) (by omega) (by omega)
    (by simp [wellShaped]) (Or.inl (by simp))

/-- `.{3,2}?` lazy with reversed bounds, in a committing context -/
example (c : Ctx) :
    Sim2 c 2 3 [.save0 2, .repeatNg 3 (some 2) 4 2, .any, .jmp 1] 2 3 true true
      (sem c (.repeat (.any true) 3 (some 2) false)) 0 4 :=
  sim2_counted (e := .any true) (pc := 0) (m := 3) (greedy := false) (by simp) (by simp) (by simp)
    (sim2_any_ex c 2 3 _ 3 3 true false 2 (by simp)) (by omega) (by omega) (by omega) (by omega)
    (by simp [wellShaped]) (Or.inl (by simp))

/-- `.{0}` (`hi = some 0`): no iteration -/
example (c : Ctx) :
    Sim2 c 2 3 [.save0 2, .repeatGr 0 (some 0) 4 2, .any, .jmp 1] 2 3 true false
      (sem c (.repeat (.any true) 0 (some 0) true)) 0 4 :=
  sim2_counted (e := .any true) (pc := 0) (m := 3) (greedy := true) (by simp) (by simp) (by simp)
    (sim2_any_ex c 2 3 _ 3 3 true false 2 (by simp)) (by omega) (by omega) (by omega) (by omega)
    (by simp [wellShaped]) (Or.inl (by simp))

/-- `.{2,}` unbounded over a body of positive minimum size -/
example (c : Ctx) :
    Sim2 c 2 3 [.save0 2, .repeatGr 2 none 4 2, .any, .jmp 1] 2 3 true false
      (sem c (.repeat (.any true) 2 none true)) 0 4 :=
  sim2_counted (e := .any true) (pc := 0) (m := 3) (greedy := true) (by simp) (by simp) (by simp)
    (sim2_any_ex c 2 3 _ 3 3 true false 2 (by simp)) (by omega) (by omega) (by omega) (by omega)
    (by simp [wellShaped]) (Or.inr (by simp [minSize]))

/-- the degenerate bounds in the reference semantics: `hi = some 0` yields `[st]`, reversed bounds
    `{3,2}` yield exactly two iterations -/
example (c : Ctx) (st : St) : sem c (.repeat (.any true) 0 (some 0) true) st = [st] := by
  simp [sem, repLoop]

example : (sem ⟨['a', 'b', 'c', 'd'], 0, false, fun _ => false, fun _ _ _ => false, fun _ _ _ => false⟩
    (.repeat (.any true) 3 (some 2) false) ⟨0, [none, none]⟩).map (·.ix) = [2] := by
  simp [sem, repLoop, Ctx.at?, Ctx.len]

end Fancy
