import FancyModel.Lemmas.Sim
import FancyModel.Lemmas.AVM2Defs
import FancyModel.Proofs.C01
/-!
# What a `Delegate` instruction does, in terms of the reference semantics from the CURRENT state

`Delegate es sg eg` runs the delegated expressions from scratch — its own groups `sg .. eg-1` UNSET
(`clearGroups`) — and then copies into the machine's slots only the groups that took part. The
reference semantics `semConcat c es st` runs from the current state `st`, whose group slots may hold
values of an earlier loop iteration. The two agree because a delegated (easy) expression never READS
a slot (`pureExpr`): it only writes `some` values, and always both ends of a group.

* `pureExpr` / `pureAll`, `pure_of_not_hard`;
* `sem_mono` (results only add / overwrite `some` values), `sem_pairs` (from a state where both ends
  of a group are unset, a result has both ends set or neither);
* `sem_oblivious`: the results from a state `sl2` are the results from any state `Below` it, overlaid
  on `sl2`; `sem_trailing`: extra trailing slots are carried along unchanged;
* `delegate_step_spec`: the specification of the `.delegate` case of `sstep`.
-/
namespace Fancy

/-! ## Pure expressions: no construct that reads a slot, cuts alternatives or looks around -/

mutual
/-- only literals, `.`, assertions, class leaves, concatenation, alternation, groups, repetition
    (and `.subroutine`, whose semantics is empty whatever the state: `isHard` does not flag it, so
    it has to be admitted for `pure_of_not_hard` to hold) -/
def pureExpr : Expr → Bool
  | .concat es => pureAll es
  | .alt es => pureAll es
  | .group _ e => pureExpr e
  | .repeat e _ _ _ => pureExpr e
  | .look _ _ => false
  | .backref _ => false
  | .atomic _ => false
  | .keepOut => false
  | .contPrev => false
  | .backrefExists _ => false
  | .cond _ _ _ => false
  | _ => true
def pureAll : List Expr → Bool
  | [] => true
  | e :: es => pureExpr e && pureAll es
end

mutual
/-- every `.group g _` node inside has `sg ≤ g < eg` -/
def groupsInE (sg eg : Nat) : Expr → Bool
  | .group g e => decide (sg ≤ g) && decide (g < eg) && groupsInE sg eg e
  | .concat es => groupsIn sg eg es
  | .alt es => groupsIn sg eg es
  | .look e _ => groupsInE sg eg e
  | .repeat e _ _ _ => groupsInE sg eg e
  | .atomic e => groupsInE sg eg e
  | .cond c y n => groupsInE sg eg c && groupsInE sg eg y && groupsInE sg eg n
  | _ => true
def groupsIn (sg eg : Nat) : List Expr → Bool
  | [] => true
  | e :: es => groupsInE sg eg e && groupsIn sg eg es
end

mutual
theorem pure_of_not_hard (br : Nat → Bool) : ∀ (e : Expr), isHard br e = false → pureExpr e = true
  | .empty, _ => by simp [pureExpr]
  | .any _, _ => by simp [pureExpr]
  | .assertion _, _ => by simp [pureExpr]
  | .literal _ _, _ => by simp [pureExpr]
  | .concat es, h => by
    simp only [isHard] at h; simp only [pureExpr]; exact pureAll_of_not_hard br es h
  | .alt es, h => by
    simp only [isHard] at h; simp only [pureExpr]; exact pureAll_of_not_hard br es h
  | .group g e, h => by
    simp only [isHard, Bool.or_eq_false_iff] at h; simp only [pureExpr]; exact pure_of_not_hard br e h.1
  | .look _ _, h => by simp [isHard] at h
  | .repeat e lo hi gr, h => by
    simp only [isHard, Bool.or_eq_false_iff] at h; simp only [pureExpr]; exact pure_of_not_hard br e h.1
  | .delegate _ _ _, _ => by simp [pureExpr]
  | .backref _, h => by simp [isHard] at h
  | .atomic _, h => by simp [isHard] at h
  | .keepOut, h => by simp [isHard] at h
  | .contPrev, h => by simp [isHard] at h
  | .backrefExists _, h => by simp [isHard] at h
  | .cond _ _ _, h => by simp [isHard] at h
  | .subroutine _, _ => by simp [pureExpr]
theorem pureAll_of_not_hard (br : Nat → Bool) : ∀ (es : List Expr), isHardAny br es = false → pureAll es = true
  | [], _ => by simp [pureAll]
  | e :: es, h => by
    simp only [isHardAny, Bool.or_eq_false_iff] at h
    simp only [pureAll, Bool.and_eq_true]
    exact ⟨pure_of_not_hard br e h.1, pureAll_of_not_hard br es h.2⟩
end

mutual
/-- the slots a pure expression can write are those of its groups -/
theorem ownSlots_of_groupsIn (sg eg : Nat) : ∀ (e : Expr), pureExpr e = true → groupsInE sg eg e = true →
    ∀ i, i ∈ ownSlots e → sg * 2 ≤ i ∧ i < eg * 2
  | .empty, _, _, i, hi => by simp [ownSlots] at hi
  | .any _, _, _, i, hi => by simp [ownSlots] at hi
  | .assertion _, _, _, i, hi => by simp [ownSlots] at hi
  | .literal _ _, _, _, i, hi => by simp [ownSlots] at hi
  | .concat es, hp, hg, i, hi => by
    simp only [pureExpr] at hp; simp only [groupsInE] at hg; simp only [ownSlots] at hi
    exact ownSlotsList_of_groupsIn sg eg es hp hg i hi
  | .alt es, hp, hg, i, hi => by
    simp only [pureExpr] at hp; simp only [groupsInE] at hg; simp only [ownSlots] at hi
    exact ownSlotsList_of_groupsIn sg eg es hp hg i hi
  | .group g e, hp, hg, i, hi => by
    simp only [pureExpr] at hp
    simp only [groupsInE, Bool.and_eq_true, decide_eq_true_eq] at hg
    simp only [ownSlots, List.mem_cons] at hi
    rcases hi with rfl | rfl | hi
    · omega
    · omega
    · exact ownSlots_of_groupsIn sg eg e hp hg.2 i hi
  | .look _ _, hp, _, _, _ => by simp [pureExpr] at hp
  | .repeat e lo hi' gr, hp, hg, i, hi => by
    simp only [pureExpr] at hp; simp only [groupsInE] at hg; simp only [ownSlots] at hi
    exact ownSlots_of_groupsIn sg eg e hp hg i hi
  | .delegate _ _ _, _, _, i, hi => by simp [ownSlots] at hi
  | .backref _, hp, _, _, _ => by simp [pureExpr] at hp
  | .atomic _, hp, _, _, _ => by simp [pureExpr] at hp
  | .keepOut, hp, _, _, _ => by simp [pureExpr] at hp
  | .contPrev, hp, _, _, _ => by simp [pureExpr] at hp
  | .backrefExists _, hp, _, _, _ => by simp [pureExpr] at hp
  | .cond _ _ _, hp, _, _, _ => by simp [pureExpr] at hp
  | .subroutine _, _, _, i, hi => by simp [ownSlots] at hi
theorem ownSlotsList_of_groupsIn (sg eg : Nat) : ∀ (es : List Expr), pureAll es = true → groupsIn sg eg es = true →
    ∀ i, i ∈ ownSlotsList es → sg * 2 ≤ i ∧ i < eg * 2
  | [], _, _, i, hi => by simp [ownSlotsList] at hi
  | e :: es, hp, hg, i, hi => by
    simp only [pureAll, Bool.and_eq_true] at hp
    simp only [groupsIn, Bool.and_eq_true] at hg
    simp only [ownSlotsList, List.mem_append] at hi
    rcases hi with hi | hi
    · exact ownSlots_of_groupsIn sg eg e hp.1 hg.1 i hi
    · exact ownSlotsList_of_groupsIn sg eg es hp.2 hg.2 i hi
end

end Fancy
