import FancyModel.Lemmas.Sim
import FancyModel.Lemmas.AVM2Defs
import FancyModel.Proofs.C01
/-!
# What a `Delegate` instruction does, in terms of the reference semantics from the CURRENT state

`Delegate es sg eg` runs the delegated expressions from scratch — its own groups `sg .. eg-1` UNSET
(`clearGroups`) — and then copies into the machine's slots only the groups that took part. The
reference semantics `semConcat c es st` runs from the current state `st`, whose group slots may hold
values of an earlier loop iteration. The two agree because a delegated (easy) expression never READS
a slot (`pureExpr`): it only writes `some` values, and always both ends of a group.

* `pureExpr` / `pureAll`, `pure_of_not_hard`;
* `sem_mono` (results only add / overwrite `some` values), `sem_pairs` (from a state where both ends
  of a group are unset, a result has both ends set or neither);
* `sem_oblivious`: the results from a state `sl2` are the results from any state `Below` it, overlaid
  on `sl2`; `sem_trailing`: extra trailing slots are carried along unchanged;
* `delegate_step_spec`: the specification of the `.delegate` case of `sstep`.
-/
namespace Fancy

/-! ## Pure expressions: no construct that reads a slot, cuts alternatives or looks around -/

mutual
/-- only literals, `.`, assertions, class leaves, concatenation, alternation, groups, repetition
    (and `.subroutine`, whose semantics is empty whatever the state: `isHard` does not flag it, so
    it has to be admitted for `pure_of_not_hard` to hold) -/
def pureExpr : Expr → Bool
  | .concat es => pureAll es
  | .alt es => pureAll es
  | .group _ e => pureExpr e
  | .repeat e _ _ _ => pureExpr e
  | .look _ _ => false
  | .backref _ => false
  | .atomic _ => false
  | .keepOut => false
  | .contPrev => false
  | .backrefExists _ => false
  | .cond _ _ _ => false
  | _ => true
def pureAll : List Expr → Bool
  | [] => true
  | e :: es => pureExpr e && pureAll es
end

mutual
/-- every `.group g _` node inside has `sg ≤ g < eg` -/
def groupsInE (sg eg : Nat) : Expr → Bool
  | .group g e => decide (sg ≤ g) && decide (g < eg) && groupsInE sg eg e
  | .concat es => groupsIn sg eg es
  | .alt es => groupsIn sg eg es
  | .look e _ => groupsInE sg eg e
  | .repeat e _ _ _ => groupsInE sg eg e
  | .atomic e => groupsInE sg eg e
  | .cond c y n => groupsInE sg eg c && groupsInE sg eg y && groupsInE sg eg n
  | _ => true
def groupsIn (sg eg : Nat) : List Expr → Bool
  | [] => true
  | e :: es => groupsInE sg eg e && groupsIn sg eg es
end

mutual
theorem pure_of_not_hard (br : Nat → Bool) : ∀ (e : Expr), isHard br e = false → pureExpr e = true
  | .empty, _ => by simp [pureExpr]
  | .any _, _ => by simp [pureExpr]
  | .assertion _, _ => by simp [pureExpr]
  | .literal _ _, _ => by simp [pureExpr]
  | .concat es, h => by
    simp only [isHard] at h; simp only [pureExpr]; exact pureAll_of_not_hard br es h
  | .alt es, h => by
    simp only [isHard] at h; simp only [pureExpr]; exact pureAll_of_not_hard br es h
  | .group g e, h => by
    simp only [isHard, Bool.or_eq_false_iff] at h; simp only [pureExpr]; exact pure_of_not_hard br e h.1
  | .look _ _, h => by simp [isHard] at h
  | .repeat e lo hi gr, h => by
    simp only [isHard, Bool.or_eq_false_iff] at h; simp only [pureExpr]; exact pure_of_not_hard br e h.1
  | .delegate _ _ _, _ => by simp [pureExpr]
  | .backref _, h => by simp [isHard] at h
  | .atomic _, h => by simp [isHard] at h
  | .keepOut, h => by simp [isHard] at h
  | .contPrev, h => by simp [isHard] at h
  | .backrefExists _, h => by simp [isHard] at h
  | .cond _ _ _, h => by simp [isHard] at h
  | .subroutine _, _ => by simp [pureExpr]
theorem pureAll_of_not_hard (br : Nat → Bool) : ∀ (es : List Expr), isHardAny br es = false → pureAll es = true
  | [], _ => by simp [pureAll]
  | e :: es, h => by
    simp only [isHardAny, Bool.or_eq_false_iff] at h
    simp only [pureAll, Bool.and_eq_true]
    exact ⟨pure_of_not_hard br e h.1, pureAll_of_not_hard br es h.2⟩
end

mutual
/-- the slots a pure expression can write are those of its groups -/
theorem ownSlots_of_groupsIn (sg eg : Nat) : ∀ (e : Expr), pureExpr e = true → groupsInE sg eg e = true →
    ∀ i, i ∈ ownSlots e → sg * 2 ≤ i ∧ i < eg * 2
  | .empty, _, _, i, hi => by simp [ownSlots] at hi
  | .any _, _, _, i, hi => by simp [ownSlots] at hi
  | .assertion _, _, _, i, hi => by simp [ownSlots] at hi
  | .literal _ _, _, _, i, hi => by simp [ownSlots] at hi
  | .concat es, hp, hg, i, hi => by
    simp only [pureExpr] at hp; simp only [groupsInE] at hg; simp only [ownSlots] at hi
    exact ownSlotsList_of_groupsIn sg eg es hp hg i hi
  | .alt es, hp, hg, i, hi => by
    simp only [pureExpr] at hp; simp only [groupsInE] at hg; simp only [ownSlots] at hi
    exact ownSlotsList_of_groupsIn sg eg es hp hg i hi
  | .group g e, hp, hg, i, hi => by
    simp only [pureExpr] at hp
    simp only [groupsInE, Bool.and_eq_true, decide_eq_true_eq] at hg
    simp only [ownSlots, List.mem_cons] at hi
    rcases hi with rfl | rfl | hi
    · omega
    · omega
    · exact ownSlots_of_groupsIn sg eg e hp hg.2 i hi
  | .look _ _, hp, _, _, _ => by simp [pureExpr] at hp
  | .repeat e lo hi' gr, hp, hg, i, hi => by
    simp only [pureExpr] at hp; simp only [groupsInE] at hg; simp only [ownSlots] at hi
    exact ownSlots_of_groupsIn sg eg e hp hg i hi
  | .delegate _ _ _, _, _, i, hi => by simp [ownSlots] at hi
  | .backref _, hp, _, _, _ => by simp [pureExpr] at hp
  | .atomic _, hp, _, _, _ => by simp [pureExpr] at hp
  | .keepOut, hp, _, _, _ => by simp [pureExpr] at hp
  | .contPrev, hp, _, _, _ => by simp [pureExpr] at hp
  | .backrefExists _, hp, _, _, _ => by simp [pureExpr] at hp
  | .cond _ _ _, hp, _, _, _ => by simp [pureExpr] at hp
  | .subroutine _, _, _, i, hi => by simp [ownSlots] at hi
theorem ownSlotsList_of_groupsIn (sg eg : Nat) : ∀ (es : List Expr), pureAll es = true → groupsIn sg eg es = true →
    ∀ i, i ∈ ownSlotsList es → sg * 2 ≤ i ∧ i < eg * 2
  | [], _, _, i, hi => by simp [ownSlotsList] at hi
  | e :: es, hp, hg, i, hi => by
    simp only [pureAll, Bool.and_eq_true] at hp
    simp only [groupsIn, Bool.and_eq_true] at hg
    simp only [ownSlotsList, List.mem_append] at hi
    rcases hi with hi | hi
    · exact ownSlots_of_groupsIn sg eg e hp.1 hg.1 i hi
    · exact ownSlotsList_of_groupsIn sg eg es hp.2 hg.2 i hi
end

/-! ## A generic unary induction: relations between the start state and a result -/

/-- what a relation `T st r` needs to hold between a state and every result of a pure expression -/
structure RelOK (T : St → St → Prop) : Prop where
  refl : ∀ st, T st st
  trans : ∀ a b d, T a b → T b d → T a d
  ix : ∀ st k, T st { st with ix := k }
  group : ∀ g st r, T (st.setSlot (2 * g) (some st.ix)) r → T st (r.setSlot (2 * g + 1) (some r.ix))

theorem repLoop_rel {T : St → St → Prop} (hT : RelOK T) (body : St → List St)
    (hb : ∀ st r, r ∈ body st → T st r)
    (lo : Nat) (hi : Option Nat) (greedy : Bool) (fuel count : Nat) (st r : St)
    (h : r ∈ repLoop body lo hi greedy fuel count st) : T st r := by
  induction fuel generalizing count st r with
  | zero => simp [repLoop] at h
  | succ fuel ih =>
    unfold repLoop at h
    split at h
    · simp only [List.mem_singleton] at h; subst h; exact hT.refl _
    · have hiters : ∀ q, q ∈ ((body st).flatMap fun r' =>
            if hi.isNone && decide (lo ≤ count) && r'.ix == st.ix then [r']
            else repLoop body lo hi greedy fuel (count + 1) r') → T st q := by
        intro q hq
        simp only [List.mem_flatMap] at hq
        obtain ⟨r', hr', hmem⟩ := hq
        have h1 := hb st r' hr'
        split at hmem
        · simp only [List.mem_singleton] at hmem; subst hmem; exact h1
        · exact hT.trans _ _ _ h1 (ih _ _ _ hmem)
      split at h
      · exact hiters r h
      · split at h
        · rcases List.mem_append.mp h with h | h
          · exact hiters r h
          · simp only [List.mem_singleton] at h; subst h; exact hT.refl _
        · rcases List.mem_cons.mp h with h | h
          · subst h; exact hT.refl _
          · exact hiters r h

mutual
theorem sem_rel {T : St → St → Prop} (hT : RelOK T) (c : Ctx) :
    ∀ (e : Expr) (st r : St), pureExpr e = true → r ∈ sem c e st → T st r
  | .empty, st, r, _, h => by simp [sem] at h; subst h; exact hT.refl _
  | .any nl, st, r, _, h => by
    simp only [sem] at h
    split at h
    · split at h
      · simp at h; subst h; exact hT.ix _ _
      · simp at h
    · simp at h
  | .assertion a, st, r, _, h => by
    simp only [sem] at h; split at h
    · simp at h; subst h; exact hT.refl _
    · simp at h
  | .literal val casei, st, r, _, h => by
    simp only [sem] at h; split at h
    · simp at h; subst h; exact hT.ix _ _
    · simp at h
  | .concat es, st, r, hp, h => by
    simp only [pureExpr] at hp; simp only [sem] at h; exact semConcat_rel hT c es st r hp h
  | .alt es, st, r, hp, h => by
    simp only [pureExpr] at hp; simp only [sem] at h; exact semAlt_rel hT c es st r hp h
  | .group g e, st, r, hp, h => by
    simp only [pureExpr] at hp
    simp only [sem, List.mem_map] at h
    obtain ⟨r', hr', rfl⟩ := h
    exact hT.group g st r' (sem_rel hT c e _ r' hp hr')
  | .look _ _, _, _, hp, _ => by simp [pureExpr] at hp
  | .repeat e lo hi greedy, st, r, hp, h => by
    simp only [pureExpr] at hp
    simp only [sem] at h
    exact repLoop_rel hT (sem c e) (fun st r hr => sem_rel hT c e st r hp hr) lo hi greedy _ 0 st r h
  | .delegate inner size casei, st, r, _, h => by
    simp only [sem, delegateSem] at h
    split at h
    · split at h
      · split at h
        · simp at h; subst h; exact hT.ix _ _
        · simp at h
      · simp at h
    · split at h
      · split at h
        · simp at h; subst h; exact hT.ix _ _
        · simp at h
      · simp at h
  | .backref _, _, _, hp, _ => by simp [pureExpr] at hp
  | .atomic _, _, _, hp, _ => by simp [pureExpr] at hp
  | .keepOut, _, _, hp, _ => by simp [pureExpr] at hp
  | .contPrev, _, _, hp, _ => by simp [pureExpr] at hp
  | .backrefExists _, _, _, hp, _ => by simp [pureExpr] at hp
  | .cond _ _ _, _, _, hp, _ => by simp [pureExpr] at hp
  | .subroutine g, st, r, _, h => by simp [sem] at h
termination_by e => sizeOf e
decreasing_by all_goals (simp_wf; try omega)
theorem semConcat_rel {T : St → St → Prop} (hT : RelOK T) (c : Ctx) :
    ∀ (es : List Expr) (st r : St), pureAll es = true → r ∈ semConcat c es st → T st r
  | [], st, r, _, h => by simp [semConcat] at h; subst h; exact hT.refl _
  | e :: es, st, r, hp, h => by
    simp only [pureAll, Bool.and_eq_true] at hp
    simp only [semConcat, List.mem_flatMap] at h
    obtain ⟨r1, hr1, hr⟩ := h
    exact hT.trans _ _ _ (sem_rel hT c e st r1 hp.1 hr1) (semConcat_rel hT c es r1 r hp.2 hr)
termination_by es => sizeOf es
decreasing_by all_goals (simp_wf; try omega)
theorem semAlt_rel {T : St → St → Prop} (hT : RelOK T) (c : Ctx) :
    ∀ (es : List Expr) (st r : St), pureAll es = true → r ∈ semAlt c es st → T st r
  | [], st, r, _, h => by simp [semAlt] at h
  | e :: es, st, r, hp, h => by
    simp only [pureAll, Bool.and_eq_true] at hp
    simp only [semAlt, List.mem_append] at h
    rcases h with h | h
    · exact sem_rel hT c e st r hp.1 h
    · exact semAlt_rel hT c es st r hp.2 h
termination_by es => sizeOf es
decreasing_by all_goals (simp_wf; try omega)
end

/-! ## Monotonicity and group pairs -/

/-- `r` is `st` with some slots set (never cleared), and group pairs change together -/
def PureStep (st r : St) : Prop :=
  r.slots.length = st.slots.length ∧
  (∀ i : Nat, r.slots[i]? = some none → st.slots[i]? = some none) ∧
  (∀ g : Nat, r.slots[2 * g]? ≠ st.slots[2 * g]? → r.slots[2 * g + 1]? ≠ some none) ∧
  (∀ g : Nat, r.slots[2 * g + 1]? ≠ st.slots[2 * g + 1]? → r.slots[2 * g]? ≠ some none)

theorem PureStep_ok : RelOK PureStep where
  refl st := ⟨rfl, fun _ h => h, fun _ h => absurd rfl h, fun _ h => absurd rfl h⟩
  trans a b d h1 h2 := by
    obtain ⟨l1, m1, f1, b1⟩ := h1
    obtain ⟨l2, m2, f2, b2⟩ := h2
    refine ⟨l2.trans l1, fun i h => m1 i (m2 i h), fun g h => ?_, fun g h => ?_⟩
    · by_cases hd : d.slots[2 * g]? = b.slots[2 * g]?
      · rw [hd] at h
        exact fun hc => f1 g h (m2 _ hc)
      · exact f2 g hd
    · by_cases hd : d.slots[2 * g + 1]? = b.slots[2 * g + 1]?
      · rw [hd] at h
        exact fun hc => b1 g h (m2 _ hc)
      · exact b2 g hd
  ix st k := ⟨rfl, fun _ h => h, fun _ h => absurd rfl h, fun _ h => absurd rfl h⟩
  group g st r h := by
    obtain ⟨l, m, f, b⟩ := h
    simp only [St.setSlot, List.length_set] at l m f b ⊢
    refine ⟨by simpa using l, fun i hi => ?_, fun g' hg' => ?_, fun g' hg' => ?_⟩
    · rw [List.getElem?_set] at hi
      split at hi
      · split at hi <;> simp at hi
      · have := m i hi
        rw [List.getElem?_set] at this
        split at this
        · split at this <;> simp at this
        · exact this
    · by_cases hgg : g' = g
      · subst hgg
        rw [List.getElem?_set]
        simp only [↓reduceIte]
        split <;> simp
      · rw [List.getElem?_set, if_neg (by omega)] at hg' ⊢
        have := f g'
        rw [List.getElem?_set, if_neg (by omega)] at this
        exact this hg'
    · by_cases hgg : g' = g
      · subst hgg
        rw [List.getElem?_set, if_neg (by omega)]
        intro hc
        have := m _ hc
        rw [List.getElem?_set] at this
        simp only [↓reduceIte] at this
        split at this <;> simp at this
      · rw [List.getElem?_set, if_neg (by omega)] at hg' ⊢
        have := b g'
        rw [List.getElem?_set, if_neg (by omega)] at this
        exact this hg'

/-! ## A generic binary induction: a transformation of the slot vector commutes with `sem` -/

/-- apply a transformation to the slot vector -/
def mapSt (F : List (Option Nat) → List (Option Nat)) (r : St) : St := ⟨r.ix, F r.slots⟩

@[simp] theorem mapSt_ix (F : List (Option Nat) → List (Option Nat)) (r : St) : (mapSt F r).ix = r.ix := rfl
@[simp] theorem mapSt_slots (F : List (Option Nat) → List (Option Nat)) (r : St) : (mapSt F r).slots = F r.slots := rfl

theorem flatMap_congr_of_mem {α β : Type} {l : List α} {f g : α → List β} (h : ∀ a, a ∈ l → f a = g a) :
    l.flatMap f = l.flatMap g := by
  induction l with
  | nil => rfl
  | cons a as ih =>
    simp only [List.flatMap_cons]
    rw [h a (by simp), ih (fun b hb => h b (by simp [hb]))]

/-- `F` commutes with writing a `some` value into slot `i` of a vector of length `n`, for `i` in `W` -/
def CommSet (F : List (Option Nat) → List (Option Nat)) (n : Nat) (W : Nat → Prop) : Prop :=
  ∀ (a : List (Option Nat)) (i v : Nat), a.length = n → W i → F (a.set i (some v)) = (F a).set i (some v)

theorem repLoop_map (F : List (Option Nat) → List (Option Nat)) (n : Nat) (body : St → List St)
    (hlen : ∀ st r, r ∈ body st → r.slots.length = st.slots.length)
    (hb : ∀ st, st.slots.length = n → body (mapSt F st) = (body st).map (mapSt F))
    (lo : Nat) (hi : Option Nat) (greedy : Bool) (fuel count : Nat) (st : St) (hst : st.slots.length = n) :
    repLoop body lo hi greedy fuel count (mapSt F st) =
      (repLoop body lo hi greedy fuel count st).map (mapSt F) := by
  induction fuel generalizing count st with
  | zero => simp [repLoop]
  | succ fuel ih =>
    unfold repLoop
    split
    · simp
    · have hiters : ((body (mapSt F st)).flatMap fun r =>
            if (hi.isNone && decide (lo ≤ count) && r.ix == (mapSt F st).ix) = true then [r]
            else repLoop body lo hi greedy fuel (count + 1) r) =
          (((body st).flatMap fun r =>
            if (hi.isNone && decide (lo ≤ count) && r.ix == st.ix) = true then [r]
            else repLoop body lo hi greedy fuel (count + 1) r)).map (mapSt F) := by
        rw [hb st hst, List.flatMap_map, List.map_flatMap]
        apply flatMap_congr_of_mem
        intro r hr
        by_cases hc : (hi.isNone && decide (lo ≤ count) && r.ix == st.ix) = true
        · have hc' : (hi.isNone && decide (lo ≤ count) && (mapSt F r).ix == (mapSt F st).ix) = true := hc
          rw [if_pos hc', if_pos hc]; rfl
        · have hc' : ¬ (hi.isNone && decide (lo ≤ count) && (mapSt F r).ix == (mapSt F st).ix) = true := hc
          rw [if_neg hc', if_neg hc]; exact ih _ r ((hlen st r hr).trans hst)
      simp only [hiters]
      split
      · rfl
      · split
        · simp
        · simp

mutual
theorem sem_map (c : Ctx) (F : List (Option Nat) → List (Option Nat)) (n : Nat) (W : Nat → Prop)
    (hF : CommSet F n W) :
    ∀ (e : Expr) (st : St), pureExpr e = true → (∀ i, i ∈ ownSlots e → W i) → st.slots.length = n →
      sem c e (mapSt F st) = (sem c e st).map (mapSt F)
  | .empty, st, _, _, _ => by simp [sem]
  | .any nl, st, _, _, _ => by
    simp only [sem, mapSt_ix]
    split
    · split <;> simp [mapSt]
    · simp
  | .assertion a, st, _, _, _ => by
    simp only [sem, mapSt_ix]; split <;> simp [*]
  | .literal val casei, st, _, _, _ => by
    simp only [sem, mapSt_ix]; split <;> simp [mapSt, *]
  | .concat es, st, hp, hw, hl => by
    simp only [pureExpr] at hp; simp only [ownSlots] at hw; simp only [sem]
    exact semConcat_map c F n W hF es st hp hw hl
  | .alt es, st, hp, hw, hl => by
    simp only [pureExpr] at hp; simp only [ownSlots] at hw; simp only [sem]
    exact semAlt_map c F n W hF es st hp hw hl
  | .group g e, st, hp, hw, hl => by
    simp only [pureExpr] at hp
    simp only [sem]
    have h1 : (mapSt F st).setSlot (2 * g) (some (mapSt F st).ix) = mapSt F (st.setSlot (2 * g) (some st.ix)) := by
      simp only [St.setSlot, mapSt]
      rw [hF st.slots (2 * g) st.ix hl (hw _ (by simp [ownSlots]))]
    rw [h1, sem_map c F n W hF e _ hp (fun i hi => hw i (by simp [ownSlots, hi])) (by simpa [St.setSlot] using hl)]
    rw [List.map_map, List.map_map]
    apply List.map_congr_left
    intro r hr
    have hrl : r.slots.length = n := by
      have := (sem_frame c e _ r hr).1
      simpa [St.setSlot, hl] using this
    simp only [Function.comp, St.setSlot, mapSt]
    rw [hF r.slots (2 * g + 1) r.ix hrl (hw _ (by simp [ownSlots]))]
  | .look _ _, _, hp, _, _ => by simp [pureExpr] at hp
  | .repeat e lo hi greedy, st, hp, hw, hl => by
    simp only [pureExpr] at hp
    simp only [ownSlots] at hw
    simp only [sem]
    exact repLoop_map F n (sem c e) (fun st r hr => (sem_frame c e st r hr).1)
      (fun st hst => sem_map c F n W hF e st hp hw hst) lo hi greedy _ 0 st hl
  | .delegate inner size casei, st, _, _, _ => by
    simp only [sem, delegateSem, mapSt_ix]
    split
    · split
      · split <;> simp [mapSt]
      · simp
    · split
      · split <;> simp [mapSt, *]
      · simp
  | .backref _, _, hp, _, _ => by simp [pureExpr] at hp
  | .atomic _, _, hp, _, _ => by simp [pureExpr] at hp
  | .keepOut, _, hp, _, _ => by simp [pureExpr] at hp
  | .contPrev, _, hp, _, _ => by simp [pureExpr] at hp
  | .backrefExists _, _, hp, _, _ => by simp [pureExpr] at hp
  | .cond _ _ _, _, hp, _, _ => by simp [pureExpr] at hp
  | .subroutine g, st, _, _, _ => by simp [sem]
termination_by e => sizeOf e
decreasing_by all_goals (simp_wf; try omega)
theorem semConcat_map (c : Ctx) (F : List (Option Nat) → List (Option Nat)) (n : Nat) (W : Nat → Prop)
    (hF : CommSet F n W) :
    ∀ (es : List Expr) (st : St), pureAll es = true → (∀ i, i ∈ ownSlotsList es → W i) → st.slots.length = n →
      semConcat c es (mapSt F st) = (semConcat c es st).map (mapSt F)
  | [], st, _, _, _ => by simp [semConcat]
  | e :: es, st, hp, hw, hl => by
    simp only [pureAll, Bool.and_eq_true] at hp
    simp only [semConcat]
    rw [sem_map c F n W hF e st hp.1 (fun i hi => hw i (by simp [ownSlotsList, hi])) hl]
    rw [List.flatMap_map, List.map_flatMap]
    apply flatMap_congr_of_mem
    intro r hr
    exact semConcat_map c F n W hF es r hp.2 (fun i hi => hw i (by simp [ownSlotsList, hi]))
      (((sem_frame c e st r hr).1).trans hl)
termination_by es => sizeOf es
decreasing_by all_goals (simp_wf; try omega)
theorem semAlt_map (c : Ctx) (F : List (Option Nat) → List (Option Nat)) (n : Nat) (W : Nat → Prop)
    (hF : CommSet F n W) :
    ∀ (es : List Expr) (st : St), pureAll es = true → (∀ i, i ∈ ownSlotsList es → W i) → st.slots.length = n →
      semAlt c es (mapSt F st) = (semAlt c es st).map (mapSt F)
  | [], st, _, _, _ => by simp [semAlt]
  | e :: es, st, hp, hw, hl => by
    simp only [pureAll, Bool.and_eq_true] at hp
    simp only [semAlt, List.map_append]
    rw [sem_map c F n W hF e st hp.1 (fun i hi => hw i (by simp [ownSlotsList, hi])) hl,
      semAlt_map c F n W hF es st hp.2 (fun i hi => hw i (by simp [ownSlotsList, hi])) hl]
termination_by es => sizeOf es
decreasing_by all_goals (simp_wf; try omega)
end

/-- **monotonicity**: a result of a pure expression only adds or overwrites `some` values -/
theorem sem_mono (c : Ctx) (e : Expr) (st r : St) (hp : pureExpr e = true) (h : r ∈ sem c e st) :
    r.slots.length = st.slots.length ∧ ∀ i : Nat, r.slots[i]? = some none → st.slots[i]? = some none :=
  let t := sem_rel PureStep_ok c e st r hp h
  ⟨t.1, t.2.1⟩

theorem semConcat_mono (c : Ctx) (es : List Expr) (st r : St) (hp : pureAll es = true) (h : r ∈ semConcat c es st) :
    r.slots.length = st.slots.length ∧ ∀ i : Nat, r.slots[i]? = some none → st.slots[i]? = some none :=
  let t := semConcat_rel PureStep_ok c es st r hp h
  ⟨t.1, t.2.1⟩

theorem pairs_of_PureStep {st r : St} (t : PureStep st r) (g : Nat) (hlen : 2 * g + 1 < st.slots.length)
    (h0 : st.slots[2 * g]? = some none) (h1 : st.slots[2 * g + 1]? = some none) :
    (r.slots[2 * g]? = some none ∧ r.slots[2 * g + 1]? = some none) ∨
      ∃ a b, r.slots[2 * g]? = some (some a) ∧ r.slots[2 * g + 1]? = some (some b) := by
  obtain ⟨l, _, f, b⟩ := t
  have e0 : r.slots[2 * g]? = some (r.slots[2 * g]'(by omega)) := List.getElem?_eq_getElem _
  have e1 : r.slots[2 * g + 1]? = some (r.slots[2 * g + 1]'(by omega)) := List.getElem?_eq_getElem _
  have f' := f g
  have b' := b g
  rw [h0] at f'
  rw [h1] at b'
  cases hx : r.slots[2 * g]'(by omega) with
  | none =>
    cases hy : r.slots[2 * g + 1]'(by omega) with
    | none => left; rw [e0, e1, hx, hy]; exact ⟨rfl, rfl⟩
    | some y =>
      rw [hx] at e0; rw [hy] at e1
      exact absurd e0 (b' (by rw [e1]; simp))
  | some x =>
    cases hy : r.slots[2 * g + 1]'(by omega) with
    | none =>
      rw [hx] at e0; rw [hy] at e1
      exact absurd e1 (f' (by rw [e0]; simp))
    | some y => right; exact ⟨x, y, by rw [e0, hx], by rw [e1, hy]⟩

/-- **pairs**: from a state where both ends of group `g` are unset, every result of a pure
    expression has both ends set or neither -/
theorem sem_pairs (c : Ctx) (e : Expr) (st r : St) (hp : pureExpr e = true) (h : r ∈ sem c e st) (g : Nat)
    (h0 : st.slots[2 * g]? = some none) (h1 : st.slots[2 * g + 1]? = some none) :
    (∃ a, r.slots[2 * g]? = some (some a)) ↔ (∃ b, r.slots[2 * g + 1]? = some (some b)) := by
  have hlen : 2 * g + 1 < st.slots.length := by
    rcases Nat.lt_or_ge (2 * g + 1) st.slots.length with hl | hl
    · exact hl
    · rw [List.getElem?_eq_none hl] at h1; cases h1
  rcases pairs_of_PureStep (sem_rel PureStep_ok c e st r hp h) g hlen h0 h1 with ⟨e0, e1⟩ | ⟨a, b, e0, e1⟩
  · rw [e0, e1]
  · rw [e0, e1]; exact ⟨fun _ => ⟨b, rfl⟩, fun _ => ⟨a, rfl⟩⟩

theorem semConcat_pairs (c : Ctx) (es : List Expr) (st r : St) (hp : pureAll es = true)
    (h : r ∈ semConcat c es st) (g : Nat)
    (h0 : st.slots[2 * g]? = some none) (h1 : st.slots[2 * g + 1]? = some none) :
    (∃ a, r.slots[2 * g]? = some (some a)) ↔ (∃ b, r.slots[2 * g + 1]? = some (some b)) := by
  have hlen : 2 * g + 1 < st.slots.length := by
    rcases Nat.lt_or_ge (2 * g + 1) st.slots.length with hl | hl
    · exact hl
    · rw [List.getElem?_eq_none hl] at h1; cases h1
  rcases pairs_of_PureStep (semConcat_rel PureStep_ok c es st r hp h) g hlen h0 h1 with ⟨e0, e1⟩ | ⟨a, b, e0, e1⟩
  · rw [e0, e1]
  · rw [e0, e1]; exact ⟨fun _ => ⟨b, rfl⟩, fun _ => ⟨a, rfl⟩⟩

/-! ## Obliviousness -/

/-- `sl1` is `sl2` with some entries cleared -/
def Below (sl1 sl2 : List (Option Nat)) : Prop :=
  sl1.length = sl2.length ∧ ∀ i : Nat, sl1[i]? = some none ∨ sl1[i]? = sl2[i]?

/-- the entries of `a`, and where `a` is unset those of `b` -/
def overlay (a b : List (Option Nat)) : List (Option Nat) := List.zipWith (fun x y => x <|> y) a b

theorem overlay_length (a b : List (Option Nat)) (h : a.length = b.length) : (overlay a b).length = b.length := by
  simp [overlay, h]

theorem overlay_getElem? (a b : List (Option Nat)) (h : a.length = b.length) (i : Nat) :
    (overlay a b)[i]? = match a[i]? with
      | some (some v) => some (some v)
      | some none => b[i]?
      | none => none := by
  simp only [overlay, List.getElem?_zipWith]
  rcases Nat.lt_or_ge i a.length with hl | hl
  · rw [List.getElem?_eq_getElem hl, List.getElem?_eq_getElem (h ▸ hl)]
    cases a[i] <;> simp
  · rw [List.getElem?_eq_none hl]

theorem overlay_of_Below {sl1 sl2 : List (Option Nat)} (h : Below sl1 sl2) : overlay sl1 sl2 = sl2 := by
  apply List.ext_getElem?
  intro i
  rw [overlay_getElem? _ _ h.1]
  rcases h.2 i with h1 | h1
  · rw [h1]
  · rcases Nat.lt_or_ge i sl1.length with hl | hl
    · rw [← h1, List.getElem?_eq_getElem hl]
      cases sl1[i] <;> rfl
    · rw [List.getElem?_eq_none hl, List.getElem?_eq_none (h.1 ▸ hl)]

theorem overlay_commSet (sl2 : List (Option Nat)) : CommSet (fun a => overlay a sl2) sl2.length (fun _ => True) := by
  intro a i v hl _
  apply List.ext_getElem?
  intro j
  simp only []
  rw [overlay_getElem? _ _ (by simpa using hl), List.getElem?_set, List.getElem?_set,
    overlay_length _ _ hl, overlay_getElem? _ _ hl]
  by_cases hij : i = j
  · subst hij
    simp only [↓reduceIte, hl]
    by_cases hi : i < sl2.length
    · simp only [hi, ↓reduceIte]
    · simp only [hi, ↓reduceIte]
  · simp only [hij, ↓reduceIte]

/-- **obliviousness**: a pure expression run from `sl2` gives the results it gives from any state
    `Below` it, overlaid on `sl2` -/
theorem sem_oblivious (c : Ctx) (e : Expr) (ix : Nat) (sl1 sl2 : List (Option Nat)) (hp : pureExpr e = true)
    (hb : Below sl1 sl2) :
    sem c e ⟨ix, sl2⟩ = (sem c e ⟨ix, sl1⟩).map (fun r => ⟨r.ix, overlay r.slots sl2⟩) := by
  have := sem_map c (fun a => overlay a sl2) sl2.length (fun _ => True) (overlay_commSet sl2) e ⟨ix, sl1⟩ hp
    (fun _ _ => trivial) hb.1
  simp only [mapSt, overlay_of_Below hb] at this
  exact this

theorem semConcat_oblivious (c : Ctx) (es : List Expr) (ix : Nat) (sl1 sl2 : List (Option Nat))
    (hp : pureAll es = true) (hb : Below sl1 sl2) :
    semConcat c es ⟨ix, sl2⟩ = (semConcat c es ⟨ix, sl1⟩).map (fun r => ⟨r.ix, overlay r.slots sl2⟩) := by
  have := semConcat_map c (fun a => overlay a sl2) sl2.length (fun _ => True) (overlay_commSet sl2) es ⟨ix, sl1⟩ hp
    (fun _ _ => trivial) hb.1
  simp only [mapSt, overlay_of_Below hb] at this
  exact this

/-- corollary: the two result lists have the same length and the same end positions, in order -/
theorem sem_oblivious_ix (c : Ctx) (e : Expr) (ix : Nat) (sl1 sl2 : List (Option Nat)) (hp : pureExpr e = true)
    (hb : Below sl1 sl2) :
    (sem c e ⟨ix, sl2⟩).length = (sem c e ⟨ix, sl1⟩).length ∧
      (sem c e ⟨ix, sl2⟩).map (·.ix) = (sem c e ⟨ix, sl1⟩).map (·.ix) := by
  rw [sem_oblivious c e ix sl1 sl2 hp hb]
  simp [Function.comp_def]

/-! ## Trailing slots -/

theorem append_commSet (V : List (Option Nat)) (n : Nat) : CommSet (fun a => a ++ V) n (fun i => i < n) := by
  intro a i v hl hi
  simp only [List.set_append, hl, hi, ↓reduceIte]

/-- **frame for trailing slots**: cells beyond the slots of the groups are carried along unchanged -/
theorem semConcat_trailing (c : Ctx) (es : List Expr) (ix : Nat) (sl V : List (Option Nat))
    (hp : pureAll es = true) (hw : ∀ i, i ∈ ownSlotsList es → i < sl.length) :
    semConcat c es ⟨ix, sl ++ V⟩ = (semConcat c es ⟨ix, sl⟩).map (fun r => ⟨r.ix, r.slots ++ V⟩) :=
  semConcat_map c (fun a => a ++ V) sl.length (fun i => i < sl.length) (append_commSet V sl.length) es ⟨ix, sl⟩ hp hw rfl

theorem sem_trailing (c : Ctx) (e : Expr) (ix : Nat) (sl V : List (Option Nat))
    (hp : pureExpr e = true) (hw : ∀ i, i ∈ ownSlots e → i < sl.length) :
    sem c e ⟨ix, sl ++ V⟩ = (sem c e ⟨ix, sl⟩).map (fun r => ⟨r.ix, r.slots ++ V⟩) :=
  sem_map c (fun a => a ++ V) sl.length (fun i => i < sl.length) (append_commSet V sl.length) e ⟨ix, sl⟩ hp hw rfl

/-! ## `clearGroups`, `viewSlots` -/

theorem clearGroups_aux (sl : List (Option Nat)) (sg k : Nat) :
    ((List.range k).foldl (fun sl i => (sl.set ((sg + i) * 2) none).set ((sg + i) * 2 + 1) none) sl).length = sl.length ∧
    ∀ i : Nat, ((List.range k).foldl (fun sl i => (sl.set ((sg + i) * 2) none).set ((sg + i) * 2 + 1) none) sl)[i]? =
      if sg * 2 ≤ i ∧ i < (sg + k) * 2 ∧ i < sl.length then some none else sl[i]? := by
  induction k with
  | zero =>
    refine ⟨rfl, fun i => ?_⟩
    simp only [List.range_zero, List.foldl_nil]
    rw [if_neg (by omega)]
  | succ k ih =>
    simp only [List.range_succ, List.foldl_append, List.foldl_cons, List.foldl_nil, List.length_set]
    refine ⟨ih.1, fun i => ?_⟩
    rw [List.getElem?_set, List.getElem?_set, List.length_set, ih.1, ih.2 i]
    by_cases h1 : (sg + k) * 2 + 1 = i
    · subst h1
      by_cases hl : (sg + k) * 2 + 1 < sl.length
      · rw [if_pos rfl, if_pos hl, if_pos (by omega)]
      · rw [if_pos rfl, if_neg hl, if_neg (by omega), List.getElem?_eq_none (by omega)]
    · rw [if_neg h1]
      by_cases h2 : (sg + k) * 2 = i
      · subst h2
        by_cases hl : (sg + k) * 2 < sl.length
        · rw [if_pos rfl, if_pos hl, if_pos (by omega)]
        · rw [if_pos rfl, if_neg hl, if_neg (by omega), List.getElem?_eq_none (by omega)]
      · rw [if_neg h2]
        by_cases h3 : sg * 2 ≤ i ∧ i < (sg + k) * 2 ∧ i < sl.length
        · rw [if_pos h3, if_pos (by omega)]
        · rw [if_neg h3, if_neg (by omega)]

theorem clearGroups_length (sl : List (Option Nat)) (sg eg : Nat) : (clearGroups sl sg eg).length = sl.length :=
  (clearGroups_aux sl sg (eg - sg)).1

theorem clearGroups_getElem? (sl : List (Option Nat)) (sg eg : Nat) (i : Nat) :
    (clearGroups sl sg eg)[i]? = if sg * 2 ≤ i ∧ i < eg * 2 ∧ i < sl.length then some none else sl[i]? := by
  have := (clearGroups_aux sl sg (eg - sg)).2 i
  unfold clearGroups
  rw [this]
  by_cases h : sg * 2 ≤ i ∧ i < eg * 2 ∧ i < sl.length
  · rw [if_pos h, if_pos (by omega)]
  · rw [if_neg h, if_neg (by omega)]

theorem clearGroups_Below (sl : List (Option Nat)) (sg eg : Nat) : Below (clearGroups sl sg eg) sl := by
  refine ⟨clearGroups_length sl sg eg, fun i => ?_⟩
  rw [clearGroups_getElem?]
  split
  · left; rfl
  · right; rfl

theorem clearGroups_append_slots (sl V : List (Option Nat)) (sg eg : Nat) (h : eg * 2 ≤ sl.length) :
    clearGroups (sl ++ V) sg eg = clearGroups sl sg eg ++ V := by
  apply List.ext_getElem?
  intro i
  rw [clearGroups_getElem?]
  rcases Nat.lt_or_ge i sl.length with hl | hl
  · rw [List.getElem?_append_left (l₁ := clearGroups sl sg eg) (by rw [clearGroups_length]; exact hl),
      clearGroups_getElem?, List.getElem?_append_left hl]
    by_cases h3 : sg * 2 ≤ i ∧ i < eg * 2 ∧ i < sl.length
    · rw [if_pos h3, if_pos ⟨h3.1, h3.2.1, by simp; omega⟩]
    · rw [if_neg h3, if_neg (by simp; omega)]
  · rw [if_neg (by omega), List.getElem?_append_right hl,
      List.getElem?_append_right (by rw [clearGroups_length]; exact hl), clearGroups_length]

theorem viewSlots_unview_of_ne (sl : List (Option Nat)) (h : ∀ v, some v ∈ sl → v ≠ UNSET) : viewSlots (unview sl) = sl := by
  induction sl with
  | nil => rfl
  | cons x xs ih =>
    simp only [viewSlots, unview, List.map_cons, List.map_map] at ih ⊢
    rw [ih (fun v hv => h v (by simp [hv]))]
    cases x with
    | none => simp
    | some v =>
      have := h v (by simp)
      simp [this]

theorem viewSlots_append_aux (a b : List Nat) : viewSlots (a ++ b) = viewSlots a ++ viewSlots b := by
  simp [viewSlots]

theorem viewSlots_of_good {c : Ctx} {n : Nat} {st : St} (hg : st.Good c n) (hlen : c.len < UNSET) (aux : List Nat) :
    viewSlots (unview st.slots ++ aux) = st.slots ++ viewSlots aux := by
  rw [viewSlots_append_aux, viewSlots_unview_of_ne]
  intro v hv
  have := hg.vals v hv
  omega

/-! ## `copyGroupsA` writes exactly the overlay -/

theorem unview_overlay_unset (q sl : List (Option Nat)) (h : q.length = sl.length) (i : Nat)
    (hi : q[i]? = some none) (aux : List Nat) : (unview (overlay q sl))[i]? = (unview sl ++ aux)[i]? := by
  have hl : i < sl.length := by
    rcases Nat.lt_or_ge i q.length with hl | hl
    · omega
    · rw [List.getElem?_eq_none hl] at hi; cases hi
  rw [List.getElem?_append_left (by simpa using hl), unview_getElem?, unview_getElem?, overlay_getElem? _ _ h, hi]

theorem unview_overlay_set (q sl : List (Option Nat)) (h : q.length = sl.length) (i a : Nat)
    (hi : q[i]? = some (some a)) : (unview (overlay q sl))[i]? = some a := by
  rw [unview_getElem?, overlay_getElem? _ _ h, hi]
  rfl

theorem copyGroupsA_spec (q : St) (sl V : List (Option Nat)) (aux : List Nat) (sg K n : Nat)
    (hq : q.slots.length = n) (hsl : sl.length = n)
    (hpair : ∀ g, sg ≤ g → g < sg + K → g * 2 + 1 < n ∧
      ((q.slots[g * 2]? = some none ∧ q.slots[g * 2 + 1]? = some none) ∨
        ∃ a b, q.slots[g * 2]? = some (some a) ∧ q.slots[g * 2 + 1]? = some (some b))) :
    ∀ k, k ≤ K → ∃ out, copyGroupsA ⟨q.ix, q.slots ++ V⟩ sg k (unview sl ++ aux) = some out ∧
      out.length = n + aux.length ∧
      ∀ i : Nat, out[i]? = if sg * 2 ≤ i ∧ i < (sg + k) * 2 then (unview (overlay q.slots sl))[i]?
        else (unview sl ++ aux)[i]? := by
  intro k
  induction k with
  | zero =>
    intro _
    refine ⟨unview sl ++ aux, rfl, by simp [hsl], fun i => ?_⟩
    rw [if_neg (by omega)]
  | succ k ih =>
    intro hk
    obtain ⟨out, ho, hlen, hget⟩ := ih (by omega)
    have hp := hpair (sg + k) (by omega) (by omega)
    have hql : q.slots.length = sl.length := hq.trans hsl.symm
    have s0 : (⟨q.ix, q.slots ++ V⟩ : St).slot ((sg + k) * 2) = (q.slots[(sg + k) * 2]?).join := by
      simp only [St.slot]; rw [List.getElem?_append_left (by omega)]
    have s1 : (⟨q.ix, q.slots ++ V⟩ : St).slot ((sg + k) * 2 + 1) = (q.slots[(sg + k) * 2 + 1]?).join := by
      simp only [St.slot]; rw [List.getElem?_append_left (by omega)]
    rcases hp.2 with ⟨e0, e1⟩ | ⟨a, b, e0, e1⟩
    · refine ⟨out, ?_, hlen, fun i => ?_⟩
      · simp only [copyGroupsA, ho, s0, s1, e0, e1, Option.join_some]
      · rw [hget i]
        by_cases h1 : sg * 2 ≤ i ∧ i < (sg + k) * 2
        · rw [if_pos h1, if_pos (by omega)]
        · rw [if_neg h1]
          by_cases h2 : i = (sg + k) * 2
          · subst h2
            rw [if_pos (by omega)]
            exact (unview_overlay_unset _ _ hql _ e0 aux).symm
          · by_cases h3 : i = (sg + k) * 2 + 1
            · subst h3
              rw [if_pos (by omega)]
              exact (unview_overlay_unset _ _ hql _ e1 aux).symm
            · rw [if_neg (by omega)]
    · refine ⟨(out.set ((sg + k) * 2) a).set ((sg + k) * 2 + 1) b, ?_, by simpa using hlen, fun i => ?_⟩
      · simp only [copyGroupsA, ho, s0, s1, e0, e1, Option.join_some]
        rw [if_pos (by omega)]
      · rw [List.getElem?_set, List.getElem?_set, List.length_set, hget i]
        by_cases h3 : (sg + k) * 2 + 1 = i
        · subst h3
          rw [if_pos rfl, if_pos (by omega), if_pos (by omega)]
          exact (unview_overlay_set _ _ hql _ b e1).symm
        · rw [if_neg h3]
          by_cases h2 : (sg + k) * 2 = i
          · subst h2
            rw [if_pos rfl, if_pos (by omega), if_pos (by omega)]
            exact (unview_overlay_set _ _ hql _ a e0).symm
          · rw [if_neg h2]
            by_cases h1 : sg * 2 ≤ i ∧ i < (sg + k) * 2
            · rw [if_pos h1, if_pos (by omega)]
            · rw [if_neg h1, if_neg (by omega)]

/-! ## The specification of the `Delegate` instruction -/

/-- **What `Delegate es sg eg` does**, in terms of the reference semantics from the CURRENT state.
    `st` is the semantic state, `unview st.slots ++ aux` the machine's ordinary slots (capture slots,
    then anything: loop counters, look-around positions). The oracle (run with the groups `sg .. eg-1`
    cleared) fails exactly when `semConcat c es st` has no result; otherwise it ends where the first
    result `r` of `semConcat c es st` ends, and copying the groups that took part produces exactly the
    machine image of `r.slots` (groups that did not take part keep their old values, as in `r`). -/
theorem delegate_step_spec (c : Ctx) (n : Nat) (es : List Expr) (sg eg : Nat) (st : St) (aux : List Nat)
    (hg : st.Good c n) (hlen : c.len < UNSET) (hp : pureAll es = true) (hgi : groupsIn sg eg es = true)
    (hn : eg * 2 ≤ n) :
    (delegateOracle c es sg eg st.ix (unview st.slots ++ aux) = none ↔ semConcat c es st = []) ∧
    (∀ r rest, semConcat c es st = r :: rest →
      ∃ r0, delegateOracle c es sg eg st.ix (unview st.slots ++ aux) = some r0 ∧ r0.ix = r.ix ∧
        (if sg == eg then r.slots = st.slots
         else copyGroupsA r0 sg (eg - sg) (unview st.slots ++ aux) = some (unview r.slots ++ aux))) := by
  have hown := ownSlotsList_of_groupsIn sg eg es hp hgi
  have hsl : st.slots.length = n := hg.len
  have hcll : (clearGroups st.slots sg eg).length = n := by rw [clearGroups_length]; exact hsl
  -- the oracle's start state
  have horacle : delegateOracle c es sg eg st.ix (unview st.slots ++ aux) =
      ((semConcat c es ⟨st.ix, clearGroups st.slots sg eg⟩).map
        (fun q => (⟨q.ix, q.slots ++ viewSlots aux⟩ : St))).head? := by
    rw [C01_delegateOracle_eq, delegateOracleSpec, viewSlots_of_good hg hlen, clearGroups_append_slots _ _ _ _ (by omega),
      semConcat_trailing c es st.ix _ _ hp (fun i hi => by have := hown i hi; omega)]
  -- the reference semantics from the current state
  have hsem : semConcat c es st =
      (semConcat c es ⟨st.ix, clearGroups st.slots sg eg⟩).map
        (fun q => (⟨q.ix, overlay q.slots st.slots⟩ : St)) :=
    semConcat_oblivious c es st.ix _ st.slots hp (clearGroups_Below st.slots sg eg)
  rw [horacle]
  cases hL : semConcat c es ⟨st.ix, clearGroups st.slots sg eg⟩ with
  | nil =>
    rw [hL] at hsem
    refine ⟨by simp [hsem], fun r rest h => ?_⟩
    rw [hsem] at h; cases h
  | cons q qs =>
    rw [hL] at hsem
    refine ⟨by simp [hsem], fun r rest h => ?_⟩
    have hr : r = ⟨q.ix, overlay q.slots st.slots⟩ := by
      rw [hsem] at h; simp only [List.map_cons, List.cons.injEq] at h; exact h.1.symm
    have hq : q ∈ semConcat c es ⟨st.ix, clearGroups st.slots sg eg⟩ := by rw [hL]; simp
    have hfr := semConcat_frame c es st r (by rw [h]; simp)
    refine ⟨⟨q.ix, q.slots ++ viewSlots aux⟩, by simp, by rw [hr], ?_⟩
    split
    · rename_i hse
      have hse : sg = eg := by simpa using hse
      apply List.ext_getElem?
      intro i
      exact hfr.2 i (fun hi => by have := hown i hi; omega)
    · have ht := semConcat_rel PureStep_ok c es _ q hp hq
      have hql : q.slots.length = n := by rw [ht.1]; exact hcll
      obtain ⟨out, ho, holen, hoget⟩ := copyGroupsA_spec q st.slots (viewSlots aux) aux sg (eg - sg) n hql hsl
        (by
          intro g h1 h2
          refine ⟨by omega, ?_⟩
          have h0 : (clearGroups st.slots sg eg)[2 * g]? = some none := by
            rw [clearGroups_getElem?, if_pos (by omega)]
          have h1' : (clearGroups st.slots sg eg)[2 * g + 1]? = some none := by
            rw [clearGroups_getElem?, if_pos (by omega)]
          have := pairs_of_PureStep ht g (by simp only []; omega) h0 h1'
          rw [Nat.mul_comm g 2]
          exact this) (eg - sg) (Nat.le_refl _)
      rw [ho]
      congr 1
      apply List.ext_getElem?
      intro i
      rw [hoget i, hr]
      simp only []
      have hovl : (overlay q.slots st.slots).length = n := by
        rw [overlay_length _ _ (hql.trans hsl.symm)]; exact hsl
      by_cases h1 : sg * 2 ≤ i ∧ i < (sg + (eg - sg)) * 2
      · rw [if_pos h1, List.getElem?_append_left (by rw [unview_length, hovl]; omega)]
      · rw [if_neg h1]
        rcases Nat.lt_or_ge i n with hi | hi
        · rw [List.getElem?_append_left (by rw [unview_length, hsl]; exact hi),
            List.getElem?_append_left (by rw [unview_length, hovl]; exact hi), unview_getElem?, unview_getElem?]
          have := hfr.2 i (fun hi => by have := hown i hi; omega)
          rw [hr] at this
          rw [this]
        · rw [List.getElem?_append_right (by rw [unview_length, hsl]; exact hi),
            List.getElem?_append_right (by rw [unview_length, hovl]; exact hi), unview_length, unview_length, hovl, hsl]

/-! ## Examples: `(?:(a)|b)` on the text `b`, group 1 holding the span of an earlier iteration -/

/-- text `b`; literal characters match themselves -/
def dsCtx : Ctx := ⟨['b'], 0, false, fun _ => false, fun _ _ _ => false, fun _ a b => a == b⟩
/-- `(?:(a)|b)` with the group numbered 1 -/
def dsEs : List Expr := [.alt [.group 1 (.literal ['a'] false), .literal ['b'] false]]
/-- two groups; group 1 holds `0..1` from an earlier iteration -/
def dsSt : St := ⟨0, [some 0, none, some 0, some 1]⟩

/-- the hypotheses of `pure_of_not_hard` hold of the example (and so does its conclusion) -/
example : isHardAny (fun _ => false) dsEs = false ∧ pureAll dsEs = true := by
  simp [dsEs, isHardAny, isHard, pureAll, pureExpr]

/-- the hypotheses of `delegate_step_spec` are satisfiable -/
theorem ds_hyps : dsSt.Good dsCtx 4 ∧ dsCtx.len < UNSET ∧ pureAll dsEs = true ∧ groupsIn 1 2 dsEs = true ∧ 2 * 2 ≤ 4 := by
  refine ⟨⟨by simp [dsSt, dsCtx, Ctx.len], rfl, ?_⟩, by simp [dsCtx, Ctx.len, UNSET], ?_, ?_, by omega⟩
  · intro v hv
    simp [dsSt] at hv
    rcases hv with rfl | rfl <;> simp [dsCtx, Ctx.len]
  · simp [dsEs, pureAll, pureExpr]
  · simp [dsEs, groupsIn, groupsInE]

/-- the reference semantics from the current state: `b` matches, group 1 keeps its old span -/
theorem ds_sem : semConcat dsCtx dsEs dsSt = [⟨1, [some 0, none, some 0, some 1]⟩] := by
  simp [dsEs, dsSt, dsCtx, semConcat, sem, semAlt, Ctx.litAt, Ctx.at?, St.setSlot]

/-- the oracle runs with group 1 cleared: its result has group 1 unset (`7` is an auxiliary slot) -/
theorem ds_oracle : delegateOracle dsCtx dsEs 1 2 0 (unview dsSt.slots ++ [7]) =
    some ⟨1, [some 0, none, none, none, some 7]⟩ := by
  rw [C01_delegateOracle_eq]
  simp [delegateOracleSpec, dsEs, dsSt, dsCtx, semConcat, sem, semAlt, Ctx.litAt, Ctx.at?, St.setSlot,
    unview, viewSlots, clearGroups, UNSET, List.range_succ]

/-- group 1 did not take part: the copy leaves the machine's slots (the old span) as they were -/
theorem ds_copy : copyGroupsA ⟨1, [some 0, none, none, none, some 7]⟩ 1 (2 - 1) (unview dsSt.slots ++ [7]) =
    some (unview dsSt.slots ++ [7]) := by
  simp [copyGroupsA, St.slot, dsSt, unview]

/-- the same, obtained from `delegate_step_spec` -/
example : ∃ r0, delegateOracle dsCtx dsEs 1 2 dsSt.ix (unview dsSt.slots ++ [7]) = some r0 ∧ r0.ix = 1 ∧
    copyGroupsA r0 1 (2 - 1) (unview dsSt.slots ++ [7]) = some (unview [some 0, none, some 0, some 1] ++ [7]) := by
  obtain ⟨hg, hl, hp, hgi, hn⟩ := ds_hyps
  obtain ⟨r0, h1, h2, h3⟩ := (delegate_step_spec dsCtx 4 dsEs 1 2 dsSt [7] hg hl hp hgi hn).2 _ _ ds_sem
  exact ⟨r0, h1, h2, by simpa using h3⟩

/-- and the failing side: on the text `b`, `(?:(a)|c)` has no result and the oracle fails -/
example : delegateOracle dsCtx [.alt [.group 1 (.literal ['a'] false), .literal ['c'] false]] 1 2 dsSt.ix
    (unview dsSt.slots ++ [7]) = none := by
  obtain ⟨hg, hl, _, _, hn⟩ := ds_hyps
  refine (delegate_step_spec dsCtx 4 _ 1 2 dsSt [7] hg hl (by simp [pureAll, pureExpr])
    (by simp [groupsIn, groupsInE]) hn).1.mpr ?_
  simp [dsSt, dsCtx, semConcat, sem, semAlt, Ctx.litAt, Ctx.at?, St.setSlot]

/-- `Below` / obliviousness on the example: from the cleared state the result has group 1 unset, and
    overlaying it on the current slots gives the result from the current state -/
example : Below [some 0, none, none, none] dsSt.slots ∧
    semConcat dsCtx dsEs ⟨0, [some 0, none, none, none]⟩ = [⟨1, [some 0, none, none, none]⟩] ∧
    overlay [some 0, none, none, none] dsSt.slots = [some 0, none, some 0, some 1] := by
  refine ⟨?_, ?_, ?_⟩
  · have := clearGroups_Below dsSt.slots 1 2
    simpa [clearGroups, dsSt, List.range_succ] using this
  · simp [dsEs, dsCtx, semConcat, sem, semAlt, Ctx.litAt, Ctx.at?, St.setSlot]
  · simp [overlay, dsSt]

/-- monotonicity / pairs on a group that does take part: `(a)` on `a` from the cleared state -/
example : sem ⟨['a'], 0, false, fun _ => false, fun _ _ _ => false, fun _ a b => a == b⟩
    (.group 1 (.literal ['a'] false)) ⟨0, [some 0, none, none, none]⟩ = [⟨1, [some 0, none, some 0, some 1]⟩] := by
  simp [sem, Ctx.litAt, Ctx.at?, St.setSlot]

end Fancy
